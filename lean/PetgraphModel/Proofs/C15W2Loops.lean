import PetgraphModel.Model.C15Matching
/-
C15 wave 2 — generic invariant rules for the `for` loops of the `Id.run do` blocks of
`Model/C15Matching.lean` (the loops elaborate to `forIn` over a list or a `Std.Legacy.Range` in `Id`).
-/
namespace PetgraphModel.C15W2

/-- the state carried by a loop step, whether the step continues or breaks -/
def stepVal {β : Type} : ForInStep β → β
  | .yield b => b
  | .done b => b

/-- `I` after a `yield`, `Q` after a `done` -/
def stepPost {β : Type} (I Q : β → Prop) : ForInStep β → Prop
  | .yield b => I b
  | .done b => Q b

@[simp] theorem stepPost_yield {β : Type} (I Q : β → Prop) (b : β) : stepPost I Q (.yield b) = I b := rfl
@[simp] theorem stepPost_done {β : Type} (I Q : β → Prop) (b : β) : stepPost I Q (.done b) = Q b := rfl

/-- list loop, plain invariant (kept by `yield` and by `done`) -/
theorem forIn_list_inv {α β : Type} (I : β → Prop) (f : α → β → Id (ForInStep β)) :
    ∀ (l : List α) (init : β), I init →
      (∀ a ∈ l, ∀ b, I b → I (stepVal (f a b).run)) → I (forIn l init f).run := by
  intro l
  induction l with
  | nil => intro init h0 _; simpa using h0
  | cons a l ih =>
    intro init h0 hs
    rw [List.forIn_cons]
    have h1 := hs a (List.mem_cons_self ..) init h0
    cases hfa : (f a init).run with
    | done b =>
      have : f a init = pure (ForInStep.done b) := hfa
      rw [this]
      rw [hfa] at h1
      simpa [stepVal] using h1
    | yield b =>
      have : f a init = pure (ForInStep.yield b) := hfa
      rw [this]
      rw [hfa] at h1
      exact ih b h1 (fun a' ha' => hs a' (List.mem_cons_of_mem _ ha'))

/-- list loop with a position-indexed invariant: `I pre b` holds after the elements `pre` have been
processed; a `done` must establish `Q` -/
theorem forIn_list_inv_pos {α β : Type} (I : List α → β → Prop) (Q : β → Prop)
    (f : α → β → Id (ForInStep β)) :
    ∀ (l pre : List α) (init : β), I pre init →
      (∀ pre' a post b, pre ++ l = pre' ++ a :: post → I pre' b →
        stepPost (I (pre' ++ [a])) Q (f a b).run) →
      Q (forIn l init f).run ∨ I (pre ++ l) (forIn l init f).run := by
  intro l
  induction l with
  | nil => intro pre init h0 _; right; simpa using h0
  | cons a l ih =>
    intro pre init h0 hs
    rw [List.forIn_cons]
    have h1 := hs pre a l init rfl h0
    cases hfa : (f a init).run with
    | done b =>
      have : f a init = pure (ForInStep.done b) := hfa
      rw [this]
      rw [hfa] at h1
      left; simpa using h1
    | yield b =>
      have : f a init = pure (ForInStep.yield b) := hfa
      rw [this]
      rw [hfa] at h1
      have := ih (pre ++ [a]) b h1 (fun pre' a' post b' he hb' => hs pre' a' post b' (by simpa using he) hb')
      simpa using this

/-- counting loop `for i in [0:n]` with an iteration-indexed invariant -/
theorem forIn_range_inv {β : Type} (I : Nat → β → Prop) (Q : β → Prop) (n : Nat)
    (f : Nat → β → Id (ForInStep β)) (init : β) (h0 : I 0 init)
    (hs : ∀ i b, i < n → I i b → stepPost (I (i + 1)) Q (f i b).run) :
    Q (forIn [:n] init f).run ∨ I n (forIn [:n] init f).run := by
  rw [Std.Legacy.Range.forIn_eq_forIn_range']
  have hsz : ([:n] : Std.Legacy.Range).size = n := by simp [Std.Legacy.Range.size]
  rw [hsz]
  show Q (forIn (List.range' 0 n 1) init f).run ∨ I n (forIn (List.range' 0 n 1) init f).run
  have key : ∀ (k s : Nat) (b : β), s + k = n → I s b →
      Q (forIn (List.range' s k 1) b f).run ∨ I n (forIn (List.range' s k 1) b f).run := by
    intro k
    induction k with
    | zero => intro s b hsk hb; right; have : s = n := by omega
              subst this; simpa using hb
    | succ k ih =>
      intro s b hsk hb
      rw [List.range'_succ, List.forIn_cons]
      have h1 := hs s b (by omega) hb
      cases hfa : (f s b).run with
      | done b' =>
        have : f s b = pure (ForInStep.done b') := hfa
        rw [this]; rw [hfa] at h1
        left; simpa using h1
      | yield b' =>
        have : f s b = pure (ForInStep.yield b') := hfa
        rw [this]; rw [hfa] at h1
        have := ih (s + 1) b' (by omega) h1
        simpa using this
  exact key n 0 init (by omega) h0

/-- counting loop, plain invariant -/
theorem forIn_range_inv' {β : Type} (I : β → Prop) (n : Nat)
    (f : Nat → β → Id (ForInStep β)) (init : β) (h0 : I init)
    (hs : ∀ i b, i < n → I b → I (stepVal (f i b).run)) : I (forIn [:n] init f).run := by
  have := forIn_range_inv (fun _ b => I b) I n f init h0 (by
    intro i b hi hb
    have := hs i b hi hb
    cases hfa : (f i b).run with
    | done b' => rw [hfa] at this; simpa [stepVal] using this
    | yield b' => rw [hfa] at this; simpa [stepVal] using this)
  cases this with
  | inl h => exact h
  | inr h => exact h

/-! ### the same rules for loop bodies of the form `pure (step …)` -/

theorem forIn_range_pure {β : Type} (I : Nat → β → Prop) (Q : β → Prop) (n : Nat)
    (step : Nat → β → ForInStep β) (init : β) (h0 : I 0 init)
    (hs : ∀ i b, i < n → I i b → stepPost (I (i + 1)) Q (step i b)) :
    Q (forIn (m := Id) [:n] init (fun i b => pure (step i b))).run ∨
    I n (forIn (m := Id) [:n] init (fun i b => pure (step i b))).run :=
  forIn_range_inv I Q n (fun i b => pure (step i b)) init h0 hs

theorem forIn_range_pure' {β : Type} (I : β → Prop) (n : Nat)
    (step : Nat → β → ForInStep β) (init : β) (h0 : I init)
    (hs : ∀ i b, i < n → I b → I (stepVal (step i b))) :
    I (forIn (m := Id) [:n] init (fun i b => pure (step i b))).run :=
  forIn_range_inv' I n (fun i b => pure (step i b)) init h0 hs

theorem forIn_list_pure {α β : Type} (I : β → Prop) (step : α → β → ForInStep β) (l : List α) (init : β)
    (h0 : I init) (hs : ∀ a ∈ l, ∀ b, I b → I (stepVal (step a b))) :
    I (forIn (m := Id) l init (fun a b => pure (step a b))).run :=
  forIn_list_inv I (fun a b => pure (step a b)) l init h0 hs

theorem forIn_list_pure_pos {α β : Type} (I : List α → β → Prop) (Q : β → Prop)
    (step : α → β → ForInStep β) (l : List α) (init : β) (h0 : I [] init)
    (hs : ∀ pre' a post b, l = pre' ++ a :: post → I pre' b → stepPost (I (pre' ++ [a])) Q (step a b)) :
    Q (forIn (m := Id) l init (fun a b => pure (step a b))).run ∨
    I l (forIn (m := Id) l init (fun a b => pure (step a b))).run := by
  have := forIn_list_inv_pos I Q (fun a b => pure (step a b)) l [] init h0
    (fun pre' a post b he hb => hs pre' a post b (by simpa using he) hb)
  simpa using this

/-- list loop: `I` is kept by every `yield`, a `done` establishes `Q` -/
theorem forIn_list_pure2 {α β : Type} (I Q : β → Prop) (step : α → β → ForInStep β) (l : List α) (init : β)
    (h0 : I init) (hs : ∀ a ∈ l, ∀ b, I b → stepPost I Q (step a b)) :
    Q (forIn (m := Id) l init (fun a b => pure (step a b))).run ∨
    I (forIn (m := Id) l init (fun a b => pure (step a b))).run :=
  forIn_list_pure_pos (fun _ b => I b) Q step l init h0
    (fun pre' a post b he hb => hs a (by rw [he]; simp) b hb)

end PetgraphModel.C15W2
