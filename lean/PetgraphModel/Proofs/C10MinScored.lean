import PetgraphModel.Model.C10ShortestPaths
import PetgraphModel.Oracle.C10Judge
/-
`MinScored::cmp` (mirrored branch by branch as `SP.minScoredCmp`) over any float-like carrier:
`eq`/`lt` form a strict total order on the non-NaN elements and are `false` whenever a NaN is
involved.  Then `cmp` is the reverse of `<` on comparable scores, puts every NaN last, is
antisymmetric, and "not less" is transitive (a total preorder), `Equal` an equivalence.
-/
namespace PetgraphModel.C10P
open PetgraphModel PetgraphModel.SP PetgraphModel.C10

structure FloatLike {α : Type} (eq lt : α → α → Bool) (nan : α → Bool) : Prop where
  eq_nan_l : ∀ a b, nan a = true → eq a b = false
  eq_nan_r : ∀ a b, nan b = true → eq a b = false
  lt_nan_l : ∀ a b, nan a = true → lt a b = false
  lt_nan_r : ∀ a b, nan b = true → lt a b = false
  tri : ∀ a b, nan a = false → nan b = false →
    (lt a b = true ∧ eq a b = false ∧ lt b a = false) ∨
    (lt a b = false ∧ eq a b = true ∧ lt b a = false) ∨
    (lt a b = false ∧ eq a b = false ∧ lt b a = true)
  lt_trans : ∀ a b c, lt a b = true → lt b c = true → lt a c = true
  lt_eq : ∀ a b c, lt a b = true → eq b c = true → lt a c = true
  eq_lt : ∀ a b c, eq a b = true → lt b c = true → lt a c = true
  eq_trans : ∀ a b c, eq a b = true → eq b c = true → eq a c = true

variable {α : Type} {eq lt : α → α → Bool} {nan : α → Bool}

theorem FloatLike.eq_self (F : FloatLike eq lt nan) (a : α) : eq a a = !nan a := by
  cases h : nan a with
  | true => simp [F.eq_nan_l a a h]
  | false =>
    rcases F.tri a a h h with ⟨h1, _, h3⟩ | ⟨_, h2, _⟩ | ⟨h1, _, h3⟩
    · rw [h1] at h3; cases h3
    · simp [h2]
    · rw [h1] at h3; cases h3

/-- on comparable scores `cmp` is the reverse of `<` -/
theorem cmp_comparable (F : FloatLike eq lt nan) (a b : α) (ha : nan a = false) (hb : nan b = false) :
    (minScoredCmp eq lt a b = .greater ↔ lt a b = true) ∧
    (minScoredCmp eq lt a b = .less ↔ lt b a = true) ∧
    (minScoredCmp eq lt a b = .equal ↔ eq a b = true) := by
  have haa := F.eq_self a
  have hbb := F.eq_self b
  rw [ha] at haa; rw [hb] at hbb
  rcases F.tri a b ha hb with ⟨h1, h2, h3⟩ | ⟨h1, h2, h3⟩ | ⟨h1, h2, h3⟩ <;>
    simp [minScoredCmp, h1, h2, h3, haa, hbb]

/-- NaN is last: below every comparable score, equal to every NaN -/
theorem cmp_nan (F : FloatLike eq lt nan) (a b : α) (ha : nan a = true) :
    (nan b = false → minScoredCmp eq lt a b = .less ∧ minScoredCmp eq lt b a = .greater) ∧
    (nan b = true → minScoredCmp eq lt a b = .equal) := by
  have haa := F.eq_self a
  have hbb := F.eq_self b
  rw [ha] at haa
  constructor
  · intro hb
    rw [hb] at hbb
    simp [minScoredCmp, F.eq_nan_l a b ha, F.lt_nan_l a b ha, F.lt_nan_r b a ha, F.eq_nan_r b a ha, haa, hbb]
  · intro hb
    rw [hb] at hbb
    simp [minScoredCmp, F.eq_nan_l a b ha, F.lt_nan_l a b ha, F.lt_nan_r b a ha, haa, hbb]

def _root_.PetgraphModel.SP.Ord3.flip : Ord3 → Ord3
  | .less => .greater
  | .equal => .equal
  | .greater => .less

/-- `b.cmp(a)` is the reverse of `a.cmp(b)` -/
theorem cmp_antisymm (F : FloatLike eq lt nan) (a b : α) :
    minScoredCmp eq lt b a = (minScoredCmp eq lt a b).flip := by
  have haa := F.eq_self a
  have hbb := F.eq_self b
  cases ha : nan a <;> cases hb : nan b <;> rw [ha] at haa <;> rw [hb] at hbb
  · rcases F.tri a b ha hb with ⟨h1, h2, h3⟩ | ⟨h1, h2, h3⟩ | ⟨h1, h2, h3⟩ <;>
      rcases F.tri b a hb ha with ⟨k1, k2, k3⟩ | ⟨k1, k2, k3⟩ | ⟨k1, k2, k3⟩ <;>
      simp_all [minScoredCmp, Ord3.flip]
  · simp [minScoredCmp, Ord3.flip, F.eq_nan_r a b hb, F.lt_nan_r a b hb, F.lt_nan_l b a hb, F.eq_nan_l b a hb, haa, hbb]
  · simp [minScoredCmp, Ord3.flip, F.eq_nan_l a b ha, F.lt_nan_l a b ha, F.lt_nan_r b a ha, F.eq_nan_r b a ha, haa, hbb]
  · simp [minScoredCmp, Ord3.flip, F.eq_nan_l a b ha, F.lt_nan_l a b ha, F.lt_nan_r b a ha, F.eq_nan_r b a ha, haa, hbb]

/-- the key of the order `cmp` realises: NaN at the bottom, otherwise reversed `<` -/
theorem cmp_ne_less_iff (F : FloatLike eq lt nan) (a b : α) :
    minScoredCmp eq lt a b ≠ .less ↔ (nan b = true ∨ (nan a = false ∧ nan b = false ∧ lt b a = false)) := by
  have haa := F.eq_self a
  have hbb := F.eq_self b
  cases ha : nan a <;> cases hb : nan b <;> rw [ha] at haa <;> rw [hb] at hbb
  · rcases F.tri a b ha hb with ⟨h1, h2, h3⟩ | ⟨h1, h2, h3⟩ | ⟨h1, h2, h3⟩ <;>
      simp [minScoredCmp, h1, h2, h3, haa, hbb]
  · simp [minScoredCmp, F.eq_nan_r a b hb, F.lt_nan_r a b hb, F.lt_nan_l b a hb, haa, hbb]
  · simp [minScoredCmp, F.eq_nan_l a b ha, F.lt_nan_l a b ha, F.lt_nan_r b a ha, haa, hbb]
  · simp [minScoredCmp, F.eq_nan_l a b ha, F.lt_nan_l a b ha, F.lt_nan_r b a ha, haa, hbb]

/-- `a ≥ b` (`cmp ≠ Less`) is transitive -/
theorem cmp_trans (F : FloatLike eq lt nan) (a b c : α)
    (hab : minScoredCmp eq lt a b ≠ .less) (hbc : minScoredCmp eq lt b c ≠ .less) :
    minScoredCmp eq lt a c ≠ .less := by
  rw [cmp_ne_less_iff F] at hab hbc ⊢
  rcases hbc with hc | ⟨hb, hc, hcb⟩
  · exact Or.inl hc
  · rcases hab with hb' | ⟨ha, _, hba⟩
    · rw [hb] at hb'; cases hb'
    · refine Or.inr ⟨ha, hc, ?_⟩
      -- ¬ c < b, ¬ b < a ⊢ ¬ c < a
      cases hca : lt c a with
      | false => rfl
      | true =>
        rcases F.tri b a hb ha with ⟨h1, _, _⟩ | ⟨_, _, h3'⟩ | ⟨_, _, h3⟩
        · rw [h1] at hba; cases hba
        · -- b = a, c < a ⇒ c < b
          have hab' : eq a b = true := by
            rcases F.tri a b ha hb with ⟨k1, _, _⟩ | ⟨_, k2, _⟩ | ⟨_, _, k3⟩
            · rw [k1] at h3'; cases h3'
            · exact k2
            · rw [k3] at hba; cases hba
          have := F.lt_eq c a b hca hab'
          rw [this] at hcb; cases hcb
        · -- a < b, c < a ⇒ c < b
          have := F.lt_trans c a b hca h3
          rw [this] at hcb; cases hcb

/-- `Equal` is transitive (with reflexivity and `cmp_antisymm`: an equivalence) -/
theorem cmp_refl (F : FloatLike eq lt nan) (a : α) : minScoredCmp eq lt a a = .equal := by
  have haa := F.eq_self a
  cases ha : nan a <;> rw [ha] at haa
  · simp [minScoredCmp, haa]
  · simp [minScoredCmp, haa, F.lt_nan_l a a ha]

theorem cmp_eq_iff (F : FloatLike eq lt nan) (a b : α) :
    minScoredCmp eq lt a b = .equal ↔ minScoredCmp eq lt a b ≠ .less ∧ minScoredCmp eq lt b a ≠ .less := by
  rw [cmp_antisymm F a b]
  cases minScoredCmp eq lt a b <;> simp [Ord3.flip]

theorem cmp_equal_trans (F : FloatLike eq lt nan) (a b c : α)
    (hab : minScoredCmp eq lt a b = .equal) (hbc : minScoredCmp eq lt b c = .equal) :
    minScoredCmp eq lt a c = .equal := by
  rw [cmp_eq_iff F] at hab hbc ⊢
  exact ⟨cmp_trans F a b c hab.1 hbc.1, cmp_trans F c b a hbc.2 hab.2⟩

/-! ### the concrete float-like scores of the driver -/

def Score.isNan : Score → Bool
  | .nan => true
  | _ => false

theorem score_floatLike : FloatLike Score.eq Score.lt Score.isNan where
  eq_nan_l := by intro a b h; cases a <;> cases b <;> simp_all [Score.eq, Score.isNan]
  eq_nan_r := by intro a b h; cases a <;> cases b <;> simp_all [Score.eq, Score.isNan]
  lt_nan_l := by intro a b h; cases a <;> cases b <;> simp_all [Score.lt, Score.isNan]
  lt_nan_r := by intro a b h; cases a <;> cases b <;> simp_all [Score.lt, Score.isNan]
  tri := by
    intro a b ha hb
    cases a <;> cases b <;> simp_all [Score.lt, Score.eq, Score.isNan]
    omega
  lt_trans := by
    intro a b c; cases a <;> cases b <;> cases c <;> simp_all [Score.lt]
    omega
  lt_eq := by
    intro a b c; cases a <;> cases b <;> cases c <;> simp_all [Score.lt, Score.eq]
    intros; omega
  eq_lt := by
    intro a b c; cases a <;> cases b <;> cases c <;> simp_all [Score.lt, Score.eq]
  eq_trans := by
    intro a b c; cases a <;> cases b <;> cases c <;> simp_all [Score.eq]

/-- the mirrored `cmp` equals the specification the judge uses (ascending pop order, NaN last) -/
theorem scoreCmp_eq_spec (a b : Score) : scoreCmp a b = specCmp a b := by
  cases a <;> cases b <;>
    simp [scoreCmp, minScoredCmp, specCmp, popsBefore, numLe, Score.eq, Score.lt]
  rename_i x y
  by_cases h1 : x = y
  · simp [h1]
  · by_cases h2 : x < y
    · have : ¬ y ≤ x := by omega
      have h3 : x ≤ y := by omega
      simp [h1, h2, this, h3]
    · have h3 : y < x := by omega
      have h4 : ¬ x ≤ y := by omega
      have h5 : y ≤ x := by omega
      simp [h1, h2, h3, h4, h5]

end PetgraphModel.C10P
