import PetgraphModel.Model.Graph
import PetgraphModel.Spec.CompactGraph
import Mathlib.Data.List.Nodup
import Mathlib.Data.List.Perm.Subperm
/-
Definitions and lemmas behind the C01 theorems: the representation predicate `IsList`, the
invariant `Inv` (ghost adjacency lists), the four carrying lemmas of DESIGN Appendix D (frame, cons,
congruence; unlink/rename are stage 2), and the rewriting of every list walk to the ghost lists.
-/
namespace PetgraphModel.GProofs
open PetgraphModel PetgraphModel.G

/-- `l` is the chain of edge indices reached from `cur` along `next[k]`, ending at `endv` -/
inductive IsList (edges : List Edge) (k : Bool) (endv : Nat) : Nat → List Nat → Prop
  | nil : IsList edges k endv endv []
  | cons {e : Nat} {l : List Nat} (ed : Edge) :
      edges[e]? = some ed → IsList edges k endv (ed.next k) l → IsList edges k endv e (e :: l)

/-- representation invariant of `Graph` -/
structure Inv (s : State) : Prop where
  szN : s.nodes.length ≤ s.endv
  szE : s.edges.length ≤ s.endv
  ends : ∀ (e : Nat) (ed : Edge), s.edges[e]? = some ed → ed.src < s.nodes.length ∧ ed.tgt < s.nodes.length
  lists : ∃ adj : Bool → Nat → List Nat,
    (∀ k i nd, s.nodes[i]? = some nd → IsList s.edges k s.endv (nd.next k) (adj k i)) ∧
    (∀ k i, (adj k i).Nodup) ∧
    (∀ k i e, e ∈ adj k i ↔ ∃ ed, s.edges[e]? = some ed ∧ ed.node k = i)

/-! ### IsList basics -/

theorem lt_of_getElem? {α : Type} {l : List α} {i : Nat} {x : α} (h : l[i]? = some x) : i < l.length :=
  (List.getElem?_eq_some_iff.mp h).1

theorem IsList.functional {edges k endv h l₁ l₂} (hsz : edges.length ≤ endv)
    (h₁ : IsList edges k endv h l₁) (h₂ : IsList edges k endv h l₂) : l₁ = l₂ := by
  induction h₁ generalizing l₂ with
  | nil =>
    cases h₂ with
    | nil => rfl
    | cons ed he _ => have := lt_of_getElem? he; omega
  | @cons e l ed he _ ih =>
    have hlt := lt_of_getElem? he
    cases h₂ with
    | nil => omega
    | cons ed' he' hl' =>
      have : ed = ed' := by rw [he] at he'; exact Option.some.inj he'
      subst this
      rw [ih hl']

/-- congruence: only the slots of the list and their `next[k]` matter -/
theorem IsList.congr {edges edges' k endv h l} (hl : IsList edges k endv h l)
    (hag : ∀ e ed, e ∈ l → edges[e]? = some ed → ∃ ed', edges'[e]? = some ed' ∧ ed'.next k = ed.next k) :
    IsList edges' k endv h l := by
  induction hl with
  | nil => exact IsList.nil
  | @cons e l ed he _ ih =>
    obtain ⟨ed', he', hn⟩ := hag e ed (List.mem_cons_self ..) he
    refine IsList.cons ed' he' ?_
    rw [hn]
    exact ih (fun x xd hx hxd => hag x xd (List.mem_cons_of_mem _ hx) hxd)

theorem IsList.lt {edges k endv h l} (hl : IsList edges k endv h l) : ∀ e ∈ l, e < edges.length := by
  induction hl with
  | nil => intro e he; cases he
  | @cons e l ed he _ ih =>
    intro x hx
    rcases List.mem_cons.mp hx with rfl | hx
    · exact (List.getElem?_eq_some_iff.mp he).1
    · exact ih x hx

/-- frame: pushing a slot -/
theorem IsList.append {edges k endv h l} (hl : IsList edges k endv h l) (x : Edge) :
    IsList (edges ++ [x]) k endv h l := by
  refine hl.congr ?_
  intro e ed _ he
  refine ⟨ed, ?_, rfl⟩
  have hlt := (List.getElem?_eq_some_iff.mp he).1
  rw [List.getElem?_append_left hlt]; exact he

theorem nodup_length_le {l : List Nat} {m : Nat} (hn : l.Nodup) (hlt : ∀ e ∈ l, e < m) : l.length ≤ m := by
  have hsub : l ⊆ List.range m := fun e he => List.mem_range.mpr (hlt e he)
  have := (hn.subperm hsub).length_le
  simpa using this

/-! ### walks computed from the ghost list -/

/-- the executable walk returns exactly the ghost list (with the slots) and never faults -/
theorem chain_of_isList {edges k endv} (hsz : edges.length ≤ endv) :
    ∀ (fuel h : Nat) (l : List Nat), IsList edges k endv h l → l.length < fuel →
      ∃ c, chain edges k fuel h = .ok c ∧ c.map Prod.fst = l ∧ ∀ p ∈ c, edges[p.1]? = some p.2 := by
  intro fuel
  induction fuel with
  | zero => intro h l _ hlen; omega
  | succ f ih =>
    intro h l hl hlen
    cases hl with
    | nil =>
      have : edges[endv]? = none := List.getElem?_eq_none (by omega)
      exact ⟨[], by simp [chain, this], rfl, by simp⟩
    | @cons _ t ed he htl =>
      obtain ⟨c, hc, hm, hp⟩ := ih (ed.next k) t htl (by simp at hlen; omega)
      refine ⟨(h, ed) :: c, by simp [chain, he, hc], by simp [hm], ?_⟩
      intro p hp'
      rcases List.mem_cons.mp hp' with rfl | hp'
      · exact he
      · exact hp p hp'

/-! ### invariant: construction and growth -/

theorem inv_empty (endv : Nat) (d : Bool) : Inv (empty endv d) := by
  refine ⟨by simp [empty], by simp [empty], by simp [empty], ⟨fun _ _ => [], ?_, by simp, by simp [empty]⟩⟩
  intro k i nd h
  simp [empty] at h

/-- no edge points at a node index `≥ n`, so the ghost list of such an index is empty -/
theorem Inv.adj_nil {s : State} (h : Inv s) {adj : Bool → Nat → List Nat}
    (hm : ∀ k i e, e ∈ adj k i ↔ ∃ ed, s.edges[e]? = some ed ∧ ed.node k = i)
    (k : Bool) (i : Nat) (hi : s.nodes.length ≤ i) : adj k i = [] := by
  apply List.eq_nil_iff_forall_not_mem.mpr
  intro e he
  obtain ⟨ed, hed, hk⟩ := (hm k i e).mp he
  have := h.ends e ed hed
  cases k <;> simp [Edge.node] at hk <;> omega

theorem inv_tryAddNode {s : State} (h : Inv s) (w : Nat) : Inv (tryAddNode s w).1 := by
  unfold tryAddNode
  by_cases hg : canGrow s s.nodes.length = true
  · simp only [hg, if_true]
    have hne : s.endv ≠ s.nodes.length := by simpa [canGrow] using hg
    obtain ⟨adj, hl, hn, hm⟩ := h.lists
    refine ⟨by simp; have := h.szN; omega, h.szE, ?_, ⟨adj, ?_, hn, hm⟩⟩
    · intro e ed he
      have := h.ends e ed he
      simp; omega
    · intro k i nd hi
      by_cases hlt : i < s.nodes.length
      · rw [List.getElem?_append_left hlt] at hi
        exact hl k i nd hi
      · have hi' : i = s.nodes.length := by
          have := lt_of_getElem? hi
          simp at this; omega
        subst hi'
        simp at hi
        subst hi
        have : adj k s.nodes.length = [] := h.adj_nil hm k _ (Nat.le_refl _)
        rw [this]
        cases k <;> exact IsList.nil
  · simp only [hg]
    exact h

theorem tryAddNode_endv (s : State) (w : Nat) : (tryAddNode s w).1.endv = s.endv := by
  unfold tryAddNode; dsimp only; split <;> rfl

theorem tryAddNode_directed (s : State) (w : Nat) : (tryAddNode s w).1.directed = s.directed := by
  unfold tryAddNode; dsimp only; split <;> rfl

/-- the successful branch of `try_add_edge`, as one state transformer (both `index_twice` cases) -/
theorem tryAddEdge_ok {s : State} {a b w : Nat} {s' : State} {e : Nat}
    (h : tryAddEdge s a b w = (s', .ok e)) :
    ∃ an bn, s.nodes[a]? = some an ∧ s.nodes[b]? = some bn ∧ e = s.edges.length ∧ s.endv ≠ s.edges.length ∧
      s'.endv = s.endv ∧ s'.directed = s.directed ∧
      s'.edges = s.edges ++ [⟨w, an.next0, bn.next1, a, b⟩] ∧
      s'.nodes.length = s.nodes.length ∧
      (∀ i nd', s'.nodes[i]? = some nd' → ∃ nd, s.nodes[i]? = some nd ∧ nd'.weight = nd.weight ∧
        nd'.next0 = (if i = a then s.edges.length else nd.next0) ∧
        nd'.next1 = (if i = b then s.edges.length else nd.next1)) := by
  unfold tryAddEdge at h
  dsimp only at h
  by_cases hg : canGrow s s.edges.length = true
  · have hne : s.endv ≠ s.edges.length := by simpa [canGrow] using hg
    simp only [hg, Bool.not_true, Bool.false_eq_true, if_false] at h
    by_cases hmx : max a b ≥ s.nodes.length
    · simp [hmx] at h
    · simp only [hmx, if_false] at h
      have ha : a < s.nodes.length := by omega
      have hb : b < s.nodes.length := by omega
      by_cases hab : a = b
      · subst hab
        simp only [if_true] at h
        rw [List.getElem?_eq_getElem ha] at h
        simp only [Prod.mk.injEq, Except.ok.injEq] at h
        obtain ⟨rfl, rfl⟩ := h
        refine ⟨s.nodes[a], s.nodes[a], List.getElem?_eq_getElem ha, List.getElem?_eq_getElem ha, rfl, hne, rfl, rfl, rfl, by simp, ?_⟩
        intro i nd' hi
        simp only [List.getElem?_set] at hi
        by_cases hia : a = i
        · subst hia
          simp [ha] at hi
          subst hi
          exact ⟨_, List.getElem?_eq_getElem ha, rfl, by simp, by simp⟩
        · simp [hia] at hi
          have : ¬ i = a := fun h => hia h.symm
          exact ⟨nd', hi, rfl, by simp [this], by simp [this]⟩
      · simp only [hab, if_false] at h
        rw [List.getElem?_eq_getElem ha, List.getElem?_eq_getElem hb] at h
        simp only [Prod.mk.injEq, Except.ok.injEq] at h
        obtain ⟨rfl, rfl⟩ := h
        refine ⟨s.nodes[a], s.nodes[b], List.getElem?_eq_getElem ha, List.getElem?_eq_getElem hb, rfl, hne, rfl, rfl, rfl, by simp, ?_⟩
        intro i nd' hi
        simp only [List.getElem?_set] at hi
        by_cases hib : b = i
        · subst hib
          simp [hb] at hi
          subst hi
          have : ¬ b = a := fun h => hab h.symm
          exact ⟨_, List.getElem?_eq_getElem hb, rfl, by simp [this], by simp⟩
        · simp only [hib, if_false] at hi
          have hib' : ¬ i = b := fun h => hib h.symm
          by_cases hia : a = i
          · subst hia
            simp [ha] at hi
            subst hi
            exact ⟨_, List.getElem?_eq_getElem ha, rfl, by simp, by simp [hib']⟩
          · simp [hia] at hi
            have : ¬ i = a := fun h => hia h.symm
            exact ⟨nd', hi, rfl, by simp [this], by simp [hib']⟩
  · simp [hg] at h

/-- a failing `try_add_edge` leaves the graph unchanged -/
theorem tryAddEdge_err {s : State} {a b w : Nat} {s' : State} {e : GErr}
    (h : tryAddEdge s a b w = (s', .error e)) : s' = s := by
  unfold tryAddEdge at h
  dsimp only at h
  split at h
  · simp at h; exact h.1.symm
  · split at h
    · simp at h; exact h.1.symm
    · split at h
      · split at h <;> simp at h
        exact h.1.symm
      · split at h <;> simp at h
        exact h.1.symm

/-- **cons**: `add_edge` puts the new slot at the head of the source's out-list and of the target's
in-list -/
theorem inv_tryAddEdge {s : State} (h : Inv s) (a b w : Nat) : Inv (tryAddEdge s a b w).1 := by
  rcases hr : tryAddEdge s a b w with ⟨s', r⟩
  cases r with
  | error e => rw [tryAddEdge_err hr]; exact h
  | ok e =>
    obtain ⟨an, bn, han, hbn, he, hne, hend, _, hedges, hnlen, hnodes⟩ := tryAddEdge_ok hr
    obtain ⟨adj, hl, hn, hm⟩ := h.lists
    have ha := lt_of_getElem? han
    have hb := lt_of_getElem? hbn
    have hszE := h.szE
    let m := s.edges.length
    let new : Edge := ⟨w, an.next0, bn.next1, a, b⟩
    have hget_old : ∀ x, x < m → s'.edges[x]? = s.edges[x]? := by
      intro x hx; rw [hedges, List.getElem?_append_left hx]
    have hget_new : s'.edges[m]? = some new := by
      rw [hedges]; simp [m, new]
    let adj' : Bool → Nat → List Nat := fun k i =>
      if i = (if k then b else a) then m :: adj k i else adj k i
    refine ⟨by rw [hnlen, hend]; exact h.szN, by rw [hedges, hend]; simp; omega, ?_, ⟨adj', ?_, ?_, ?_⟩⟩
    · intro x xd hx
      rw [hnlen]
      by_cases hxm : x < m
      · rw [hget_old x hxm] at hx; exact h.ends x xd hx
      · have hxm' : x = m := by
          have := lt_of_getElem? hx; rw [hedges] at this; simp at this; omega
        subst hxm'
        rw [hget_new] at hx
        cases hx
        exact ⟨ha, hb⟩
    · intro k i nd' hi
      obtain ⟨nd, hnd, _, h0, h1⟩ := hnodes i nd' hi
      have hold : IsList s'.edges k s.endv (nd.next k) (adj k i) := by
        rw [hedges]; exact (hl k i nd hnd).append _
      rw [hend]
      cases k with
      | false =>
        simp only [adj', Node.next, Bool.false_eq_true, if_false]
        by_cases hia : i = a
        · subst hia
          simp only [if_true] at h0 ⊢
          rw [h0]
          refine IsList.cons new hget_new ?_
          have : nd = an := by rw [han] at hnd; exact (Option.some.inj hnd).symm
          subst this
          simpa [new, Edge.next, Node.next] using hold
        · simp only [hia, if_false] at h0 ⊢
          rw [h0]; simpa [Node.next] using hold
      | true =>
        simp only [adj', Node.next, if_true]
        by_cases hib : i = b
        · subst hib
          simp only [if_true] at h1 ⊢
          rw [h1]
          refine IsList.cons new hget_new ?_
          have : nd = bn := by rw [hbn] at hnd; exact (Option.some.inj hnd).symm
          subst this
          simpa [new, Edge.next, Node.next] using hold
        · simp only [hib, if_false] at h1 ⊢
          rw [h1]; simpa [Node.next] using hold
    · intro k i
      simp only [adj']
      by_cases hi : i = (if k = true then b else a)
      · rw [if_pos hi]
        refine List.nodup_cons.mpr ⟨?_, hn k i⟩
        intro hmem
        obtain ⟨ed, hed, _⟩ := (hm k i m).mp hmem
        have := lt_of_getElem? hed
        omega
      · rw [if_neg hi]; exact hn k i
    · intro k i x
      have key : (∃ ed, s'.edges[x]? = some ed ∧ ed.node k = i) ↔
          (x = m ∧ i = (if k then b else a)) ∨ (∃ ed, s.edges[x]? = some ed ∧ ed.node k = i) := by
        constructor
        · rintro ⟨ed, hed, hk⟩
          by_cases hxm : x < m
          · right; rw [hget_old x hxm] at hed; exact ⟨ed, hed, hk⟩
          · have hxm' : x = m := by
              have := lt_of_getElem? hed; rw [hedges] at this; simp at this; omega
            subst hxm'
            rw [hget_new] at hed
            cases hed
            left
            refine ⟨rfl, ?_⟩
            cases k <;> simp [new, Edge.node] at hk ⊢ <;> exact hk.symm
        · rintro (⟨rfl, hi⟩ | ⟨ed, hed, hk⟩)
          · refine ⟨new, hget_new, ?_⟩
            cases k <;> simp [new, Edge.node] at hi ⊢ <;> exact hi.symm
          · have := lt_of_getElem? hed
            exact ⟨ed, by rw [hget_old x this]; exact hed, hk⟩
      rw [key]
      simp only [adj']
      by_cases hi : i = (if k = true then b else a)
      · rw [if_pos hi]
        rw [List.mem_cons, hm k i x]
        constructor
        · rintro (rfl | h')
          · exact Or.inl ⟨rfl, hi⟩
          · exact Or.inr h'
        · rintro (⟨rfl, _⟩ | h')
          · exact Or.inl rfl
          · exact Or.inr h'
      · rw [if_neg hi]
        rw [hm k i x]
        constructor
        · intro h'; exact Or.inr h'
        · rintro (⟨_, hi'⟩ | h')
          · exact absurd hi' hi
          · exact h'

theorem tryAddEdge_endv (s : State) (a b w : Nat) : (tryAddEdge s a b w).1.endv = s.endv := by
  rcases hr : tryAddEdge s a b w with ⟨s', r⟩
  cases r with
  | error e => rw [tryAddEdge_err hr]
  | ok e => obtain ⟨_, _, _, _, _, _, hend, _⟩ := tryAddEdge_ok hr; exact hend

theorem tryAddEdge_directed (s : State) (a b w : Nat) : (tryAddEdge s a b w).1.directed = s.directed := by
  rcases hr : tryAddEdge s a b w with ⟨s', r⟩
  cases r with
  | error e => rw [tryAddEdge_err hr]
  | ok e => obtain ⟨_, _, _, _, _, _, _, hd, _⟩ := tryAddEdge_ok hr; exact hd

/-! ### frame: operations that touch weights only -/

def nodeLinks (n : Node) : Nat × Nat := (n.next0, n.next1)
def edgeLinks (e : Edge) : Nat × Nat × Nat × Nat := (e.next0, e.next1, e.src, e.tgt)

/-- `s'` has the same link structure as `s` (weights may differ) -/
structure SameLinks (s s' : State) : Prop where
  endv : s'.endv = s.endv
  nodes : s'.nodes.map nodeLinks = s.nodes.map nodeLinks
  edges : s'.edges.map edgeLinks = s.edges.map edgeLinks

theorem map_eq_getElem? {α β : Type} {f : α → β} {l l' : List α} (h : l'.map f = l.map f) (i : Nat) {x' : α}
    (hx : l'[i]? = some x') : ∃ x, l[i]? = some x ∧ f x' = f x := by
  have h1 := congrArg (·[i]?) h
  simp only [List.getElem?_map, hx, Option.map_some] at h1
  cases hl : l[i]? with
  | none => rw [hl] at h1; simp at h1
  | some x => rw [hl] at h1; simp at h1; exact ⟨x, rfl, h1⟩

theorem inv_of_sameLinks {s s' : State} (h : Inv s) (hs : SameLinks s s') : Inv s' := by
  obtain ⟨adj, hl, hn, hm⟩ := h.lists
  have hnl : s'.nodes.length = s.nodes.length := by simpa using congrArg List.length hs.nodes
  have hel : s'.edges.length = s.edges.length := by simpa using congrArg List.length hs.edges
  have hedge : ∀ (e : Nat) (ed : Edge), s.edges[e]? = some ed → ∃ ed', s'.edges[e]? = some ed' ∧ edgeLinks ed' = edgeLinks ed := by
    intro e ed he
    obtain ⟨x, hx, hf⟩ := map_eq_getElem? hs.edges.symm e he
    exact ⟨x, hx, hf.symm⟩
  have hedge' : ∀ (e : Nat) (ed' : Edge), s'.edges[e]? = some ed' → ∃ ed, s.edges[e]? = some ed ∧ edgeLinks ed' = edgeLinks ed :=
    fun e ed' he => map_eq_getElem? hs.edges e he
  refine ⟨by rw [hnl, hs.endv]; exact h.szN, by rw [hel, hs.endv]; exact h.szE, ?_, ⟨adj, ?_, hn, ?_⟩⟩
  · intro e ed' he
    obtain ⟨ed, hed, hf⟩ := hedge' e ed' he
    have := h.ends e ed hed
    simp only [edgeLinks, Prod.mk.injEq] at hf
    rw [hnl, hf.2.2.1, hf.2.2.2]; exact this
  · intro k i nd' hi
    obtain ⟨nd, hnd, hf⟩ := map_eq_getElem? hs.nodes i hi
    have hk : nd'.next k = nd.next k := by
      simp only [nodeLinks, Prod.mk.injEq] at hf
      cases k <;> simp [Node.next, hf.1, hf.2]
    rw [hk, hs.endv]
    refine (hl k i nd hnd).congr ?_
    intro e ed _ he
    obtain ⟨ed', hed', hf'⟩ := hedge e ed he
    refine ⟨ed', hed', ?_⟩
    simp only [edgeLinks, Prod.mk.injEq] at hf'
    cases k <;> simp [Edge.next, hf'.1, hf'.2.1]
  · intro k i e
    rw [hm k i e]
    constructor
    · rintro ⟨ed, hed, hk⟩
      obtain ⟨ed', hed', hf'⟩ := hedge e ed hed
      refine ⟨ed', hed', ?_⟩
      simp only [edgeLinks, Prod.mk.injEq] at hf'
      cases k <;> simp [Edge.node, hf'.2.2.1, hf'.2.2.2] at hk ⊢ <;> exact hk
    · rintro ⟨ed', hed', hk⟩
      obtain ⟨ed, hed, hf'⟩ := hedge' e ed' hed'
      refine ⟨ed, hed, ?_⟩
      simp only [edgeLinks, Prod.mk.injEq] at hf'
      cases k <;> simp [Edge.node, ← hf'.2.2.1, ← hf'.2.2.2] at hk ⊢ <;> exact hk

theorem SameLinks.refl (s : State) : SameLinks s s := ⟨rfl, rfl, rfl⟩

theorem SameLinks.trans {a b c : State} (h1 : SameLinks a b) (h2 : SameLinks b c) : SameLinks a c :=
  ⟨h2.endv.trans h1.endv, h2.nodes.trans h1.nodes, h2.edges.trans h1.edges⟩

theorem map_set_same {α β : Type} (f : α → β) (l : List α) (i : Nat) (x y : α) (hx : l[i]? = some x) (hf : f y = f x) :
    (l.set i y).map f = l.map f := by
  rw [List.map_set, hf]
  have hlt := lt_of_getElem? hx
  have : f x = (l.map f)[i]'(by simpa using hlt) := by
    simp; rw [List.getElem?_eq_getElem hlt] at hx; exact congrArg f (Option.some.inj hx).symm
  rw [this, List.set_getElem_self]

theorem sameLinks_setNodeWeight {s : State} {a : Nat} {nd : Node} (hnd : s.nodes[a]? = some nd) (w : Nat) :
    SameLinks s { s with nodes := s.nodes.set a { nd with weight := w } } :=
  ⟨rfl, map_set_same nodeLinks s.nodes a nd _ hnd rfl, rfl⟩

theorem sameLinks_setEdgeWeight {s : State} {e : Nat} {ed : Edge} (hed : s.edges[e]? = some ed) (w : Nat) :
    SameLinks s { s with edges := s.edges.set e { ed with weight := w } } :=
  ⟨rfl, rfl, map_set_same edgeLinks s.edges e ed _ hed rfl⟩

theorem map_zipWith_same {α β γ : Type} (g : α → γ) (f : β → α → α) (hf : ∀ i x, g (f i x) = g x) :
    ∀ (l1 : List β) (l2 : List α), l1.length = l2.length → (List.zipWith f l1 l2).map g = l2.map g := by
  intro l1 l2
  induction l2 generalizing l1 with
  | nil => intro _; cases l1 <;> simp
  | cons x xs ih =>
    intro hlen
    cases l1 with
    | nil => simp at hlen
    | cons y ys =>
      simp only [List.zipWith_cons_cons, List.map_cons, hf]
      rw [ih ys (by simpa using hlen)]

theorem sameLinks_mapWeights (s : State) (dn de : Nat) : SameLinks s (mapWeights s dn de) := by
  refine ⟨rfl, ?_, ?_⟩
  · show List.map nodeLinks (List.zipWith (fun i (n : Node) => { n with weight := n.weight + dn + i }) (List.range s.nodes.length) s.nodes) = _
    exact map_zipWith_same nodeLinks (fun i (n : Node) => { n with weight := n.weight + dn + i }) (fun _ _ => rfl) _ _ List.length_range
  · show List.map edgeLinks (List.zipWith (fun i (e : Edge) => { e with weight := e.weight + de + i }) (List.range s.edges.length) s.edges) = _
    exact map_zipWith_same edgeLinks (fun i (e : Edge) => { e with weight := e.weight + de + i }) (fun _ _ => rfl) _ _ List.length_range

theorem sameLinks_bumpNodes (s : State) (d : Nat) :
    SameLinks s { s with nodes := s.nodes.map fun n => { n with weight := n.weight + d } } :=
  ⟨rfl, by rw [List.map_map]; exact List.map_congr_left (fun _ _ => rfl), rfl⟩

theorem sameLinks_bumpEdges (s : State) (d : Nat) :
    SameLinks s { s with edges := s.edges.map fun e => { e with weight := e.weight + d } } :=
  ⟨rfl, rfl, by rw [List.map_map]; exact List.map_congr_left (fun _ _ => rfl)⟩

theorem inv_setDirected {s : State} (h : Inv s) (d : Bool) : Inv { s with directed := d } :=
  ⟨h.szN, h.szE, h.ends, h.lists⟩

/-! ### reverse, clear, clear_edges -/

theorem IsList.reverse {edges k endv h l} (hl : IsList edges k endv h l) :
    IsList (edges.map fun e => (⟨e.weight, e.next1, e.next0, e.tgt, e.src⟩ : Edge)) (!k) endv h l := by
  induction hl with
  | nil => exact IsList.nil
  | @cons e l ed he _ ih =>
    refine IsList.cons ⟨ed.weight, ed.next1, ed.next0, ed.tgt, ed.src⟩ (by simp [List.getElem?_map, he]) ?_
    have : (⟨ed.weight, ed.next1, ed.next0, ed.tgt, ed.src⟩ : Edge).next (!k) = ed.next k := by
      cases k <;> simp [Edge.next]
    rw [this]; exact ih

theorem inv_reverse {s : State} (h : Inv s) : Inv (reverse s) := by
  obtain ⟨adj, hl, hn, hm⟩ := h.lists
  refine ⟨by simpa [reverse] using h.szN, by simpa [reverse] using h.szE, ?_, ⟨fun k i => adj (!k) i, ?_, fun k i => hn (!k) i, ?_⟩⟩
  · intro e ed he
    simp only [reverse, List.getElem?_map, Option.map_eq_some_iff] at he
    obtain ⟨x, hx, rfl⟩ := he
    have := h.ends e x hx
    simp [reverse]; omega
  · intro k i nd hi
    simp only [reverse, List.getElem?_map, Option.map_eq_some_iff] at hi
    obtain ⟨x, hx, rfl⟩ := hi
    have h1 := (hl (!k) i x hx).reverse
    have : (⟨x.weight, x.next1, x.next0⟩ : Node).next k = x.next (!k) := by cases k <;> simp [Node.next]
    simp only [reverse, this]
    simpa using h1
  · intro k i e
    rw [hm (!k) i e]
    simp only [reverse, List.getElem?_map, Option.map_eq_some_iff]
    constructor
    · rintro ⟨ed, hed, hk⟩
      exact ⟨_, ⟨ed, hed, rfl⟩, by cases k <;> simp [Edge.node] at hk ⊢ <;> exact hk⟩
    · rintro ⟨_, ⟨ed, hed, rfl⟩, hk⟩
      exact ⟨ed, hed, by cases k <;> simp [Edge.node] at hk ⊢ <;> exact hk⟩

theorem inv_clear {s : State} (_h : Inv s) : Inv (clear s) := inv_empty s.endv s.directed

theorem inv_clearEdges {s : State} (h : Inv s) : Inv (clearEdges s) := by
  refine ⟨by simpa [clearEdges] using h.szN, by simp [clearEdges], by simp [clearEdges], ⟨fun _ _ => [], ?_, by simp, by simp [clearEdges]⟩⟩
  intro k i nd hi
  simp only [clearEdges, List.getElem?_map, Option.map_eq_some_iff] at hi
  obtain ⟨x, _, rfl⟩ := hi
  cases k <;> exact IsList.nil

/-! ### composite constructions: folds of `add_node` / `add_edge` -/

theorem inv_growTo (nx : Nat) : ∀ (f : Nat) (s : State), Inv s → Inv (growTo nx f s).1 := by
  intro f
  induction f with
  | zero => intro s h; exact h
  | succ f ih =>
    intro s h
    unfold growTo
    split
    · have h1 := inv_tryAddNode h 0
      split
      · rename_i s' _ heq; rw [heq] at h1; exact ih s' h1
      · rename_i s' heq; rw [heq] at h1; exact h1
    · exact h

theorem inv_extendWithEdges : ∀ (l : List (Nat × Nat × Nat)) (s : State), Inv s → Inv (extendWithEdges s l).1 := by
  intro l
  induction l with
  | nil => intro s h; exact h
  | cons x rest ih =>
    intro s h
    obtain ⟨a, b, w⟩ := x
    unfold extendWithEdges
    have h1 := inv_growTo (max a b) (max a b + 2 - s.nodes.length) s h
    dsimp only
    split
    · rename_i s1 heq; rw [heq] at h1; exact h1
    · rename_i s1 heq
      rw [heq] at h1
      have h2 := inv_tryAddEdge h1 a b w
      split
      · rename_i s2 _ heq2; rw [heq2] at h2; exact ih s2 h2
      · rename_i s2 _ heq2; rw [heq2] at h2; exact h2

theorem inv_fromElements : ∀ (l : List Elem) (s s' : State), Inv s → fromElements s l = some s' → Inv s' := by
  intro l
  induction l with
  | nil => intro s s' h he; simp [fromElements] at he; subst he; exact h
  | cons x rest ih =>
    intro s s' h he
    cases x with
    | node w =>
      unfold fromElements at he
      have h1 := inv_tryAddNode h w
      split at he
      · rename_i s1 _ heq; rw [heq] at h1; exact ih s1 s' h1 he
      · simp at he
    | edge a b w =>
      unfold fromElements at he
      have h1 := inv_tryAddEdge h a b w
      split at he
      · rename_i s1 _ heq; rw [heq] at h1; exact ih s1 s' h1 he
      · simp at he

theorem inv_fmNodes (nmask : List Bool) (dn : Nat) :
    ∀ (ns : List Node) (i : Nat) (g : State) (m : List Nat), Inv g → Inv (fmNodes nmask dn ns i g m).1 := by
  intro ns
  induction ns with
  | nil => intro i g m h; exact h
  | cons nd rest ih =>
    intro i g m h
    unfold fmNodes
    split
    · have h1 := inv_tryAddNode h (nd.weight + dn)
      split
      · rename_i g' _ heq; rw [heq] at h1; exact ih _ g' _ h1
      · rename_i g' heq; rw [heq] at h1; exact ih _ g' _ h1
    · exact ih _ g _ h

theorem inv_fmEdges (emask : List Bool) (de : Nat) (m : List Nat) :
    ∀ (es : List Edge) (i : Nat) (g g' : State), Inv g → fmEdges emask de m es i g = .ok g' → Inv g' := by
  intro es
  induction es with
  | nil => intro i g g' h he; simp [fmEdges] at he; subst he; exact h
  | cons ed rest ih =>
    intro i g g' h he
    unfold fmEdges at he
    split at he
    · rename_i a b _ _
      split at he
      · split at he
        · have h1 := inv_tryAddEdge h a b (ed.weight + de)
          split at he
          · rename_i g1 _ heq; rw [heq] at h1; exact ih _ g1 g' h1 he
          · simp at he
        · exact ih _ g g' h he
      · exact ih _ g g' h he
    · simp at he

theorem inv_filterMap {s s' : State} (nmask emask : List Bool) (dn de : Nat)
    (he : filterMap s nmask emask dn de = .ok s') : Inv s' := by
  unfold filterMap at he
  have h1 := inv_fmNodes nmask dn s.nodes 0 (empty s.endv s.directed) [] (inv_empty _ _)
  revert he h1
  rcases fmNodes nmask dn s.nodes 0 (empty s.endv s.directed) [] with ⟨g, m⟩
  intro he h1
  exact inv_fmEdges emask de m s.edges 0 g s' h1 he

/-! ### every walk, rewritten to the ghost lists -/

/-- the edges whose `node[k]` is `i` -/
def Incident (s : State) (k : Bool) (i e : Nat) : Prop := ∃ ed, s.edges[e]? = some ed ∧ ed.node k = i

/-- `c` is a fault-free, duplicate-free enumeration (with slots) of the edges whose `node[k]` is `i` -/
structure ChainSpec (s : State) (k : Bool) (i : Nat) (c : List (Nat × Edge)) : Prop where
  nodup : (c.map Prod.fst).Nodup
  slots : ∀ p ∈ c, s.edges[p.1]? = some p.2
  mem : ∀ e, e ∈ c.map Prod.fst ↔ Incident s k i e

theorem Inv.chain_spec {s : State} (h : Inv s) (k : Bool) (i : Nat) (nd : Node) (hnd : s.nodes[i]? = some nd) :
    ∃ c, chain s.edges k s.fuel (nd.next k) = .ok c ∧ ChainSpec s k i c := by
  obtain ⟨adj, hl, hn, hm⟩ := h.lists
  have hlen : (adj k i).length < s.fuel := by
    have : (adj k i).length ≤ s.edges.length :=
      nodup_length_le (hn k i) (fun e he => by
        obtain ⟨ed, hed, _⟩ := (hm k i e).mp he; exact lt_of_getElem? hed)
    simp [State.fuel]; omega
  obtain ⟨c, hc, hmap, hslots⟩ := chain_of_isList h.szE s.fuel _ _ (hl k i nd hnd) hlen
  exact ⟨c, hc, ⟨by rw [hmap]; exact hn k i, hslots, fun e => by rw [hmap]; exact hm k i e⟩⟩

/-- a walk started at `END` is empty -/
theorem Inv.chain_end {s : State} (h : Inv s) (k : Bool) (f : Nat) : chain s.edges k (f + 1) s.endv = .ok [] := by
  have : s.edges[s.endv]? = none := List.getElem?_eq_none h.szE
  simp [chain, this]

theorem findFrom_of_isList {edges k endv b} (hsz : edges.length ≤ endv) :
    ∀ (fuel h : Nat) (l : List Nat), IsList edges k endv h l → l.length < fuel →
      ∃ r, findFrom edges k b fuel h = .ok r ∧
        (∀ e, r = some e → e ∈ l ∧ ∃ ed, edges[e]? = some ed ∧ ed.node (!k) = b) ∧
        (r = none → ∀ e ∈ l, ∀ ed, edges[e]? = some ed → ed.node (!k) ≠ b) := by
  intro fuel
  induction fuel with
  | zero => intro h l _ hlen; omega
  | succ f ih =>
    intro h l hl hlen
    cases hl with
    | nil =>
      have : edges[endv]? = none := List.getElem?_eq_none hsz
      exact ⟨none, by simp [findFrom, this], by simp, by simp⟩
    | @cons _ t ed he htl =>
      by_cases hb : ed.node (!k) = b
      · refine ⟨some h, by simp [findFrom, he, hb], ?_, by simp⟩
        intro e hee
        cases hee
        exact ⟨List.mem_cons_self .., ed, he, hb⟩
      · obtain ⟨r, hr, h1, h2⟩ := ih (ed.next k) t htl (by simp at hlen; omega)
        refine ⟨r, by simp [findFrom, he, hb, hr], ?_, ?_⟩
        · intro e hee
          obtain ⟨hm, hx⟩ := h1 e hee
          exact ⟨List.mem_cons_of_mem _ hm, hx⟩
        · intro hnone e hmem xd hxd
          rcases List.mem_cons.mp hmem with rfl | hmem
          · rw [he] at hxd; cases hxd; exact hb
          · exact h2 hnone e hmem xd hxd

/-- `find` from a node head: fault-free; `some e` is an edge of the list with the wanted far end,
`none` means no edge of the list has it -/
theorem Inv.findFrom_spec {s : State} (h : Inv s) (k : Bool) (i b : Nat) (nd : Node) (hnd : s.nodes[i]? = some nd) :
    ∃ r, findFrom s.edges k b s.fuel (nd.next k) = .ok r ∧
      (∀ e, r = some e → ∃ ed, s.edges[e]? = some ed ∧ ed.node k = i ∧ ed.node (!k) = b) ∧
      (r = none → ∀ (e : Nat) (ed : Edge), s.edges[e]? = some ed → ed.node k = i → ed.node (!k) ≠ b) := by
  obtain ⟨adj, hl, hn, hm⟩ := h.lists
  have hlen : (adj k i).length < s.fuel := by
    have : (adj k i).length ≤ s.edges.length :=
      nodup_length_le (hn k i) (fun e he => by
        obtain ⟨ed, hed, _⟩ := (hm k i e).mp he; exact lt_of_getElem? hed)
    simp [State.fuel]; omega
  obtain ⟨r, hr, h1, h2⟩ := findFrom_of_isList (b := b) h.szE s.fuel _ _ (hl k i nd hnd) hlen
  refine ⟨r, hr, ?_, ?_⟩
  · intro e hee
    obtain ⟨hmem, ed, hed, hb⟩ := h1 e hee
    obtain ⟨ed', hed', hk⟩ := (hm k i e).mp hmem
    rw [hed] at hed'; cases hed'
    exact ⟨ed, hed, hk, hb⟩
  · intro hnone e ed hed hk
    exact h2 hnone e ((hm k i e).mpr ⟨ed, hed, hk⟩) ed hed

/-- edge `e` joins `a` to `b` (in either orientation when the graph is undirected) -/
def Connects (s : State) (a b e : Nat) : Prop :=
  ∃ ed, s.edges[e]? = some ed ∧ ((ed.src = a ∧ ed.tgt = b) ∨ (s.directed = false ∧ ed.src = b ∧ ed.tgt = a))

/-- edge `e` joins `a` and `b`, `k = false`: stored as `a → b`, `k = true`: stored as `b → a` -/
def Joins (s : State) (a b e : Nat) (k : Bool) : Prop :=
  ∃ ed, s.edges[e]? = some ed ∧ (if k then ed.src = b ∧ ed.tgt = a else ed.src = a ∧ ed.tgt = b)

theorem Inv.findEdgeUndirected_spec {s : State} (h : Inv s) (a b : Nat) :
    ∃ r, findEdgeUndirected s a b = .ok r ∧
      (∀ e k, r = some (e, k) → Joins s a b e k) ∧
      (r = none → ∀ e k, ¬ Joins s a b e k) := by
  unfold findEdgeUndirected
  cases hnd : s.nodes[a]? with
  | none =>
    refine ⟨none, rfl, by simp, ?_⟩
    intro _ e k ⟨ed, hed, hj⟩
    have hlt : s.nodes.length ≤ a := by
      by_contra hc
      rw [List.getElem?_eq_getElem (by omega)] at hnd; cases hnd
    have := h.ends e ed hed
    cases k <;> simp at hj <;> omega
  | some nd =>
    obtain ⟨r0, hr0, h01, h02⟩ := h.findFrom_spec false a b nd hnd
    simp only [Node.next, Bool.false_eq_true, if_false] at hr0
    simp only [hr0]
    cases r0 with
    | some e =>
      refine ⟨some (e, false), rfl, ?_, by simp⟩
      intro e' k' heq
      cases heq
      obtain ⟨ed, hed, hk, hb⟩ := h01 e rfl
      exact ⟨ed, hed, by simpa [Edge.node] using ⟨hk, hb⟩⟩
    | none =>
      obtain ⟨r1, hr1, h11, h12⟩ := h.findFrom_spec true a b nd hnd
      simp only [Node.next, if_true] at hr1
      simp only [hr1]
      cases r1 with
      | some e =>
        refine ⟨some (e, true), rfl, ?_, by simp⟩
        intro e' k' heq
        cases heq
        obtain ⟨ed, hed, hk, hb⟩ := h11 e rfl
        exact ⟨ed, hed, by simpa [Edge.node] using ⟨hb, hk⟩⟩
      | none =>
        refine ⟨none, rfl, by simp, ?_⟩
        intro _ e k ⟨ed, hed, hj⟩
        cases k with
        | false =>
          simp at hj
          exact h02 rfl e ed hed (by simp [Edge.node, hj.1]) (by simp [Edge.node, hj.2])
        | true =>
          simp at hj
          exact h12 rfl e ed hed (by simp [Edge.node, hj.2]) (by simp [Edge.node, hj.1])

theorem Inv.findEdge_spec {s : State} (h : Inv s) (a b : Nat) :
    ∃ r, findEdge s a b = .ok r ∧ (∀ e, r = some e → Connects s a b e) ∧ (r = none → ∀ e, ¬ Connects s a b e) := by
  unfold findEdge
  cases hd : s.directed with
  | false =>
    obtain ⟨r, hr, h1, h2⟩ := h.findEdgeUndirected_spec a b
    simp only [Bool.not_false, if_true, hr]
    refine ⟨r.map (·.1), rfl, ?_, ?_⟩
    · intro e he
      cases r with
      | none => simp at he
      | some p =>
        obtain ⟨e', k⟩ := p
        simp at he; subst he
        obtain ⟨ed, hed, hj⟩ := h1 e' k rfl
        refine ⟨ed, hed, ?_⟩
        cases k <;> simp at hj
        · exact Or.inl hj
        · exact Or.inr ⟨hd, hj⟩
    · intro hn e ⟨ed, hed, hc⟩
      have hr' : r = none := by cases r <;> simp at hn ⊢
      rcases hc with hc | ⟨_, hc⟩
      · exact h2 hr' e false ⟨ed, hed, by simpa using hc⟩
      · exact h2 hr' e true ⟨ed, hed, by simpa using hc⟩
  | true =>
    simp only [Bool.not_true, Bool.false_eq_true, if_false]
    cases hnd : s.nodes[a]? with
    | none =>
      refine ⟨none, rfl, by simp, ?_⟩
      intro _ e ⟨ed, hed, hc⟩
      have hlt : s.nodes.length ≤ a := by
        by_contra hc'
        rw [List.getElem?_eq_getElem (by omega)] at hnd; cases hnd
      have := h.ends e ed hed
      rcases hc with hc | ⟨hf, _⟩
      · omega
      · rw [hd] at hf; cases hf
    | some nd =>
      obtain ⟨r0, hr0, h01, h02⟩ := h.findFrom_spec false a b nd hnd
      simp only [Node.next, Bool.false_eq_true, if_false] at hr0
      refine ⟨r0, hr0, ?_, ?_⟩
      · intro e he
        obtain ⟨ed, hed, hk, hb⟩ := h01 e he
        exact ⟨ed, hed, Or.inl (by simpa [Edge.node] using ⟨hk, hb⟩)⟩
      · intro hn e ⟨ed, hed, hc⟩
        rcases hc with hc | ⟨hf, _⟩
        · exact h02 hn e ed hed (by simp [Edge.node, hc.1]) (by simp [Edge.node, hc.2])
        · rw [hd] at hf; cases hf

theorem inv_tryUpdateEdge {s s' : State} {r : Except GErr Nat} (h : Inv s) (a b w : Nat)
    (he : tryUpdateEdge s a b w = .ok (s', r)) : Inv s' := by
  unfold tryUpdateEdge at he
  split at he
  · simp at he
  · rename_i ix _
    split at he
    · rename_i ed hed
      simp at he
      rw [← he.1]
      exact inv_of_sameLinks h (sameLinks_setEdgeWeight hed w)
    · simp at he
      have := inv_tryAddEdge h a b w
      rw [he] at this
      exact this
  · simp at he
    have := inv_tryAddEdge h a b w
    rw [he] at this
    exact this

theorem sameLinks_walkAll (bump : Bool) :
    ∀ (f : Nat) (s : State) (wk : Walker) (s' : State) (l : List (Nat × Nat)),
      walkAll bump f s wk = .ok (s', l) → SameLinks s s' := by
  intro f
  induction f with
  | zero => intro s wk s' l he; simp [walkAll] at he
  | succ f ih =>
    intro s wk s' l he
    unfold walkAll at he
    split at he
    · simp at he
    · simp at he; rw [← he.1]; exact SameLinks.refl s
    · rename_i wk' e n _
      dsimp only at he
      split at he
      · simp at he
      · rename_i s'' l' heq
        simp at he
        rw [← he.1]
        refine SameLinks.trans ?_ (ih _ wk' s'' l' heq)
        split
        · split
          · rename_i ed hed; exact sameLinks_setEdgeWeight hed _
          · exact SameLinks.refl s
        · exact SameLinks.refl s

/-! ### the step function, stage 1 (everything except `remove_*` / `retain_*`) -/

def isRemoval : Op → Bool
  | .removeNode _ | .removeEdge _ | .retainNodes _ _ | .retainEdges _ _ => true
  | _ => false

theorem liftF_query {α : Type} (s : State) (r : Except Fault α) (g : α → Out) :
    (liftF s r (fun v => (s, g v))).1 = s := by
  unfold liftF; split <;> rfl

theorem inv_liftF {α : Type} {s : State} (h : Inv s) (r : Except Fault α) (g : α → State × Out)
    (hg : ∀ v, r = .ok v → Inv (g v).1) : Inv (liftF s r g).1 := by
  unfold liftF
  split
  · rename_i v; exact hg v rfl
  · exact h

theorem inv_setNodeWeight {s s' : State} {old : Nat} (h : Inv s) {a w : Nat}
    (he : setNodeWeight s a w = some (s', old)) : Inv s' := by
  unfold setNodeWeight at he
  split at he
  · rename_i nd hnd
    simp at he; rw [← he.1]
    exact inv_of_sameLinks h (sameLinks_setNodeWeight hnd w)
  · simp at he

theorem inv_setEdgeWeight {s s' : State} {old : Nat} (h : Inv s) {e w : Nat}
    (he : setEdgeWeight s e w = some (s', old)) : Inv s' := by
  unfold setEdgeWeight at he
  split at he
  · rename_i ed hed
    simp at he; rw [← he.1]
    exact inv_of_sameLinks h (sameLinks_setEdgeWeight hed w)
  · simp at he

theorem inv_putWeight {s : State} (h : Inv s) (k : Bool) (x w : Nat) : Inv (putWeight s k x w) := by
  unfold putWeight
  split
  · split
    · rename_i ed hed; exact inv_of_sameLinks h (sameLinks_setEdgeWeight hed w)
    · exact h
  · split
    · rename_i nd hnd; exact inv_of_sameLinks h (sameLinks_setNodeWeight hnd w)
    · exact h

theorem inv_indexTwiceMut {s s' : State} (h : Inv s) {ki kj : Bool} {i j wi wj : Nat}
    (he : indexTwiceMut s ki kj i j wi wj = some s') : Inv s' := by
  unfold indexTwiceMut at he
  split at he
  · simp at he
  · split at he
    · simp at he
    · simp only [Option.some.injEq] at he
      rw [← he]
      exact inv_putWeight (inv_putWeight h ki i wi) kj j wj

theorem inv_step_stage1 {s : State} (h : Inv s) (op : Op) (hop : isRemoval op = false) : Inv (step s op).1 := by
  cases op <;> simp only [step, liftF_query] <;> try exact h
  case new d => exact inv_empty _ _
  case fromEdges l =>
    have := inv_extendWithEdges l (empty s.endv s.directed) (inv_empty _ _)
    split
    · rename_i g heq; rw [heq] at this; exact this
    · exact h
  case fromElements l =>
    split
    · rename_i g heq; exact inv_fromElements l _ g (inv_empty _ _) heq
    · exact h
  case addNode w =>
    have := inv_tryAddNode h w
    split <;> (rename_i heq; rw [heq] at this; exact this)
  case tryAddNode w =>
    have := inv_tryAddNode h w
    split <;> (rename_i heq; rw [heq] at this; exact this)
  case addEdge a b w =>
    have := inv_tryAddEdge h a b w
    split <;> (rename_i heq; rw [heq] at this; exact this)
  case tryAddEdge a b w => exact inv_tryAddEdge h a b w
  case updateEdge a b w =>
    refine inv_liftF h _ _ ?_
    intro v hv
    obtain ⟨s', r⟩ := v
    have := inv_tryUpdateEdge h a b w hv
    cases r <;> exact this
  case tryUpdateEdge a b w =>
    refine inv_liftF h _ _ ?_
    intro v hv
    obtain ⟨s', r⟩ := v
    exact inv_tryUpdateEdge h a b w hv
  case removeNode a => simp [isRemoval] at hop
  case removeEdge e => simp [isRemoval] at hop
  case retainNodes m b => simp [isRemoval] at hop
  case retainEdges m b => simp [isRemoval] at hop
  case nodeWeightMut a w =>
    split
    · rename_i s' old heq; exact inv_setNodeWeight h heq
    · exact h
  case edgeWeightMut e w =>
    split
    · rename_i s' old heq; exact inv_setEdgeWeight h heq
    · exact h
  case indexMutNode a w =>
    split
    · rename_i s' old heq; exact inv_setNodeWeight h heq
    · exact h
  case indexMutEdge e w =>
    split
    · rename_i s' old heq; exact inv_setEdgeWeight h heq
    · exact h
  case indexTwiceMut ki kj i j wi wj =>
    split
    · rename_i s' heq; exact inv_indexTwiceMut h heq
    · exact h
  case bumpNodes d => exact inv_of_sameLinks h (sameLinks_bumpNodes s d)
  case bumpEdges d => exact inv_of_sameLinks h (sameLinks_bumpEdges s d)
  case reverse => exact inv_reverse h
  case clear => exact inv_clear h
  case clearEdges => exact inv_clearEdges h
  case extendWithEdges l =>
    have := inv_extendWithEdges l s h
    split <;> (rename_i heq; rw [heq] at this; exact this)
  case map dn de => exact inv_of_sameLinks h (sameLinks_mapWeights s dn de)
  case filterMap nm em dn de =>
    refine inv_liftF h _ _ ?_
    intro v hv
    exact inv_filterMap nm em dn de hv
  case intoEdgeType d => exact inv_setDirected h d
  case rebuild =>
    refine inv_liftF h _ _ ?_
    intro v hv
    exact inv_filterMap [] [] 0 0 hv
  case walk a mode bump =>
    refine inv_liftF h _ _ ?_
    intro v hv
    obtain ⟨s', l⟩ := v
    exact inv_of_sameLinks h (sameLinks_walkAll bump _ _ _ _ _ hv)
  case indexNode a => split <;> exact h
  case indexEdge e => split <;> exact h

/-! ### capacity limits -/

theorem tryAddNode_full {s : State} (w : Nat) (hf : s.nodes.length = s.endv) : tryAddNode s w = (s, none) := by
  simp [tryAddNode, canGrow, hf]

theorem tryAddNode_room {s : State} (w : Nat) (hf : s.nodes.length ≠ s.endv) :
    tryAddNode s w = ({ s with nodes := s.nodes ++ [⟨w, s.endv, s.endv⟩] }, some s.nodes.length) := by
  have : s.endv ≠ s.nodes.length := fun h => hf h.symm
  simp [tryAddNode, canGrow, this]

theorem tryAddEdge_full {s : State} (a b w : Nat) (hf : s.edges.length = s.endv) :
    tryAddEdge s a b w = (s, .error .edgeIxLimit) := by
  simp [tryAddEdge, canGrow, hf]

theorem tryAddEdge_absent {s : State} (a b w : Nat) (hf : s.edges.length ≠ s.endv)
    (hab : ¬ (a < s.nodes.length ∧ b < s.nodes.length)) :
    tryAddEdge s a b w = (s, .error .nodeOutBounds) := by
  have h1 : s.endv ≠ s.edges.length := fun h => hf h.symm
  have h2 : s.nodes.length ≤ max a b := by omega
  simp [tryAddEdge, canGrow, h1, h2]

theorem tryAddEdge_room {s : State} (a b w : Nat) (hf : s.edges.length ≠ s.endv)
    (ha : a < s.nodes.length) (hb : b < s.nodes.length) :
    ∃ s', tryAddEdge s a b w = (s', .ok s.edges.length) := by
  rcases hr : tryAddEdge s a b w with ⟨s', r⟩
  cases r with
  | ok e =>
    obtain ⟨_, _, _, _, he, _⟩ := tryAddEdge_ok hr
    exact ⟨s', by rw [he]⟩
  | error e =>
    exfalso
    have h1 : s.endv ≠ s.edges.length := fun h => hf h.symm
    have h2 : ¬ s.nodes.length ≤ max a b := by omega
    have hg : canGrow s s.edges.length = true := by simp [canGrow, h1]
    unfold tryAddEdge at hr
    simp only [hg, Bool.not_true, Bool.false_eq_true, if_false, ge_iff_le, h2] at hr
    rw [List.getElem?_eq_getElem ha, List.getElem?_eq_getElem hb] at hr
    split at hr <;> simp at hr

/-! ### calls that name an absent index -/

/-- the call names a node / edge index that is not live -/
def NamesAbsent (s : State) : Op → Prop
  | .addEdge a b _ | .tryAddEdge a b _ | .updateEdge a b _ | .tryUpdateEdge a b _
  | .findEdge a b | .findEdgeUndirected a b | .containsEdge a b | .edgesConnecting a b =>
    ¬ (a < s.nodes.length ∧ b < s.nodes.length)
  | .removeNode a | .nodeWeightMut a _ | .indexMutNode a _ | .nodeWeight a | .indexNode a
  | .neighbors a | .neighborsDirected a _ | .neighborsUndirected a | .edges a | .edgesDirected a _
  | .firstEdge a _ | .walk a _ _ => s.nodes.length ≤ a
  | .removeEdge e | .edgeWeightMut e _ | .indexMutEdge e _ | .edgeWeight e | .indexEdge e
  | .edgeEndpoints e | .nextEdge e _ => s.edges.length ≤ e
  | .indexTwiceMut ki kj i j _ _ => inBounds s ki i = false ∨ inBounds s kj j = false
  | _ => False

/-- the answer prescribed for such a call: `None` / `Err` / empty / `false`, or the panic the
rustdoc of that method promises -/
def AbsentAnswer : Op → Out → Prop
  | .addEdge .., o | .updateEdge .., o | .indexMutNode .., o | .indexMutEdge .., o
  | .indexTwiceMut .., o | .indexNode _, o | .indexEdge _, o => o = .panic
  | .tryAddEdge .., o | .tryUpdateEdge .., o => ∃ e, o = .res (.error e)
  | .removeNode _, o | .removeEdge _, o | .nodeWeightMut .., o | .edgeWeightMut .., o
  | .nodeWeight _, o | .edgeWeight _, o | .firstEdge .., o | .nextEdge .., o | .findEdge .., o => o = .optNat none
  | .edgeEndpoints _, o => o = .optPair none
  | .findEdgeUndirected .., o => o = .optEdgeDir none
  | .containsEdge .., o => o = .bool false
  | .neighbors _, o | .neighborsDirected .., o | .neighborsUndirected _, o => o = .nats []
  | .edges _, o | .edgesDirected .., o | .edgesConnecting .., o => o = .erefs []
  | .walk .., o => o = .pairs []
  | _, _ => False

theorem getElem?_none_of_le {α : Type} {l : List α} {i : Nat} (h : l.length ≤ i) : l[i]? = none :=
  List.getElem?_eq_none h

theorem Inv.findEdgeUndirected_absent {s : State} (h : Inv s) {a b : Nat}
    (hab : ¬ (a < s.nodes.length ∧ b < s.nodes.length)) : findEdgeUndirected s a b = .ok none := by
  obtain ⟨r, hr, h1, _⟩ := h.findEdgeUndirected_spec a b
  cases r with
  | none => exact hr
  | some p =>
    exfalso
    obtain ⟨e, k⟩ := p
    obtain ⟨ed, hed, hj⟩ := h1 e k rfl
    have := h.ends e ed hed
    cases k <;> simp at hj <;> omega

theorem Inv.findEdge_absent {s : State} (h : Inv s) {a b : Nat}
    (hab : ¬ (a < s.nodes.length ∧ b < s.nodes.length)) : findEdge s a b = .ok none := by
  obtain ⟨r, hr, h1, _⟩ := h.findEdge_spec a b
  cases r with
  | none => exact hr
  | some e =>
    exfalso
    obtain ⟨ed, hed, hj⟩ := h1 e rfl
    have := h.ends e ed hed
    rcases hj with hj | ⟨_, hj⟩ <;> omega

theorem heads_absent {s : State} {a : Nat} (ha : s.nodes.length ≤ a) : heads s a = (s.endv, s.endv) := by
  simp [heads, getElem?_none_of_le ha]

theorem Inv.nbrIter_end {s : State} (h : Inv s) (skip : Nat) : nbrIter s skip s.endv s.endv = .ok [] := by
  simp [nbrIter, State.fuel, h.chain_end]

theorem Inv.neighborsUndirected_absent {s : State} (h : Inv s) {a : Nat} (ha : s.nodes.length ≤ a) :
    neighborsUndirected s a = .ok [] := by
  simp [neighborsUndirected, heads_absent ha, h.nbrIter_end]

theorem Inv.neighborsDirected_absent {s : State} (h : Inv s) {a : Nat} (k : Bool) (ha : s.nodes.length ≤ a) :
    neighborsDirected s a k = .ok [] := by
  unfold neighborsDirected
  simp only [heads_absent ha]
  split
  · split <;> exact h.nbrIter_end _
  · exact h.nbrIter_end _

theorem Inv.edgesDirected_absent {s : State} (h : Inv s) {a : Nat} (k : Bool) (ha : s.nodes.length ≤ a) :
    edgesDirected s a k = .ok [] := by
  unfold edgesDirected
  simp only [heads_absent ha, State.fuel, h.chain_end]
  split
  · split <;> simp
  · simp

/-- every reference listed by `edges_directed` has live endpoints -/
theorem Inv.edgesDirected_tgt {s : State} (h : Inv s) (a : Nat) (k : Bool) {l : List ERef}
    (hl : edgesDirected s a k = .ok l) : ∀ r ∈ l, r.tgt < s.nodes.length ∧ r.src < s.nodes.length := by
  by_cases ha : s.nodes.length ≤ a
  · rw [h.edgesDirected_absent k ha] at hl; cases hl; simp
  · have ha' : a < s.nodes.length := by omega
    have hnd := List.getElem?_eq_getElem ha'
    obtain ⟨c0, hc0, hs0⟩ := h.chain_spec false a _ hnd
    obtain ⟨c1, hc1, hs1⟩ := h.chain_spec true a _ hnd
    simp only [Node.next, Bool.false_eq_true, if_false] at hc0
    simp only [Node.next, if_true] at hc1
    have hh : heads s a = (s.nodes[a].next0, s.nodes[a].next1) := by simp [heads, hnd]
    have href : ∀ (c : List (Nat × Edge)), (∀ p ∈ c, s.edges[p.1]? = some p.2) → ∀ sw, ∀ r ∈ c.map (mkRef sw),
        r.tgt < s.nodes.length ∧ r.src < s.nodes.length := by
      intro c hc sw r hr
      obtain ⟨p, hp, rfl⟩ := List.mem_map.mp hr
      have := h.ends p.1 p.2 (hc p hp)
      unfold mkRef; split <;> simp <;> omega
    unfold edgesDirected at hl
    simp only [hh, hc0, hc1] at hl
    split at hl
    · split at hl
      · cases hl; exact href c1 hs1.slots false
      · cases hl; exact href c0 hs0.slots false
    · cases hl
      intro r hr
      rcases List.mem_append.mp hr with hr | hr
      · exact href c0 hs0.slots k r hr
      · exact href (c1.filter _) (fun p hp => hs1.slots p (List.mem_of_mem_filter hp)) (!k) r hr

theorem Inv.edgesConnecting_absent {s : State} (h : Inv s) {a b : Nat}
    (hab : ¬ (a < s.nodes.length ∧ b < s.nodes.length)) : edgesConnecting s a b = .ok [] := by
  unfold edgesConnecting
  by_cases ha : s.nodes.length ≤ a
  · simp [h.edgesDirected_absent false ha]
  · have hb : s.nodes.length ≤ b := by omega
    cases hl : edgesDirected s a false with
    | error e =>
      exfalso
      have ha' : a < s.nodes.length := by omega
      have hnd := List.getElem?_eq_getElem ha'
      obtain ⟨c0, hc0, _⟩ := h.chain_spec false a _ hnd
      obtain ⟨c1, hc1, _⟩ := h.chain_spec true a _ hnd
      simp only [Node.next, Bool.false_eq_true, if_false] at hc0
      simp only [Node.next, if_true] at hc1
      have hh : heads s a = (s.nodes[a].next0, s.nodes[a].next1) := by simp [heads, hnd]
      unfold edgesDirected at hl
      simp only [hh, hc0, hc1] at hl
      split at hl <;> simp at hl
    | ok l =>
      have := h.edgesDirected_tgt a false hl
      simp only [Except.ok.injEq, List.filter_eq_nil_iff, beq_iff_eq]
      intro r hr heq
      have := (this r hr).1
      omega

theorem Inv.walk_absent {s : State} (h : Inv s) {a : Nat} (mode : Nat) (bump : Bool) (ha : s.nodes.length ≤ a) :
    walkAll bump (2 * s.fuel + 1) s (walkerNew s a mode) = .ok (s, []) := by
  have hnone : s.edges[s.endv]? = none := getElem?_none_of_le h.szE
  have hw : ∀ wk : Walker, wk.next0 = s.endv → wk.next1 = s.endv → walkerNext s wk = .ok (wk, none) := by
    intro wk h0 h1
    unfold walkerNext
    simp [h0, h1, hnone, State.fuel, walkIn]
    cases wk; simp_all
  have hwk : (walkerNew s a mode).next0 = s.endv ∧ (walkerNew s a mode).next1 = s.endv := by
    unfold walkerNew
    simp only [heads_absent ha]
    split
    · exact ⟨rfl, rfl⟩
    · split <;> exact ⟨rfl, rfl⟩
  rw [show 2 * s.fuel + 1 = (2 * s.fuel) + 1 from rfl]
  unfold walkAll
  rw [hw _ hwk.1 hwk.2]

theorem absent_unchanged {s : State} (h : Inv s) (op : Op) (ha : NamesAbsent s op) :
    (step s op).1 = s ∧ AbsentAnswer op (step s op).2 := by
  cases op <;> simp only [NamesAbsent] at ha <;> simp only [step, AbsentAnswer]
  case addEdge a b w =>
    by_cases hf : s.edges.length = s.endv
    · simp [tryAddEdge_full a b w hf]
    · simp [tryAddEdge_absent a b w hf ha]
  case tryAddEdge a b w =>
    by_cases hf : s.edges.length = s.endv
    · simp [tryAddEdge_full a b w hf]
    · simp [tryAddEdge_absent a b w hf ha]
  case updateEdge a b w =>
    simp only [tryUpdateEdge, h.findEdge_absent ha, liftF]
    by_cases hf : s.edges.length = s.endv
    · simp [tryAddEdge_full a b w hf]
    · simp [tryAddEdge_absent a b w hf ha]
  case tryUpdateEdge a b w =>
    simp only [tryUpdateEdge, h.findEdge_absent ha, liftF]
    by_cases hf : s.edges.length = s.endv
    · simp [tryAddEdge_full a b w hf]
    · simp [tryAddEdge_absent a b w hf ha]
  case removeNode a => simp [removeNode, getElem?_none_of_le ha, liftF]
  case removeEdge e => simp [removeEdge, getElem?_none_of_le ha, liftF]
  case nodeWeightMut a w => simp [setNodeWeight, getElem?_none_of_le ha]
  case edgeWeightMut e w => simp [setEdgeWeight, getElem?_none_of_le ha]
  case indexMutNode a w => simp [setNodeWeight, getElem?_none_of_le ha]
  case indexMutEdge e w => simp [setEdgeWeight, getElem?_none_of_le ha]
  case indexTwiceMut ki kj i j wi wj =>
    have : indexTwiceMut s ki kj i j wi wj = none := by
      unfold indexTwiceMut
      split
      · rfl
      · rcases ha with ha | ha <;> simp [ha]
    simp [this]
  case walk a mode bump => simp [h.walk_absent mode bump ha, liftF]
  case nodeWeight a => simp [getElem?_none_of_le ha]
  case edgeWeight e => simp [getElem?_none_of_le ha]
  case indexNode a => simp [getElem?_none_of_le ha]
  case indexEdge e => simp [getElem?_none_of_le ha]
  case edgeEndpoints e => simp [getElem?_none_of_le ha]
  case findEdge a b => simp [h.findEdge_absent ha, liftF]
  case findEdgeUndirected a b => simp [h.findEdgeUndirected_absent ha, liftF]
  case containsEdge a b => simp [h.findEdge_absent ha, liftF]
  case neighbors a => simp [h.neighborsDirected_absent false ha, liftF]
  case neighborsDirected a k => simp [h.neighborsDirected_absent k ha, liftF]
  case neighborsUndirected a => simp [h.neighborsUndirected_absent ha, liftF]
  case edges a => simp [h.edgesDirected_absent false ha, liftF]
  case edgesDirected a k => simp [h.edgesDirected_absent k ha, liftF]
  case edgesConnecting a b => simp [h.edgesConnecting_absent ha, liftF]
  case firstEdge a k => simp [firstEdge, getElem?_none_of_le ha]
  case nextEdge e k => simp [nextEdge, getElem?_none_of_le ha]

/-- a head is `END` exactly when no edge has that node at that end -/
theorem Inv.head_end_iff {s : State} (h : Inv s) (k : Bool) {i : Nat} {nd : Node} (hnd : s.nodes[i]? = some nd) :
    nd.next k = s.endv ↔ ∀ (e : Nat) (ed : Edge), s.edges[e]? = some ed → ed.node k ≠ i := by
  obtain ⟨adj, hl, _, hm⟩ := h.lists
  have hlist := hl k i nd hnd
  constructor
  · intro hend e ed hed hk
    rw [hend] at hlist
    have : adj k i = [] := IsList.functional h.szE hlist IsList.nil
    have hmem : e ∈ adj k i := (hm k i e).mpr ⟨ed, hed, hk⟩
    rw [this] at hmem; cases hmem
  · intro hno
    have : adj k i = [] := by
      apply List.eq_nil_iff_forall_not_mem.mpr
      intro e he
      obtain ⟨ed, hed, hk⟩ := (hm k i e).mp he
      exact hno e ed hed hk
    rw [this] at hlist
    generalize nd.next k = hd at hlist
    cases hlist
    rfl

end PetgraphModel.GProofs
