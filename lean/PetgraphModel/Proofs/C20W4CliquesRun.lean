import PetgraphModel.Model.C20W4CliquesRun
import PetgraphModel.Proofs.C20W3Cliques
import PetgraphModel.Proofs.C20W3Oracles
import PetgraphModel.Proofs.C20W2Tred
/-
C20 (wave 4) — soundness of the run check of `maximal_cliques` (`Model/C20W4CliquesRun.lean`).

`check g out = none` means: the search found a trace AND the proved model `Cliques.maximalCliques`,
run under `traceOracle g tr`, reports exactly `out` (every clique sorted).  `traceOracle` is valid and
follows the code's concrete pivot rule for EVERY trace (its guards), so an accepted `out` is the
report sequence of a run of the proved model under the code's rule (`check_sound`), hence — adjacency
symmetric, node list duplicate-free — exactly the maximal cliques, each once (`check_exact`, from
`Cliques.maximalCliques_exact`).  The search (`explain`) carries no proof obligation.
-/
namespace PetgraphModel.C20.CliquesRun
open PetgraphModel PetgraphModel.C20

/-- the oracle follows the CONCRETE rule of `bron_kerbosch_pivot`: the pivot is a member of `P` whose
`neighbors(..).count()` is maximal among the members of `P` (`Oracle.Valid` only asks for `P ∪ X`) -/
def Concrete (g : MGraph) (o : Cliques.Oracle) : Prop :=
  ∀ r p x, p ≠ [] → o.pivot r p x ∈ p ∧ ∀ v ∈ p, (g.succ v).length ≤ (g.succ (o.pivot r p x)).length

theorem pivotOkB_iff {g : MGraph} {p : List Nat} {u : Nat} :
    pivotOkB g p u = true ↔ u ∈ p ∧ ∀ v ∈ p, (g.succ v).length ≤ (g.succ u).length := by
  simp [pivotOkB]

theorem foldl_max (d : Nat → Nat) : ∀ (l : List Nat) (b : Nat),
    d b ≤ d (l.foldl (fun best v => if d best < d v then v else best) b) ∧
    ∀ v ∈ l, d v ≤ d (l.foldl (fun best v => if d best < d v then v else best) b) := by
  intro l
  induction l with
  | nil => intro b; simp
  | cons v t ih =>
    intro b
    simp only [List.foldl_cons]
    by_cases h : d b < d v
    · simp only [h, if_true]
      obtain ⟨h1, h2⟩ := ih v
      refine ⟨by omega, ?_⟩
      intro w hw
      rcases List.mem_cons.mp hw with rfl | hw
      · exact h1
      · exact h2 w hw
    · simp only [h, if_false]
      obtain ⟨h1, h2⟩ := ih b
      refine ⟨h1, ?_⟩
      intro w hw
      rcases List.mem_cons.mp hw with rfl | hw
      · omega
      · exact h2 w hw

/-- the reference run follows the concrete rule -/
theorem firstOracle_concrete (g : MGraph) : Concrete g (Cliques.firstOracle g) := by
  intro r p x hp
  cases p with
  | nil => exact absurd rfl hp
  | cons a rest =>
    simp only [Cliques.firstOracle, List.headD_cons]
    constructor
    · have := Cliques.foldl_pick_mem (fun best v => (g.succ best).length < (g.succ v).length) (a :: rest) a
      cases this with
      | inl e => rw [e]; exact List.mem_cons_self
      | inr e => exact e
    · exact (foldl_max (fun v => (g.succ v).length) (a :: rest) a).2

/-- the oracle of ANY trace follows the concrete rule -/
theorem traceOracle_concrete (g : MGraph) (tr : Trace) : Concrete g (traceOracle g tr) := by
  intro r p x hp
  simp only [traceOracle]
  split
  · split
    · rename_i h; exact pivotOkB_iff.mp h
    · exact firstOracle_concrete g r p x hp
  · exact firstOracle_concrete g r p x hp

/-- the oracle of ANY trace is valid -/
theorem traceOracle_valid (g : MGraph) (tr : Trace) : (traceOracle g tr).Valid := by
  refine ⟨fun r p x hp => List.mem_append_left _ (traceOracle_concrete g tr r p x hp).1, fun r l => ?_⟩
  simp only [traceOracle]
  split
  · split
    · rename_i h; exact List.isPerm_iff.mp h
    · exact List.Perm.refl _
  · exact List.Perm.refl _

theorem replayB_iff {g : MGraph} {tr : Trace} {out : List (List Nat)} :
    replayB g tr out = true ↔
      (Cliques.maximalCliques g (traceOracle g tr) (g.nodes.length + 1)).map sortNats = out := by
  simp [replayB]

/-- **soundness of the run check**: an accepted `out` is the report sequence (cliques sorted) of a run
of the proved Bron–Kerbosch model under a valid oracle that follows the code's pivot rule -/
theorem check_sound_concrete (g : MGraph) (out : List (List Nat)) (h : check g out = none) :
    ∃ o : Cliques.Oracle, o.Valid ∧ Concrete g o ∧
      (Cliques.maximalCliques g o (g.nodes.length + 1)).map sortNats = out := by
  unfold check at h
  split at h
  · cases h
  · rename_i tr _
    split at h
    · rename_i hr
      exact ⟨traceOracle g tr, traceOracle_valid g tr, traceOracle_concrete g tr, replayB_iff.mp hr⟩
    · cases h

theorem check_sound (g : MGraph) (out : List (List Nat)) (h : check g out = none) :
    ∃ o : Cliques.Oracle, o.Valid ∧
      (Cliques.maximalCliques g o (g.nodes.length + 1)).map sortNats = out := by
  obtain ⟨o, ho, _, h⟩ := check_sound_concrete g out h
  exact ⟨o, ho, h⟩

/-! ### an accepted answer is exactly the set of maximal cliques -/

theorem sameSet_sortNats (c : List Nat) : Cliques.SameSet (sortNats c) c :=
  fun _ => (Tred.sortNats_perm c).mem_iff

theorem canon_sortNats (g : MGraph) (c : List Nat) : canon g (sortNats c) = canon g c :=
  Cliques.canon_congr (sameSet_sortNats c)

/-- **an accepted `out` is exactly the maximal cliques, each once** (adjacency symmetric, node list
duplicate-free): same conclusion as `C20_cliques_judge_sound`, obtained through the proved model -/
theorem check_exact (g : MGraph) (hsym : ∀ a b, g.Adj a b → g.Adj b a) (hnd : g.nodes.Nodup)
    (out : List (List Nat)) (h : check g out = none) :
    (∀ c ∈ out, c.Nodup ∧ ∀ x ∈ c, x ∈ g.nodes) ∧
    (out.map (canon g)).Nodup ∧
    ∀ S, S.Sublist g.nodes → (S ∈ out.map (canon g) ↔ IsMaxClique g S) := by
  obtain ⟨o, ho, rfl⟩ := check_sound g out h
  obtain ⟨h1, h2, h3⟩ := Cliques.maximalCliques_exact g hsym hnd o ho (g.nodes.length + 1) (Nat.lt_succ_self _)
  have hmap : ((Cliques.maximalCliques g o (g.nodes.length + 1)).map sortNats).map (canon g) =
      (Cliques.maximalCliques g o (g.nodes.length + 1)).map (canon g) := by
    rw [List.map_map]
    apply List.map_congr_left
    intro c _
    exact canon_sortNats g c
  refine ⟨?_, by rw [hmap]; exact h2, by rw [hmap]; exact h3⟩
  intro c hc
  obtain ⟨c0, hc0, rfl⟩ := List.mem_map.mp hc
  obtain ⟨hn, hs⟩ := h1 c0 hc0
  exact ⟨(Tred.sortNats_perm c0).nodup_iff.mpr hn, fun x hx => hs x ((Tred.sortNats_perm c0).mem_iff.mp hx)⟩

theorem check_exact_undirected (g : MGraph) (hd : g.directed = false) (hnd : g.nodes.Nodup)
    (out : List (List Nat)) (h : check g out = none) :
    (∀ c ∈ out, c.Nodup ∧ ∀ x ∈ c, x ∈ g.nodes) ∧
    (out.map (canon g)).Nodup ∧
    ∀ S, S.Sublist g.nodes → (S ∈ out.map (canon g) ↔ IsMaxClique g S) :=
  check_exact g (fun _ _ h => adj_symm_undirected hd h) hnd out h

/-! ### Boolean forms of the hypotheses -/

theorem nodupB_sound : ∀ {l : List Nat}, nodupB l = true → l.Nodup
  | [], _ => List.nodup_nil
  | a :: l, h => by
    simp only [nodupB, Bool.and_eq_true, Bool.not_eq_true', List.contains_eq_mem, decide_eq_false_iff_not] at h
    exact List.nodup_cons.mpr ⟨h.1, nodupB_sound h.2⟩

theorem symB_sound {g : MGraph} (h : symB g = true) : ∀ a b, g.Adj a b → g.Adj b a := by
  intro a b hab
  simp only [symB, Bool.or_eq_true, beq_iff_eq, List.all_eq_true, List.contains_iff_mem] at h
  rcases h with hd | hall
  · exact adj_symm_undirected hd hab
  · obtain ⟨e, he, h1 | h1⟩ := hab
    · have := MGraph.mem_succ.mp (hall e he)
      rw [h1.1, h1.2] at this
      exact this
    · exact ⟨e, he, Or.inl ⟨h1.2.1, h1.2.2⟩⟩

/-- the executable form: what the driver can evaluate -/
theorem check_exact_B (g : MGraph) (hs : symB g = true) (hn : nodupB g.nodes = true)
    (out : List (List Nat)) (h : check g out = none) :
    (∀ c ∈ out, c.Nodup ∧ ∀ x ∈ c, x ∈ g.nodes) ∧
    (out.map (canon g)).Nodup ∧
    ∀ S, S.Sublist g.nodes → (S ∈ out.map (canon g) ↔ IsMaxClique g S) :=
  check_exact g (symB_sound hs) (nodupB_sound hn) out h

theorem symB_of_undirected {g : MGraph} (hd : g.directed = false) : symB g = true := by
  simp [symB, hd]

/-! ### the check is not vacuous -/

/-- the doc example of `maximal_cliques`; `{4}` in the middle is impossible (the pivot is node 2, the
only vertex of degree 3; `todo = {2, 4}`) -/
def docGraph : MGraph := ⟨false, [0, 1, 2, 3, 4], [⟨0, 0, 1, 1⟩, ⟨1, 0, 2, 1⟩, ⟨2, 1, 2, 1⟩, ⟨3, 2, 3, 1⟩]⟩

/-- a trace as `explain` returns it, replayed through the proved model (kernel-checked) -/
example : replayB docGraph [([], 2, [2, 4]), ([2], 0, [3, 0]), ([0, 2], 1, [1])] [[4], [0, 1, 2], [2, 3]] = true := by
  decide
example : concreteRuleB docGraph [([], 2, [2, 4]), ([2], 0, [3, 0]), ([0, 2], 1, [1])] = true := by decide

-- the search itself (memo table = `Std.HashMap`) is evaluated, not kernel-reduced
#guard explain docGraph [[4], [0, 1, 2], [2, 3]] == some [([], 2, [2, 4]), ([2], 0, [3, 0]), ([0, 2], 1, [1])]
#guard (check docGraph [[4], [0, 1, 2], [2, 3]]).isNone
#guard (check docGraph [[2, 3], [0, 1, 2], [4]]).isNone
#guard (check docGraph [[0, 1, 2], [4], [2, 3]]).isSome
#guard (check docGraph [[2, 3], [4], [0, 1, 2]]).isSome
#guard (check docGraph [[4], [2, 3]]).isSome

end PetgraphModel.C20.CliquesRun
