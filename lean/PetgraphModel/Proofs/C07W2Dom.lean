import PetgraphModel.Proofs.C07W2Base
import PetgraphModel.Spec.C16
import PetgraphModel.Proofs.C16Judge
import PetgraphModel.Proofs.C16Cut
/-
C07, wave 2 — the C16 specification notions (`Walk`, `Dominates`, `StrictlyDominates`, `IsIdom`,
`numComponents`, `CutVertex`) under a change of presentation and under an injective relabeling.
-/
namespace PetgraphModel.C07W2
open PetgraphModel PetgraphModel.MGraph PetgraphModel.C16S PetgraphModel.C16P

/-! ### walks with their vertex lists -/

theorem walk_congr {g1 g2 : MGraph} (h : SameAdj g1 g2) {a b : Nat} {p : List Nat} :
    Walk g1 a b p ↔ Walk g2 a b p := by
  have key : ∀ {g1 g2 : MGraph}, SameAdj g1 g2 → ∀ {b p}, Walk g1 a b p → Walk g2 a b p := by
    intro g1 g2 h b p hw
    induction hw with
    | start => exact Walk.start
    | step _ hadj ih => exact Walk.step ih ((h _ _).mp hadj)
  exact ⟨key h, key h.symm⟩

theorem dominates_congr {g1 g2 : MGraph} (h : SameAdj g1 g2) {r a b : Nat} :
    Dominates g1 r a b ↔ Dominates g2 r a b := by
  unfold Dominates
  exact ⟨fun hd p hp => hd p ((walk_congr h).mpr hp), fun hd p hp => hd p ((walk_congr h).mp hp)⟩

theorem strictlyDominates_congr {g1 g2 : MGraph} (h : SameAdj g1 g2) {r a b : Nat} :
    StrictlyDominates g1 r a b ↔ StrictlyDominates g2 r a b := by
  unfold StrictlyDominates; rw [dominates_congr h]

theorem isIdom_congr {g1 g2 : MGraph} (h : SameAdj g1 g2) {r a b : Nat} : IsIdom g1 r a b ↔ IsIdom g2 r a b := by
  unfold IsIdom
  rw [reach_congr h, strictlyDominates_congr h]
  constructor
  · rintro ⟨h1, h2, h3⟩
    exact ⟨h1, h2, fun c hc => (dominates_congr h).mp (h3 c ((strictlyDominates_congr h).mpr hc))⟩
  · rintro ⟨h1, h2, h3⟩
    exact ⟨h1, h2, fun c hc => (dominates_congr h).mpr (h3 c ((strictlyDominates_congr h).mp hc))⟩

theorem walk_relabel (φ : Nat → Nat) (g : MGraph) {a b : Nat} {p : List Nat} (h : Walk g a b p) :
    Walk (relabel φ g) (φ a) (φ b) (p.map φ) := by
  induction h with
  | start => exact Walk.start
  | step _ hadj ih => exact Walk.step ih (adj_relabel φ g hadj)

theorem walk_relabel_inv {φ : Nat → Nat} (hφ : Inj φ) (g : MGraph) {a y : Nat} {p' : List Nat}
    (h : Walk (relabel φ g) (φ a) y p') : ∃ b p, y = φ b ∧ p' = p.map φ ∧ Walk g a b p := by
  induction h with
  | start => exact ⟨a, [a], rfl, rfl, Walk.start⟩
  | step _ hadj ih =>
    obtain ⟨b, p, rfl, rfl, hw⟩ := ih
    obtain ⟨a', b', h1, h2, h3⟩ := (adj_relabel_iff φ g).mp hadj
    rw [← hφ _ _ h1] at h3
    exact ⟨b', b' :: p, h2, by simp [h2], Walk.step hw h3⟩

section
variable {φ : Nat → Nat} (hφ : Inj φ) (g : MGraph)
include hφ

theorem dominates_relabel_iff (r a b : Nat) :
    Dominates (relabel φ g) (φ r) (φ a) (φ b) ↔ Dominates g r a b := by
  unfold Dominates
  constructor
  · intro hd p hp
    exact (mem_map_inj hφ).mp (hd _ (walk_relabel φ g hp))
  · intro hd p' hp'
    obtain ⟨b', p, hb, rfl, hw⟩ := walk_relabel_inv hφ g hp'
    rw [← hφ _ _ hb] at hw
    exact (mem_map_inj hφ).mpr (hd p hw)

omit hφ in
/-- a dominator of a reachable node of the relabeled graph (root an image) is an image -/
theorem dominator_is_image {r b y : Nat} (hr : Reach g r b) (hd : Dominates (relabel φ g) (φ r) y (φ b)) :
    ∃ a, y = φ a := by
  obtain ⟨p, hp⟩ := reach_walk hr
  obtain ⟨a, _, ha⟩ := List.mem_map.mp (hd _ (walk_relabel φ g hp))
  exact ⟨a, ha.symm⟩

theorem strictlyDominates_relabel_iff (r a b : Nat) :
    StrictlyDominates (relabel φ g) (φ r) (φ a) (φ b) ↔ StrictlyDominates g r a b := by
  unfold StrictlyDominates
  rw [dominates_relabel_iff hφ]
  constructor
  · rintro ⟨h1, h2⟩; exact ⟨fun h => h1 (by rw [h]), h2⟩
  · rintro ⟨h1, h2⟩; exact ⟨fun h => h1 (hφ _ _ h), h2⟩

theorem isIdom_relabel_iff (r a b : Nat) :
    IsIdom (relabel φ g) (φ r) (φ a) (φ b) ↔ IsIdom g r a b := by
  unfold IsIdom
  rw [reach_relabel_iff g hφ, strictlyDominates_relabel_iff hφ]
  constructor
  · rintro ⟨h1, h2, h3⟩
    refine ⟨h1, h2, fun c hc => ?_⟩
    exact (dominates_relabel_iff hφ g r c a).mp (h3 (φ c) ((strictlyDominates_relabel_iff hφ g r c b).mpr hc))
  · rintro ⟨h1, h2, h3⟩
    refine ⟨h1, h2, fun c' hc' => ?_⟩
    obtain ⟨c, rfl⟩ := dominator_is_image g h1 hc'.2
    exact (dominates_relabel_iff hφ g r c a).mpr (h3 c ((strictlyDominates_relabel_iff hφ g r c b).mp hc'))

/-- the immediate dominator of an image (root an image) is an image -/
theorem isIdom_is_image {r b y : Nat} (h : IsIdom (relabel φ g) (φ r) y (φ b)) : ∃ a, y = φ a :=
  dominator_is_image g ((reach_relabel_iff g hφ).mp h.1) h.2.1.2

/-! ### removing a node, counting components -/

theorem removeNode_relabel (x : Nat) : (relabel φ g).removeNode (φ x) = relabel φ (g.removeNode x) := by
  have hne : ∀ a, decide (φ a ≠ φ x) = decide (a ≠ x) := by
    intro a
    by_cases h : a = x
    · subst h; simp
    · have : φ a ≠ φ x := fun h' => h (hφ _ _ h')
      simp [h, this]
  unfold removeNode relabel C13.relabel
  simp only [List.filter_map]
  congr 1
  · congr 1
    refine List.filter_congr ?_
    intro a _
    simpa [Function.comp] using hne a
  · congr 1
    refine List.filter_congr ?_
    intro e _
    have h1 := hne e.src
    have h2 := hne e.tgt
    simp only [Function.comp, ne_eq, decide_not] at h1 h2 ⊢
    by_cases ha : e.src = x <;> by_cases hb : e.tgt = x <;> simp_all

open Classical in
theorem countClasses_relabel : ∀ (rest earlier : List Nat),
    countClasses (relabel φ g) (earlier.map φ) (rest.map φ) = countClasses g earlier rest
  | [], _ => rfl
  | x :: rest, earlier => by
    have ih := countClasses_relabel rest (x :: earlier)
    simp only [List.map_cons] at ih ⊢
    unfold countClasses
    rw [ih]
    have hiff : (∃ y ∈ earlier.map φ, Reach (relabel φ g) y (φ x)) ↔ ∃ y ∈ earlier, Reach g y x := by
      constructor
      · rintro ⟨y', hy', hr⟩
        obtain ⟨y, hy, rfl⟩ := List.mem_map.mp hy'
        exact ⟨y, hy, (reach_relabel_iff g hφ).mp hr⟩
      · rintro ⟨y, hy, hr⟩
        exact ⟨φ y, List.mem_map.mpr ⟨y, hy, rfl⟩, reach_relabel φ g hr⟩
    by_cases hc : ∃ y ∈ earlier, Reach g y x
    · rw [if_pos hc, if_pos (hiff.mpr hc)]
    · rw [if_neg hc, if_neg (fun h => hc (hiff.mp h))]

theorem numComponents_relabel : numComponents (relabel φ g) = numComponents g := by
  unfold numComponents
  have := countClasses_relabel hφ g g.nodes []
  simpa using this

/-- **cut vertices are carried along by an injective relabeling** -/
theorem cutVertex_relabel_iff (x : Nat) : CutVertex (relabel φ g) (φ x) ↔ CutVertex g x := by
  unfold CutVertex
  rw [removeNode_relabel hφ, numComponents_relabel hφ, numComponents_relabel hφ, mem_relabel_nodes g hφ]

end

/-! ### cut vertices and the presentation (undirected graphs with distinct nodes) -/

theorem adj_removeNode {g : MGraph} {x a b : Nat} :
    (g.removeNode x).Adj a b ↔ g.Adj a b ∧ a ≠ x ∧ b ≠ x := by
  unfold MGraph.Adj removeNode
  simp only [List.mem_filter, decide_eq_true_eq]
  constructor
  · rintro ⟨e, ⟨he, h1, h2⟩, hor⟩
    refine ⟨⟨e, he, hor⟩, ?_⟩
    rcases hor with ⟨rfl, rfl⟩ | ⟨_, rfl, rfl⟩
    · exact ⟨h1, h2⟩
    · exact ⟨h2, h1⟩
  · rintro ⟨⟨e, he, hor⟩, ha, hb⟩
    refine ⟨e, ⟨he, ?_⟩, hor⟩
    rcases hor with ⟨rfl, rfl⟩ | ⟨_, rfl, rfl⟩
    · exact ⟨ha, hb⟩
    · exact ⟨hb, ha⟩

theorem SameAdj.removeNode {g1 g2 : MGraph} (h : SameAdj g1 g2) (x : Nat) :
    SameAdj (g1.removeNode x) (g2.removeNode x) := by
  intro a b
  rw [adj_removeNode, adj_removeNode, h a b]

theorem cutVertex_congr {g1 g2 : MGraph} (hu1 : g1.directed = false) (hu2 : g2.directed = false)
    (hn1 : g1.nodes.Nodup) (hn2 : g2.nodes.Nodup) (hn : SameNodes g1 g2) (h : SameAdj g1 g2) (x : Nat) :
    CutVertex g1 x ↔ CutVertex g2 x := by
  rw [cutVertex_iff_separates g1 hu1 hn1, cutVertex_iff_separates g2 hu2 hn2]
  have hr := h.removeNode x
  constructor
  · rintro ⟨hx, u, v, hu, hv, h1, h2, h3, h4⟩
    exact ⟨(hn x).mp hx, u, v, (hn u).mp hu, (hn v).mp hv, h1, h2, (reach_congr h).mp h3,
      fun hh => h4 ((reach_congr hr).mpr hh)⟩
  · rintro ⟨hx, u, v, hu, hv, h1, h2, h3, h4⟩
    exact ⟨(hn x).mpr hx, u, v, (hn u).mpr hu, (hn v).mpr hv, h1, h2, (reach_congr h).mpr h3,
      fun hh => h4 ((reach_congr hr).mp hh)⟩

/-- two duplicate-free lists with the same members are rearrangements of each other -/
theorem perm_of_nodup_mem {l1 l2 : List Nat} (h1 : l1.Nodup) (h2 : l2.Nodup) (h : ∀ x, x ∈ l1 ↔ x ∈ l2) :
    l1.Perm l2 := by
  induction l1 generalizing l2 with
  | nil =>
    cases l2 with
    | nil => exact List.Perm.nil
    | cons y r => exact absurd ((h y).mpr (List.mem_cons_self ..)) (by simp)
  | cons x r ih =>
    have hx : x ∈ l2 := (h x).mp (List.mem_cons_self ..)
    have hp := List.perm_cons_erase hx
    refine (List.Perm.cons x (ih (List.nodup_cons.mp h1).2 (h2.erase x) ?_)).trans hp.symm
    intro y
    rw [h2.mem_erase_iff]
    constructor
    · intro hy
      refine ⟨fun hyx => (List.nodup_cons.mp h1).1 (hyx ▸ hy), (h y).mp (List.mem_cons_of_mem _ hy)⟩
    · rintro ⟨hne, hy⟩
      rcases List.mem_cons.mp ((h y).mpr hy) with rfl | hy'
      · exact absurd rfl hne
      · exact hy'

end PetgraphModel.C07W2
