import PetgraphModel.Proofs.C08W3Sum
import PetgraphModel.Proofs.C08W2Dfsv
import PetgraphModel.Proofs.C09Kosaraju
/-
C09 (wave 3): totality of the mirror models of `Model/C09Algo.lean` that are built from the C08
walkers — `has_path_connecting`, `kosaraju_scc`, `toposort`, `is_cyclic_directed`, `condensation`.

The models carry the fixed fuel `C09M.fuel v = 4|E| + 2|V| + 16`.  `ViewOk` does not bound the length
of the neighbour lists of a view, so totality needs the length bound `SuccLe` / `PredLe` (the
neighbour lists of the nodes are no longer than those of the abstract graph); the theorems here are
stated with the two inequalities `walkFuel v ≤ fuel v`, `walkFuel (rev v) ≤ fuel v` that the bound
implies (`walkFuel_le_fuel`, `walkFuel_rev_le_fuel`).
-/
namespace PetgraphModel.C09P
open PetgraphModel PetgraphModel.MGraph PetgraphModel.C09M PetgraphModel.Trav

abbrev Closed := TravProofs.Closed
abbrev walkFuel := TravProofs.walkFuel

/-! ### the reversed view -/

theorem rev_nodes (v : View) : (rev v).g.nodes = v.g.nodes := rfl
theorem rev_succ (v : View) (a : Nat) : (rev v).succ a = v.pred a := rfl

theorem closed_of_viewOk {v : View} (hv : ViewOk v) (hwf : v.g.WellFormed) : Closed v :=
  TravProofs.succ_closed_of_wf hv hwf

theorem closed_rev {v : View} (hp : ∀ a b, b ∈ v.pred a ↔ v.g.Adj b a) (hwf : v.g.WellFormed) :
    Closed (rev v) := by
  intro u _ w hw
  have hw' : w ∈ v.pred u := hw
  obtain ⟨e, he, h⟩ := (hp u w).mp hw'
  show w ∈ v.g.nodes
  rcases h with ⟨h1, _⟩ | ⟨_, _, h2⟩
  · exact h1 ▸ (hwf.2 e he).1
  · exact h2 ▸ (hwf.2 e he).2

theorem walkFuel_le_fuel (v : View) (hwf : v.g.WellFormed) (hb : TravProofs.SuccLe v) :
    walkFuel v ≤ fuel v := by
  have := TravProofs.walkFuel_le_of_succLe v hwf hb
  simp only [fuel, walkFuel] at this ⊢
  omega

theorem walkFuel_rev_le_fuel (v : View) (hwf : v.g.WellFormed) (hb : TravProofs.PredLe v) :
    walkFuel (rev v) ≤ fuel v := by
  have h0 : TravProofs.wsum (rev v) [] v.g.nodes = (v.g.nodes.map fun a => (v.pred a).length + 1).sum :=
    TravProofs.wsum_nil_eq (rev v) v.g.nodes
  have h1 : (v.g.nodes.map fun a => (v.pred a).length + 1).sum ≤
      (v.g.nodes.map fun a => (v.g.pred a).length + 1).sum :=
    TravProofs.sum_map_le _ _ _ (fun a ha => by have := hb a ha; omega)
  have h2 := TravProofs.sum_map_add v.g.nodes (fun a => (v.g.pred a).length) (fun _ => 1)
  have h3 := TravProofs.sum_gpred_le v.g hwf.1
  have h4 := TravProofs.sum_map_const v.g.nodes 1
  simp only [walkFuel, TravProofs.walkFuel, fuel, rev_nodes]
  omega

theorem dfsFuel_le (v : View) : TravProofs.dfsFuel v + 1 ≤ walkFuel v := by
  simp only [TravProofs.dfsFuel, walkFuel, TravProofs.walkFuel]; omega

theorem nodes_le_fuel (v : View) : v.g.nodes.length + 1 ≤ fuel v := by
  simp only [fuel]; omega

/-! ### `drain` is the exhaustive run of the C08 statements -/

theorem drain_eq_dfsAll (w : View) (inner : Nat) : ∀ (k : Nat) (d : Dfs) (acc : List Nat),
    drain (dfsNext w inner) k d acc = TravProofs.dfsAll w inner k d acc := by
  intro k
  induction k with
  | zero => intro d acc; rfl
  | succ k ih =>
    intro d acc
    simp only [drain, TravProofs.dfsAll]
    cases h : dfsNext w inner d with
    | none => rfl
    | some p =>
      obtain ⟨r, d'⟩ := p
      cases r with
      | none => rfl
      | some x => exact ih d' _

theorem drain_eq_postAll (w : View) (inner : Nat) : ∀ (k : Nat) (d : Post) (acc : List Nat),
    drain (postNext w inner) k d acc = TravProofs.postAll w inner k d acc := by
  intro k
  induction k with
  | zero => intro d acc; rfl
  | succ k ih =>
    intro d acc
    simp only [drain, TravProofs.postAll]
    cases h : postNext w inner d with
    | none => rfl
    | some p =>
      obtain ⟨r, d'⟩ := p
      cases r with
      | none => rfl
      | some x => exact ih d' _

theorem foldlM_total {σ : Type} (f : σ → Nat → Option σ) (P : Nat → Prop)
    (hf : ∀ st i, P i → ∃ st', f st i = some st') :
    ∀ (l : List Nat), (∀ i, i ∈ l → P i) → ∀ st, ∃ st', l.foldlM f st = some st' := by
  intro l
  induction l with
  | nil => intro _ st; exact ⟨st, rfl⟩
  | cons a l ih =>
    intro hl st
    obtain ⟨st1, h1⟩ := hf st a (hl a (List.mem_cons_self ..))
    obtain ⟨st2, h2⟩ := ih (fun i hi => hl i (List.mem_cons_of_mem _ hi)) st1
    refine ⟨st2, ?_⟩
    rw [List.foldlM_cons, h1]
    exact h2

/-! ### has_path_connecting -/

theorem hasPathLoop_total (v : View) (hcl : Closed v) (inner to : Nat) : ∀ (k : Nat) (d : Dfs),
    (∀ x, x ∈ d.stack → x ∈ v.g.nodes) →
    d.stack.length + TravProofs.wsum v d.disc v.g.nodes + 1 ≤ inner →
    TravProofs.ucount d.disc v.g.nodes + 1 ≤ k →
    ∃ r, hasPathLoop v inner to k d = some r := by
  intro k
  induction k with
  | zero => intro d _ _ h; omega
  | succ k ih =>
    intro d hst hi hk
    obtain ⟨r, d', h1, h2, h3, h4, _⟩ := TravProofs.dfsNext_total v hcl inner d hst (by omega)
    rw [hasPathLoop, h1]
    cases r with
    | none => exact ⟨false, rfl⟩
    | some x =>
      have := h4 (by simp)
      by_cases hx : x = to
      · exact ⟨true, by simp [hx]⟩
      · obtain ⟨r, hr⟩ := ih d' h2 (by omega) (by omega)
        exact ⟨r, by simp [hx, hr]⟩

theorem hasPath_total (v : View) (hcl : Closed v) (hf : walkFuel v ≤ fuel v) (a b : Nat)
    (ha : a ∈ v.g.nodes) : ∃ r, hasPath v a b = some r := by
  unfold hasPath
  apply hasPathLoop_total v hcl
  · intro x hx; simp [Dfs.moveTo] at hx; exact hx ▸ ha
  · simp only [Dfs.moveTo, List.length_cons, List.length_nil, walkFuel, TravProofs.walkFuel] at hf ⊢
    omega
  · have := TravProofs.ucount_le_length [] v.g.nodes
    have := nodes_le_fuel v
    simp only [Dfs.moveTo]
    omega

/-! ### kosaraju_scc -/

theorem finishStep_total (v : View) (hclr : Closed (rev v)) (hf : walkFuel (rev v) ≤ 2 * fuel v)
    (st : Post × List Nat) (i : Nat) (hi : i ∈ v.g.nodes) : ∃ st', finishStep v st i = some st' := by
  unfold finishStep
  split
  · exact ⟨st, rfl⟩
  · obtain ⟨out, d', h⟩ := TravProofs.post_total (rev v) hclr i hi st.1.disc st.1.fin
      (2 * fuel v) (2 * fuel v + 4) hf (by have := nodes_le_fuel v; rw [rev_nodes]; omega) st.2
    rw [drain_eq_postAll]
    have h' : TravProofs.postAll (rev v) (2 * fuel v) (2 * fuel v + 4) (st.1.moveTo i) st.2 = some (out, d') := h
    rw [h']
    exact ⟨_, rfl⟩

theorem collectStep_total (v : View) (hcl : Closed v) (hf : walkFuel v ≤ fuel v)
    (st : Dfs × List (List Nat)) (i : Nat) (hi : i ∈ v.g.nodes) : ∃ st', collectStep v st i = some st' := by
  unfold collectStep
  split
  · exact ⟨st, rfl⟩
  · obtain ⟨out, d', h⟩ := TravProofs.dfs_total v hcl i hi st.1.disc
      (fuel v) (fuel v + 4) hf (by have := nodes_le_fuel v; omega) []
    rw [drain_eq_dfsAll]
    have h' : TravProofs.dfsAll v (fuel v) (fuel v + 4) (st.1.moveTo i) [] = some (out, d') := h
    rw [h']
    exact ⟨_, rfl⟩

theorem kosarajuFinish_total (v : View) (hclr : Closed (rev v)) (hf : walkFuel (rev v) ≤ 2 * fuel v) :
    ∃ L, kosarajuFinish v = some L := by
  obtain ⟨st, h⟩ := foldlM_total (finishStep v) (· ∈ v.g.nodes)
    (fun st i hi => finishStep_total v hclr hf st i hi) v.g.nodes (fun _ h => h) (({} : Post), [])
  exact ⟨st.2, by unfold kosarajuFinish; rw [h]; rfl⟩

theorem kosarajuCollect_total (v : View) (hcl : Closed v) (hf : walkFuel v ≤ fuel v) (L : List Nat)
    (hL : ∀ x, x ∈ L → x ∈ v.g.nodes) : ∃ sccs, kosarajuCollect v L = some sccs := by
  obtain ⟨st, h⟩ := foldlM_total (collectStep v) (· ∈ v.g.nodes)
    (fun st i hi => collectStep_total v hcl hf st i hi) L.reverse
    (fun i hi => hL i (List.mem_reverse.mp hi)) (({} : Dfs), [])
  exact ⟨st.2, by unfold kosarajuCollect; rw [h]; rfl⟩

theorem kosaraju_total (v : View) (hv : ViewOk v) (hp : ∀ a b, b ∈ v.pred a ↔ v.g.Adj b a)
    (hwf : v.g.WellFormed) (hf : walkFuel v ≤ fuel v) (hfr : walkFuel (rev v) ≤ 2 * fuel v) :
    ∃ sccs, kosaraju v = some sccs := by
  obtain ⟨L, hL⟩ := kosarajuFinish_total v (closed_rev hp hwf) hfr
  have hspec := kosarajuFinish_spec v hp hwf L hL
  obtain ⟨sccs, hs⟩ := kosarajuCollect_total v (closed_of_viewOk hv hwf) hf L
    (fun x hx => (hspec.cover x).mp hx)
  exact ⟨sccs, by unfold kosaraju; rw [hL]; exact hs⟩

theorem condensation_total (v : View) (hv : ViewOk v) (hp : ∀ a b, b ∈ v.pred a ↔ v.g.Adj b a)
    (hwf : v.g.WellFormed) (hf : walkFuel v ≤ fuel v) (hfr : walkFuel (rev v) ≤ 2 * fuel v)
    (eo : List Nat) (acyc : Bool) : ∃ c, condensation v eo acyc = some c := by
  obtain ⟨sccs, hs⟩ := kosaraju_total v hv hp hwf hf hfr
  exact ⟨_, by unfold condensation; rw [hs]⟩

/-! ### toposort -/

theorem topoWhile_total (v : View) (hcl : Closed v) : ∀ (f : Nat) (s : TS),
    (∀ x, x ∈ s.stack → x ∈ v.g.nodes) → (∀ x, x ∈ s.out → x ∈ v.g.nodes) →
    s.stack.length + TravProofs.wsum v s.disc v.g.nodes + 1 ≤ f →
    ∃ r, topoWhile v f s = some r ∧
      ∀ s', r = .ok s' → s'.stack = [] ∧ ∀ x, x ∈ s'.out → x ∈ v.g.nodes := by
  intro f
  induction f with
  | zero => intro s _ _ h; omega
  | succ f ih =>
    intro s hst hout hf
    rw [topoWhile]
    split
    · rename_i hs
      exact ⟨.ok s, rfl, fun s' h => by cases h; exact ⟨hs, hout⟩⟩
    · rename_i x st hs
      rw [hs] at hst hf
      simp only [List.length_cons] at hf
      have hxn : x ∈ v.g.nodes := hst x (List.mem_cons_self ..)
      split
      · rename_i hx
        have hx' : x ∉ s.disc := TravProofs.not_contains.mp hx
        split
        · exact ⟨.error x, rfl, fun s' h => by cases h⟩
        · have h1 := TravProofs.wsum_dec v hx' v.g.nodes hxn
          have h2 := TravProofs.filter_length_le (fun y => !(x :: s.disc).contains y) (v.succ x)
          exact ih
            { s with stack := ((v.succ x).filter (fun y => !(x :: s.disc).contains y)).reverse ++ (x :: st),
                     disc := x :: s.disc }
            (by
              intro y hy
              simp only [List.mem_append, List.mem_reverse, List.mem_filter] at hy
              rcases hy with ⟨hy, _⟩ | hy
              · exact hcl x hxn y hy
              · exact hst y hy)
            hout
            (by simp only [List.length_append, List.length_reverse, List.length_cons]; omega)
      · split
        · exact ih { s with stack := st, fin := x :: s.fin, out := s.out ++ [x] }
            (fun y hy => hst y (List.mem_cons_of_mem _ hy))
            (by
              intro y hy
              rcases List.mem_append.mp hy with hy | hy
              · exact hout y hy
              · simp at hy; exact hy ▸ hxn)
            (by simp only; omega)
        · exact ih { s with stack := st } (fun y hy => hst y (List.mem_cons_of_mem _ hy)) hout
            (by simp only; omega)

theorem topoFirst_total (v : View) (hcl : Closed v) (f : Nat)
    (hf : TravProofs.wsum v [] v.g.nodes + 2 ≤ f) : ∀ (l : List Nat) (s : TS),
    (∀ x, x ∈ l → x ∈ v.g.nodes) → s.stack = [] → (∀ x, x ∈ s.out → x ∈ v.g.nodes) →
    ∃ r, topoFirst v f l s = some r ∧ ∀ s', r = .ok s' → ∀ x, x ∈ s'.out → x ∈ v.g.nodes := by
  intro l
  induction l with
  | nil => intro s _ _ hout; exact ⟨.ok s, rfl, fun s' h => by cases h; exact hout⟩
  | cons i rest ih =>
    intro s hl hs hout
    have hrest : ∀ x, x ∈ rest → x ∈ v.g.nodes := fun x hx => hl x (List.mem_cons_of_mem _ hx)
    rw [topoFirst]
    split
    · exact ih s hrest hs hout
    · obtain ⟨r, hr, hr2⟩ := topoWhile_total v hcl f { s with stack := i :: s.stack }
        (by intro x hx; rw [hs] at hx; simp at hx; exact hx ▸ hl i (List.mem_cons_self ..))
        hout
        (by
          have := TravProofs.wsum_le_nil v s.disc v.g.nodes
          simp only [hs, List.length_cons, List.length_nil]
          omega)
      rw [hr]
      cases r with
      | error x => exact ⟨.error x, rfl, fun s' h => by cases h⟩
      | ok s1 =>
        obtain ⟨h1, h2⟩ := hr2 s1 rfl
        exact ih s1 hrest h1 h2

theorem topoSecond_total (v : View) (hclr : Closed (rev v)) (f : Nat)
    (hf : TravProofs.wsum (rev v) [] v.g.nodes + 2 ≤ f) : ∀ (l : List Nat) (d : Dfs),
    (∀ x, x ∈ l → x ∈ v.g.nodes) → ∃ r, topoSecond v f l d = some r := by
  intro l
  induction l with
  | nil => intro d _; exact ⟨none, rfl⟩
  | cons i rest ih =>
    intro d hl
    have hrest : ∀ x, x ∈ rest → x ∈ v.g.nodes := fun x hx => hl x (List.mem_cons_of_mem _ hx)
    have hin : i ∈ (rev v).g.nodes := hl i (List.mem_cons_self ..)
    obtain ⟨r1, d1, h1, h2, h3, _, _⟩ := TravProofs.dfsNext_total (rev v) hclr f (d.moveTo i)
      (by intro x hx; simp [Dfs.moveTo] at hx; exact hx ▸ hin)
      (by simp only [Dfs.moveTo, List.length_cons, List.length_nil]; omega)
    rw [topoSecond, h1]
    cases r1 with
    | none => exact ih d1 hrest
    | some x =>
      have hw := TravProofs.wsum_le_nil (rev v) d.disc v.g.nodes
      simp only [Dfs.moveTo, List.length_cons, List.length_nil, rev_nodes] at h3
      obtain ⟨r2, d2, g1, _, _, _, _⟩ := TravProofs.dfsNext_total (rev v) hclr f d1 h2 (by omega)
      simp only [g1]
      cases r2 with
      | none => exact ih d2 hrest
      | some j => exact ⟨some j, rfl⟩

theorem toposort_total (v : View) (hcl : Closed v) (hclr : Closed (rev v))
    (hf : walkFuel v ≤ 2 * fuel v) (hfr : walkFuel (rev v) ≤ 2 * fuel v) :
    ∃ r, toposort v = some r := by
  have hf1 : TravProofs.wsum v [] v.g.nodes + 2 ≤ 2 * fuel v := by
    simp only [walkFuel, TravProofs.walkFuel] at hf; omega
  have hf2 : TravProofs.wsum (rev v) [] v.g.nodes + 2 ≤ 2 * fuel v := by
    simp only [walkFuel, TravProofs.walkFuel, rev_nodes] at hfr; omega
  obtain ⟨r, hr, hr2⟩ := topoFirst_total v hcl (2 * fuel v) hf1 v.g.nodes {} (fun _ h => h) rfl
    (by intro x hx; cases hx)
  unfold toposort
  simp only [hr]
  cases r with
  | error x => exact ⟨_, rfl⟩
  | ok s =>
    obtain ⟨r2, h2⟩ := topoSecond_total v hclr (2 * fuel v) hf2 s.out.reverse {}
      (fun x hx => hr2 s rfl x (List.mem_reverse.mp hx))
    simp only [h2]
    cases r2 with
    | none => exact ⟨_, rfl⟩
    | some j => exact ⟨_, rfl⟩

/-! ### is_cyclic_directed -/

theorem cyclicDirected_total (v : View) (hcl : Closed v) (hf : TravProofs.dfsFuel v ≤ 4 * fuel v) :
    ∃ b, cyclicDirected v = some b := by
  unfold cyclicDirected
  cases h : dfsSearch v [] (4 * fuel v) v.g.nodes {} with
  | mk s r =>
    have hne := TravProofs.dfsSearch_no_fuel v [] (4 * fuel v) hcl v.g.nodes {} (fun _ h => h) hf
    rw [h] at hne
    cases r with
    | cont => exact ⟨_, rfl⟩
    | fuel => exact absurd rfl hne
    | brk =>
      obtain ⟨pre, e, _, hc⟩ := (TravProofs.dfsv_result_brk h).mp rfl
      simp [ctlAt] at hc
    | panicPruneFinish =>
      obtain ⟨pre, n, t, _, hc⟩ := (TravProofs.dfsv_result_panic h).mp rfl
      simp [ctlAt] at hc

end PetgraphModel.C09P
