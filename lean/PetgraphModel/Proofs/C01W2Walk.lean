import PetgraphModel.Proofs.C01W2Base
/-
C01, wave 2 — the raw chain accessors `first_edge` / `next_edge` and the detached walker
(`WalkNeighbors`, optionally bumping the weight of every listed edge) refine the specification:
`StepOK` for `.firstEdge`, `.nextEdge`, `.walk` under the stamp-carrying invariant `RInv`.
-/
namespace PetgraphModel.GProofs
open PetgraphModel PetgraphModel.G

/-! ### `first_edge` / `next_edge` -/

/-- the head of a chain: nothing iff the cursor is `END` -/
theorem IsList.head?_eq {edges : List Edge} {k : Bool} {endv h : Nat} {l : List Nat}
    (hsz : edges.length ≤ endv) (hl : IsList edges k endv h l) :
    l.head? = if h = endv then none else some h := by
  cases hl with
  | nil => simp
  | cons ed he _ =>
    have hlt := lt_of_getElem? he
    have hne : h ≠ endv := by omega
    simp [hne]

/-- the successor of a member `e` of a chain is `next[k]` of its slot (nothing iff that is `END`) -/
theorem IsList.spNext_eq {edges : List Edge} {k : Bool} {endv h : Nat} {l : List Nat}
    (hsz : edges.length ≤ endv) (hl : IsList edges k endv h l) {e : Nat} {ed : Edge}
    (he : e ∈ l) (hed : edges[e]? = some ed) :
    spNext l e = if ed.next k = endv then none else some (ed.next k) := by
  induction hl with
  | nil => cases he
  | @cons e' l' ed' he' htl ih =>
    by_cases hee : e' = e
    · subst hee
      rw [he'] at hed
      cases hed
      have : spNext (e' :: l') e' = l'.head? := by simp [spNext]
      rw [this]
      exact htl.head?_eq hsz
    · have hmem : e ∈ l' := by
        rcases List.mem_cons.mp he with h1 | h1
        · exact absurd h1.symm hee
        · exact h1
      have : spNext (e' :: l') e = spNext l' e := by simp [spNext, hee]
      rw [this]
      exact ih hmem

theorem stepOK_firstEdge {s : State} {st : Nat → Nat} {ck : Nat} (h : RInv s st ck) (a : Nat) (k : Bool) :
    StepOK s st ck (.firstEdge a k) := by
  refine ⟨st, ck, ?_, h⟩
  show SpecAccepts2 (absG s st ck) (.firstEdge a k) (.optNat (firstEdge s a k)) (absG s st ck)
  refine ⟨rfl, ?_⟩
  congr 1
  rw [absG_nodes_length]
  unfold firstEdge
  cases hnd : s.nodes[a]? with
  | none =>
    have hge : ¬ a < s.nodes.length := by
      intro hlt
      rw [List.getElem?_eq_getElem hlt] at hnd
      cases hnd
    simp [hge]
  | some nd =>
    have ha := lt_of_getElem? hnd
    obtain ⟨c, _, hm, _, hl⟩ := h.chain_select k a nd hnd
    simp only [ha, if_true]
    rw [← hm, hl.head?_eq h.inv.szE]

theorem stepOK_nextEdge {s : State} {st : Nat → Nat} {ck : Nat} (h : RInv s st ck) (e : Nat) (k : Bool) :
    StepOK s st ck (.nextEdge e k) := by
  refine ⟨st, ck, ?_, h⟩
  show SpecAccepts2 (absG s st ck) (.nextEdge e k) (.optNat (nextEdge s e k)) (absG s st ck)
  refine ⟨rfl, ?_⟩
  congr 1
  rw [absG_edges_length]
  unfold nextEdge
  cases hed : s.edges[e]? with
  | none =>
    have hge : ¬ e < s.edges.length := by
      intro hlt
      rw [List.getElem?_eq_getElem hlt] at hed
      cases hed
    simp [hge]
  | some ed =>
    have he := lt_of_getElem? hed
    simp only [he, if_true, edgeAt_absG hed]
    have hi : ed.node k < s.nodes.length := by
      have := h.inv.ends e ed hed
      cases k <;> simp [Edge.node] <;> omega
    have hnd := List.getElem?_eq_getElem hi
    obtain ⟨c, _, hm, _, hl⟩ := h.chain_select k (ed.node k) _ hnd
    have hmem : e ∈ c.map Prod.fst := by
      obtain ⟨adj, hl', _, hmm⟩ := h.inv.lists
      have := IsList.functional h.inv.szE (hl' k _ _ hnd) hl
      rw [← this]
      exact (hmm k _ e).mpr ⟨ed, hed, rfl⟩
    have hsp := hl.spNext_eq h.inv.szE hmem hed
    rw [hm] at hsp
    cases k with
    | true => simpa [absEdgeG, Edge.node] using hsp.symm
    | false => simpa [absEdgeG, Edge.node] using hsp.symm

/-! ### the detached walker -/

/-- the in-place `g[e] += 1` of `walkAll` -/
def bumpE (t : State) (e : Nat) : State :=
  match t.edges[e]? with
  | some ed => { t with edges := t.edges.set e { ed with weight := ed.weight + 1 } }
  | none => t

def bumpIf (bump : Bool) (t : State) (e : Nat) : State := if bump then bumpE t e else t

def srcAt (es : List Edge) (e : Nat) : Nat := (es[e]?.map Edge.src).getD 0
def tgtAt (es : List Edge) (e : Nat) : Nat := (es[e]?.map Edge.tgt).getD 0

/-- what a walker with cursor `(skip, n0, n1)` lists, `l0` / `l1` being the chains from `n0` / `n1` -/
def walkOut (es : List Edge) (skip : Nat) (l0 l1 : List Nat) : List (Nat × Nat) :=
  l0.map (fun e => (e, tgtAt es e)) ++
    (l1.filter (fun e => srcAt es e != skip)).map (fun e => (e, srcAt es e))

theorem walkAll_succ (bump : Bool) (f : Nat) (t : State) (wk : Walker) :
    walkAll bump (f + 1) t wk =
      match walkerNext t wk with
      | .error e => .error e
      | .ok (_, none) => .ok (t, [])
      | .ok (wk', some (e, n)) =>
        match walkAll bump f (bumpIf bump t e) wk' with
        | .error e => .error e
        | .ok (s'', l) => .ok (s'', (e, n) :: l) := by
  rw [walkAll]
  rfl

theorem bumpIf_endv (bump : Bool) (t : State) (e : Nat) : (bumpIf bump t e).endv = t.endv := by
  unfold bumpIf bumpE
  split
  · split <;> rfl
  · rfl

theorem bumpIf_get (bump : Bool) (t : State) (e : Nat) (x : Nat) (xd : Edge) (hx : t.edges[x]? = some xd) :
    ∃ xd', (bumpIf bump t e).edges[x]? = some xd' ∧ edgeLinks xd' = edgeLinks xd := by
  unfold bumpIf bumpE
  split
  · split
    · rename_i ed hed
      by_cases hxe : e = x
      · subst hxe
        rw [hed] at hx
        cases hx
        exact ⟨{ xd with weight := xd.weight + 1 }, by simp [lt_of_getElem? hed], rfl⟩
      · exact ⟨xd, by simp [hxe, hx], rfl⟩
    · exact ⟨xd, hx, rfl⟩
  · exact ⟨xd, hx, rfl⟩

theorem bumpIf_length (bump : Bool) (t : State) (e : Nat) : (bumpIf bump t e).edges.length = t.edges.length := by
  unfold bumpIf bumpE
  split
  · split <;> simp
  · rfl

theorem bumpIf_srcAt (bump : Bool) (t : State) (e : Nat) (x : Nat) :
    srcAt (bumpIf bump t e).edges x = srcAt t.edges x := by
  unfold srcAt
  cases hx : t.edges[x]? with
  | none =>
    have : (bumpIf bump t e).edges[x]? = none := by
      apply List.getElem?_eq_none
      rw [bumpIf_length]
      by_contra hc
      rw [List.getElem?_eq_getElem (by omega)] at hx
      cases hx
    rw [this]
  | some xd =>
    obtain ⟨xd', hx', hf⟩ := bumpIf_get bump t e x xd hx
    simp only [edgeLinks, Prod.mk.injEq] at hf
    rw [hx']
    simp [hf.2.2.1]

theorem bumpIf_tgtAt (bump : Bool) (t : State) (e : Nat) (x : Nat) :
    tgtAt (bumpIf bump t e).edges x = tgtAt t.edges x := by
  unfold tgtAt
  cases hx : t.edges[x]? with
  | none =>
    have : (bumpIf bump t e).edges[x]? = none := by
      apply List.getElem?_eq_none
      rw [bumpIf_length]
      by_contra hc
      rw [List.getElem?_eq_getElem (by omega)] at hx
      cases hx
    rw [this]
  | some xd =>
    obtain ⟨xd', hx', hf⟩ := bumpIf_get bump t e x xd hx
    simp only [edgeLinks, Prod.mk.injEq] at hf
    rw [hx']
    simp [hf.2.2.2]

theorem bumpIf_walkOut (bump : Bool) (t : State) (e : Nat) (skip : Nat) (l0 l1 : List Nat) :
    walkOut (bumpIf bump t e).edges skip l0 l1 = walkOut t.edges skip l0 l1 := by
  unfold walkOut
  simp only [bumpIf_srcAt, bumpIf_tgtAt]

theorem bumpIf_isList (bump : Bool) (t : State) (e : Nat) {k : Bool} {h : Nat} {l : List Nat}
    (hl : IsList t.edges k t.endv h l) : IsList (bumpIf bump t e).edges k (bumpIf bump t e).endv h l := by
  rw [bumpIf_endv]
  refine hl.congr ?_
  intro x xd _ hx
  obtain ⟨xd', hx', hf⟩ := bumpIf_get bump t e x xd hx
  refine ⟨xd', hx', ?_⟩
  simp only [edgeLinks, Prod.mk.injEq] at hf
  cases k <;> simp [Edge.next, hf.1, hf.2.1]

/-- one call of the `while let` over the incoming list: either the rest of the list is all
self-loops of `skip` (then `None`, cursor at `END`), or it stops at the first other edge -/
theorem walkIn_spec {edges : List Edge} {endv skip : Nat} (hsz : edges.length ≤ endv) :
    ∀ (fuel n1 : Nat) (l1 : List Nat), IsList edges true endv n1 l1 → l1.length < fuel →
      (l1.filter (fun e => srcAt edges e != skip) = [] ∧ walkIn edges skip fuel n1 = .ok (endv, none)) ∨
      (∃ e ed rest, edges[e]? = some ed ∧ IsList edges true endv ed.next1 rest ∧ rest.length < l1.length ∧
        l1.filter (fun e => srcAt edges e != skip) = e :: rest.filter (fun e => srcAt edges e != skip) ∧
        walkIn edges skip fuel n1 = .ok (ed.next1, some (e, ed.src))) := by
  intro fuel
  induction fuel with
  | zero => intro n1 l1 _ hlen; omega
  | succ f ih =>
    intro n1 l1 hl hlen
    cases hl with
    | nil =>
      left
      have : edges[endv]? = none := List.getElem?_eq_none hsz
      exact ⟨rfl, by simp [walkIn, this]⟩
    | @cons _ t ed he htl =>
      have hsrc : srcAt edges n1 = ed.src := by simp [srcAt, he]
      by_cases hs : ed.src = skip
      · have hfil : (n1 :: t).filter (fun e => srcAt edges e != skip) = t.filter (fun e => srcAt edges e != skip) := by
          simp [hsrc, hs]
        have hw : walkIn edges skip (f + 1) n1 = walkIn edges skip f ed.next1 := by
          simp [walkIn, he, hs]
        have htl' : IsList edges true endv ed.next1 t := by simpa [Edge.next] using htl
        rcases ih ed.next1 t htl' (by simp at hlen; omega) with ⟨h1, h2⟩ | ⟨e, ed', rest, h1, h2, h3, h4, h5⟩
        · left
          exact ⟨by rw [hfil, h1], by rw [hw, h2]⟩
        · right
          exact ⟨e, ed', rest, h1, h2, by simp; omega, by rw [hfil, h4], by rw [hw, h5]⟩
      · right
        refine ⟨n1, ed, t, he, by simpa [Edge.next] using htl, by simp, ?_, ?_⟩
        · simp [hsrc, hs]
        · simp [walkIn, he, hs]

/-- the walker run to exhaustion lists `walkOut`, and (when bumping) has bumped exactly the listed
edges, in order -/
theorem walkAll_spec (bump : Bool) (skip : Nat) :
    ∀ (f : Nat) (t : State) (n0 n1 : Nat) (l0 l1 : List Nat), t.edges.length ≤ t.endv →
      IsList t.edges false t.endv n0 l0 → IsList t.edges true t.endv n1 l1 → l1.length ≤ t.edges.length →
      l0.length + l1.length < f →
      walkAll bump f t ⟨skip, n0, n1⟩ =
        .ok ((walkOut t.edges skip l0 l1).foldl (fun g p => bumpIf bump g p.1) t, walkOut t.edges skip l0 l1) := by
  intro f
  induction f with
  | zero => intro t n0 n1 l0 l1 _ _ _ _ hlen; omega
  | succ f ih =>
    intro t n0 n1 l0 l1 hsz hl0 hl1 hlen1 hlen
    rw [walkAll_succ]
    cases hl0 with
    | @cons _ l0' ed he htl =>
      have hnext : walkerNext t ⟨skip, n0, n1⟩ = .ok (⟨skip, ed.next0, n1⟩, some (n0, ed.tgt)) := by
        simp [walkerNext, he]
      rw [hnext]
      dsimp only
      have htl' : IsList t.edges false t.endv ed.next0 l0' := by simpa [Edge.next] using htl
      have hrec := ih (bumpIf bump t n0) ed.next0 n1 l0' l1
        (by rw [bumpIf_length, bumpIf_endv]; exact hsz)
        (bumpIf_isList bump t n0 htl') (bumpIf_isList bump t n0 hl1)
        (by rw [bumpIf_length]; exact hlen1) (by simp at hlen; omega)
      rw [hrec, bumpIf_walkOut]
      have htgt : tgtAt t.edges n0 = ed.tgt := by simp [tgtAt, he]
      simp [walkOut, htgt]
    | nil =>
      have hnone : t.edges[t.endv]? = none := List.getElem?_eq_none hsz
      rcases walkIn_spec (skip := skip) hsz t.fuel n1 l1 hl1 (by simp [State.fuel]; omega) with
        ⟨h1, h2⟩ | ⟨e, ed, rest, h1, h2, h3, h4, h5⟩
      · have hnext : walkerNext t ⟨skip, t.endv, n1⟩ = .ok (⟨skip, t.endv, t.endv⟩, none) := by
          simp [walkerNext, hnone, h2]
        rw [hnext]
        simp [walkOut, h1]
      · have hnext : walkerNext t ⟨skip, t.endv, n1⟩ = .ok (⟨skip, t.endv, ed.next1⟩, some (e, ed.src)) := by
          simp [walkerNext, hnone, h5]
        rw [hnext]
        dsimp only
        have hnil : IsList (bumpIf bump t e).edges false (bumpIf bump t e).endv t.endv [] := by
          rw [bumpIf_endv]; exact IsList.nil
        have hrec := ih (bumpIf bump t e) t.endv ed.next1 [] rest
          (by rw [bumpIf_length, bumpIf_endv]; exact hsz)
          hnil (bumpIf_isList bump t e h2)
          (by rw [bumpIf_length]; omega) (by simp at hlen ⊢; omega)
        rw [hrec, bumpIf_walkOut]
        have hsrc : srcAt t.edges e = ed.src := by simp [srcAt, h1]
        simp [walkOut, h4, hsrc]

/-! ### the abstraction of the bumped state -/

theorem absG_bumpE (t : State) (st : Nat → Nat) (ck : Nat) (i : Nat) :
    absG (bumpE t i) st ck = CGS.bumpEdge (absG t st ck) i := by
  unfold bumpE CGS.bumpEdge
  rw [absG_edges_get]
  cases hed : t.edges[i]? with
  | none => rfl
  | some ed =>
    simp only [Option.map_some]
    symm
    apply eq_absG_of rfl rfl rfl _ rfl
    intro x
    simp only [List.getElem?_set, absG_edges_length]
    have hlt := lt_of_getElem? hed
    by_cases hix : i = x
    · subst hix
      simp [hlt, absEdgeG]
    · simp [hix, absG_edges_get]

theorem absG_foldl_bumpIf (bump : Bool) (st : Nat → Nat) (ck : Nat) :
    ∀ (l : List (Nat × Nat)) (t : State),
      absG (l.foldl (fun g p => bumpIf bump g p.1) t) st ck =
        (if bump then l.foldl (fun g p => CGS.bumpEdge g p.1) (absG t st ck) else absG t st ck) := by
  intro l
  induction l with
  | nil => intro t; cases bump <;> rfl
  | cons p l ih =>
    intro t
    rw [List.foldl_cons, ih]
    cases bump with
    | false => rfl
    | true =>
      simp only [if_true, List.foldl_cons]
      rw [show bumpIf true t p.1 = bumpE t p.1 from rfl, absG_bumpE]

/-! ### the listed pairs are the specification's `nbr` -/

theorem edgeAt_absG_tgt (s : State) (st : Nat → Nat) (ck : Nat) (e : Nat) :
    (CGS.edgeAt (absG s st ck) e).tgt = tgtAt s.edges e := by
  simp only [CGS.edgeAt, absG_edges_get, tgtAt]
  cases s.edges[e]? <;> simp [absEdgeG]

theorem edgeAt_absG_src (s : State) (st : Nat → Nat) (ck : Nat) (e : Nat) :
    (CGS.edgeAt (absG s st ck) e).src = srcAt s.edges e := by
  simp only [CGS.edgeAt, absG_edges_get, srcAt]
  cases s.edges[e]? <;> simp [absEdgeG]

/-- the chain of a live node: the specification's selection, an `IsList`, short, only incident edges -/
theorem RInv.node_list {s : State} {st : Nat → Nat} {ck : Nat} (h : RInv s st ck) (k : Bool) {a : Nat} {nd : Node}
    (hnd : s.nodes[a]? = some nd) :
    ∃ l, IsList s.edges k s.endv (nd.next k) l ∧
      l = (if k then CGS.inEdges (absG s st ck) a else CGS.outEdges (absG s st ck) a) ∧
      l.length ≤ s.edges.length ∧ (∀ e ∈ l, ∃ ed, s.edges[e]? = some ed ∧ ed.node k = a) := by
  obtain ⟨c, _, hm, _, hl⟩ := h.chain_select k a nd hnd
  obtain ⟨adj, hl', hn, hmm⟩ := h.inv.lists
  have hfun := IsList.functional h.inv.szE (hl' k a nd hnd) hl
  refine ⟨c.map Prod.fst, hl, hm, ?_, ?_⟩
  · rw [← hfun]
    exact nodup_length_le (hn k a) (fun e he => by
      obtain ⟨ed, hed, _⟩ := (hmm k a e).mp he; exact lt_of_getElem? hed)
  · intro e he
    rw [← hfun] at he
    exact (hmm k a e).mp he

theorem walk_result {s : State} {st : Nat → Nat} {ck : Nat} (h : RInv s st ck) (a mode : Nat) (bump : Bool) :
    ∃ l, walkAll bump (2 * s.fuel + 1) s (walkerNew s a mode) =
        .ok (l.foldl (fun g p => bumpIf bump g p.1) s, l) ∧
      l = CGS.nbr (absG s st ck) a (normMode mode) := by
  by_cases ha : s.nodes.length ≤ a
  · refine ⟨[], h.inv.walk_absent mode bump ha, ?_⟩
    simp [CGS.nbr, absG_nodes_length, ha]
  · have ha' : a < s.nodes.length := by omega
    have hnd := List.getElem?_eq_getElem ha'
    have hh : heads s a = (s.nodes[a].next0, s.nodes[a].next1) := by simp [heads, hnd]
    obtain ⟨l0, hl0, he0, hlen0, _⟩ := h.node_list false hnd
    obtain ⟨l1, hl1, he1, hlen1, hinc1⟩ := h.node_list true hnd
    simp only [Node.next, Bool.false_eq_true, if_false] at hl0 he0
    simp only [Node.next, if_true] at hl1 he1
    have hge : ¬ a ≥ (absG s st ck).nodes.length := by rw [absG_nodes_length]; omega
    have hdir : (absG s st ck).directed = s.directed := rfl
    have hsz := h.inv.szE
    have hboth : walkOut s.edges a l0 l1 =
        ((CGS.outEdges (absG s st ck) a).map fun e => (e, (CGS.edgeAt (absG s st ck) e).tgt)) ++
          (((CGS.inEdges (absG s st ck) a).map fun e => (e, (CGS.edgeAt (absG s st ck) e).src)).filter
            fun p => p.2 != a) := by
      simp only [walkOut, edgeAt_absG_tgt, edgeAt_absG_src, ← he0, ← he1, List.filter_map]
      rfl
    unfold walkerNew
    simp only [hh]
    by_cases hb : (decide (mode = 2) || !s.directed) = true
    · rw [if_pos hb]
      refine ⟨walkOut s.edges a l0 l1, ?_, ?_⟩
      · exact walkAll_spec bump a _ s _ _ l0 l1 hsz hl0 hl1 hlen1 (by simp [State.fuel]; omega)
      · rw [hboth]
        simp only [CGS.nbr, hge, if_false, hdir]
        cases hd : s.directed with
        | false => simp
        | true =>
          have hm2 : mode = 2 := by simpa [hd] using hb
          simp [hm2, normMode]
    · rw [if_neg hb]
      have hd : s.directed = true := by
        cases hd : s.directed with
        | true => rfl
        | false => simp [hd] at hb
      have hm2 : mode ≠ 2 := by
        intro hm; simp [hm] at hb
      by_cases hm1 : mode = 1
      · rw [if_pos hm1]
        refine ⟨walkOut s.edges s.endv [] l1, ?_, ?_⟩
        · exact walkAll_spec bump s.endv _ s _ _ [] l1 hsz IsList.nil hl1 hlen1 (by simp [State.fuel]; omega)
        · have hfil : l1.filter (fun e => srcAt s.edges e != s.endv) = l1 := by
            apply List.filter_eq_self.mpr
            intro e he
            obtain ⟨ed, hed, _⟩ := hinc1 e he
            have := (h.inv.src_ne_end hed).1
            simpa [srcAt, hed] using this
          simp only [walkOut, List.map_nil, List.nil_append, hfil]
          simp only [CGS.nbr, hge, if_false, hdir, hd, if_true, hm1, normMode]
          simp [he1, edgeAt_absG_src]
      · rw [if_neg hm1]
        refine ⟨walkOut s.edges s.endv l0 [], ?_, ?_⟩
        · exact walkAll_spec bump s.endv _ s _ _ l0 [] hsz hl0 IsList.nil (by simp) (by simp [State.fuel]; omega)
        · simp only [walkOut, List.filter_nil, List.map_nil, List.append_nil]
          simp only [CGS.nbr, hge, if_false, hdir, hd, if_true, normMode, hm2, hm1]
          simp [he0, edgeAt_absG_tgt]

theorem stepOK_walk {s : State} {st : Nat → Nat} {ck : Nat} (h : RInv s st ck) (a mode : Nat) (bump : Bool) :
    StepOK s st ck (.walk a mode bump) := by
  obtain ⟨l, hw, hl⟩ := walk_result h a mode bump
  have hstep : step s (.walk a mode bump) = (l.foldl (fun g p => bumpIf bump g p.1) s, .pairs l) := by
    simp only [step, hw, liftF]
  refine ⟨st, ck, ?_, ?_⟩
  · rw [hstep]
    show ∃ l', Out.pairs l = .pairs l' ∧ _ ∧ _
    refine ⟨l, rfl, ListAcc.of_eq _ hl, ?_⟩
    rw [absG_foldl_bumpIf, hl]
  · rw [hstep]
    exact rinv_of_sameLinks h (sameLinks_walkAll bump _ _ _ _ _ hw)

end PetgraphModel.GProofs
