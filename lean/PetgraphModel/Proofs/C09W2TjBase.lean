import PetgraphModel.Proofs.C09Cond
/-
`TarjanScc` (Pearce's variant, rootindex / componentcount encoding), part 1: the state invariant.

Ghost data of the invariant: `num` (the value of `index` when a node was entered) and `G` (the nodes
whose `visit` is in progress, innermost first).  Active nodes = `G ++ t.stack`; done nodes =
`t.out.flatten`.  `i0`/`c0` = the values of `index`/`componentcount` at the start of the run.
Core Lean only.
-/
namespace PetgraphModel.C09P
open PetgraphModel PetgraphModel.MGraph PetgraphModel.C09J PetgraphModel.C09M PetgraphModel.Trav

/-! ### list helpers -/

theorem takeWhile_boundary {α : Type} (p : α → Bool) (l1 l2 : List α) (h1 : ∀ a ∈ l1, p a = true)
    (h2 : ∀ a, l2.head? = some a → p a = false) : (l1 ++ l2).takeWhile p = l1 := by
  rw [List.takeWhile_append_of_pos h1]
  cases l2 with
  | nil => simp
  | cons a l2 =>
    have := h2 a rfl
    simp [this]

theorem length_le_flatten : ∀ (L : List (List Nat)), (∀ c ∈ L, c ≠ []) → L.length ≤ L.flatten.length := by
  intro L
  induction L with
  | nil => intro _; simp
  | cons c L ih =>
    intro h
    have hc : c ≠ [] := h c (List.mem_cons_self ..)
    have hl : 0 < c.length := List.length_pos_iff.mpr hc
    have := ih fun c' hc' => h c' (List.mem_cons_of_mem _ hc')
    simp only [List.flatten_cons, List.length_append, List.length_cons]
    omega

theorem mem_flatten_of_getElem? {L : List (List Nat)} {j : Nat} {c : List Nat} (h : L[j]? = some c) {y : Nat}
    (hy : y ∈ c) : y ∈ L.flatten :=
  List.mem_flatten.mpr ⟨c, List.mem_of_getElem? h, hy⟩

theorem exists_getElem?_of_mem_flatten {L : List (List Nat)} {y : Nat} (h : y ∈ L.flatten) :
    ∃ (j : Nat) (c : List Nat), L[j]? = some c ∧ y ∈ c := by
  obtain ⟨c, hc, hy⟩ := List.mem_flatten.mp h
  obtain ⟨j, hj⟩ := List.getElem?_of_mem hc
  exact ⟨j, c, hj, hy⟩

/-- a set closed under `Adj` is closed under `Reach` -/
theorem reach_closed {g : MGraph} {S : Nat → Prop} (hS : ∀ y, S y → ∀ w, g.Adj y w → S w) {a b : Nat}
    (h : Reach g a b) (ha : S a) : S b := by
  induction h with
  | refl => exact ha
  | step _ hadj ih => exact hS _ ih _ hadj

theorem adj_mem_nodes {g : MGraph} (hwf : g.WellFormed) {a b : Nat} (h : g.Adj a b) : a ∈ g.nodes ∧ b ∈ g.nodes := by
  obtain ⟨e, he, hc⟩ := h
  rcases hc with ⟨h1, h2⟩ | ⟨_, h1, h2⟩
  · exact ⟨h1 ▸ (hwf.2 e he).1, h2 ▸ (hwf.2 e he).2⟩
  · exact ⟨h2 ▸ (hwf.2 e he).2, h1 ▸ (hwf.2 e he).1⟩

/-! ### `rootindex` reads and writes -/

/-- `to_index` is injective on the nodes -/
def IxInj (v : View) : Prop := ∀ a ∈ v.g.nodes, ∀ b ∈ v.g.nodes, v.toIndex a = v.toIndex b → a = b

@[simp] theorem TJ.set_index (t : TJ) (v : View) (x : Nat) (r : Option Nat) : (t.set v x r).index = t.index := by
  cases r <;> rfl
@[simp] theorem TJ.set_cc (t : TJ) (v : View) (x : Nat) (r : Option Nat) : (t.set v x r).cc = t.cc := by
  cases r <;> rfl
@[simp] theorem TJ.set_stack (t : TJ) (v : View) (x : Nat) (r : Option Nat) : (t.set v x r).stack = t.stack := by
  cases r <;> rfl
@[simp] theorem TJ.set_out' (t : TJ) (v : View) (x : Nat) (r : Option Nat) : (t.set v x r).out = t.out := by
  cases r <;> rfl

theorem TJ.get_set {v : View} (hinj : IxInj v) {x y : Nat} (hx : x ∈ v.g.nodes) (hy : y ∈ v.g.nodes)
    (t : TJ) (r : Nat) : (t.set v x (some r)).get v y = if y = x then some r else t.get v y := by
  unfold TJ.get TJ.set
  simp only [List.lookup_cons]
  by_cases hyx : y = x
  · subst hyx; simp
  · have : (v.toIndex y == v.toIndex x) = false := by
      simp only [beq_eq_false_iff_ne, ne_eq]
      exact fun h => hyx (hinj y hy x hx h)
    simp [hyx, this]

theorem TJ.get_set_self {v : View} (x : Nat) (t : TJ) (r : Nat) : (t.set v x (some r)).get v x = some r := by
  unfold TJ.get TJ.set
  simp

theorem TJ.get_set_ne {v : View} (hinj : IxInj v) {x y : Nat} (hx : x ∈ v.g.nodes) (hy : y ∈ v.g.nodes)
    (hne : y ≠ x) (t : TJ) (r : Nat) : (t.set v x (some r)).get v y = t.get v y := by
  rw [TJ.get_set hinj hx hy, if_neg hne]

/-- the `rootindex := componentcount` assignments of a popped component -/
theorem foldl_setcc {v : View} (hinj : IxInj v) : ∀ (l : List Nat) (t : TJ), (∀ a ∈ l, a ∈ v.g.nodes) →
    let t' := l.foldl (fun (t : TJ) w => t.set v w (some t.cc)) t
    t'.index = t.index ∧ t'.cc = t.cc ∧ t'.stack = t.stack ∧ t'.out = t.out ∧
    ∀ y ∈ v.g.nodes, t'.get v y = if y ∈ l then some t.cc else t.get v y := by
  intro l
  induction l with
  | nil => intro t _; simp
  | cons a l ih =>
    intro t hl
    have ha : a ∈ v.g.nodes := hl a (List.mem_cons_self ..)
    obtain ⟨h1, h2, h3, h4, h5⟩ := ih (t.set v a (some t.cc)) fun b hb => hl b (List.mem_cons_of_mem _ hb)
    simp only [List.foldl_cons]
    refine ⟨by rw [h1]; simp, by rw [h2]; simp, by rw [h3]; simp, by rw [h4]; simp, ?_⟩
    intro y hy
    rw [h5 y hy, TJ.set_cc, TJ.get_set hinj ha hy]
    by_cases hyl : y ∈ l
    · simp [hyl]
    · by_cases hya : y = a
      · simp [hya]
      · simp [hyl, hya]

/-! ### the invariant -/

structure TjInv (v : View) (i0 c0 : Nat) (num : Nat → Nat) (G : List Nat) (t : TJ) : Prop where
  nd : (G ++ t.stack ++ t.out.flatten).Nodup
  sub : ∀ y ∈ G ++ t.stack ++ t.out.flatten, y ∈ v.g.nodes
  vis : ∀ y ∈ v.g.nodes, (t.get v y).isSome → y ∈ G ++ t.stack ++ t.out.flatten
  idx : t.index = i0 + G.length + t.stack.length
  ccv : t.cc + t.out.length = c0
  ne : ∀ c ∈ t.out, c ≠ []
  /-- `rootindex` of a finished component = its `componentcount` -/
  doneRoot : ∀ j c, t.out[j]? = some c → ∀ y ∈ c, t.get v y = some (c0 - j)
  /-- `rootindex` of an active node is the entry number of an active node it reaches, not younger -/
  actRoot : ∀ y ∈ G ++ t.stack, ∃ z ∈ G ++ t.stack, t.get v y = some (num z) ∧ num z ≤ num y ∧ Reach v.g y z
  numLt : ∀ y ∈ G ++ t.stack, num y < t.index
  /-- a node on the stack is not a local root -/
  stackLt : ∀ y ∈ t.stack, ∀ r, t.get v y = some r → r < num y
  closed : ∀ y ∈ t.out.flatten, ∀ w, v.g.Adj y w → w ∈ t.out.flatten
  /-- the low-link invariant: every edge of a node on the stack goes to a finished component or to an
  active node that is not older than the `rootindex` -/
  stackEdges : ∀ y ∈ t.stack, ∀ w, v.g.Adj y w →
    w ∈ t.out.flatten ∨ (w ∈ G ++ t.stack ∧ ∀ r, t.get v y = some r → r ≤ num w)
  classes : ∀ c ∈ t.out, ∀ x ∈ c, ∀ y, y ∈ c ↔ SC v.g x y
  order : t.out.Pairwise fun ci cj => ∀ x ∈ ci, ∀ y ∈ cj, ¬ Reach v.g x y

variable {v : View} {i0 c0 : Nat} {num : Nat → Nat} {G : List Nat} {t : TJ}

theorem TjInv.get_act (inv : TjInv v i0 c0 num G t) {y : Nat} (hy : y ∈ G ++ t.stack) :
    ∃ r, t.get v y = some r ∧ r ≤ num y ∧ r < t.index := by
  obtain ⟨z, _, h1, h2, _⟩ := inv.actRoot y hy
  exact ⟨num z, h1, h2, Nat.lt_of_le_of_lt h2 (inv.numLt y hy)⟩

theorem TjInv.get_done (inv : TjInv v i0 c0 num G t) {y : Nat} (hy : y ∈ t.out.flatten) :
    ∃ j, j < t.out.length ∧ t.get v y = some (c0 - j) := by
  obtain ⟨j, c, hj, hyc⟩ := exists_getElem?_of_mem_flatten hy
  have hlt : j < t.out.length := by
    have := List.getElem?_eq_some_iff.mp hj
    exact this.1
  exact ⟨j, hlt, inv.doneRoot j c hj y hyc⟩

theorem TjInv.get_isSome (inv : TjInv v i0 c0 num G t) {y : Nat} (hy : y ∈ G ++ t.stack ++ t.out.flatten) :
    (t.get v y).isSome = true := by
  cases List.mem_append.mp hy with
  | inl h =>
    obtain ⟨r, hr, _⟩ := inv.get_act h
    rw [hr]; rfl
  | inr h =>
    obtain ⟨j, _, hr⟩ := inv.get_done h
    rw [hr]; rfl

theorem TjInv.fresh (inv : TjInv v i0 c0 num G t) {x : Nat} (hx : t.get v x = none) :
    x ∉ G ++ t.stack ++ t.out.flatten := by
  intro h
  have := inv.get_isSome h
  rw [hx] at this
  cases this

/-- the `index < componentcount` bound -/
theorem TjInv.bound (inv : TjInv v i0 c0 num G t) (hB : i0 + v.g.nodes.length ≤ c0) :
    t.index + t.out.length ≤ c0 := by
  have h1 := List.Nodup.length_le_of_subset inv.nd (fun a ha => inv.sub a ha)
  have h2 := length_le_flatten t.out inv.ne
  have h3 := inv.idx
  simp only [List.length_append] at h1
  omega

theorem TjInv.closedReach (inv : TjInv v i0 c0 num G t) {a b : Nat} (h : Reach v.g a b)
    (ha : a ∈ t.out.flatten) : b ∈ t.out.flatten :=
  reach_closed (S := fun y => y ∈ t.out.flatten) inv.closed h ha

/-- a finished component's `rootindex` is above every active one -/
theorem TjInv.done_gt_act (inv : TjInv v i0 c0 num G t) (hB : i0 + v.g.nodes.length ≤ c0) {y w : Nat}
    (hy : y ∈ G ++ t.stack) (hw : w ∈ t.out.flatten) :
    ∃ ry rw, t.get v y = some ry ∧ t.get v w = some rw ∧ ry < rw := by
  obtain ⟨ry, h1, _, h3⟩ := inv.get_act hy
  obtain ⟨j, hj, h4⟩ := inv.get_done hw
  have := inv.bound hB
  exact ⟨ry, c0 - j, h1, h4, by omega⟩

/-- with no `visit` in progress the stack is empty -/
theorem TjInv.stack_nil (inv : TjInv v i0 c0 num [] t) : t.stack = [] := by
  have key : ∀ n, ∀ s ∈ t.stack, num s ≠ n := by
    intro n
    induction n using Nat.strongRecOn with
    | _ n ih =>
      intro s hs hn
      obtain ⟨z, hz, h1, _, _⟩ := inv.actRoot s (by simpa using hs)
      have hz' : z ∈ t.stack := by simpa using hz
      have := inv.stackLt s hs _ h1
      exact ih (num z) (by omega) z hz' rfl
  cases hst : t.stack with
  | nil => rfl
  | cons s st =>
    exact absurd rfl (key (num s) s (by rw [hst]; exact List.mem_cons_self ..))

end PetgraphModel.C09P
