import PetgraphModel.Oracle.C09Adapt
import PetgraphModel.Proofs.C09W3Driver
import PetgraphModel.Proofs.C09Kosaraju
/-
C09 (wave 6): graph adaptors.

* `SameShape g g'` — the same direction flag, the same edge list, the same nodes (as a set): every clause
  of C09 means the same on both (`sameShape_*`).  `adaptOkB_sound`: the run-time check of an adaptor case
  gives `SameShape (applyAds base ads) g` — the graph the answers are judged against IS the graph the
  adaptor chain presents over the base.
* `AdjEq g g'` — the same nodes and the same adjacency relation: every clause of C09 that does not count
  edges (everything but `CyclicU` and the condensation's edge multiset) means the same on both
  (`adjEq_*`).  `undAdaptor_adjEq`: what `UndirectedAdaptor::neighbors` lists (every self-loop resp. every
  edge twice) has the adjacency of `g.undirect`.
* what the other adaptors mean: `adj_filterEdges`, `adj_induced`, `reach_induced`, `adj_reverse`.
* ids that are not nodes: `reach_stale_left`, `reach_stale_right`.
-/
namespace PetgraphModel.C09P
open PetgraphModel PetgraphModel.MGraph PetgraphModel.C09J PetgraphModel.Oracle

/-! ### the same nodes and the same adjacency -/

structure AdjEq (g g' : MGraph) : Prop where
  nodes : ∀ x, x ∈ g.nodes ↔ x ∈ g'.nodes
  adj : ∀ a b, g.Adj a b ↔ g'.Adj a b

theorem AdjEq.refl (g : MGraph) : AdjEq g g := ⟨fun _ => Iff.rfl, fun _ _ => Iff.rfl⟩
theorem AdjEq.symm {g g' : MGraph} (h : AdjEq g g') : AdjEq g' g :=
  ⟨fun x => (h.nodes x).symm, fun a b => (h.adj a b).symm⟩
theorem AdjEq.trans {g g' g'' : MGraph} (h : AdjEq g g') (h' : AdjEq g' g'') : AdjEq g g'' :=
  ⟨fun x => (h.nodes x).trans (h'.nodes x), fun a b => (h.adj a b).trans (h'.adj a b)⟩

theorem adjEq_reach_mp {g g' : MGraph} (h : AdjEq g g') {a b : Nat} (r : Reach g a b) : Reach g' a b := by
  induction r with
  | refl => exact Reach.refl _
  | step _ hadj ih => exact Reach.step ih ((h.adj _ _).mp hadj)

theorem adjEq_reach {g g' : MGraph} (h : AdjEq g g') (a b : Nat) : Reach g a b ↔ Reach g' a b :=
  ⟨adjEq_reach_mp h, adjEq_reach_mp h.symm⟩

theorem adjEq_reach1_mp {g g' : MGraph} (h : AdjEq g g') {a b : Nat} (r : Reach1 g a b) : Reach1 g' a b := by
  induction r with
  | single hadj => exact Reach1.single ((h.adj _ _).mp hadj)
  | step _ hadj ih => exact Reach1.step ih ((h.adj _ _).mp hadj)

theorem adjEq_reach1 {g g' : MGraph} (h : AdjEq g g') (a b : Nat) : Reach1 g a b ↔ Reach1 g' a b :=
  ⟨adjEq_reach1_mp h, adjEq_reach1_mp h.symm⟩

theorem adjEq_sc {g g' : MGraph} (h : AdjEq g g') (a b : Nat) : SC g a b ↔ SC g' a b := by
  unfold SC; rw [adjEq_reach h, adjEq_reach h]

theorem adjEq_scc_mp {g g' : MGraph} (h : AdjEq g g') {comps : List (List Nat)} (s : SccSpec g comps) :
    SccSpec g' comps where
  nonempty := s.nonempty
  nodup := s.nodup
  cover := fun x => (s.cover x).trans (h.nodes x)
  classes := fun c hc x hx y => (s.classes c hc x hx y).trans (adjEq_sc h x y)
  order := s.order.imp fun hp x hx y hy r => hp x hx y hy ((adjEq_reach h x y).mpr r)

theorem adjEq_scc {g g' : MGraph} (h : AdjEq g g') (comps : List (List Nat)) : SccSpec g comps ↔ SccSpec g' comps :=
  ⟨adjEq_scc_mp h, adjEq_scc_mp h.symm⟩

theorem adjEq_cyclicD {g g' : MGraph} (h : AdjEq g g') : CyclicD g ↔ CyclicD g' := by
  unfold CyclicD
  exact ⟨fun ⟨x, hx⟩ => ⟨x, (adjEq_reach1 h x x).mp hx⟩, fun ⟨x, hx⟩ => ⟨x, (adjEq_reach1 h x x).mpr hx⟩⟩

theorem adjEq_twoCol {g g' : MGraph} (h : AdjEq g g') (s : Nat) : TwoCol g s ↔ TwoCol g' s := by
  unfold TwoCol
  constructor
  · rintro ⟨col, hc⟩
    exact ⟨col, fun x y hr ha => hc x y ((adjEq_reach h s x).mpr hr) ((h.adj x y).mpr ha)⟩
  · rintro ⟨col, hc⟩
    exact ⟨col, fun x y hr ha => hc x y ((adjEq_reach h s x).mp hr) ((h.adj x y).mp ha)⟩

theorem adjEq_topo_mp {g g' : MGraph} (h : AdjEq g g') {ord : List Nat} (t : TopoOrder g ord) : TopoOrder g' ord where
  nodup := t.nodup
  cover := fun x => (t.cover x).trans (h.nodes x)
  forward := fun a b hab => t.forward a b ((h.adj a b).mpr hab)

theorem adjEq_topo {g g' : MGraph} (h : AdjEq g g') (ord : List Nat) : TopoOrder g ord ↔ TopoOrder g' ord :=
  ⟨adjEq_topo_mp h, adjEq_topo_mp h.symm⟩

/-- adjacency with direction ignored -/
theorem adj_undirect (g : MGraph) (a b : Nat) : g.undirect.Adj a b ↔ g.Adj a b ∨ g.Adj b a := by
  unfold MGraph.Adj MGraph.undirect
  constructor
  · rintro ⟨e, he, h | ⟨_, h1, h2⟩⟩
    · exact Or.inl ⟨e, he, Or.inl h⟩
    · exact Or.inr ⟨e, he, Or.inl ⟨h1, h2⟩⟩
  · rintro (⟨e, he, h | ⟨_, h1, h2⟩⟩ | ⟨e, he, h | ⟨_, h1, h2⟩⟩)
    · exact ⟨e, he, Or.inl h⟩
    · exact ⟨e, he, Or.inr ⟨rfl, h1, h2⟩⟩
    · exact ⟨e, he, Or.inr ⟨rfl, h.1, h.2⟩⟩
    · exact ⟨e, he, Or.inl ⟨h1, h2⟩⟩

theorem adjEq_undirect {g g' : MGraph} (h : AdjEq g g') : AdjEq g.undirect g'.undirect :=
  ⟨h.nodes, fun a b => by rw [adj_undirect, adj_undirect, h.adj, h.adj]⟩

theorem adjEq_wcc_mp {g g' : MGraph} (h : AdjEq g g') {k : Nat} (w : IsWccCount g k) : IsWccCount g' k := by
  obtain ⟨reps, hl, hn, hc, hp⟩ := w
  have hu := adjEq_undirect h
  refine ⟨reps, hl, fun r hr => (h.nodes r).mp (hn r hr), fun x hx => ?_, hp.imp fun hnr r => hnr ((adjEq_reach hu _ _).mpr r)⟩
  obtain ⟨r, hr, hrx⟩ := hc x ((h.nodes x).mpr hx)
  exact ⟨r, hr, (adjEq_reach hu r x).mp hrx⟩

theorem adjEq_wcc {g g' : MGraph} (h : AdjEq g g') (k : Nat) : IsWccCount g k ↔ IsWccCount g' k :=
  ⟨adjEq_wcc_mp h, adjEq_wcc_mp h.symm⟩

/-! ### the same graph up to the order of the node list -/

structure SameShape (g g' : MGraph) : Prop where
  directed : g.directed = g'.directed
  edges : g.edges = g'.edges
  nodes : ∀ x, x ∈ g.nodes ↔ x ∈ g'.nodes

theorem SameShape.adjEq {g g' : MGraph} (h : SameShape g g') : AdjEq g g' :=
  ⟨h.nodes, fun a b => by unfold MGraph.Adj; rw [h.directed, h.edges]⟩

theorem sameShape_eraseEdge {g g' : MGraph} (h : SameShape g g') (i : Nat) :
    SameShape (eraseEdge g i).undirect (eraseEdge g' i).undirect :=
  ⟨rfl, by simp [eraseEdge, MGraph.undirect, h.edges], h.nodes⟩

theorem sameShape_cyclicU {g g' : MGraph} (h : SameShape g g') : CyclicU g ↔ CyclicU g' := by
  unfold CyclicU
  constructor
  · rintro ⟨i, e, he, hr⟩
    exact ⟨i, e, h.edges ▸ he, (adjEq_reach (sameShape_eraseEdge h i).adjEq _ _).mp hr⟩
  · rintro ⟨i, e, he, hr⟩
    exact ⟨i, e, h.edges ▸ he, (adjEq_reach (sameShape_eraseEdge h i).adjEq _ _).mpr hr⟩

/-! ### `adaptOkB` -/

theorem adaptOkB_sound {base g : MGraph} {ads : List Ad} (h : adaptOkB base ads g = true) :
    SameShape (applyAds base ads) g := by
  simp only [adaptOkB, Bool.and_eq_true, beq_iff_eq, decide_eq_true_eq] at h
  obtain ⟨⟨h1, h2⟩, h3⟩ := h
  exact ⟨h1, h2, fun x => (TravProofs.sameSet_perm h3).mem_iff⟩

/-! ### what the adaptors present -/

theorem adj_filterEdges (g : MGraph) (thr : Int) (a b : Nat) :
    (filterEdges g thr).Adj a b ↔
      ∃ e ∈ g.edges, thr ≤ e.w ∧ ((e.src = a ∧ e.tgt = b) ∨ (g.directed = false ∧ e.src = b ∧ e.tgt = a)) := by
  unfold MGraph.Adj filterEdges
  simp only [List.mem_filter, decide_eq_true_eq]
  constructor
  · rintro ⟨e, ⟨he, hw⟩, h⟩; exact ⟨e, he, hw, h⟩
  · rintro ⟨e, he, hw, h⟩; exact ⟨e, ⟨he, hw⟩, h⟩

theorem mem_induced_nodes (g : MGraph) (keep : List Nat) (x : Nat) :
    x ∈ (induced g keep).nodes ↔ x ∈ g.nodes ∧ x ∈ keep := by
  simp [induced, List.mem_filter]

theorem adj_induced (g : MGraph) (keep : List Nat) (a b : Nat) :
    (induced g keep).Adj a b ↔ g.Adj a b ∧ a ∈ keep ∧ b ∈ keep := by
  unfold MGraph.Adj induced
  simp only [List.mem_filter, Bool.and_eq_true, List.contains_iff_mem]
  constructor
  · rintro ⟨e, ⟨he, hs, ht⟩, h | ⟨hd, h1, h2⟩⟩
    · exact ⟨⟨e, he, Or.inl h⟩, h.1 ▸ hs, h.2 ▸ ht⟩
    · exact ⟨⟨e, he, Or.inr ⟨hd, h1, h2⟩⟩, h2 ▸ ht, h1 ▸ hs⟩
  · rintro ⟨⟨e, he, h | ⟨hd, h1, h2⟩⟩, ha, hb⟩
    · exact ⟨e, ⟨he, h.1 ▸ ha, h.2 ▸ hb⟩, Or.inl h⟩
    · exact ⟨e, ⟨he, h1 ▸ hb, h2 ▸ ha⟩, Or.inr ⟨hd, h1, h2⟩⟩

/-- a walk of the induced subgraph is a walk of the graph that stays inside the kept set -/
theorem reach_induced_sub {g : MGraph} {keep : List Nat} {a b : Nat} (h : Reach (induced g keep) a b) :
    Reach g a b ∧ (a ≠ b → a ∈ keep ∧ b ∈ keep) := by
  induction h with
  | refl => exact ⟨Reach.refl _, fun h => absurd rfl h⟩
  | @step b c _ hadj ih =>
    obtain ⟨hg, hb, hc⟩ := (adj_induced g keep b c).mp hadj
    refine ⟨Reach.step ih.1 hg, fun _ => ⟨?_, hc⟩⟩
    by_cases hab : a = b
    · exact hab ▸ hb
    · exact (ih.2 hab).1

theorem mem_renumber {k : Nat} {l : List Edge} {e : Edge} (h : e ∈ renumber k l) :
    ∃ e' ∈ l, e'.src = e.src ∧ e'.tgt = e.tgt ∧ e'.w = e.w := by
  induction l generalizing k with
  | nil => simp [renumber] at h
  | cons x xs ih =>
    simp only [renumber, List.mem_cons] at h
    rcases h with h | h
    · exact ⟨x, List.mem_cons_self, by subst h; exact ⟨rfl, rfl, rfl⟩⟩
    · obtain ⟨e', he', hh⟩ := ih h
      exact ⟨e', List.mem_cons_of_mem _ he', hh⟩

/-- what `UndirectedAdaptor::neighbors` lists has exactly the adjacency of the graph with direction ignored -/
theorem undAdaptor_adjEq (g : MGraph) : AdjEq (undAdaptor g) g.undirect := by
  refine ⟨fun _ => Iff.rfl, fun a b => ?_⟩
  unfold MGraph.Adj undAdaptor MGraph.undirect
  simp only [List.mem_append]
  constructor
  · rintro ⟨e, he | he, h⟩
    · exact ⟨e, he, h⟩
    · obtain ⟨e', he', hs, ht, _⟩ := mem_renumber he
      exact ⟨e', (List.mem_filter.mp he').1, by rw [hs, ht]; exact h⟩
  · rintro ⟨e, he, h⟩
    exact ⟨e, Or.inl he, h⟩

/-! ### ids that are not nodes -/

theorem adj_nodes {g : MGraph} (hwf : g.WellFormed) {a b : Nat} (h : g.Adj a b) : a ∈ g.nodes ∧ b ∈ g.nodes := by
  obtain ⟨e, he, h | ⟨_, h1, h2⟩⟩ := h
  · exact ⟨h.1 ▸ (hwf.2 e he).1, h.2 ▸ (hwf.2 e he).2⟩
  · exact ⟨h2 ▸ (hwf.2 e he).2, h1 ▸ (hwf.2 e he).1⟩

/-- an id that is not a node reaches itself only -/
theorem reach_stale_left {g : MGraph} (hwf : g.WellFormed) {a b : Nat} (ha : a ∉ g.nodes) :
    Reach g a b ↔ a = b := by
  constructor
  · intro h
    induction h with
    | refl => rfl
    | step _ hadj ih => subst ih; exact absurd (adj_nodes hwf hadj).1 ha
  · rintro rfl; exact Reach.refl _

/-- … and is reached by itself only -/
theorem reach_stale_right {g : MGraph} (hwf : g.WellFormed) {a b : Nat} (hb : b ∉ g.nodes) :
    Reach g a b ↔ a = b := by
  constructor
  · intro h
    cases h with
    | refl => rfl
    | step _ hadj => exact absurd (adj_nodes hwf hadj).2 hb
  · rintro rfl; exact Reach.refl _

end PetgraphModel.C09P

namespace PetgraphModel.C09P
open PetgraphModel PetgraphModel.MGraph PetgraphModel.C09J PetgraphModel.C09M PetgraphModel.Trav

/-! ### the mirror model of `has_path_connecting` from an id without neighbours -/

theorem hasPath_stale_left (v : View) (a b : Nat) (h : v.succ a = []) :
    hasPath v a b = some (decide (a = b)) := by
  obtain ⟨k, hk⟩ : ∃ k, fuel v = k + 2 := ⟨fuel v - 2, by unfold fuel; omega⟩
  unfold hasPath
  rw [hk]
  by_cases hab : a = b
  · simp [hasPathLoop, dfsNext, Dfs.moveTo, hab]
  · simp [hasPathLoop, dfsNext, Dfs.moveTo, h, hab]

/-! ### `Reversed`: the components of the reversed graph, listed the other way round -/

theorem sccSpec_reverse_mp {g : MGraph} {comps : List (List Nat)} (s : SccSpec g.reverse comps) :
    SccSpec g comps.reverse where
  nonempty := fun c hc => s.nonempty c (List.mem_reverse.mp hc)
  nodup := by
    have hp : comps.reverse.flatten.Perm comps.flatten := (List.reverse_perm comps).flatten
    exact hp.nodup_iff.mpr s.nodup
  cover := fun x => by
    have hp : comps.reverse.flatten.Perm comps.flatten := (List.reverse_perm comps).flatten
    rw [hp.mem_iff]
    exact s.cover x
  classes := fun c hc x hx y => (s.classes c (List.mem_reverse.mp hc) x hx y).trans sc_reverse
  order := by
    rw [List.pairwise_reverse]
    exact s.order.imp fun hp y hy x hx r => hp x hx y hy (reach_reverse.mpr r)

theorem reverse_reverse (g : MGraph) : g.reverse.reverse = g := by
  cases g with
  | mk d n es =>
    simp only [MGraph.reverse, List.map_map]
    congr
    conv => rhs; rw [← List.map_id es]
    apply List.map_congr_left
    intro e _
    cases e; rfl

theorem sccSpec_reverse (g : MGraph) (comps : List (List Nat)) :
    SccSpec g.reverse comps ↔ SccSpec g comps.reverse := by
  constructor
  · exact sccSpec_reverse_mp
  · intro s
    have := sccSpec_reverse_mp (g := g.reverse) (comps := comps.reverse) (by rw [reverse_reverse]; exact s)
    simpa using this

end PetgraphModel.C09P
