import PetgraphModel.Extracted.AdjWidth
/-
`Extracted/AdjWidth.lean` states the bit index expressions in the extractor's canonical form (sorted sum of sorted
products over `n s t`), whatever the spelling in the source.  These lemmas restate them in the spelling the C06 proofs
were written against; they are the only place that depends on the canonical form.
-/
namespace PetgraphModel.Extracted.AdjWidth

theorem bitCap_Graph_eq (n : Nat) : bitCap_Graph n = n * n := rfl
theorem bitCap_StableGraph_eq (n : Nat) : bitCap_StableGraph n = n * n := rfl
theorem bitCap_Csr_eq (n : Nat) : bitCap_Csr n = n * n := rfl
theorem bitCap_List_eq (n : Nat) : bitCap_List n = n * n := rfl

theorem bitBuild_Graph_eq (n s t : Nat) : bitBuild_Graph n s t = s * n + t := by
  unfold bitBuild_Graph; rw [Nat.mul_comm s n]; omega
theorem bitBuildSym_Graph_eq (n s t : Nat) : bitBuildSym_Graph n s t = s + n * t := by
  unfold bitBuildSym_Graph; omega
theorem bitRead_Graph_eq (n a b : Nat) : bitRead_Graph n a b = n * a + b := by
  unfold bitRead_Graph; omega

theorem bitBuild_StableGraph_eq (n s t : Nat) : bitBuild_StableGraph n s t = s * n + t := by
  unfold bitBuild_StableGraph; rw [Nat.mul_comm s n]; omega
theorem bitBuildSym_StableGraph_eq (n s t : Nat) : bitBuildSym_StableGraph n s t = s + n * t := by
  unfold bitBuildSym_StableGraph; omega
theorem bitRead_StableGraph_eq (n a b : Nat) : bitRead_StableGraph n a b = n * a + b := by
  unfold bitRead_StableGraph; omega

theorem bitBuild_Csr_eq (n s t : Nat) : bitBuild_Csr n s t = n * s + t := by
  unfold bitBuild_Csr; omega
theorem bitBuildSym_Csr_eq (n s t : Nat) : bitBuildSym_Csr n s t = s + n * t := by
  unfold bitBuildSym_Csr; omega
theorem bitRead_Csr_eq (n a b : Nat) : bitRead_Csr n a b = n * a + b := by
  unfold bitRead_Csr; omega

theorem bitBuild_List_eq (n s t : Nat) : bitBuild_List n s t = s * n + t := by
  unfold bitBuild_List; rw [Nat.mul_comm s n]; omega
theorem bitRead_List_eq (n a b : Nat) : bitRead_List n a b = n * a + b := by
  unfold bitRead_List; omega

end PetgraphModel.Extracted.AdjWidth
