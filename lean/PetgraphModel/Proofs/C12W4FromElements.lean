import PetgraphModel.Model.C12W4
import PetgraphModel.Driver.C12
import PetgraphModel.Proofs.Graph
import PetgraphModel.Proofs.C12Driver
import PetgraphModel.Proofs.C12Prim
/-
C12, wave 4 — `from_elements` on the element stream of the MST iterators.

`MstModel.collectGraph` is the C01 `Graph` model's transcription of `from_elements_indexable`
(`G.fromElements`, tied to the real `Graph::from_elements` by C01's own differential runs) applied
to the stream; `MstModel.collectStable` is the same loop over the C02 `StableGraph` model.  For every
stream inside `feFitsB` (every edge position is a node position, both vectors fit the index type)
the collected graph IS the stream: node `i` carries the `i`-th node weight, edge `j` joins the nodes
at the positions of the `j`-th edge element and carries its weight; no panic, no fault; and the
C01 representation invariant (coherent adjacency lists) holds.  Outside `feFitsB` because of a
position, `add_edge` panics (`collectGraph_panic_of_bad_position`).
-/
namespace PetgraphModel.MstModel
open PetgraphModel PetgraphModel.MST PetgraphModel.C12

theorem decW_encW (w : Int) : decW (encW w) = w := by
  unfold decW encW
  split <;> split <;> omega

/-- the content of a `Graph` state: node weights, and (source, target, weight) of the edges -/
def gNodes (s : G.State) : List Nat := s.nodes.map (·.weight)
def gEdges (s : G.State) : List (Nat × Nat × Nat) := s.edges.map fun e => (e.src, e.tgt, e.weight)

theorem fe_nodes : ∀ (ns : List Nat) (rest : List G.Elem) (s : G.State),
    s.nodes.length + ns.length ≤ s.endv →
    ∃ s', G.fromElements s (ns.map .node ++ rest) = G.fromElements s' rest ∧
      gNodes s' = gNodes s ++ ns ∧ s'.edges = s.edges ∧ s'.endv = s.endv ∧ s'.directed = s.directed
  | [], rest, s, _ => ⟨s, by simp, by simp, rfl, rfl, rfl⟩
  | n :: ns, rest, s, h => by
    have hg : G.canGrow s s.nodes.length = true := by
      simp only [G.canGrow, bne_iff_ne, ne_eq]; simp at h; omega
    obtain ⟨s', h1, h2, h3, h4, h5⟩ := fe_nodes ns rest
      { s with nodes := s.nodes ++ [⟨n, s.endv, s.endv⟩] } (by simp at h ⊢; omega)
    refine ⟨s', ?_, ?_, h3, h4, h5⟩
    · simp only [List.map_cons, List.cons_append, G.fromElements, G.tryAddNode, hg, if_true]
      exact h1
    · rw [h2]; simp [gNodes]

theorem tryAddEdge_ok (s : G.State) (a b w : Nat) (ha : a < s.nodes.length) (hb : b < s.nodes.length)
    (hl : s.edges.length < s.endv) :
    ∃ s', G.tryAddEdge s a b w = (s', .ok s.edges.length) ∧ gNodes s' = gNodes s ∧
      gEdges s' = gEdges s ++ [(a, b, w)] ∧ s'.endv = s.endv ∧ s'.directed = s.directed := by
  have hg : G.canGrow s s.edges.length = true := by
    simp only [G.canGrow, bne_iff_ne, ne_eq]; omega
  have hm : ¬ (max a b ≥ s.nodes.length) := by omega
  unfold G.tryAddEdge
  simp only [hg, Bool.not_true, Bool.false_eq_true, if_false, hm]
  by_cases hab : a = b
  · subst hab
    simp only [if_true, List.getElem?_eq_getElem ha]
    refine ⟨_, rfl, ?_, ?_, rfl, rfl⟩
    · simp only [gNodes, List.map_set]
      apply List.ext_getElem (by simp)
      intro i h1 h2
      simp only [List.getElem_set, List.getElem_map]
      split
      · subst_vars; rfl
      · rfl
    · simp [gEdges]
  · simp only [hab, if_false, List.getElem?_eq_getElem ha, List.getElem?_eq_getElem hb]
    refine ⟨_, rfl, ?_, ?_, rfl, rfl⟩
    · simp only [gNodes, List.map_set]
      apply List.ext_getElem (by simp)
      intro i h1 h2
      simp only [List.getElem_set, List.getElem_map]
      split
      · subst_vars; rfl
      · split
        · subst_vars; rfl
        · rfl
    · simp [gEdges]

theorem fe_edges : ∀ (es : List EdgeEl) (s : G.State),
    (∀ e ∈ es, e.s < s.nodes.length ∧ e.t < s.nodes.length) → s.edges.length + es.length ≤ s.endv →
    ∃ s', G.fromElements s (es.map fun e => .edge e.s e.t (encW e.w)) = some s' ∧
      gNodes s' = gNodes s ∧ gEdges s' = gEdges s ++ es.map (fun e => (e.s, e.t, encW e.w)) ∧
      s'.endv = s.endv ∧ s'.directed = s.directed
  | [], s, _, _ => ⟨s, by simp [G.fromElements], rfl, by simp, rfl, rfl⟩
  | e :: es, s, hpos, hlen => by
    obtain ⟨hs, ht⟩ := hpos e (List.mem_cons_self ..)
    obtain ⟨s1, h1, h2, h3, h4, h5⟩ := tryAddEdge_ok s e.s e.t (encW e.w) hs ht (by simp at hlen; omega)
    have hn1 : s1.nodes.length = s.nodes.length := by
      have := congrArg List.length h2; simpa [gNodes] using this
    have he1 : s1.edges.length = s.edges.length + 1 := by
      have := congrArg List.length h3; simpa [gEdges] using this
    obtain ⟨s', k1, k2, k3, k4, k5⟩ := fe_edges es s1
      (fun x hx => by rw [hn1]; exact hpos x (List.mem_cons_of_mem _ hx))
      (by rw [he1, h4]; simp at hlen; omega)
    refine ⟨s', ?_, by rw [k2, h2], ?_, by rw [k4, h4], by rw [k5, h5]⟩
    · simp only [List.map_cons, G.fromElements, h1]; exact k1
    · rw [k3, h3]; simp

def sNodes (s : SG.State) : List (Option Int) := s.nodes.map (·.w)
def sEdges (s : SG.State) : List (Nat × Nat × Option Int) := s.edges.map fun e => (e.a, e.b, e.w)

/-- a `StableGraph` without vacancies, of a bounded index type -/
structure SNoVac (s : SG.State) : Prop where
  fn : s.freeNode = s.fin
  fe : s.freeEdge = s.fin
  lim : s.noLimit = false
  live : ∀ n ∈ s.nodes, n.w.isSome = true

theorem sg_mkIx {s : SG.State} (h : s.noLimit = false) {n : Nat} (hn : n < s.fin) : SG.mkIx s n = n := by
  simp only [SG.mkIx, h, Bool.false_eq_true, if_false]
  exact Nat.mod_eq_of_lt (by omega)

theorem sg_canPush {s : SG.State} (h : s.noLimit = false) {n : Nat} (hn : n < s.fin) : SG.canPush s n = true := by
  simp only [SG.canPush, h, Bool.false_eq_true, if_false, sg_mkIx h hn]
  simp; omega

def sgPushed (s : SG.State) (w : Int) : SG.State :=
  { s with nodes := s.nodes ++ [{ w := some w, n0 := s.fin, n1 := s.fin }], nodeCount := s.nodeCount + 1 }

theorem sg_addNode (s : SG.State) (w : Int) (hv : SNoVac s) (hl : s.nodes.length < s.fin) :
    ∃ s' i, SG.tryAddNode s w = .ok (s', .ok i) ∧ SNoVac s' ∧ sNodes s' = sNodes s ++ [some w] ∧
      s'.edges = s.edges ∧ s'.fin = s.fin := by
  have h : SG.tryAddNode s w = .ok (sgPushed s w, .ok (SG.mkIx s s.nodes.length)) := by
    simp only [SG.tryAddNode, hv.fn, ne_eq, not_true_eq_false, if_false, SG.pushNode,
      sg_canPush hv.lim hl, if_true, sgPushed]
  refine ⟨_, _, h, ⟨hv.fn, hv.fe, hv.lim, ?_⟩, ?_, rfl, rfl⟩
  · intro n hn
    simp only [sgPushed, List.mem_append, List.mem_singleton] at hn
    rcases hn with hn | rfl
    · exact hv.live n hn
    · rfl
  · simp [sNodes, sgPushed]

theorem sg_addEdge (s : SG.State) (a b : Nat) (w : Int) (hv : SNoVac s) (ha : a < s.nodes.length)
    (hb : b < s.nodes.length) (hl : s.edges.length < s.fin) :
    ∃ s' i, SG.tryAddEdge s a b w = .ok (s', .ok i) ∧ SNoVac s' ∧ sNodes s' = sNodes s ∧
      sEdges s' = sEdges s ++ [(a, b, some w)] ∧ s'.fin = s.fin := by
  have hm : ¬ (max a b ≥ s.nodes.length) := by omega
  have hla := hv.live _ (List.getElem_mem ha)
  have hlb := hv.live _ (List.getElem_mem hb)
  unfold SG.tryAddEdge
  simp only [hv.fe, ne_eq, not_true_eq_false, if_false, sg_canPush hv.lim hl, Bool.not_true,
    Bool.false_eq_true, SG.linkNodes, hm]
  by_cases hab : a = b
  · subst hab
    simp only [if_true, List.getElem?_eq_getElem ha]
    have : (s.nodes[a]).w.isNone = false := by
      cases h : (s.nodes[a]).w <;> simp_all
    simp only [this, Bool.false_eq_true, if_false]
    refine ⟨_, _, rfl, ⟨hv.fn, rfl, hv.lim, ?_⟩, ?_, ?_, rfl⟩
    · intro n hn
      rcases List.mem_or_eq_of_mem_set hn with h | rfl
      · exact hv.live n h
      · exact hla
    · simp only [sNodes, List.map_set]
      apply List.ext_getElem (by simp)
      intro i h1 h2
      simp only [List.getElem_set, List.getElem_map]
      split
      · subst_vars; rfl
      · rfl
    · simp [sEdges]
  · simp only [hab, if_false, List.getElem?_eq_getElem ha, List.getElem?_eq_getElem hb]
    have h1 : (s.nodes[a]).w.isNone = false := by
      cases h : (s.nodes[a]).w <;> simp_all
    have h2 : (s.nodes[b]).w.isNone = false := by
      cases h : (s.nodes[b]).w <;> simp_all
    simp only [h1, h2, Bool.false_eq_true, if_false]
    refine ⟨_, _, rfl, ⟨hv.fn, rfl, hv.lim, ?_⟩, ?_, ?_, rfl⟩
    · intro n hn
      rcases List.mem_or_eq_of_mem_set hn with h | rfl
      · rcases List.mem_or_eq_of_mem_set h with h | rfl
        · exact hv.live n h
        · exact hla
      · exact hlb
    · simp only [sNodes, List.map_set]
      apply List.ext_getElem (by simp)
      intro i h1 h2
      simp only [List.getElem_set, List.getElem_map]
      split
      · subst_vars; rfl
      · split
        · subst_vars; rfl
        · rfl
    · simp [sEdges]


/-- a node weight (abstract id) as the `Int` weight of the `StableGraph` model -/
def natSome (n : Nat) : Option Int := some (n : Int)

theorem sfe_nodes : ∀ (ns : List Nat) (rest : List G.Elem) (s : SG.State), SNoVac s →
    s.nodes.length + ns.length ≤ s.fin →
    ∃ s', sgFromElements s (ns.map .node ++ rest) = sgFromElements s' rest ∧ SNoVac s' ∧
      sNodes s' = sNodes s ++ ns.map natSome ∧ s'.edges = s.edges ∧ s'.fin = s.fin
  | [], rest, s, hv, _ => ⟨s, by simp, hv, by simp, rfl, rfl⟩
  | n :: ns, rest, s, hv, h => by
    obtain ⟨s1, i, h1, hv1, h2, h3, h4⟩ := sg_addNode s (n : Int) hv (by simp at h; omega)
    have hn1 : s1.nodes.length = s.nodes.length + 1 := by
      have := congrArg List.length h2; simpa [sNodes] using this
    obtain ⟨s', k1, kv, k2, k3, k4⟩ := sfe_nodes ns rest s1 hv1 (by rw [hn1, h4]; simp at h; omega)
    refine ⟨s', ?_, kv, by rw [k2, h2]; simp [natSome], by rw [k3, h3], by rw [k4, h4]⟩
    simp only [List.map_cons, List.cons_append, sgFromElements, h1]
    exact k1

theorem sfe_edges : ∀ (es : List EdgeEl) (s : SG.State), SNoVac s →
    (∀ e ∈ es, e.s < s.nodes.length ∧ e.t < s.nodes.length) → s.edges.length + es.length ≤ s.fin →
    ∃ s', sgFromElements s (es.map fun e => .edge e.s e.t (encW e.w)) = .ok (some s') ∧
      sNodes s' = sNodes s ∧ sEdges s' = sEdges s ++ es.map (fun e => (e.s, e.t, some e.w))
  | [], s, _, _, _ => ⟨s, by simp [sgFromElements], rfl, by simp⟩
  | e :: es, s, hv, hpos, hlen => by
    obtain ⟨hs, ht⟩ := hpos e (List.mem_cons_self ..)
    obtain ⟨s1, i, h1, hv1, h2, h3, h4⟩ := sg_addEdge s e.s e.t e.w hv hs ht (by simp at hlen; omega)
    have hn1 : s1.nodes.length = s.nodes.length := by
      have := congrArg List.length h2; simpa [sNodes] using this
    have he1 : s1.edges.length = s.edges.length + 1 := by
      have := congrArg List.length h3; simpa [sEdges] using this
    obtain ⟨s', k1, k2, k3⟩ := sfe_edges es s1 hv1
      (fun x hx => by rw [hn1]; exact hpos x (List.mem_cons_of_mem _ hx))
      (by rw [he1, h4]; simp at hlen; omega)
    refine ⟨s', ?_, by rw [k2, h2], ?_⟩
    · simp only [List.map_cons, sgFromElements, decW_encW, h1]; exact k1
    · rw [k3, h3]; simp

/-! ### the streams in range -/

/-- `feFitsB`, as a proposition -/
structure FeFits (endv : Nat) (ns : List Nat) (es : List EdgeEl) : Prop where
  nodes : ns.length ≤ endv
  edges : es.length ≤ endv
  pos : ∀ e ∈ es, e.s < ns.length ∧ e.t < ns.length

theorem feFitsB_sound {endv : Nat} {ns : List Nat} {es : List EdgeEl} (h : feFitsB endv ns es = true) :
    FeFits endv ns es := by
  simp only [feFitsB, Bool.and_eq_true, decide_eq_true_eq, List.all_eq_true] at h
  exact ⟨h.1.1, h.1.2, h.2⟩

/-- the edge elements in abstract ids: positions replaced by the node weights at those positions -/
def streamEdges (ns : List Nat) (es : List EdgeEl) : List (Nat × Nat × Int) :=
  es.map fun e => (ns.getD e.s 0, ns.getD e.t 0, e.w)

theorem absEdges_eq_streamEdges {ns : List Nat} : ∀ {es : List EdgeEl},
    (∀ e ∈ es, e.s < ns.length ∧ e.t < ns.length) → absEdges ns es = some (streamEdges ns es)
  | [], _ => rfl
  | e :: es, h => by
    obtain ⟨hs, ht⟩ := h e (List.mem_cons_self ..)
    have ih := absEdges_eq_streamEdges (es := es) (fun x hx => h x (List.mem_cons_of_mem _ hx))
    simp only [absEdges, List.getElem?_eq_getElem hs, List.getElem?_eq_getElem ht, ih, streamEdges,
      List.map_cons, List.getD_eq_getElem?_getD, Option.getD_some]

/-- **`Graph::from_elements` on a stream in range**: no panic; node weights = the node elements in
order; edge `j` has the endpoints and weight of the `j`-th edge element; the representation
invariant of the C01 model (coherent adjacency lists, both vectors within the index type) holds. -/
theorem collectGraphState_spec (endv : Nat) (directed : Bool) (ns : List Nat) (es : List EdgeEl)
    (h : FeFits endv ns es) :
    ∃ s, collectGraphState endv directed ns es = some s ∧ gNodes s = ns ∧
      gEdges s = es.map (fun e => (e.s, e.t, encW e.w)) ∧ s.directed = directed ∧ GProofs.Inv s := by
  obtain ⟨s1, h1, h2, h3, h4, h5⟩ := fe_nodes ns (es.map fun e => .edge e.s e.t (encW e.w))
    (G.empty endv directed) (by simpa [G.empty] using h.nodes)
  have hn1 : s1.nodes.length = ns.length := by
    have := congrArg List.length h2; simpa [gNodes, G.empty] using this
  obtain ⟨s', k1, k2, k3, k4, k5⟩ := fe_edges es s1 (by rw [hn1]; exact h.pos)
    (by rw [h3, h4]; simpa [G.empty] using h.edges)
  have hrun : collectGraphState endv directed ns es = some s' := by
    simp only [collectGraphState, toElems]; rw [h1]; exact k1
  refine ⟨s', hrun, by rw [k2, h2]; simp [gNodes, G.empty], ?_, by rw [k5, h5]; rfl, ?_⟩
  · rw [k3]; simp [gEdges, h3, G.empty]
  · exact GProofs.inv_fromElements _ _ _ (GProofs.inv_empty endv directed) hrun

theorem obsGraph_eq {s : G.State} {ns : List Nat} {es : List EdgeEl} (hn : gNodes s = ns)
    (he : gEdges s = es.map (fun e => (e.s, e.t, encW e.w))) :
    obsGraph s = .ok ns (streamEdges ns es) := by
  have hnw : ∀ i, ((s.nodes[i]?).map (·.weight)).getD 0 = ns.getD i 0 := by
    intro i; rw [← hn]; simp [gNodes]
  have hmap : s.edges.map (fun e => (((s.nodes[e.src]?).map (·.weight)).getD 0,
      ((s.nodes[e.tgt]?).map (·.weight)).getD 0, decW e.weight)) =
      (gEdges s).map (fun x => (ns.getD x.1 0, ns.getD x.2.1 0, decW x.2.2)) := by
    simp only [gEdges, List.map_map]
    apply List.map_congr_left
    intro e _
    simp only [Function.comp, hnw]
  simp only [obsGraph]
  rw [hmap, he]
  simp only [gNodes] at hn
  simp [hn, streamEdges, List.map_map, Function.comp, decW_encW]

/-- what the harness observes of `Graph::from_elements(stream)` -/
theorem collectGraph_spec (endv : Nat) (directed : Bool) (ns : List Nat) (es : List EdgeEl)
    (h : FeFits endv ns es) : collectGraph endv directed ns es = .ok ns (streamEdges ns es) := by
  obtain ⟨s, hs, hn, he, _, _⟩ := collectGraphState_spec endv directed ns es h
  simp only [collectGraph, hs]
  exact obsGraph_eq hn he

theorem snovac_empty (fin : Nat) (debug : Bool) : SNoVac (SG.empty false fin false debug) :=
  ⟨rfl, rfl, rfl, fun n hn => by simp [SG.empty] at hn⟩

/-- **`StableGraph::from_elements` on a stream in range**: no fault (no `debug_assert!`, no
out-of-bounds access), no panic, no vacancy; the node and edge slots are the elements in order. -/
theorem collectStableState_spec (fin : Nat) (ns : List Nat) (es : List EdgeEl) (h : FeFits fin ns es) :
    ∃ s, collectStableState fin ns es = .ok (some s) ∧ sNodes s = ns.map natSome ∧
      sEdges s = es.map (fun e => (e.s, e.t, some e.w)) := by
  obtain ⟨s1, h1, hv1, h2, h3, h4⟩ := sfe_nodes ns (es.map fun e => .edge e.s e.t (encW e.w))
    (SG.empty false fin false true) (snovac_empty fin true) (by simpa [SG.empty] using h.nodes)
  have hn1 : s1.nodes.length = ns.length := by
    have := congrArg List.length h2; simpa [sNodes, SG.empty] using this
  obtain ⟨s', k1, k2, k3⟩ := sfe_edges es s1 hv1 (by rw [hn1]; exact h.pos)
    (by rw [h3, h4]; simpa [SG.empty] using h.edges)
  refine ⟨s', ?_, by rw [k2, h2]; simp [sNodes, SG.empty], ?_⟩
  · simp only [collectStableState, toElems]; rw [h1]; exact k1
  · rw [k3]; simp [sEdges, h3, SG.empty]

theorem obsStable_eq {s : SG.State} {ns : List Nat} {es : List EdgeEl}
    (hn : sNodes s = ns.map natSome)
    (he : sEdges s = es.map (fun e => (e.s, e.t, some e.w))) :
    obsStable s = .ok ns (streamEdges ns es) := by
  have hnw : ∀ i, (((s.nodes[i]?).bind (·.w)).getD 0).toNat = ns.getD i 0 := by
    intro i
    have : (s.nodes[i]?).bind (·.w) = ((sNodes s)[i]?).bind id := by
      simp only [sNodes, List.getElem?_map]; cases s.nodes[i]? <;> rfl
    rw [this, hn]
    simp only [List.getElem?_map, List.getD_eq_getElem?_getD]
    cases ns[i]? <;> simp [natSome]
  have h1 : s.nodes.filterMap (fun n => n.w.map Int.toNat) = ns := by
    have : s.nodes.filterMap (fun n => n.w.map Int.toNat) = (sNodes s).filterMap (fun w => w.map Int.toNat) := by
      simp only [sNodes, List.filterMap_map]; rfl
    rw [this, hn, List.filterMap_map]
    have : ((fun w : Option Int => w.map Int.toNat) ∘ natSome) = some := by
      funext n; simp [natSome]
    rw [this, List.filterMap_some]
  have h2 : s.edges.filterMap (fun e => e.w.map fun w =>
      ((((s.nodes[e.a]?).bind (·.w)).getD 0).toNat, (((s.nodes[e.b]?).bind (·.w)).getD 0).toNat, w)) =
      (sEdges s).filterMap (fun x => x.2.2.map fun w => (ns.getD x.1 0, ns.getD x.2.1 0, w)) := by
    simp only [sEdges, List.filterMap_map]
    apply List.filterMap_congr
    intro e _
    simp only [Function.comp, hnw]
  simp only [obsStable]
  rw [h1, h2, he, List.filterMap_map]
  have : ((fun x : Nat × Nat × Option Int => x.2.2.map fun w => (ns.getD x.1 0, ns.getD x.2.1 0, w)) ∘
      fun e : EdgeEl => (e.s, e.t, some e.w)) = fun e => some (ns.getD e.s 0, ns.getD e.t 0, e.w) := by
    funext e; simp
  rw [this]
  simp [streamEdges, List.filterMap_eq_map']

/-- what the harness observes of `StableGraph::from_elements(stream)` -/
theorem collectStable_spec (fin : Nat) (ns : List Nat) (es : List EdgeEl) (h : FeFits fin ns es) :
    collectStable fin ns es = .ok ns (streamEdges ns es) := by
  obtain ⟨s, hs, hn, he⟩ := collectStableState_spec fin ns es h
  simp only [collectStable, hs]
  exact obsStable_eq hn he

/-- the three graph types of the `fe=` field agree -/
theorem collect_spec (kind : String) (ns : List Nat) (es : List EdgeEl) (h : FeFits u32max ns es) :
    collect kind ns es = .ok ns (streamEdges ns es) := by
  unfold collect
  split
  · exact collectStable_spec _ ns es h
  · exact collectGraph_spec _ _ ns es h

/-- a position beyond the node elements makes `add_edge` panic (`Graph`) -/
theorem collectGraph_panic_of_bad_position (endv : Nat) (directed : Bool) (ns : List Nat) (e : EdgeEl)
    (hn : ns.length ≤ endv) (hbad : ns.length ≤ e.s ∨ ns.length ≤ e.t) :
    collectGraph endv directed ns [e] = .panic := by
  obtain ⟨s1, h1, h2, h3, h4, h5⟩ := fe_nodes ns ([e].map fun e => .edge e.s e.t (encW e.w))
    (G.empty endv directed) (by simpa [G.empty] using hn)
  have hn1 : s1.nodes.length = ns.length := by
    have := congrArg List.length h2; simpa [gNodes, G.empty] using this
  have hm : max e.s e.t ≥ s1.nodes.length := by rw [hn1]; omega
  simp only [collectGraph, collectGraphState, toElems]
  rw [h1]
  have hm' : max e.s e.t ≥ s1.nodes.length := hm
  have hfe : G.fromElements s1 [G.Elem.edge e.s e.t (encW e.w)] = none := by
    simp only [G.fromElements, G.tryAddEdge, hm', if_true]
    cases G.canGrow s1 s1.edges.length <;> rfl
  simp only [List.map_cons, List.map_nil, hfe]

/-- positions of the emitted edge elements of the MST models are node positions, and looking them
up gives back the endpoints -/
theorem streamEdges_toEl {nodes : List Nat} {A : List Item}
    (h : ∀ it ∈ A, it.a ∈ nodes ∧ it.b ∈ nodes) :
    (∀ e ∈ A.map (toEl nodes), e.s < nodes.length ∧ e.t < nodes.length) ∧
    streamEdges nodes (A.map (toEl nodes)) = A.map fun it => (it.a, it.b, it.w) := by
  constructor
  · intro e he
    obtain ⟨it, hit, rfl⟩ := List.mem_map.mp he
    exact ⟨List.idxOf_lt_length_of_mem (h it hit).1, List.idxOf_lt_length_of_mem (h it hit).2⟩
  · simp only [streamEdges, List.map_map]
    apply List.map_congr_left
    intro it hit
    obtain ⟨ha, hb⟩ := h it hit
    simp [toEl, List.getD_eq_getElem?_getD, List.getElem?_eq_getElem (List.idxOf_lt_length_of_mem ha),
      List.getElem?_eq_getElem (List.idxOf_lt_length_of_mem hb)]

end PetgraphModel.MstModel
