import PetgraphModel.Proofs.C10KspFull
import PetgraphModel.Proofs.C10KspTerm
/-
`k_shortest_path` mirror model WITH a goal (wave 4): exactness.

The loop of `kspLoop` ends either because the heap ran empty (then the map is exactly
`{x ↦ KthCost}` as in the no-goal call) or at the goal's k-th pop.  In the second case the loop
invariant `KF` of `Proofs/C10KspFull.lean` holds for the state the last pop was taken from; since
every heap entry is at least the popped cost `c`, the accounting identity has no heap term for every
threshold `c0 < c`, so the truncated pop counts dominate the truncated walk counts BELOW `c`
(`kf_lower_below`).  Hence

* every recorded entry is the k-th cheapest walk cost of its node (entries are only recorded at a
  k-th pop, so "entries of other nodes" are exact as well);
* the goal has an entry iff it has `k` walks;
* every node whose k-th cheapest walk is strictly cheaper than the goal's has its entry.

The same generalised loop lemma bounds the length of the ghost log by the fuel used; with the
termination theorem this yields a fixed-point bound for the k-walk oracle (`tab_fixed_of_run`):
the oracle's table is stationary from `kspFuel v k` on.
-/
namespace PetgraphModel.C10P
open PetgraphModel PetgraphModel.MGraph PetgraphModel.SP PetgraphModel.C10

/-- the two ways `kspLoop` can end with a map -/
def KExit (v : View) (s k : Nat) (goal : Option Nat) (m : List (Nat × Int)) (bound : Nat) : Prop :=
  (∃ log' st', KF v s k log' st' ∧ st'.heap = [] ∧ st'.scores = m ∧ log'.length ≤ bound) ∨
  (∃ log' st' c t, KF v s k log' st' ∧ goal = some t ∧ (c, t) ∈ st'.heap ∧ (∀ e, e ∈ st'.heap → c ≤ e.1) ∧
      (popsOf log' t).length + 1 = k ∧ m = amSet st'.scores t c ∧
      (∀ x c0, cnt c0 (popsOf (log' ++ [(c, t)]) x) ≤ cnt c0 (wcosts v.g s (log'.length + 1) x)))

theorem KExit.mono {v : View} {s k : Nat} {goal : Option Nat} {m : List (Nat × Int)} {b b' : Nat}
    (h : KExit v s k goal m b) (hb : b ≤ b') : KExit v s k goal m b' := by
  rcases h with ⟨l, st, K, h1, h2, h3⟩ | h
  · exact Or.inl ⟨l, st, K, h1, h2, Nat.le_trans h3 hb⟩
  · exact Or.inr h

/-- **one pop of the loop**: the counter access succeeds and counts the earlier pops of the node; the
log extended by the popped entry still consists of costs of real walks (`upper`); and the invariant
`KF` holds for the successor state of either branch (a pop beyond the k-th: nothing pushed; one of the
first `k` pops: recorded at the k-th, extensions pushed) -/
theorem kf_step {pop : Pop} (hp : IsMinPop pop) {v : View} (hvm : ViewArcsM v) (hw : NonNeg v.g) {s k : Nat}
    (hk : 1 ≤ k) (hix : IxOk v s) (hinj : IxInj v s) {log : List (Int × Nat)} {st : KState} (K : KF v s k log st)
    {c : Int} {u : Nat} {h' : Heap} (hpop : pop st.heap = some ((c, u), h')) :
    ∃ n, st.counter[v.toIndex u]? = some n ∧ n = (popsOf log u).length ∧
      (c, u) ∈ st.heap ∧ (∀ e, e ∈ st.heap → c ≤ e.1) ∧
      (∀ x c0, cnt c0 (popsOf (log ++ [(c, u)]) x) ≤ cnt c0 (wcosts v.g s (log.length + 1) x)) ∧
      (k < n + 1 → KF v s k (log ++ [(c, u)])
        { counter := st.counter.set (v.toIndex u) (n + 1), scores := st.scores, heap := h' }) ∧
      (n + 1 ≤ k → KF v s k (log ++ [(c, u)])
        { counter := st.counter.set (v.toIndex u) (n + 1),
          scores := if n + 1 = k then amSet st.scores u c else st.scores,
          heap := h' ++ (v.outOf u).map (fun x => (c + v.weight x.2, x.1)) }) := by
  have hv : ViewArcs v := hvm.viewArcs
  have hperm := hp.perm _ _ _ hpop
  have hmem := hp.mem _ _ _ hpop
  have hin : (c, u) ∈ st.heap := (hmem _).mpr (Or.inl rfl)
  have hsub : ∀ e, e ∈ h' → e ∈ st.heap := fun e he => (hmem e).mpr (Or.inr he)
  have hminc : ∀ e, e ∈ st.heap → c ≤ e.1 := fun e he => hp.min _ _ _ hpop e he
  have hrel : RelN v s u := K.heapRel _ hin
  have hlt : v.toIndex u < st.counter.length := by
    rw [K.len]
    rcases hrel with e | ⟨a, w, ha⟩
    · rw [e]; exact hix.1
    · exact hix.2 _ _ _ ha
  have hsome : st.counter[v.toIndex u]? = some (st.counter[v.toIndex u]'hlt) := List.getElem?_eq_getElem _
  generalize hn : st.counter[v.toIndex u]'hlt = n at hsome
  have hnlen : n = (popsOf log u).length := by
    have := K.counts u hrel
    rw [hsome] at this
    simpa using this
  have hlogc : ∀ a, a ∈ log → a.1 ≤ c := fun a ha => K.logLe a ha _ hin
  have hsorted' : (log ++ [(c, u)]).Pairwise (fun a b => a.1 ≤ b.1) := by
    rw [List.pairwise_append]
    refine ⟨K.sorted, by simp, ?_⟩
    intro a ha b hb
    simp at hb; subst hb
    exact hlogc a ha
  have hpops' : ∀ x, popsOf (log ++ [(c, u)]) x = popsOf log x ++ (if u = x then [c] else []) := by
    intro x
    rw [popsOf_append, popsOf_cons, popsOf_nil]
  have hcounts' : ∀ x, RelN v s x →
      ((st.counter.set (v.toIndex u) (n + 1))[v.toIndex x]?).getD 0 = (popsOf (log ++ [(c, u)]) x).length := by
    intro x hx
    rw [getD_set _ _ _ _ hlt, hpops']
    by_cases hxi : v.toIndex x = v.toIndex u
    · have : x = u := hinj x u hx hrel hxi
      subst this
      simp [hnlen]
    · have : u ≠ x := fun e => hxi (by rw [e])
      simp [hxi, this, K.counts x hx]
  have hheapcnt : ∀ x c0, cnt c0 (popsOf st.heap x) =
      cnt c0 (popsOf h' x) + (if u = x then (if c ≤ c0 then 1 else 0) else 0) := by
    intro x c0
    rw [popsOf_perm hperm, popsOf_cons]
    by_cases hux : u = x
    · simp [hux, cnt_cons]
    · simp [hux]
  have hlogcnt : ∀ x c0, cnt c0 (popsOf (log ++ [(c, u)]) x) =
      cnt c0 (popsOf log x) + (if u = x then (if c ≤ c0 then 1 else 0) else 0) := by
    intro x c0
    rw [hpops', cnt_append]
    by_cases hux : u = x
    · simp [hux, cnt_cons, cnt_nil]
    · simp [hux, cnt_nil]
  have hupper' : ∀ x c0, cnt c0 (popsOf (log ++ [(c, u)]) x) ≤
      cnt c0 (wcosts v.g s (log.length + 1) x) := by
    intro x c0
    by_cases hux : u = x
    · subst hux
      have h1 := hlogcnt u c0
      have h2 := hheapcnt u c0
      have h3 := K.acct u c0
      simp only [if_true] at h1 h2
      rw [cnt_wcosts_succ]
      have h4 : extCount v.g k log u c0 ≤
          (v.g.arcs.map fun a => if a.2.1 = u then cnt (c0 - a.2.2) (wcosts v.g s log.length a.1) else 0).sum := by
        unfold extCount
        apply sum_map_le
        intro a _
        split
        · have := K.upper a.1 (c0 - a.2.2)
          omega
        · exact Nat.le_refl _
      omega
    · rw [hlogcnt]
      simp only [hux, if_false, Nat.add_zero]
      exact Nat.le_trans (K.upper x c0) (cnt_wcosts_mono v.g s x c0 (Nat.le_succ _))
  have hupper'' : ∀ x c0, cnt c0 (popsOf (log ++ [(c, u)]) x) ≤
      cnt c0 (wcosts v.g s (log ++ [(c, u)]).length x) := by
    intro x c0
    rw [show (log ++ [(c, u)]).length = log.length + 1 by simp]
    exact hupper' x c0
  refine ⟨n, hsome, hnlen, hin, hminc, hupper', ?_, ?_⟩
  · -- a pop beyond the k-th: nothing is pushed, nothing recorded
    intro hgt
    have hge : k ≤ (popsOf log u).length := by omega
    have hall : ∀ y, y ∈ popsOf log u → y ≤ c := fun y hy => hlogc (y, u) (mem_popsOf.mp hy)
    refine ⟨by simp [K.len], fun e he => K.heapRel e (hsub e he), hcounts', hsorted', ?_, ?_, ?_, hupper''⟩
    · intro a ha e he
      simp only [List.mem_append, List.mem_singleton] at ha
      rcases ha with ha | ha
      · exact K.logLe a ha e (hsub e he)
      · subst ha; exact hminc e (hsub e he)
    · intro x c0
      show cnt c0 (popsOf h' x) + _ = _
      rw [extCount_skip v.g k log c u x c0 hge hall, hlogcnt, ← K.acct x c0, hheapcnt]
      omega
    · intro x c'
      show amGet st.scores x = some c' ↔ _
      rw [K.scores x c', hpops']
      by_cases hux : u = x
      · subst hux
        simp only [if_true]
        rw [List.getElem?_append_left (by omega)]
      · simp [hux]
  · -- one of the first k pops: record at the k-th, push the extensions
    intro hle
    have hlen : (popsOf log u).length < k := by omega
    have hext : ∀ e, e ∈ (v.outOf u).map (fun x => (c + v.weight x.2, x.1)) →
        ∃ y w, (u, y, w) ∈ v.g.arcs ∧ e = (c + w, y) := by
      intro e he
      obtain ⟨te, hte, rfl⟩ := List.mem_map.mp he
      exact ⟨te.1, v.weight te.2, (hv u te.1 (v.weight te.2)).mp ⟨te.2, hte, rfl⟩, rfl⟩
    refine ⟨by simp [K.len], ?_, hcounts', hsorted', ?_, ?_, ?_, hupper''⟩
    · intro e he
      rcases List.mem_append.mp he with he | he
      · exact K.heapRel e (hsub e he)
      · obtain ⟨y, w, harc, rfl⟩ := hext e he
        exact Or.inr ⟨u, w, harc⟩
    · intro a ha e he
      have hce : c ≤ e.1 := by
        rcases List.mem_append.mp he with he | he
        · exact hminc e (hsub e he)
        · obtain ⟨y, w, harc, rfl⟩ := hext e he
          have := hw _ _ _ harc
          simp only; omega
      simp only [List.mem_append, List.mem_singleton] at ha
      rcases ha with ha | ha
      · have := hlogc a ha; omega
      · subst ha; exact hce
    · intro x c0
      show cnt c0 (popsOf (h' ++ (v.outOf u).map (fun x => (c + v.weight x.2, x.1))) x) + _ = _
      rw [popsOf_append, cnt_append, pushes_count v hvm, extCount_expand v.g k log c u x c0 hlen, hlogcnt]
      have hacc := K.acct x c0
      rw [hheapcnt] at hacc
      omega
    · intro x c'
      show amGet (if n + 1 = k then amSet st.scores u c else st.scores) x = some c' ↔ _
      by_cases hnk : n + 1 = k
      · simp only [hnk, if_true]
        rw [hpops', amGet_amSet]
        by_cases hux : u = x
        · subst hux
          have : (popsOf log u ++ [c])[k - 1]? = some c := by
            rw [List.getElem?_append_right (by omega)]
            have : k - 1 - (popsOf log u).length = 0 := by omega
            simp [this]
          simp only [if_true, this]
        · have : x ≠ u := fun e => hux e.symm
          simp only [this, hux, if_false, List.append_nil]
          exact K.scores x c'
      · simp only [hnk, if_false]
        rw [hpops', K.scores x c']
        by_cases hux : u = x
        · subst hux
          have h1 : (popsOf log u)[k - 1]? = none := by
            apply List.getElem?_eq_none; omega
          have h2 : (popsOf log u ++ [c])[k - 1]? = none := by
            apply List.getElem?_eq_none; simp; omega
          simp only [if_true, h1, h2]
        · simp [hux]

/-- the loop of `k_shortest_path`, ANY goal: it ends drained or at the goal's k-th pop, the invariant
`KF` holding for the last state a pop was taken from; the ghost log grows by at most one entry per
unit of fuel -/
theorem kf_loop_goal {pop : Pop} (hp : IsMinPop pop) {v : View} (hvm : ViewArcsM v) (hw : NonNeg v.g) (s k : Nat)
    (hk : 1 ≤ k) (hix : IxOk v s) (hinj : IxInj v s) (goal : Option Nat) :
    ∀ (fuel : Nat) (log : List (Int × Nat)) (st : KState) (m : List (Nat × Int)), KF v s k log st →
      kspLoop pop v goal k fuel st = .done m → KExit v s k goal m (log.length + fuel) := by
  intro fuel
  induction fuel with
  | zero => intro log st m _ h; simp [kspLoop] at h
  | succ f ih =>
    intro log st m K h
    simp only [kspLoop] at h
    cases hpop : pop st.heap with
    | none =>
      rw [hpop] at h
      simp at h
      exact Or.inl ⟨log, st, K, (hp.none_iff _).mp hpop, h, by omega⟩
    | some eh =>
      obtain ⟨⟨c, u⟩, h'⟩ := eh
      rw [hpop] at h
      simp only at h
      obtain ⟨n, hsome, hnlen, hin, hminc, hupper', hskip, hexp⟩ := kf_step hp hvm hw hk hix hinj K hpop
      simp only [hsome] at h
      have hlen1 : (log ++ [(c, u)]).length + f = log.length + (f + 1) := by simp; omega
      by_cases hgt : n + 1 > k
      · simp only [hgt, if_true] at h
        have := ih _ _ m (hskip hgt) h
        rw [hlen1] at this; exact this
      · simp only [hgt, if_false] at h
        have KE := hexp (by omega)
        by_cases hnk : n + 1 = k
        · have hcond : (n + 1 = k) = True := eq_true hnk
          have hbeq : (n + 1 == k) = true := by simp [hnk]
          by_cases hg : goal = some u
          · -- the goal's k-th pop: the loop stops
            have hgb : (goal == some u) = true := by simp [hg]
            simp only [hcond, if_true, hgb, hbeq, Bool.and_self] at h
            simp at h
            exact Or.inr ⟨log, st, c, u, K, hg, hin, hminc, by omega, h.symm, hupper'⟩
          · have hgb : (goal == some u) = false := by simpa using hg
            simp only [hcond, if_true, hgb, Bool.false_and, Bool.false_eq_true, if_false] at h
            rw [if_pos hnk] at KE
            have := ih _ _ m KE h
            rw [hlen1] at this; exact this
        · have hbeq : (n + 1 == k) = false := by simpa using hnk
          simp only [hnk, if_false, hbeq, Bool.and_false, Bool.false_eq_true] at h
          rw [if_neg hnk] at KE
          have := ih _ _ m KE h
          rw [hlen1] at this; exact this

/-! ### lower bound below the heap's minimum -/

/-- while every heap entry costs at least `M`, the truncated pop counts dominate the truncated walk
counts for every threshold strictly below `M` -/
theorem kf_lower_below {v : View} (hw : NonNeg v.g) {s k : Nat} {log : List (Int × Nat)} {st : KState}
    (K : KF v s k log st) (M : Int) (hM : ∀ e, e ∈ st.heap → M ≤ e.1) :
    ∀ i x c0, c0 < M → min k (cnt c0 (wcosts v.g s i x)) ≤ min k (cnt c0 (popsOf log x)) := by
  have hacct : ∀ x c0, c0 < M → cnt c0 (popsOf log x) =
      (if x = s then (if 0 ≤ c0 then 1 else 0) else 0) + extCount v.g k log x c0 := by
    intro x c0 hc
    have := K.acct x c0
    have hz : cnt c0 (popsOf st.heap x) = 0 := by
      unfold cnt
      apply List.countP_eq_zero.mpr
      intro y hy
      have := hM (y, x) (mem_popsOf.mp hy)
      simp only at this
      simp; omega
    omega
  intro i
  induction i with
  | zero =>
    intro x c0 hc
    rw [cnt_wcosts_zero, hacct x c0 hc]
    omega
  | succ i ih =>
    intro x c0 hc
    rw [cnt_wcosts_succ, hacct x c0 hc, ← min_sum_min]
    have : (v.g.arcs.map fun a => min k (if a.2.1 = x then cnt (c0 - a.2.2) (wcosts v.g s i a.1) else 0)).sum ≤
        extCount v.g k log x c0 := by
      unfold extCount
      apply sum_map_le
      intro a ha
      have hwa : 0 ≤ a.2.2 := hw a.1 a.2.1 a.2.2 ha
      split
      · exact ih a.1 (c0 - a.2.2) (by omega)
      · simp
    omega

/-- an ascending list of costs of real walks whose counts are exact below `M`: its entry number `k`,
if at most `M`, is the k-th cheapest walk cost -/
theorem kth_of_partial {g : MGraph} {s x k : Nat} (hk : 1 ≤ k) {L : List Int} (hasc : Asc L)
    (hup : ∀ c', ∃ i, cnt c' L ≤ cnt c' (wcosts g s i x)) (M : Int)
    (hlow : ∀ c', c' < M → ∀ i, min k (cnt c' (wcosts g s i x)) ≤ min k (cnt c' L))
    (c : Int) (hc : L[k - 1]? = some c) (hcM : c ≤ M) : KthCost g s x k c := by
  have hidx : ∀ c', k ≤ cnt c' L ↔ ∃ y, L[k - 1]? = some y ∧ y ≤ c' := by
    intro c'
    have := cnt_ge_iff_asc hasc c' (k - 1)
    rw [show k - 1 + 1 = k by omega] at this
    exact this
  constructor
  · rw [atLeast_iff_cnt]
    obtain ⟨i, hi⟩ := hup c
    have : k ≤ cnt c L := (hidx c).mpr ⟨c, hc, Int.le_refl _⟩
    exact ⟨i, by omega⟩
  · intro hlt
    have hle : AtLeast g s x k (· ≤ c - 1) := hlt.mono (fun y hy => by omega)
    rw [atLeast_iff_cnt] at hle
    obtain ⟨i, hi⟩ := hle
    have := hlow (c - 1) (by omega) i
    have hkL : k ≤ cnt (c - 1) L := by omega
    obtain ⟨y, hy, hyle⟩ := (hidx (c - 1)).mp hkL
    rw [hc] at hy; cases hy; omega

/-- the drained exit: the map is exactly `{x ↦ KthCost}` (the argument of `ksp_full`) -/
theorem kf_drained_exact {v : View} {s k : Nat} (hk : 1 ≤ k) {log : List (Int × Nat)} {st : KState}
    (K : KF v s k log st) (hh : st.heap = []) :
    ∀ x c, amGet st.scores x = some c ↔ KthCost v.g s x k c := by
  intro x c
  rw [K.scores x c]
  apply kth_of_counts hk (asc_popsOf K.sorted x)
  intro c'
  rw [atLeast_iff_cnt]
  constructor
  · rintro ⟨i, hi⟩
    have := kf_lower K hh i x c'
    omega
  · intro hle
    exact ⟨log.length, Nat.le_trans hle (K.upper x c')⟩

theorem kf_init (v : View) (s k : Nat) :
    KF v s k [] { counter := List.replicate v.nb 0, heap := [(0, s)] } := by
  refine ⟨by simp, ?_, ?_, List.Pairwise.nil, ?_, ?_, ?_, ?_⟩
  · intro e he; simp at he; subst he; exact Or.inl rfl
  · intro x _
    simp only [popsOf_nil, List.length_nil, List.getElem?_replicate]
    split <;> rfl
  · intro a ha; cases ha
  · intro x c0
    have hz : extCount v.g k [] x c0 = 0 := by
      have := sum_map_le v.g.arcs
        (fun a => if a.2.1 = x then min k (cnt (c0 - a.2.2) (popsOf [] a.1)) else 0) (fun _ => 0)
        (by intro a _; split <;> simp [popsOf_nil, cnt_nil])
      have h0 : (v.g.arcs.map fun _ => 0).sum = 0 := by
        induction v.g.arcs with
        | nil => rfl
        | cons a r ih => simp [List.sum_cons]
      unfold extCount
      omega
    rw [hz, popsOf_cons, popsOf_nil, cnt_nil]
    by_cases hx : x = s
    · subst hx; simp [cnt_cons, cnt_nil]
    · have : ¬ s = x := fun e => hx e.symm
      simp [hx, this, cnt_nil]
  · intro x c
    simp [amGet, popsOf_nil]
  · intro x c0; simp [popsOf_nil, cnt_nil]

/-- the clauses of `k_shortest_path` for a returned map `D`, any goal -/
structure KspSpec (g : MGraph) (s k : Nat) (goal : Option Nat) (D : Nat → Option Int) : Prop where
  /-- every entry is the k-th cheapest walk cost of its node -/
  exact : ∀ x c, D x = some c → KthCost g s x k c
  /-- without goal every node with `k` walks has its entry -/
  all : goal = none → ∀ x c, KthCost g s x k c → D x = some c
  /-- the goal's entry is present iff the goal has `k` walks (and then it is their k-th cost) -/
  goalEntry : ∀ t, goal = some t → ∀ c, D t = some c ↔ KthCost g s t k c
  /-- nodes whose k-th cheapest walk is strictly cheaper than the goal's (all nodes with `k` walks
  when the goal has fewer than `k`) have their entry -/
  closer : ∀ t, goal = some t → ∀ x c, KthCost g s x k c → (∀ ct, KthCost g s t k ct → c < ct) → D x = some c

theorem kspSpec_of_exit {v : View} (hw : NonNeg v.g) {s k : Nat} (hk : 1 ≤ k) {goal : Option Nat}
    {m : List (Nat × Int)} {b : Nat} (E : KExit v s k goal m b) : KspSpec v.g s k goal (amGet m) := by
  rcases E with ⟨log, st, K, hh, hm, _⟩ | ⟨log, st, c, t, K, hg, hin, hmin, hlen, hm, hup⟩
  · subst hm
    have ex := kf_drained_exact hk K hh
    exact ⟨fun x c h => (ex x c).mp h, fun _ x c h => (ex x c).mpr h, fun t _ c => ex t c,
      fun t _ x c h _ => (ex x c).mpr h⟩
  · have low := kf_lower_below hw K c hmin
    have hlogc : ∀ a, a ∈ log → a.1 ≤ c := fun a ha => K.logLe a ha _ hin
    have hget : ∀ x, amGet m x = if x = t then some c else amGet st.scores x := by
      intro x; rw [hm, amGet_amSet]
    -- the goal's own entry
    have hpt : popsOf (log ++ [(c, t)]) t = popsOf log t ++ [c] := by
      rw [popsOf_append, popsOf_cons, popsOf_nil]; simp
    have hsorted' : (log ++ [(c, t)]).Pairwise (fun a b => a.1 ≤ b.1) := by
      rw [List.pairwise_append]
      refine ⟨K.sorted, by simp, ?_⟩
      intro a ha b hb
      simp at hb; subst hb
      exact hlogc a ha
    have hkt : KthCost v.g s t k c := by
      apply kth_of_partial hk (asc_popsOf hsorted' t) (fun c' => ⟨_, hup t c'⟩) c ?_ c ?_ (Int.le_refl _)
      · intro c' hc' i
        have h1 := low i t c' hc'
        have h2 : cnt c' (popsOf log t) ≤ cnt c' (popsOf (log ++ [(c, t)]) t) := by
          rw [hpt, cnt_append]; omega
        omega
      · rw [hpt, List.getElem?_append_right (by omega)]
        have : k - 1 - (popsOf log t).length = 0 := by omega
        simp [this]
    -- entries of the other nodes
    have hother : ∀ x cx, amGet st.scores x = some cx → KthCost v.g s x k cx := by
      intro x cx hx
      have hidx := (K.scores x cx).mp hx
      have hmem : cx ∈ popsOf log x := List.mem_of_getElem? hidx
      have hcx : cx ≤ c := hlogc (cx, x) (mem_popsOf.mp hmem)
      exact kth_of_partial hk (asc_popsOf K.sorted x) (fun c' => ⟨_, K.upper x c'⟩) c
        (fun c' hc' i => low i x c' hc') cx hidx hcx
    have hnone_t : amGet st.scores t = none := by
      cases hs : amGet st.scores t with
      | none => rfl
      | some y =>
        have := (K.scores t y).mp hs
        have := (List.getElem?_eq_some_iff.mp this).1
        omega
    have hexact : ∀ x cx, amGet m x = some cx → KthCost v.g s x k cx := by
      intro x cx hx
      rw [hget] at hx
      by_cases hxt : x = t
      · subst hxt; simp at hx; subst hx; exact hkt
      · simp only [hxt, if_false] at hx; exact hother x cx hx
    have hcloser : ∀ x cx, KthCost v.g s x k cx → cx < c → amGet m x = some cx := by
      intro x cx hkc hlt
      obtain ⟨i, hi⟩ := (atLeast_iff_cnt v.g s x k cx).mp hkc.1
      have := low i x cx hlt
      have hkL : k ≤ cnt cx (popsOf log x) := by omega
      have := (cnt_ge_iff_asc (asc_popsOf K.sorted x) cx (k - 1)).mp (by rw [show k - 1 + 1 = k by omega]; exact hkL)
      obtain ⟨y, hy, _⟩ := this
      have hsx := (K.scores x y).mpr hy
      have hxt : x ≠ t := by
        intro e; subst e; rw [hnone_t] at hsx; cases hsx
      have hmx : amGet m x = some y := by rw [hget]; simp [hxt, hsx]
      have := kthCost_unique (hexact x y hmx) hkc
      rw [hmx, this]
    refine ⟨hexact, fun h => (by rw [hg] at h; cases h), ?_, ?_⟩
    · intro t' ht' c'
      rw [hg] at ht'; cases ht'
      constructor
      · exact hexact t c'
      · intro h
        have := kthCost_unique hkt h
        rw [hget]; simp [this]
    · intro t' ht' x cx hkc hlt
      rw [hg] at ht'; cases ht'
      exact hcloser x cx hkc (hlt c hkt)

/-- **k_shortest_path mirror model, every `k ≥ 1`, ANY goal**, for every min-`pop` -/
theorem ksp_goal_spec {pop : Pop} (hp : IsMinPop pop) {v : View} (hvm : ViewArcsM v) (hw : NonNeg v.g) (s k : Nat)
    (hk : 1 ≤ k) (hix : IxOk v s) (hinj : IxInj v s) (goal : Option Nat) (m : List (Nat × Int))
    (h : kShortestPath pop v s goal k = .done m) : KspSpec v.g s k goal (amGet m) :=
  kspSpec_of_exit hw hk (kf_loop_goal hp hvm hw s k hk hix hinj goal _ _ _ m (kf_init v s k) h)

/-! ### the k-walk oracle's table is stationary from the number of pops on -/

/-- from the drained no-goal run: the truncated counts of the walks with at most `i` arcs never
exceed those with at most `kspFuel v k` arcs -/
theorem counts_stationary {pop : Pop} (hp : IsMinPop pop) {v : View} (hvm : ViewArcsM v) (hw : NonNeg v.g) (s k : Nat)
    (hk : 1 ≤ k) (hix : IxOk v s) (hinj : IxInj v s) :
    ∀ i x c0, min k (cnt c0 (wcosts v.g s i x)) ≤ min k (cnt c0 (wcosts v.g s (kspFuel v k) x)) := by
  have hterm := ksp_terminates hp v s none k
  have hsafe := ksp_partial hp hvm.viewArcs s hix none k
  cases hr : kShortestPath pop v s none k with
  | fuel => exact absurd hr hterm
  | panic => rw [hr] at hsafe; exact absurd hsafe id
  | done m =>
    have E := kf_loop_goal hp hvm hw s k hk hix hinj none _ _ _ m (kf_init v s k) hr
    rcases E with ⟨log, st, K, hh, _, hlen⟩ | ⟨_, _, _, _, _, hg, _⟩
    · intro i x c0
      have h1 := kf_lower K hh i x c0
      have h2 := K.upper x c0
      have h3 := cnt_wcosts_mono v.g s x c0 (i := log.length) (j := kspFuel v k) (by simpa using hlen)
      omega
    · cases hg

end PetgraphModel.C10P
