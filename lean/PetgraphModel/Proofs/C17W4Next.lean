import PetgraphModel.Proofs.SerdeDe
/-
C17 wave 4 — which index a loaded `StableGraph` hands out next: the free lists `link_edges` builds are in descending
index order, so the next `add_node` / `add_edge` re-uses the LARGEST vacant index (and appends when there is none).
-/
namespace PetgraphModel.SerdeProofs
open PetgraphModel.Serde

theorem DChain.head_eq {nodes : List NodeSlot} {END p h : Nat} {l : List Nat} (c : DChain nodes END p h l) :
    h = l.head?.getD END := by
  cases c <;> rfl

theorem Chain.head_eq {edges : List EdgeSlot} {END k h : Nat} {l : List Nat} (c : Chain edges END k h l) :
    h = l.head?.getD END := by
  cases c <;> rfl

theorem idxDesc_head_max {α} (p : α → Bool) (l : List α) (n : Nat) :
    ∀ e, e ∈ idxDesc p l n → ∃ m, (idxDesc p l n).head? = some m ∧ e ≤ m := by
  induction n with
  | zero => intro e he; simp [idxDesc] at he
  | succ n ih =>
    intro e he
    unfold idxDesc at he ⊢
    by_cases h : hit p l n = true
    · rw [if_pos h] at he ⊢
      refine ⟨n, rfl, ?_⟩
      rcases List.mem_cons.1 he with rfl | he'
      · exact Nat.le_refl _
      · exact Nat.le_of_lt (idxDesc_lt p l n e he')
    · rw [if_neg h] at he ⊢
      exact ih e he

/-- the heads of the two free lists of a loaded `StableGraph`: the largest vacant index, `END` when there is none -/
theorem loaded_free_heads {END : Nat} {directed : Bool} {order : List Field} {w : Wire} {s : Stable}
    (h : deStable END directed order w = .ok s) :
    s.freeNode = (vacantN s.g.nodes).head?.getD END ∧ s.freeEdge = (vacantE s.g.edges).head?.getD END ∧
    (∀ (j : Nat) (nd : NodeSlot), s.g.nodes[j]? = some nd → nd.w = none → ∃ m, (vacantN s.g.nodes).head? = some m ∧ j ≤ m) ∧
    (∀ (j : Nat) (e : EdgeSlot), s.g.edges[j]? = some e → e.w = none → ∃ m, (vacantE s.g.edges).head? = some m ∧ j ≤ m) := by
  have D := deStable_de h
  refine ⟨D.freeNodes.head_eq, D.freeEdges.head_eq, ?_, ?_⟩
  · intro j nd hj hw
    apply idxDesc_head_max
    exact (mem_idxDesc _ _ _ _).2 ⟨(List.getElem?_eq_some_iff.1 hj).1, nd, hj, by simp [hw]⟩
  · intro j e hj hw
    apply idxDesc_head_max
    exact (mem_idxDesc _ _ _ _).2 ⟨(List.getElem?_eq_some_iff.1 hj).1, e, hj, by simp [hw]⟩

/-- **the index the next `add_node` hands out after loading**: the largest vacant node index; with no vacancy, the
length of the node array (a loaded graph is below the capacity of its index type, so `add_node` cannot fail). -/
theorem loaded_next_node_index {END : Nat} {directed : Bool} {order : List Field} {w : Wire} {s s1 : Stable}
    {r : Except OpErr Nat} (h : deStable END directed order w = .ok s) (x : Int) (hr : s.tryAddNode x = .ok (s1, r)) :
    (∃ i nd, r = .ok i ∧ s.g.nodes[i]? = some nd ∧ nd.w = none ∧
      ∀ (j : Nat) (nd' : NodeSlot), s.g.nodes[j]? = some nd' → nd'.w = none → j ≤ i) ∨
    ((∀ (j : Nat) (nd' : NodeSlot), s.g.nodes[j]? = some nd' → nd'.w ≠ none) ∧ r = .ok s.g.nodes.length) := by
  have D := deStable_de h
  obtain ⟨hN, _, hmax, _⟩ := loaded_free_heads h
  unfold Stable.tryAddNode at hr
  by_cases hf : s.freeNode = s.g.END
  · -- no vacancy
    right
    rw [if_neg (by simpa using hf)] at hr
    have hnone : vacantN s.g.nodes = [] := by
      cases hv : vacantN s.g.nodes with
      | nil => rfl
      | cons m t =>
        exfalso
        rw [hv] at hN
        simp only [List.head?_cons, Option.getD_some] at hN
        have hm : m ∈ vacantN s.g.nodes := by rw [hv]; exact List.mem_cons_self ..
        have := idxDesc_lt _ _ _ _ hm
        have := D.lenN
        rw [D.hEND] at hf
        omega
    refine ⟨?_, ?_⟩
    · intro j nd' hj hw
      obtain ⟨m, hm, _⟩ := hmax j nd' hj hw
      rw [hnone] at hm
      cases hm
    · have hlen : s.g.nodes.length ≠ s.g.END := by have := D.lenN; rw [D.hEND]; omega
      simp only [Raw.tryAddNode, ne_eq, hlen, not_false_eq_true, if_true, Except.ok.injEq, Prod.mk.injEq] at hr
      exact hr.2.symm
  · left
    rw [if_pos (by simpa using hf)] at hr
    cases ho : s.occupyVacantNode s.freeNode x with
    | error f => simp [ho] at hr
    | ok s2 =>
      simp only [ho, Except.ok.injEq, Prod.mk.injEq] at hr
      cases hv : vacantN s.g.nodes with
      | nil =>
        rw [hv] at hN
        simp only [List.head?_nil, Option.getD_none] at hN
        rw [D.hEND] at hf
        exact absurd hN hf
      | cons m t =>
        rw [hv] at hN
        simp only [List.head?_cons, Option.getD_some] at hN
        have hm : m ∈ vacantN s.g.nodes := by rw [hv]; exact List.mem_cons_self ..
        obtain ⟨_, nd, hnd, hw⟩ := (mem_idxDesc _ _ _ _).1 hm
        refine ⟨m, nd, by rw [← hN]; exact hr.2.symm, hnd, by simpa using hw, ?_⟩
        intro j nd' hj hw'
        obtain ⟨m', hm', hle⟩ := hmax j nd' hj hw'
        rw [hv] at hm'
        simp only [List.head?_cons, Option.some.injEq] at hm'
        omega

end PetgraphModel.SerdeProofs
