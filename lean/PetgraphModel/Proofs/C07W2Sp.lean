import PetgraphModel.Proofs.C07W2Base
import PetgraphModel.Proofs.C10KWalks
import PetgraphModel.Proofs.C10Dijkstra
import PetgraphModel.Proofs.C10Astar
/-
C07, wave 2 — specification-level invariance lemmas for the shortest-path verticals (C10, C11):
`KthCost`, `NonNeg`, `Admissible`, `NegCycleReachable` under a change of presentation and under an
injective relabeling.
-/
namespace PetgraphModel.C07W2
open PetgraphModel PetgraphModel.MGraph PetgraphModel.C10P

/-! ### the arc *list* of a relabeled graph -/

theorem arcs_relabel {φ : Nat → Nat} (hφ : Inj φ) (g : MGraph) :
    (relabel φ g).arcs = g.arcs.map fun a => (φ a.1, φ a.2.1, a.2.2) := by
  have hbeq : ∀ a b : Nat, (φ a == φ b) = (a == b) := by
    intro a b
    by_cases h : a = b
    · subst h; simp
    · have : φ a ≠ φ b := fun h' => h (hφ _ _ h')
      simp [h, this]
  unfold arcs
  rw [relabel_edges, relabel_directed]
  generalize g.edges = es
  induction es with
  | nil => rfl
  | cons e r ih =>
    simp only [List.map_cons, List.flatMap_cons, List.map_append, ih]
    congr 1
    simp only [hbeq]
    split <;> rfl

/-! ### `KthCost` -/

theorem kthCost_unique {g : MGraph} {s v k : Nat} {c c' : Int} (h : KthCost g s v k c)
    (h' : KthCost g s v k c') : c = c' := by
  have key : ∀ {c c' : Int}, KthCost g s v k c → KthCost g s v k c' → ¬ c < c' := by
    intro c c' h h' hlt
    obtain ⟨ws, hnd, hlen, hws⟩ := h.1
    exact h'.2 ⟨ws, hnd, hlen, fun p hp => ⟨(hws p hp).1, Int.lt_of_le_of_lt (hws p hp).2 hlt⟩⟩
  have h1 := key h h'
  have h2 := key h' h
  omega

theorem arcAt_congr {g1 g2 : MGraph} (h : g1.arcs = g2.arcs) (j : Nat) : arcAt g1 j = arcAt g2 j := by
  unfold arcAt; rw [h]

theorem rwalk_congr {g1 g2 : MGraph} (h : g1.arcs = g2.arcs) (s : Nat) (p : List Nat) :
    ∀ v, RWalk g1 s v p ↔ RWalk g2 s v p := by
  induction p with
  | nil => intro v; exact Iff.rfl
  | cons j r ih =>
    intro v
    simp only [RWalk, arcAt_congr h]
    constructor
    · rintro ⟨a, h1, h2, h3⟩; exact ⟨a, h1, h2, (ih _).mp h3⟩
    · rintro ⟨a, h1, h2, h3⟩; exact ⟨a, h1, h2, (ih _).mpr h3⟩

theorem rcost_congr {g1 g2 : MGraph} (h : g1.arcs = g2.arcs) (p : List Nat) : rcost g1 p = rcost g2 p := by
  have : arcW g1 = arcW g2 := by
    funext j; unfold arcW; rw [arcAt_congr h]
  unfold rcost; rw [this]

theorem atLeast_congr {g1 g2 : MGraph} (h : g1.arcs = g2.arcs) (s v n : Nat) (P : Int → Prop) :
    AtLeast g1 s v n P ↔ AtLeast g2 s v n P := by
  unfold AtLeast
  constructor
  · rintro ⟨ws, h1, h2, h3⟩
    exact ⟨ws, h1, h2, fun p hp => ⟨(rwalk_congr h s p v).mp (h3 p hp).1, rcost_congr h p ▸ (h3 p hp).2⟩⟩
  · rintro ⟨ws, h1, h2, h3⟩
    exact ⟨ws, h1, h2, fun p hp => ⟨(rwalk_congr h s p v).mpr (h3 p hp).1, (rcost_congr h p).symm ▸ (h3 p hp).2⟩⟩

/-- `KthCost` depends on the graph only through its arc list (node list, edge ids, and which of the
two orientations of an undirected edge is stored first play no role) -/
theorem kthCost_congr {g1 g2 : MGraph} (h : g1.arcs = g2.arcs) (s v k : Nat) (c : Int) :
    KthCost g1 s v k c ↔ KthCost g2 s v k c := by
  unfold KthCost
  rw [atLeast_congr h, atLeast_congr h]

section
variable {φ : Nat → Nat} (hφ : Inj φ) (g : MGraph)
include hφ

theorem arcAt_relabel (j : Nat) :
    arcAt (relabel φ g) j = (arcAt g j).map fun a => (φ a.1, φ a.2.1, a.2.2) := by
  unfold arcAt; rw [arcs_relabel hφ, List.getElem?_map]

theorem arcW_relabel (j : Nat) : arcW (relabel φ g) j = arcW g j := by
  unfold arcW; rw [arcAt_relabel hφ]
  cases arcAt g j <;> rfl

theorem rcost_relabel (p : List Nat) : rcost (relabel φ g) p = rcost g p := by
  have : arcW (relabel φ g) = arcW g := funext (arcW_relabel hφ g)
  unfold rcost; rw [this]

theorem rwalk_relabel (s : Nat) (p : List Nat) :
    ∀ v, RWalk (relabel φ g) (φ s) (φ v) p ↔ RWalk g s v p := by
  induction p with
  | nil =>
    intro v
    simp only [RWalk]
    exact ⟨fun h => hφ _ _ h, fun h => by rw [h]⟩
  | cons j r ih =>
    intro v
    simp only [RWalk, arcAt_relabel hφ]
    constructor
    · rintro ⟨a', h1, h2, h3⟩
      cases ha : arcAt g j with
      | none => rw [ha] at h1; cases h1
      | some a =>
        rw [ha] at h1
        simp only [Option.map_some, Option.some.injEq] at h1
        subst h1
        exact ⟨a, rfl, hφ _ _ h2, (ih _).mp h3⟩
    · rintro ⟨a, h1, h2, h3⟩
      refine ⟨(φ a.1, φ a.2.1, a.2.2), by rw [h1]; rfl, by simp [h2], (ih _).mpr h3⟩

theorem atLeast_relabel (s v n : Nat) (P : Int → Prop) :
    AtLeast (relabel φ g) (φ s) (φ v) n P ↔ AtLeast g s v n P := by
  unfold AtLeast
  constructor
  · rintro ⟨ws, h1, h2, h3⟩
    exact ⟨ws, h1, h2, fun p hp =>
      ⟨(rwalk_relabel hφ g s p v).mp (h3 p hp).1, rcost_relabel hφ g p ▸ (h3 p hp).2⟩⟩
  · rintro ⟨ws, h1, h2, h3⟩
    exact ⟨ws, h1, h2, fun p hp =>
      ⟨(rwalk_relabel hφ g s p v).mpr (h3 p hp).1, (rcost_relabel hφ g p).symm ▸ (h3 p hp).2⟩⟩

/-- the cost of the k-th cheapest walk is carried along by an injective relabeling -/
theorem kthCost_relabel_iff (s v k : Nat) (c : Int) :
    KthCost (relabel φ g) (φ s) (φ v) k c ↔ KthCost g s v k c := by
  unfold KthCost
  rw [atLeast_relabel hφ, atLeast_relabel hφ]

/-- a k-th cheapest walk of the relabeled graph that starts at an image ends at an image -/
theorem kthCost_relabel_image {s y k : Nat} {c : Int} (hk : 1 ≤ k)
    (h : KthCost (relabel φ g) (φ s) y k c) : ∃ v, y = φ v := by
  obtain ⟨ws, _, hlen, hws⟩ := h.1
  match ws, hlen with
  | p :: _, _ =>
    have hw := (hws p (List.mem_cons_self ..)).1
    clear hws hlen
    -- the end point of a walk from `φ s` is an image
    cases p with
    | nil => exact ⟨s, hw⟩
    | cons j r =>
      obtain ⟨a', h1, h2, _⟩ := hw
      rw [arcAt_relabel hφ] at h1
      cases ha : arcAt g j with
      | none => rw [ha] at h1; cases h1
      | some a =>
        rw [ha] at h1
        simp only [Option.map_some, Option.some.injEq] at h1
        subst h1
        exact ⟨a.2.1, h2.symm⟩
  | [], hl => simp at hl; omega

end

/-! ### side conditions -/

theorem nonNeg_congr {g1 g2 : MGraph} (h : SameArcs g1 g2) (hw : NonNeg g1) : NonNeg g2 :=
  fun a b w harc => hw a b w ((h a b w).mpr harc)

theorem nonNeg_relabel (φ : Nat → Nat) (g : MGraph) (hw : NonNeg g) : NonNeg (relabel φ g) := by
  intro x y w harc
  obtain ⟨a, b, _, _, h⟩ := (mem_arcs_relabel φ g).mp harc
  exact hw a b w h

theorem admissible_congr {g1 g2 : MGraph} (h : SameArcs g1 g2) {isGoal : Nat → Bool} {hh : Nat → Int}
    (ha : Admissible g1 isGoal hh) : Admissible g2 isGoal hh :=
  ⟨ha.1, fun x t c ht hw => ha.2 x t c ht ((walkCost_congr h).mpr hw)⟩

/-! ### `KthCost` does not depend on the order of the arc list -/

/-- a rearrangement comes with an injective re-indexing -/
theorem perm_index {α : Type} {l1 l2 : List α} (hp : l1.Perm l2) :
    ∃ σ : Nat → Nat, (∀ i j, σ i = σ j → i = j) ∧ ∀ i, l2[σ i]? = l1[i]? := by
  induction hp with
  | nil => exact ⟨id, fun _ _ h => h, fun _ => rfl⟩
  | cons x _ ih =>
    obtain ⟨σ, hinj, hσ⟩ := ih
    refine ⟨fun i => match i with | 0 => 0 | i + 1 => σ i + 1, ?_, ?_⟩
    · intro i j h
      match i, j, h with
      | 0, 0, _ => rfl
      | 0, j + 1, h => simp at h
      | i + 1, 0, h => simp at h
      | i + 1, j + 1, h =>
        have : σ i = σ j := by simpa using h
        rw [hinj i j this]
    · intro i
      match i with
      | 0 => rfl
      | i + 1 => simpa using hσ i
  | swap x y l =>
    refine ⟨fun i => match i with | 0 => 1 | 1 => 0 | i + 2 => i + 2, ?_, ?_⟩
    · intro i j h
      match i, j, h with
      | 0, 0, _ => rfl
      | 0, 1, h => simp at h
      | 0, j + 2, h => simp at h
      | 1, 0, h => simp at h
      | 1, 1, _ => rfl
      | 1, j + 2, h => simp at h
      | i + 2, 0, h => simp at h
      | i + 2, 1, h => simp at h
      | i + 2, j + 2, h => simpa using h
    · intro i
      match i with
      | 0 => rfl
      | 1 => rfl
      | i + 2 => rfl
  | trans _ _ ih1 ih2 =>
    obtain ⟨σ1, hinj1, hσ1⟩ := ih1
    obtain ⟨σ2, hinj2, hσ2⟩ := ih2
    exact ⟨fun i => σ2 (σ1 i), fun i j h => hinj1 i j (hinj2 _ _ h), fun i => by rw [hσ2, hσ1]⟩

theorem atLeast_reindex {g1 g2 : MGraph} {σ : Nat → Nat} (hinj : ∀ i j, σ i = σ j → i = j)
    (hσ : ∀ i, arcAt g2 (σ i) = arcAt g1 i) (s v n : Nat) (P : Int → Prop)
    (h : AtLeast g1 s v n P) : AtLeast g2 s v n P := by
  have hw : ∀ (p : List Nat) (v : Nat), RWalk g1 s v p → RWalk g2 s v (p.map σ) := by
    intro p
    induction p with
    | nil => intro v h; exact h
    | cons j r ih =>
      intro v ⟨a, h1, h2, h3⟩
      exact ⟨a, by rw [hσ]; exact h1, h2, ih _ h3⟩
  have hc : ∀ p : List Nat, rcost g2 (p.map σ) = rcost g1 p := by
    intro p
    unfold rcost
    rw [List.map_map]
    congr 1
    refine List.map_congr_left ?_
    intro j _
    simp only [Function.comp, arcW, hσ]
  have hmapinj : ∀ p q : List Nat, p.map σ = q.map σ → p = q := by
    intro p
    induction p with
    | nil => intro q h; cases q with | nil => rfl | cons _ _ => simp at h
    | cons a r ih =>
      intro q h
      cases q with
      | nil => simp at h
      | cons b t =>
        simp only [List.map_cons, List.cons.injEq] at h
        rw [hinj a b h.1, ih t h.2]
  obtain ⟨ws, hnd, hlen, hws⟩ := h
  refine ⟨ws.map (List.map σ), ?_, by simpa using hlen, ?_⟩
  · exact List.pairwise_map.mpr (hnd.imp fun hne heq => hne (hmapinj _ _ heq))
  · intro p' hp'
    obtain ⟨p, hp, rfl⟩ := List.mem_map.mp hp'
    exact ⟨hw p v (hws p hp).1, by rw [hc]; exact (hws p hp).2⟩

theorem atLeast_perm {g1 g2 : MGraph} (h : g1.arcs.Perm g2.arcs) (s v n : Nat) (P : Int → Prop) :
    AtLeast g1 s v n P ↔ AtLeast g2 s v n P := by
  constructor
  · obtain ⟨σ, hinj, hσ⟩ := perm_index h
    exact atLeast_reindex hinj (fun i => hσ i) s v n P
  · obtain ⟨σ, hinj, hσ⟩ := perm_index h.symm
    exact atLeast_reindex hinj (fun i => hσ i) s v n P

/-- `KthCost` depends on the graph only through the *multiset* of its arcs: insertion order, edge
ids, node list and stored orientation of undirected edges play no role -/
theorem kthCost_perm {g1 g2 : MGraph} (h : g1.arcs.Perm g2.arcs) (s v k : Nat) (c : Int) :
    KthCost g1 s v k c ↔ KthCost g2 s v k c := by
  unfold KthCost
  rw [atLeast_perm h, atLeast_perm h]

theorem nonNeg_perm {g1 g2 : MGraph} (h : g1.arcs.Perm g2.arcs) (hw : NonNeg g1) : NonNeg g2 :=
  fun a b w harc => hw a b w (h.mem_iff.mpr harc)

end PetgraphModel.C07W2
