import PetgraphModel.Proofs.StableGraphBulk
import PetgraphModel.Proofs.StableGraphRefine
/-
C02 helper lemmas, part 7: `extend_with_edges` refines the reference.
-/
namespace PetgraphModel.SGProofs
open PetgraphModel PetgraphModel.SG PetgraphModel.SGSpec

/-- `ensure_node_exists` in the reference: a missing node appears with the default weight -/
def ensureNodeSpec (sp : Spec) (i : Nat) : Spec := if sp.nodeLive i then sp else sp.addNodeAt i 0

/-- `extend_with_edges` in the reference: for every listed edge, in order, the missing endpoints appear (default weight)
and the edge is inserted at ANY valid index that is not live -/
inductive SpecExtend (fin : Nat) : Spec → List (Nat × Nat × Int) → Spec → Prop
  | nil (sp : Spec) : SpecExtend fin sp [] sp
  | cons {sp sp' : Spec} {a b e : Nat} {w : Int} {rest : List (Nat × Nat × Int)} :
      (ensureNodeSpec (ensureNodeSpec sp a) b).freshEdge fin e = true →
      SpecExtend fin ((ensureNodeSpec (ensureNodeSpec sp a) b).addEdgeAt e a b w) rest sp' →
      SpecExtend fin sp ((a, b, w) :: rest) sp'

theorem padNodes_content (ix : Nat) : ∀ (fuel : Nat) {s s' : State}, Inv s → padNodes ix fuel s = .ok (s', false) →
    s'.nodes.map (·.w) = s.nodes.map (·.w) ++ List.replicate (ix + 1 - s.nodes.length) none ∧
    s'.edges = s.edges ∧ s'.directed = s.directed ∧ Inv s' ∧ s'.fin = s.fin := by
  intro fuel
  induction fuel with
  | zero => intro s s' _ h; simp [padNodes] at h
  | succ f ih =>
    intro s s' hinv h
    simp only [padNodes] at h
    by_cases hge : ix ≥ s.nodes.length
    · simp only [hge, if_true] at h
      by_cases hlt : s.nodes.length < s.fin
      · obtain ⟨s1, hrun, hinv1, hs1, hlen1, hold1, hnew1⟩ := addVacantNode_spec (d := none) (fn := s.freeNode) (fe := s.freeEdge) hinv hlt
        rw [hrun] at h
        simp only at h
        let s1' : State := { s1 with freeNode := s.nodes.length }
        have hfe1 : s1.freeEdge = s.freeEdge := by rw [hs1]
        have hinv1' : Inv s1' := by
          have := hinv1.with_free s.nodes.length s1.freeEdge
          unfold Inv
          show InvG s1' none s.nodes.length s1.freeEdge
          rw [hfe1]; exact this
        obtain ⟨g1, g2, g3, g4, g5⟩ := ih hinv1' h
        have hmw1 : s1.nodes.map (·.w) = s.nodes.map (·.w) ++ [none] :=
          map_w_append_none hlen1 (fun j m hm => by obtain ⟨m', k1, k2, _⟩ := hold1 j m hm; exact ⟨m', k1, k2⟩) hnew1
        refine ⟨?_, ?_, ?_, g4, ?_⟩
        · rw [g1]
          show s1.nodes.map (·.w) ++ List.replicate (ix + 1 - s1.nodes.length) none = _
          rw [hmw1, hlen1, List.append_assoc]
          congr 1
          have : ix + 1 - s.nodes.length = (ix + 1 - (s.nodes.length + 1)) + 1 := by omega
          rw [this, List.replicate_succ]
          rfl
        · rw [g2]; show s1.edges = s.edges; rw [hs1]
        · rw [g3]; show s1.directed = s.directed; rw [hs1]
        · rw [g5]; show s1.fin = s.fin; rw [hs1]
      · have hcp : canPush s s.nodes.length = false := by
          unfold canPush mkIx
          have := hinv.lenN
          by_cases hn : s.noLimit
          · simp [hn]; omega
          · simp [hn]; rw [Nat.mod_eq_of_lt (by omega)]; omega
        simp [addVacantNode, pushNode, hcp] at h
    · simp only [hge, if_false, Except.ok.injEq, Prod.mk.injEq] at h
      obtain ⟨rfl, _⟩ := h
      have : ix + 1 - s.nodes.length = 0 := by omega
      exact ⟨by rw [this]; simp, rfl, rfl, hinv, rfl⟩

theorem set_append_replicate {α : Type} (l : List (Option α)) (i : Nat) (v : Option α) :
    (l ++ List.replicate (i + 1 - l.length) none).set i v = setAt l i v := by
  unfold setAt
  by_cases hi : i < l.length
  · have : i + 1 - l.length = 0 := by omega
    simp [hi, this]
  · simp only [hi, if_false]
    apply List.ext_getElem?
    intro j
    simp only [List.getElem?_set, List.getElem?_append, List.getElem?_replicate, List.length_append,
      List.length_replicate, List.getElem?_cons]
    grind

/-- `ensure_node_exists(ix)` that does not panic -/
theorem ensureNodeExists_refines {s s' : State} {ix : Nat} (hinv : Inv s) (h : ensureNodeExists s ix = .ok (s', false)) :
    abs s' = ensureNodeSpec (abs s) ix ∧ Inv s' ∧ s'.fin = s.fin := by
  unfold ensureNodeSpec Spec.nodeLive
  rw [abs_node]
  unfold ensureNodeExists at h
  by_cases hl : (nodeWeight s ix).isSome = true
  · simp only [hl, if_true, Except.ok.injEq, Prod.mk.injEq] at h
    obtain ⟨rfl, _⟩ := h
    exact ⟨by simp [hl], hinv, rfl⟩
  · simp only [hl, Bool.false_eq_true, if_false] at h ⊢
    cases hpad : padNodes ix (ix + 2) s with
    | error x => rw [hpad] at h; cases h
    | ok p =>
      obtain ⟨s1, p1⟩ := p
      rw [hpad] at h
      cases p1 with
      | true => simp at h
      | false =>
        simp only at h
        obtain ⟨g1, g2, g3, hinv1, hfin1⟩ := padNodes_content ix (ix + 2) hinv hpad
        cases hocc : occupyVacantNode s1 ix 0 with
        | error x => rw [hocc] at h; cases h
        | ok s2 =>
          rw [hocc] at h
          simp only [Except.ok.injEq, Prod.mk.injEq, and_true] at h
          subst h
          -- the slot is vacant in s1
          have hlen1 : ix < s1.nodes.length := by
            have := congrArg List.length g1
            simp at this; omega
          obtain ⟨slot, hslot⟩ : ∃ slot, s1.nodes[ix]? = some slot := ⟨_, List.getElem?_eq_getElem hlen1⟩
          have hv : slot.w = none := by
            have := congrArg (fun l => l[ix]?) g1
            simp only [List.getElem?_map, hslot, Option.map_some] at this
            by_cases hi : ix < s.nodes.length
            · rw [List.getElem?_append_left (by simpa using hi)] at this
              unfold nodeWeight at hl
              rw [List.getElem?_map] at this
              cases hn : s.nodes[ix]? with
              | none => rw [hn] at this; simp at this
              | some n =>
                rw [hn] at this hl
                simp only [Option.map_some, Option.some.injEq] at this
                rw [this]
                cases hw : n.w with
                | none => rfl
                | some _ => simp only at hl; rw [hw] at hl; simp at hl
            · rw [List.getElem?_append_right (by simp; omega)] at this
              rw [List.getElem?_replicate] at this
              split at this
              · simpa using this
              · cases this
          obtain ⟨s2', hocc', hinv2, hs2, hlen2, hpt⟩ := occupy_spec (w := 0) hinv1 hslot hv (by simp)
          rw [hocc] at hocc'; cases hocc'
          have hfe2 : s2.freeEdge = s1.freeEdge := by rw [hs2]
          refine ⟨?_, by unfold Inv; rw [hfe2]; exact hinv2, by rw [hs2]; exact hfin1⟩
          have hN : s2.nodes.map (·.w) = setAt (s.nodes.map (·.w)) ix (some 0) := by
            rw [← set_append_replicate]
            have : (s.nodes.map (·.w)).length = s.nodes.length := by simp
            rw [this, ← g1]
            apply List.ext_getElem?
            intro j
            simp only [List.getElem?_map, List.getElem?_set, List.length_map]
            by_cases hj : j < s1.nodes.length
            · obtain ⟨n', k1, k2, _⟩ := hpt j _ (List.getElem?_eq_getElem hj)
              rw [k1, List.getElem?_eq_getElem hj]
              by_cases hji : j = ix
              · subst hji; simp [k2, hj]
              · have : ix ≠ j := fun h' => hji h'.symm
                simp [k2, hji, this]
            · have h1 : s2.nodes[j]? = none := List.getElem?_eq_none_iff.2 (by omega)
              have h2 : s1.nodes[j]? = none := List.getElem?_eq_none_iff.2 (by omega)
              have : ix ≠ j := by omega
              simp [h1, h2, this]
          have hE : s2.edges = s.edges := by rw [hs2]; exact g2
          have hD : s2.directed = s.directed := by rw [hs2]; exact g3
          unfold abs Spec.addNodeAt
          simp only [hD, hN, hE]

/-- `extend_with_edges` that completes (no index-limit panic) is a run of `SpecExtend` -/
theorem extendWithEdges_refines : ∀ (l : List (Nat × Nat × Int)) {s s' : State}, Inv s →
    extendWithEdges s l = .ok (s', false) → SpecExtend s.fin (abs s) l (abs s') ∧ Inv s' := by
  intro l
  induction l with
  | nil =>
    intro s s' hinv h
    simp only [extendWithEdges, Except.ok.injEq, Prod.mk.injEq, and_true] at h
    subst h
    exact ⟨.nil _, hinv⟩
  | cons x rest ih =>
    intro s s' hinv h
    obtain ⟨a, b, w⟩ := x
    simp only [extendWithEdges] at h
    cases h1 : ensureNodeExists s a with
    | error x => rw [h1] at h; cases h
    | ok p1 =>
      obtain ⟨s1, q1⟩ := p1
      rw [h1] at h
      cases q1 with
      | true => simp at h
      | false =>
        simp only at h
        obtain ⟨habs1, hinv1, hfin1⟩ := ensureNodeExists_refines hinv h1
        cases h2 : ensureNodeExists s1 b with
        | error x => rw [h2] at h; cases h
        | ok p2 =>
          obtain ⟨s2, q2⟩ := p2
          rw [h2] at h
          cases q2 with
          | true => simp at h
          | false =>
            simp only at h
            obtain ⟨habs2, hinv2, hfin2⟩ := ensureNodeExists_refines hinv1 h2
            cases h3 : tryAddEdge s2 a b w with
            | error x => rw [h3] at h; cases h
            | ok p3 =>
              obtain ⟨s3, r3⟩ := p3
              rw [h3] at h
              cases r3 with
              | error e => simp at h
              | ok e =>
                simp only at h
                obtain ⟨hinv3, hok, _⟩ := addEdge_refines hinv2 h3
                obtain ⟨_, _, hfresh, habs3⟩ := hok e rfl
                have hfin3 : s3.fin = s2.fin := by
                  obtain ⟨s3', r', h3', _, _, hok'⟩ := tryAddEdge_inv hinv2 a b w
                  rw [h3] at h3'; cases h3'
                  have := congrArg State.fin (hok' e rfl).rest; simpa using this
                obtain ⟨hrest, hinv'⟩ := ih hinv3 h
                rw [hfin3, hfin2, hfin1] at hrest
                rw [habs3, habs2, habs1] at hrest
                rw [habs2, habs1, hfin2, hfin1] at hfresh
                exact ⟨.cons hfresh hrest, hinv'⟩


/-! ### nothing that existed is lost, also when `extend_with_edges` panics half-way -/

/-- every element of `sp` is an element of `sp'` (same index, same data) -/
def SpecMono (sp sp' : Spec) : Prop :=
  (∀ i w, sp.node i = some w → sp'.node i = some w) ∧ (∀ e x, sp.edge e = some x → sp'.edge e = some x)

theorem SpecMono.refl (sp : Spec) : SpecMono sp sp := ⟨fun _ _ h => h, fun _ _ h => h⟩
theorem SpecMono.trans {a b c : Spec} (h1 : SpecMono a b) (h2 : SpecMono b c) : SpecMono a c :=
  ⟨fun i w h => h2.1 i w (h1.1 i w h), fun e x h => h2.2 e x (h1.2 e x h)⟩

theorem getElem?_setAt_ne {α : Type} (l : List (Option α)) {i j : Nat} (v : Option α) (h : j ≠ i) :
    ((setAt l i v)[j]?).join = (l[j]?).join := by
  unfold setAt
  split
  · rw [List.getElem?_set_ne (fun h' => h h'.symm)]
  · rename_i hi
    simp only [List.getElem?_append, List.getElem?_replicate, List.length_append, List.length_replicate, List.getElem?_cons]
    grind

theorem mono_addNodeAt (sp : Spec) (i : Nat) (w : Int) (h : sp.nodeLive i = false) : SpecMono sp (sp.addNodeAt i w) := by
  refine ⟨fun j wj hj => ?_, fun e x hx => hx⟩
  have hne : j ≠ i := by
    rintro rfl
    unfold Spec.nodeLive at h; rw [hj] at h; simp at h
  unfold Spec.node Spec.addNodeAt at *
  simp only
  rw [getElem?_setAt_ne _ _ hne]; exact hj

theorem mono_addEdgeAt (sp : Spec) (e a b : Nat) (w : Int) (h : sp.edgeLive e = false) : SpecMono sp (sp.addEdgeAt e a b w) := by
  refine ⟨fun j wj hj => hj, fun e' x hx => ?_⟩
  have hne : e' ≠ e := by
    rintro rfl
    unfold Spec.edgeLive at h; rw [hx] at h; simp at h
  unfold Spec.edge Spec.addEdgeAt at *
  simp only
  rw [getElem?_setAt_ne _ _ hne]; exact hx

theorem mono_ensure (sp : Spec) (i : Nat) : SpecMono sp (ensureNodeSpec sp i) := by
  unfold ensureNodeSpec
  cases hl : sp.nodeLive i with
  | true => simp; exact SpecMono.refl sp
  | false => simp; exact mono_addNodeAt sp i 0 hl

theorem padFrame_mono {s s' : State} (h : PadFrame s s') : SpecMono (abs s) (abs s') := by
  obtain ⟨_, _, hE, _⟩ := h.fields
  refine ⟨fun i w hi => ?_, fun e x hx => ?_⟩
  · rw [abs_node] at hi ⊢
    unfold nodeWeight at hi ⊢
    cases hn : s.nodes[i]? with
    | none => rw [hn] at hi; cases hi
    | some n =>
      rw [hn] at hi
      obtain ⟨n', g1, g2⟩ := h.old i n hn
      rw [g1]; simp only at hi ⊢; rw [g2]; exact hi
  · unfold Spec.edge at hx ⊢
    rw [abs_edges] at hx ⊢
    rw [hE]; exact hx

theorem ensureNodeExists_mono {s s' : State} {ix : Nat} {p : Bool} (hinv : Inv s)
    (h : ensureNodeExists s ix = .ok (s', p)) : SpecMono (abs s) (abs s') ∧ Inv s' := by
  cases p with
  | false =>
    obtain ⟨habs, hinv', _⟩ := ensureNodeExists_refines hinv h
    rw [habs]; exact ⟨mono_ensure _ _, hinv'⟩
  | true =>
    -- the padding loop hit the index limit
    unfold ensureNodeExists at h
    by_cases hl : (nodeWeight s ix).isSome = true
    · simp [hl] at h
    · simp only [hl, Bool.false_eq_true, if_false] at h
      obtain ⟨s1, p1, hrun, hinv1, hpf, _⟩ := padNodes_spec ix (ix + 2) hinv (by omega) (by omega)
      rw [hrun] at h
      cases p1 with
      | true =>
        simp only [Except.ok.injEq, Prod.mk.injEq, and_true] at h
        subst h
        exact ⟨padFrame_mono hpf, hinv1⟩
      | false =>
        simp only at h
        cases hocc : occupyVacantNode s1 ix 0 with
        | error x => rw [hocc] at h; cases h
        | ok s2 => rw [hocc] at h; simp at h

/-- whatever `extend_with_edges` does — completing or panicking at the index limit — every element that existed before is
still there, unchanged -/
theorem extendWithEdges_mono : ∀ (l : List (Nat × Nat × Int)) {s s' : State} {p : Bool}, Inv s →
    extendWithEdges s l = .ok (s', p) → SpecMono (abs s) (abs s') := by
  intro l
  induction l with
  | nil =>
    intro s s' p _ h
    simp only [extendWithEdges, Except.ok.injEq, Prod.mk.injEq] at h
    rw [← h.1]; exact SpecMono.refl _
  | cons x rest ih =>
    intro s s' p hinv h
    obtain ⟨a, b, w⟩ := x
    simp only [extendWithEdges] at h
    cases h1 : ensureNodeExists s a with
    | error x => rw [h1] at h; cases h
    | ok p1 =>
      obtain ⟨s1, q1⟩ := p1
      rw [h1] at h
      obtain ⟨m1, hinv1⟩ := ensureNodeExists_mono hinv h1
      cases q1 with
      | true =>
        simp only [Except.ok.injEq, Prod.mk.injEq] at h
        rw [← h.1]; exact m1
      | false =>
        simp only at h
        cases h2 : ensureNodeExists s1 b with
        | error x => rw [h2] at h; cases h
        | ok p2 =>
          obtain ⟨s2, q2⟩ := p2
          rw [h2] at h
          obtain ⟨m2, hinv2⟩ := ensureNodeExists_mono hinv1 h2
          cases q2 with
          | true =>
            simp only [Except.ok.injEq, Prod.mk.injEq] at h
            rw [← h.1]; exact m1.trans m2
          | false =>
            simp only at h
            cases h3 : tryAddEdge s2 a b w with
            | error x => rw [h3] at h; cases h
            | ok p3 =>
              obtain ⟨s3, r3⟩ := p3
              rw [h3] at h
              obtain ⟨hinv3, hok, herr⟩ := addEdge_refines hinv2 h3
              cases r3 with
              | error e =>
                simp only [Except.ok.injEq, Prod.mk.injEq] at h
                rw [← h.1, (herr e rfl).1]; exact m1.trans m2
              | ok e =>
                simp only at h
                obtain ⟨_, _, hfresh, habs3⟩ := hok e rfl
                have m3 : SpecMono (abs s2) (abs s3) := by
                  rw [habs3]
                  apply mono_addEdgeAt
                  unfold Spec.freshEdge at hfresh
                  simp only [Bool.and_eq_true, Bool.not_eq_true', decide_eq_true_eq] at hfresh
                  exact hfresh.2
                exact (m1.trans m2).trans (m3.trans (ih hinv3 h))

/-- a panic of `extend_with_edges` is legitimate: the request does not fit the index type -/
theorem extendWithEdges_panic_legit {s s' : State} {l : List (Nat × Nat × Int)} (hinv : Inv s)
    (h : extendWithEdges s l = .ok (s', true)) :
    ¬ ((∀ x ∈ l, x.1 < s.fin ∧ x.2.1 < s.fin) ∧ s.edgeCount + l.length ≤ s.fin) := by
  rintro ⟨hv, hf⟩
  obtain ⟨s'', h', _⟩ := extendWithEdges_no_panic l hinv hv hf
  rw [h] at h'; simp at h'


theorem ensureNodeExists_fin {s s' : State} {ix : Nat} {p : Bool} (hinv : Inv s)
    (h : ensureNodeExists s ix = .ok (s', p)) : s'.fin = s.fin := by
  cases p with
  | false => exact (ensureNodeExists_refines hinv h).2.2
  | true =>
    unfold ensureNodeExists at h
    by_cases hl : (nodeWeight s ix).isSome = true
    · simp [hl] at h
    · simp only [hl, Bool.false_eq_true, if_false] at h
      obtain ⟨s1, p1, hrun, hinv1, hpf, _⟩ := padNodes_spec ix (ix + 2) hinv (by omega) (by omega)
      rw [hrun] at h
      cases p1 with
      | true =>
        simp only [Except.ok.injEq, Prod.mk.injEq, and_true] at h
        subst h
        exact hpf.fields.1
      | false =>
        simp only at h
        cases hocc : occupyVacantNode s1 ix 0 with
        | error x => rw [hocc] at h; cases h
        | ok s2 => rw [hocc] at h; simp at h

theorem extendWithEdges_fin : ∀ (l : List (Nat × Nat × Int)) {s s' : State} {p : Bool}, Inv s →
    extendWithEdges s l = .ok (s', p) → s'.fin = s.fin := by
  intro l
  induction l with
  | nil =>
    intro s s' p _ h
    simp only [extendWithEdges, Except.ok.injEq, Prod.mk.injEq] at h
    rw [← h.1]
  | cons x rest ih =>
    intro s s' p hinv h
    obtain ⟨a, b, w⟩ := x
    simp only [extendWithEdges] at h
    cases h1 : ensureNodeExists s a with
    | error x => rw [h1] at h; cases h
    | ok p1 =>
      obtain ⟨s1, q1⟩ := p1
      rw [h1] at h
      have hf1 := ensureNodeExists_fin hinv h1
      obtain ⟨_, hinv1⟩ := ensureNodeExists_mono hinv h1
      cases q1 with
      | true =>
        simp only [Except.ok.injEq, Prod.mk.injEq] at h
        rw [← h.1]; exact hf1
      | false =>
        simp only at h
        cases h2 : ensureNodeExists s1 b with
        | error x => rw [h2] at h; cases h
        | ok p2 =>
          obtain ⟨s2, q2⟩ := p2
          rw [h2] at h
          have hf2 := ensureNodeExists_fin hinv1 h2
          obtain ⟨_, hinv2⟩ := ensureNodeExists_mono hinv1 h2
          cases q2 with
          | true =>
            simp only [Except.ok.injEq, Prod.mk.injEq] at h
            rw [← h.1, hf2, hf1]
          | false =>
            simp only at h
            cases h3 : tryAddEdge s2 a b w with
            | error x => rw [h3] at h; cases h
            | ok p3 =>
              obtain ⟨s3, r3⟩ := p3
              rw [h3] at h
              obtain ⟨s3', r', h3', hinv3, herr, hok⟩ := tryAddEdge_inv hinv2 a b w
              rw [h3] at h3'; cases h3'
              cases r3 with
              | error e =>
                simp only [Except.ok.injEq, Prod.mk.injEq] at h
                rw [← h.1, (herr e rfl).1, hf2, hf1]
              | ok e =>
                simp only at h
                have hf3 : s3.fin = s2.fin := by have := congrArg State.fin (hok e rfl).rest; simpa using this
                rw [ih hinv3 h, hf3, hf2, hf1]

end PetgraphModel.SGProofs
