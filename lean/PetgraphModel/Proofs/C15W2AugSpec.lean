import PetgraphModel.Proofs.C15W2Aug
/-
C15 wave 2 — the specification of `augment_path`, by induction on the fuel (the fuel bounds the
position of the vertex in the labelling order).
-/
namespace PetgraphModel.C15W2
open PetgraphModel PetgraphModel.C15 PetgraphModel.C15M PetgraphModel.C15P

/-- the statement proved by induction on the fuel -/
def AugSpec (c : Ctx) (A : AS) (lab : List Label) (f : Nat) : Prop :=
  ∀ (x w : Nat) (s : GS) (l1 l2 : PL), x ∈ c.v.g.nodes → A.out x = true → A.P x = l1 ++ l2 →
    A.tau x < f → s.label = lab → AugPre c A s x w l1 l2 →
    AugPost c s (augmentPath c.v f x w s) w l1 (fstOr l2 c.sv)

/-- the `Vertex` label: `mate[temp] = y` and continue with `augment_path(y, temp)` -/
theorem aug_vertex_case (c : Ctx) (hv : VHyp c.v c.mode) (A : AS) (hA : AInv c A) (lab : List Label)
    (f : Nat) (ih : AugSpec c A lab f)
    (x w q y : Nat) (s : GS) (r1 l2 : PL) (hx : x ∈ c.v.g.nodes) (hox : A.out x = true)
    (hP : A.P x = (x, q) :: r1 ++ l2) (hf : A.tau x < f + 1) (hlab : s.label = lab)
    (hpre : AugPre c A s x w ((x, q) :: r1) l2) (hLx : A.L x = .vertex y) :
    AugPost c s (augmentPath c.v f y q
      { s with mate := (s.mate.set (c.v.toIndex x) (some w)).set (c.v.toIndex q) (some y) })
      w ((x, q) :: r1) (fstOr l2 c.sv) := by
  have hpx := hA.path x hx hox
  have hxi : c.v.toIndex x < s.mate.length := by rw [hpre.len]; have := hv.ix.lt x hx; omega
  have hnd : (verts ((x, q) :: r1 ++ l2) ++ [c.sv]).Nodup := by rw [← hP]; exact hpx.nodup
  have hmem : ∀ a ∈ verts ((x, q) :: r1 ++ l2), a ∈ c.v.g.nodes := by rw [← hP]; exact hpx.mem
  obtain ⟨hy, hoy, ⟨u, hPu⟩, htau⟩ := hpx.labVertex y hLx
  have hPy : A.P y = r1 ++ l2 := by
    rw [hP] at hPu
    simp only [List.cons_append, List.cons.injEq, Prod.mk.injEq] at hPu
    exact hPu.2.symm
  have hq : q ∈ c.v.g.nodes := hmem q (by simp)
  have hqi : c.v.toIndex q < s.mate.length := by rw [hpre.len]; have := hv.ix.lt q hq; omega
  have hqi' : c.v.toIndex q < (s.mate.set (c.v.toIndex x) (some w)).length := by simpa using hqi
  -- distinctness
  simp only [List.cons_append, verts_cons, List.cons_append, List.nodup_cons, List.mem_cons,
    not_or] at hnd
  obtain ⟨⟨hxq, hxr⟩, hqr, hndr⟩ := hnd
  have hqx : q ≠ x := fun e => hxq e.symm
  -- the state handed to the recursive call
  have hcur2 : ∀ a ∈ c.v.g.nodes, cur c ({ s with mate := (s.mate.set (c.v.toIndex x) (some w)).set (c.v.toIndex q) (some y) } : GS) a = if a = q then some y else if a = x then some w else cur c s a := by
    intro a ha
    show getM ((s.mate.set (c.v.toIndex x) (some w)).set (c.v.toIndex q) (some y)) (c.v.toIndex a) = _
    rw [getM_set_node hv _ _ _ _ hq ha hqi', getM_set_node hv _ _ _ _ hx ha hxi]
    rfl
  have hrest : ∀ a ∈ verts (r1 ++ l2) ++ [c.sv], a ≠ q ∧ a ≠ x :=
    fun a ha => ⟨fun e => hqr (e ▸ ha), fun e => hxr (e ▸ ha)⟩
  have hsvn : c.sv ∈ c.v.g.nodes := hpx.svMem
  have hmem' : ∀ a ∈ verts (r1 ++ l2) ++ [c.sv], a ∈ c.v.g.nodes := by
    intro a ha
    cases List.mem_append.mp ha with
    | inl h => exact hmem a (by simp [h])
    | inr h => simp at h; rw [h]; exact hsvn
  have hsame : ∀ a ∈ verts (r1 ++ l2) ++ [c.sv], cur c ({ s with mate := (s.mate.set (c.v.toIndex x) (some w)).set (c.v.toIndex q) (some y) } : GS) a = cur c s a := by
    intro a ha
    rw [hcur2 a (hmem' a ha)]
    simp [(hrest a ha).1, (hrest a ha).2]
  have hpre2 : AugPre c A ({ s with mate := (s.mate.set (c.v.toIndex x) (some w)).set (c.v.toIndex q) (some y) } : GS) y q r1 l2 := by
    refine ⟨hpre.fault, by simp [hpre.len], ?_, ?_, ?_, ?_, ?_⟩
    · show getM ((s.mate.set (c.v.toIndex x) (some w)).set (c.v.toIndex q) (some y)) c.v.nb = none
      rw [getM_set _ _ _ _ hqi', getM_set _ _ _ _ hxi]
      simp [hv.idx_ne_nb hq, hv.idx_ne_nb hx, hpre.dummy]
    · intro p' q' hm
      have hv' := mem_verts_of_mem hm
      have hp1 : p' ∈ verts (r1 ++ l2) ++ [c.sv] := by simp [verts_append, hv'.1]
      have hq1 : q' ∈ verts (r1 ++ l2) ++ [c.sv] := by simp [verts_append, hv'.2]
      rw [hsame p' hp1, hsame q' hq1]
      exact hpre.matched p' q' (List.mem_cons_of_mem _ hm)
    · intro hl2
      rw [hsame c.sv (by simp)]
      exact hpre.stopNil hl2
    · intro p' q' r hl2
      obtain ⟨h1, h2, h3⟩ := hpre.stopCons p' q' r hl2
      have hp1 : p' ∈ verts (r1 ++ l2) ++ [c.sv] := by simp [verts_append, hl2]
      have hq1 : q' ∈ verts (r1 ++ l2) ++ [c.sv] := by simp [verts_append, hl2]
      rw [hsame p' hp1, hsame q' hq1]
      exact ⟨h1, h2, by omega⟩
    · intro p' q' r hr1 e
      apply hqr
      rw [hr1, e]
      simp
  have post2 := ih y q ({ s with mate := (s.mate.set (c.v.toIndex x) (some w)).set (c.v.toIndex q) (some y) } : GS) r1 l2 hy hoy hPy (by omega) hlab hpre2
  have hz : fstOr l2 c.sv ∈ verts (r1 ++ l2) ++ [c.sv] := by
    have := fstOr_mem' l2 c.sv
    rw [verts_append]
    cases List.mem_append.mp this with
    | inl h => simp [h]
    | inr h => simp at h; simp [h]
  have hxv : x ∉ verts r1 := fun h => hxr (by simp [verts_append, h])
  have hqv : q ∉ verts r1 := fun h => hqr (by simp [verts_append, h])
  have hyfst : fstOr r1 (fstOr l2 c.sv) = y := by
    have := (hA.path y hy hoy).hd
    rw [hPy, fstOr_append] at this
    exact this
  refine ⟨post2.label, post2.fi, post2.fault, by rw [post2.len]; simp, ?_, ?_, ?_, ?_⟩
  · intro i hi
    rw [post2.other i hi]
    show ((s.mate.set (c.v.toIndex x) (some w)).set (c.v.toIndex q) (some y))[i]? = s.mate[i]?
    rw [List.getElem?_set_ne (hi q hq), List.getElem?_set_ne (hi x hx)]
  · refine ⟨?_, ?_, post2.core⟩
    · rw [post2.rest x hx hxv (hrest _ hz).2.symm, hcur2 x hx]
      simp [hxq]
    · rw [post2.rest q hq hqv (hrest _ hz).1.symm, hcur2 q hq, hyfst]
      simp
  · rw [lastSnd_cons]; exact post2.zval
  · intro a ha hav haz
    simp only [verts_cons, List.mem_cons, not_or] at hav
    rw [post2.rest a ha hav.2.2 haz, hcur2 a ha]
    simp [hav.1, hav.2.1]

/-- putting the two recursive calls of the `Edge` label together -/
theorem edge_final (c : Ctx) (s σ2 : GS) (x w z0 c' d' z : Nat) (pre r1' : PL)
    (hlabel : σ2.label = s.label) (hfi : σ2.fi = s.fi) (hfault : σ2.fault = false)
    (hlen : σ2.mate.length = s.mate.length)
    (hother : ∀ i, (∀ a ∈ c.v.g.nodes, c.v.toIndex a ≠ i) → σ2.mate[i]? = s.mate[i]?)
    (hx2 : cur c σ2 x = some w)
    (hCc : Core (cur c σ2) d' pre z0) (hCz : cur c σ2 z0 = some (lastSnd pre d'))
    (hDc : Core (cur c σ2) c' r1' z) (hDz : cur c σ2 z = some (lastSnd r1' c'))
    (hrest : ∀ a ∈ c.v.g.nodes, a ∉ verts ((x, z0) :: revswap pre ++ r1') → a ≠ z →
      cur c σ2 a = cur c s a)
    (hfc : fstOr pre z0 = c') (hfd : fstOr r1' z = d') :
    AugPost c s σ2 w ((x, z0) :: revswap pre ++ r1') z := by
  refine ⟨hlabel, hfi, hfault, hlen, hother, ?_, ?_, hrest⟩
  · rw [List.cons_append]
    refine ⟨hx2, ?_, ?_⟩
    · rw [hCz, fstOr_append, fstOr_revswap, hfd]
    · rw [Core_append, hfd, lastSnd_revswap, hfc]
      exact ⟨(Core_revswap _ _ _ _).mp hCc, hDc⟩
  · rw [List.cons_append, lastSnd_cons, lastSnd_append, lastSnd_revswap, hfc]
    exact hDz

/-- the `Edge` label: `augment_path(src, tgt)`, then `augment_path(tgt, src)` -/
theorem aug_edge_case (c : Ctx) (hv : VHyp c.v c.mode) (A : AS) (hA : AInv c A) (lab : List Label)
    (f : Nat) (ih : AugSpec c A lab f)
    (x w q : Nat) (s : GS) (r1 l2 : PL) (hx : x ∈ c.v.g.nodes) (hox : A.out x = true)
    (hP : A.P x = (x, q) :: r1 ++ l2) (hf : A.tau x < f + 1) (hlab : s.label = lab)
    (hpre : AugPre c A s x w ((x, q) :: r1) l2) (k : Key) (s0 t0 : Nat) (hLx : A.L x = .edge k s0 t0) :
    AugPost c s (augmentPath c.v f t0 s0 (augmentPath c.v f s0 t0
      { s with mate := s.mate.set (c.v.toIndex x) (some w) }))
      w ((x, q) :: r1) (fstOr l2 c.sv) := by
  have hpx := hA.path x hx hox
  have hxi : c.v.toIndex x < s.mate.length := by rw [hpre.len]; have := hv.ix.lt x hx; omega
  obtain ⟨c', d', hor, hc', hd', hoc, hod, _, htc, htd, pre, z0, post, hPc, hPx, htau⟩ :=
    hpx.labEdge k s0 t0 hLx
  have hpc := hA.path c' hc' hoc
  have hpd := hA.path d' hd' hod
  -- the shape of the path
  have hq0 : q = z0 ∧ r1 ++ l2 = revswap pre ++ A.P d' := by
    rw [hP] at hPx
    simp only [List.cons_append, List.cons.injEq, Prod.mk.injEq, true_and] at hPx
    exact hPx
  obtain ⟨hqz, hsplit⟩ := hq0
  subst hqz
  obtain ⟨r1', hr1, hPd⟩ := append_split r1 l2 (revswap pre) (A.P d') hsplit (by
    intro pq hhead hmemr
    obtain ⟨p2, q2⟩ := pq
    cases l2 with
    | nil => cases hhead
    | cons b r =>
      simp only [List.head?_cons, Option.some.injEq] at hhead
      subst hhead
      have h3 := (hpre.stopCons p2 q2 r rfl).2.2
      have : q2 ∈ verts pre := (mem_verts_revswap pre q2).mp (mem_verts_of_mem hmemr).2
      have := htau q2 (List.mem_cons_of_mem _ this)
      omega)
  subst hr1
  -- distinctness
  have hnd : (verts ((x, q) :: (revswap pre ++ r1') ++ l2) ++ [c.sv]).Nodup := by rw [← hP]; exact hpx.nodup
  have hmem : ∀ a ∈ verts ((x, q) :: (revswap pre ++ r1') ++ l2), a ∈ c.v.g.nodes := by rw [← hP]; exact hpx.mem
  have hsvn : c.sv ∈ c.v.g.nodes := hpx.svMem
  have hnd2 : (x :: q :: (verts (revswap pre) ++ (verts (r1' ++ l2) ++ [c.sv]))).Nodup := by
    simpa [verts_append, List.append_assoc] using hnd
  obtain ⟨hx_notin, hnd3⟩ := List.nodup_cons.mp hnd2
  obtain ⟨hq_notin, hnd4⟩ := List.nodup_cons.mp hnd3
  have hxq : x ≠ q := fun e => hx_notin (e ▸ List.mem_cons_self ..)
  have hxVC : x ∉ verts pre := by
    intro h
    have : x ∈ verts (revswap pre) := (mem_verts_revswap pre x).mpr h
    exact hx_notin (List.mem_cons_of_mem _ (List.mem_append_left _ this))
  have hVD : ∀ a ∈ verts (r1' ++ l2) ++ [c.sv], a ≠ x ∧ a ≠ q ∧ a ∉ verts pre := by
    intro a ha
    refine ⟨?_, ?_, ?_⟩
    · intro e; subst e; exact hx_notin (List.mem_cons_of_mem _ (List.mem_append_right _ ha))
    · intro e; subst e; exact hq_notin (List.mem_append_right _ ha)
    · intro h
      have h1 : a ∈ verts (revswap pre) := (mem_verts_revswap pre a).mpr h
      exact disj_of_nodup_append hnd4 h1 ha
  have hVDmem : ∀ a ∈ verts (r1' ++ l2) ++ [c.sv], a ∈ c.v.g.nodes := by
    intro a ha
    cases List.mem_append.mp ha with
    | inl h =>
      apply hmem a
      rw [verts_append] at h
      simp only [List.cons_append, verts_cons, verts_append, List.mem_cons, List.mem_append]
      cases List.mem_append.mp h with
      | inl h' => exact Or.inr (Or.inr (Or.inl (Or.inr h')))
      | inr h' => exact Or.inr (Or.inr (Or.inr h'))
    | inr h => simp at h; rw [h]; exact hsvn
  have hVCmem : ∀ a ∈ verts pre ++ [q], a ∈ c.v.g.nodes := by
    intro a ha
    cases List.mem_append.mp ha with
    | inl h =>
      have : a ∈ verts (revswap pre) := (mem_verts_revswap pre a).mpr h
      exact hmem a (by simp [verts_append, this])
    | inr h => simp at h; rw [h]; exact hmem q (by simp)
  have hq : q ∈ c.v.g.nodes := hVCmem q (by simp)
  have hqVC : q ∉ verts pre := by
    intro h
    have : q ∈ verts (revswap pre) := (mem_verts_revswap pre q).mpr h
    exact hq_notin (List.mem_append_left _ this)
  -- the state after the first assignment
  have hcur1 : ∀ a ∈ c.v.g.nodes, cur c ({ s with mate := s.mate.set (c.v.toIndex x) (some w) } : GS) a =
      if a = x then some w else cur c s a := by
    intro a ha
    show getM (s.mate.set (c.v.toIndex x) (some w)) (c.v.toIndex a) = _
    rw [getM_set_node hv _ _ _ _ hx ha hxi]; rfl
  have hz : fstOr l2 c.sv ∈ verts (r1' ++ l2) ++ [c.sv] := by
    have := fstOr_mem' l2 c.sv
    rw [verts_append]
    cases List.mem_append.mp this with
    | inl h => simp [h]
    | inr h => simp at h; simp [h]
  have hfc : fstOr pre q = c' := by
    have := hpc.hd
    rw [hPc, fstOr_append] at this
    exact this
  have hfd : fstOr r1' (fstOr l2 c.sv) = d' := by
    have := hpd.hd
    rw [hPd, fstOr_append] at this
    exact this
  have hc'VC : c' ∈ verts pre ++ [q] := by rw [← hfc]; exact fstOr_mem' pre q
  have hd'VD : d' ∈ verts (r1' ++ l2) ++ [c.sv] := by
    rw [← hfd, verts_append]
    have := fstOr_mem' r1' (fstOr l2 c.sv)
    cases List.mem_append.mp this with
    | inl h => simp [h]
    | inr h =>
      simp only [List.mem_singleton] at h
      rw [h]
      have := fstOr_mem' l2 c.sv
      cases List.mem_append.mp this with
      | inl h => simp [h]
      | inr h => simp at h; simp [h]
  have hmatched := hpre.matched
  -- the call on the side of `x`
  have hC : ∀ σ : GS, σ.label = lab → σ.fault = false → σ.mate.length = c.v.nb + 1 →
      getM σ.mate c.v.nb = none →
      (∀ a ∈ x :: q :: verts pre, cur c σ a = cur c ({ s with mate := s.mate.set (c.v.toIndex x) (some w) } : GS) a) →
      AugPost c σ (augmentPath c.v f c' d' σ) d' pre q := by
    intro σ h1 h2 h3 h4 h5
    have := ih c' d' σ pre ((q, x) :: post) hc' hoc hPc (by omega) h1
      ⟨h2, h3, h4, ?_, (by intro h; cases h), ?_, ?_⟩
    · simpa using this
    · intro p' q' hm
      have hv' := mem_verts_of_mem hm
      rw [h5 p' (by simp [hv'.1]), h5 q' (by simp [hv'.2])]
      have hp'n : p' ∈ c.v.g.nodes := hVCmem p' (by simp [hv'.1])
      have hq'n : q' ∈ c.v.g.nodes := hVCmem q' (by simp [hv'.2])
      have hp'x : p' ≠ x := fun e => hxVC (e ▸ hv'.1)
      have hq'x : q' ≠ x := fun e => hxVC (e ▸ hv'.2)
      rw [hcur1 p' hp'n, hcur1 q' hq'n]
      simp only [hp'x, hq'x, if_false]
      have := hmatched q' p' (List.mem_cons_of_mem _ (List.mem_append_left _ ((mem_revswap pre q' p').mpr hm)))
      exact ⟨this.2, this.1⟩
    · intro p' q' r' he
      simp only [List.cons.injEq, Prod.mk.injEq] at he
      have e1 : p' = q := he.1.1.symm
      have e2 : q' = x := he.1.2.symm
      rw [e1, e2, h5 q (by simp), h5 x (by simp), hcur1 q hq, hcur1 x hx]
      simp only [hxq.symm, if_false, if_true]
      refine ⟨(hmatched x q (List.mem_cons_self ..)).2, ?_, htc⟩
      intro e
      exact hpre.wne x q _ rfl (Option.some.inj e)
    · intro p' q' r' he e
      have : q' ∈ verts pre := by rw [he]; simp
      exact (hVD d' hd'VD).2.2 (e ▸ this)
  -- the call on the other side
  have hD : ∀ σ : GS, σ.label = lab → σ.fault = false → σ.mate.length = c.v.nb + 1 →
      getM σ.mate c.v.nb = none →
      (∀ a ∈ verts (r1' ++ l2) ++ [c.sv], cur c σ a = cur c ({ s with mate := s.mate.set (c.v.toIndex x) (some w) } : GS) a) →
      AugPost c σ (augmentPath c.v f d' c' σ) c' r1' (fstOr l2 c.sv) := by
    intro σ h1 h2 h3 h4 h5
    have hsame : ∀ a ∈ verts (r1' ++ l2) ++ [c.sv], cur c σ a = cur c s a := by
      intro a ha
      rw [h5 a ha, hcur1 a (hVDmem a ha)]
      simp [(hVD a ha).1]
    refine ih d' c' σ r1' l2 hd' hod hPd (by omega) h1 ⟨h2, h3, h4, ?_, ?_, ?_, ?_⟩
    · intro p' q' hm
      have hv' := mem_verts_of_mem hm
      rw [hsame p' (by simp [verts_append, hv'.1]), hsame q' (by simp [verts_append, hv'.2])]
      exact hmatched p' q' (List.mem_cons_of_mem _ (List.mem_append_right _ hm))
    · intro hl2
      rw [hsame c.sv (by simp)]
      exact hpre.stopNil hl2
    · intro p' q' r' hl2
      obtain ⟨e1, e2, e3⟩ := hpre.stopCons p' q' r' hl2
      rw [hsame p' (by simp [verts_append, hl2]), hsame q' (by simp [verts_append, hl2])]
      exact ⟨e1, e2, by omega⟩
    · intro p' q' r' he e
      have hq'VD : q' ∈ verts (r1' ++ l2) ++ [c.sv] := by rw [he]; simp [verts_append]
      have := hVD q' hq'VD
      rw [← e] at this
      cases List.mem_append.mp hc'VC with
      | inl h => exact this.2.2 h
      | inr h => simp at h; exact this.2.1 h
  -- frames
  have hVCout : ∀ a ∈ verts pre ++ [q], a ∉ verts r1' ∧ a ≠ fstOr l2 c.sv := by
    intro a ha
    constructor
    · intro h
      have hin : a ∈ verts (r1' ++ l2) ++ [c.sv] := by simp [verts_append, h]
      have := hVD a hin
      cases List.mem_append.mp ha with
      | inl h' => exact this.2.2 h'
      | inr h' => simp at h'; exact this.2.1 h'
    · intro e
      have := hVD a (e ▸ hz)
      cases List.mem_append.mp ha with
      | inl h' => exact this.2.2 h'
      | inr h' => simp at h'; exact this.2.1 h'
  have hVDout : ∀ a ∈ verts r1' ++ [fstOr l2 c.sv], a ∉ verts pre ∧ a ≠ q := by
    intro a ha
    have hin : a ∈ verts (r1' ++ l2) ++ [c.sv] := by
      cases List.mem_append.mp ha with
      | inl h => simp [verts_append, h]
      | inr h => simp at h; rw [h]; exact hz
    exact ⟨(hVD a hin).2.2, (hVD a hin).2.1⟩
  have hs1lab : ({ s with mate := s.mate.set (c.v.toIndex x) (some w) } : GS).label = lab := hlab
  have hs1len : ({ s with mate := s.mate.set (c.v.toIndex x) (some w) } : GS).mate.length = c.v.nb + 1 := by
    simp [hpre.len]
  have hs1dummy : getM ({ s with mate := s.mate.set (c.v.toIndex x) (some w) } : GS).mate c.v.nb = none := by
    show getM (s.mate.set (c.v.toIndex x) (some w)) c.v.nb = none
    rw [getM_set _ _ _ _ hxi]; simp [hv.idx_ne_nb hx, hpre.dummy]
  have hdummy_of : ∀ σ σ' : GS, (∀ i, (∀ a ∈ c.v.g.nodes, c.v.toIndex a ≠ i) → σ'.mate[i]? = σ.mate[i]?) →
      getM σ.mate c.v.nb = none → getM σ'.mate c.v.nb = none := by
    intro σ σ' h h0
    unfold getM at h0 ⊢
    rw [h c.v.nb (fun a ha => hv.idx_ne_nb ha)]
    exact h0
  have hs1other : ∀ i, (∀ a ∈ c.v.g.nodes, c.v.toIndex a ≠ i) →
      ({ s with mate := s.mate.set (c.v.toIndex x) (some w) } : GS).mate[i]? = s.mate[i]? := by
    intro i hi
    show (s.mate.set (c.v.toIndex x) (some w))[i]? = s.mate[i]?
    rw [List.getElem?_set_ne (hi x hx)]
  have hxz : x ≠ fstOr l2 c.sv := fun e => (hVD _ hz).1 e.symm
  have hxr1' : x ∉ verts r1' := fun h => (hVD x (by simp [verts_append, h])).1 rfl
  rcases hor with ⟨rfl, rfl⟩ | ⟨rfl, rfl⟩
  · -- first the side of `x`, then the other side
    have postC := hC _ hs1lab hpre.fault hs1len hs1dummy (fun _ _ => rfl)
    have postD := hD _ (postC.label.trans hs1lab) postC.fault (postC.len.trans hs1len)
      (hdummy_of _ _ postC.other hs1dummy)
      (fun a ha => postC.rest a (hVDmem a ha) (hVD a ha).2.2 (hVD a ha).2.1)
    have hfr := AugPost.frame postC postD hVCmem hVCout
    refine edge_final c s _ x w q c' d' _ pre r1' (postD.label.trans postC.label) (postD.fi.trans postC.fi)
      postD.fault (by rw [postD.len, postC.len]; simp) ?_ ?_ hfr.1 hfr.2 postD.core postD.zval ?_ hfc hfd
    · intro i hi; rw [postD.other i hi, postC.other i hi, hs1other i hi]
    · rw [postD.rest x hx hxr1' hxz, postC.rest x hx hxVC hxq, hcur1 x hx]; simp
    · intro a ha hav haz
      simp only [verts_cons, verts_append, List.mem_cons, List.mem_append, not_or] at hav
      have h1 : a ∉ verts pre := fun h => hav.1.2.2 ((mem_verts_revswap pre a).mpr h)
      rw [postD.rest a ha hav.2 haz, postC.rest a ha h1 hav.1.2.1, hcur1 a ha]
      simp [hav.1.1]
  · -- first the other side, then the side of `x`
    have postD := hD _ hs1lab hpre.fault hs1len hs1dummy (fun _ _ => rfl)
    have postC := hC _ (postD.label.trans hs1lab) postD.fault (postD.len.trans hs1len)
      (hdummy_of _ _ postD.other hs1dummy)
      (fun a ha => by
        have ha' : a ∈ verts pre ++ [q] ∨ a = x := by
          simp only [List.mem_cons] at ha
          rcases ha with h | h | h
          · exact Or.inr h
          · exact Or.inl (by simp [h])
          · exact Or.inl (by simp [h])
        cases ha' with
        | inl h => exact postD.rest a (hVCmem a h) (hVCout a h).1 (hVCout a h).2
        | inr h => subst h; exact postD.rest a hx hxr1' hxz)
    have hfr := AugPost.frame postD postC
      (fun a ha => hVDmem a (by
        cases List.mem_append.mp ha with
        | inl h => simp [verts_append, h]
        | inr h => simp at h; rw [h]; exact hz)) hVDout
    refine edge_final c s _ x w q c' d' _ pre r1' (postC.label.trans postD.label) (postC.fi.trans postD.fi)
      postC.fault (by rw [postC.len, postD.len]; simp) ?_ ?_ postC.core postC.zval hfr.1 hfr.2 ?_ hfc hfd
    · intro i hi; rw [postC.other i hi, postD.other i hi, hs1other i hi]
    · rw [postC.rest x hx hxVC hxq, postD.rest x hx hxr1' hxz, hcur1 x hx]; simp
    · intro a ha hav haz
      simp only [verts_cons, verts_append, List.mem_cons, List.mem_append, not_or] at hav
      have h1 : a ∉ verts pre := fun h => hav.1.2.2 ((mem_verts_revswap pre a).mpr h)
      rw [postC.rest a ha h1 hav.1.2.1, postD.rest a ha hav.2 haz, hcur1 a ha]
      simp [hav.1.1]

/-- **`augment_path` re-matches the path** of an outer vertex up to the cut, for every fuel above
the position of the vertex in the labelling order -/
theorem augment_spec (c : Ctx) (hv : VHyp c.v c.mode) (A : AS) (hA : AInv c A) (lab : List Label)
    (hL : ∀ a ∈ c.v.g.nodes, A.out a = true → labI lab (c.v.toIndex a) = A.L a) :
    ∀ f, AugSpec c A lab f := by
  intro f
  induction f with
  | zero => intro x w s l1 l2 _ _ _ hf; exact absurd hf (Nat.not_lt_zero _)
  | succ f ih =>
    intro x w s l1 l2 hx hox hP hf hlab hpre
    cases l1 with
    | nil => exact aug_stop_case c hv A hA f x w s l2 hx hox (by simpa using hP) hpre
    | cons pq r1 =>
      obtain ⟨p, q⟩ := pq
      have hpx := hA.path x hx hox
      have hpe : p = x := by
        have := hpx.hd
        rw [hP] at this
        exact this
      subst hpe
      have hxi : c.v.toIndex p < s.mate.length := by rw [hpre.len]; have := hv.ix.lt p hx; omega
      have hmem : ∀ a ∈ verts ((p, q) :: r1 ++ l2), a ∈ c.v.g.nodes := by rw [← hP]; exact hpx.mem
      have hnd : (verts ((p, q) :: r1 ++ l2) ++ [c.sv]).Nodup := by rw [← hP]; exact hpx.nodup
      have hq : q ∈ c.v.g.nodes := hmem q (by simp)
      have hqp : q ≠ p := by
        intro e
        simp [e] at hnd
      obtain ⟨hpq, hqp'⟩ := hpre.matched p q (List.mem_cons_self ..)
      have hqi : c.v.toIndex q < s.mate.length := by rw [hpre.len]; have := hv.ix.lt q hq; omega
      have h0 : getM s.mate (c.v.toIndex p) = some q := hpq
      rw [aug_unfold _ _ _ _ _ hxi (by rw [h0]; exact hqi), h0]
      unfold augRest
      have hb : ¬ (getM ({ s with mate := s.mate.set (c.v.toIndex p) (some w) } : GS).mate
          (tmpIdx c.v (some q)) != some p) = true := by
        show ¬ (getM (s.mate.set (c.v.toIndex p) (some w)) (c.v.toIndex q) != some p) = true
        rw [getM_set_node hv _ _ _ _ hx hq hxi]
        simp only [hqp, if_false]
        have : getM s.mate (c.v.toIndex q) = some p := hqp'
        simp [this]
      rw [if_neg hb]
      have hlx : labI ({ s with mate := s.mate.set (c.v.toIndex p) (some w) } : GS).label (c.v.toIndex p) = A.L p := by
        show labI s.label (c.v.toIndex p) = A.L p
        rw [hlab]; exact hL p hx hox
      rw [hlx]
      rcases Label.isOuter_cases (A.L p) hox with h | ⟨y, h⟩ | ⟨k, s0, t0, h⟩
      · exfalso
        have := hpx.labStart h
        subst this
        have := hpx.sv_nil
        rw [hP] at this
        cases this
      · rw [h]
        exact aug_vertex_case c hv A hA lab f ih p w q y s r1 l2 hx hox hP hf hlab hpre h
      · rw [h]
        exact aug_edge_case c hv A hA lab f ih p w q s r1 l2 hx hox hP hf hlab hpre k s0 t0 h

end PetgraphModel.C15W2
