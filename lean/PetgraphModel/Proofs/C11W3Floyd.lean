import PetgraphModel.Proofs.C11W2
/-
C11, wave 3 — `floyd_warshall(_path)` under a LINEAR width hypothesis
`2·|V|·Wm < max()`, `min() ≤ −2·|V|·Wm` (instead of the exponential `dbl |V| Wm` of wave 1/2).

Semantic invariant at the boundaries of the passes (`K` = intermediate nodes used so far), in the
branch without a negative diagonal entry:
* `KReal`   every stored entry `dist[a][b]` is the cost of a walk whose interior lies in `K`;
* `SimpleLB` `dist[a][b]` is at most the cost of every *simple* path `a ⇝ b` with interior in `K`
             (closed simple paths — cycles through `a` — included);
* the diagonal is `0`.
Together they give: every closed walk with interior in `K` has cost `≥ 0` (cut simple cycles), hence
every stored entry is the cost of a simple path, hence lies in `[−(|V|−1)·Wm, (|V|−1)·Wm]`: the bound
does NOT double.  So no sum formed in the next pass overflows, and the pass is exact.
-/
namespace PetgraphModel.C11W3
open PetgraphModel PetgraphModel.MGraph PetgraphModel.Oracle PetgraphModel.DistProofs PetgraphModel.C11P
open PetgraphModel.C11M PetgraphModel.C11MP PetgraphModel.C11W2

/-! ### vertex lists: interior, simple -/

/-- the interior vertices of a `WalkL` list (which excludes the start and ends with the end) lie in `K` -/
def Inter (vs K : List Nat) : Prop := ∀ u ∈ vs.dropLast, u ∈ K

/-- no vertex repeated, except that the start may equal the end -/
def Simple (a : Nat) (vs : List Nat) : Prop := vs.Nodup ∧ a ∉ vs.dropLast

theorem walkL_nil_inv {g : MGraph} {a b : Nat} {c : Int} (h : WalkL g a [] b c) : a = b ∧ c = 0 := by
  cases h; exact ⟨rfl, rfl⟩

theorem walkL_end_mem {g : MGraph} {a b : Nat} {vs : List Nat} {c : Int} (h : WalkL g a vs b c)
    (hne : vs ≠ []) : b ∈ vs := by
  induction h with
  | nil => exact absurd rfl hne
  | cons harc h' ih =>
    rename_i a b' x vs' w c'
    cases vs' with
    | nil => obtain ⟨rfl, _⟩ := walkL_nil_inv h'; exact List.mem_cons_self ..
    | cons y t => exact List.mem_cons_of_mem _ (ih (by simp))

theorem walkL_mem_cases {g : MGraph} {a b : Nat} {vs : List Nat} {c : Int} (h : WalkL g a vs b c) :
    ∀ u ∈ vs, u ∈ vs.dropLast ∨ u = b := by
  induction h with
  | nil => intro u hu; cases hu
  | cons harc h' ih =>
    rename_i a b' x vs' w c'
    intro u hu
    cases vs' with
    | nil =>
      obtain ⟨rfl, _⟩ := walkL_nil_inv h'
      simp at hu; exact Or.inr hu
    | cons y t =>
      rw [List.dropLast_cons_cons]
      rcases List.mem_cons.mp hu with rfl | hu
      · exact Or.inl (List.mem_cons_self ..)
      · rcases ih u hu with h1 | h1
        · exact Or.inl (List.mem_cons_of_mem _ h1)
        · exact Or.inr h1

theorem walkL_start_node {g : MGraph} (hwf : g.WellFormed) {a b : Nat} {vs : List Nat} {c : Int}
    (h : WalkL g a vs b c) (hne : vs ≠ []) : a ∈ g.nodes := by
  cases h with
  | nil => exact absurd rfl hne
  | cons harc _ => exact (arc_nodes hwf harc).1

theorem walkL_cost_bd {g : MGraph} {Wm : Int} (hW : ∀ a b w, (a, b, w) ∈ g.arcs → -Wm ≤ w ∧ w ≤ Wm)
    {a b : Nat} {vs : List Nat} {c : Int} (h : WalkL g a vs b c) :
    -((vs.length : Int) * Wm) ≤ c ∧ c ≤ (vs.length : Int) * Wm := by
  induction h with
  | nil => simp
  | cons harc h' ih =>
    rename_i a b' x vs' w c'
    have hw := hW _ _ _ harc
    have e : (((b' :: vs').length : Nat) : Int) * Wm = (vs'.length : Int) * Wm + Wm := by
      rw [List.length_cons, Int.natCast_add, Int.add_mul]; simp
    rw [e]
    omega

/-! ### walks with interior in `K`, tree-shaped (the shape the updates of the triple loop produce) -/

inductive KWalk (g : MGraph) (K : List Nat) : Nat → Nat → Int → Prop
  | nil (a : Nat) : KWalk g K a a 0
  | arc {a b : Nat} {w : Int} : (a, b, w) ∈ g.arcs → KWalk g K a b w
  | join {a m b : Nat} {c1 c2 : Int} : KWalk g K a m c1 → m ∈ K → KWalk g K m b c2 → KWalk g K a b (c1 + c2)

theorem KWalk.mono {g : MGraph} {K K' : List Nat} (hK : ∀ x ∈ K, x ∈ K') {a b : Nat} {c : Int}
    (h : KWalk g K a b c) : KWalk g K' a b c := by
  induction h with
  | nil => exact KWalk.nil _
  | arc harc => exact KWalk.arc harc
  | join _ hm _ ih1 ih2 => exact KWalk.join ih1 (hK _ hm) ih2

theorem KWalk.toL {g : MGraph} {K : List Nat} {a b : Nat} {c : Int} (h : KWalk g K a b c) :
    ∃ vs, WalkL g a vs b c ∧ Inter vs K := by
  induction h with
  | nil a => exact ⟨[], WalkL.nil _, by intro u hu; simp at hu⟩
  | arc harc =>
    rename_i a b w
    refine ⟨[b], ?_, by intro u hu; simp at hu⟩
    have := WalkL.cons harc (WalkL.nil b)
    simpa using this
  | join h1 hm h2 ih1 ih2 =>
    rename_i a m b c1 c2
    obtain ⟨vs1, hw1, hi1⟩ := ih1
    obtain ⟨vs2, hw2, hi2⟩ := ih2
    refine ⟨vs1 ++ vs2, hw1.append hw2, ?_⟩
    intro u hu
    cases vs2 with
    | nil =>
      rw [List.append_nil] at hu
      exact hi1 u hu
    | cons y t =>
      rw [List.dropLast_append_of_ne_nil (by simp)] at hu
      rcases List.mem_append.mp hu with h | h
      · rcases walkL_mem_cases hw1 u h with h' | h'
        · exact hi1 u h'
        · exact h' ▸ hm
      · exact hi2 u h

/-! ### cutting cycles: below every walk with interior in `K` there is a simple one -/

/-- `H`: the simple closed paths with interior in `K` have non-negative cost -/
def CycNonneg (g : MGraph) (K : List Nat) : Prop :=
  ∀ u vs c, vs ≠ [] → WalkL g u vs u c → Simple u vs → Inter vs K → 0 ≤ c

theorem shortenK {g : MGraph} {K : List Nat} (H : CycNonneg g K) :
    ∀ (n : Nat) (vs : List Nat) (a b : Nat) (c : Int), vs.length ≤ n → WalkL g a vs b c → Inter vs K →
      ∃ vs' c', WalkL g a vs' b c' ∧ c' ≤ c ∧ Simple a vs' ∧ Inter vs' K := by
  intro n
  induction n with
  | zero =>
    intro vs a b c hn h hi
    have : vs = [] := by cases vs with | nil => rfl | cons _ _ => simp at hn
    subst this
    exact ⟨[], c, h, Int.le_refl _, ⟨List.nodup_nil, by simp⟩, hi⟩
  | succ n ih =>
    intro vs a b c hn h hi
    -- a closed walk shorter than `n+1` with interior in `K` has non-negative cost
    have hcyc : ∀ (u : Nat) (ws : List Nat) (cc : Int), ws.length ≤ n → WalkL g u ws u cc → Inter ws K → 0 ≤ cc := by
      intro u ws cc hl hw hiw
      obtain ⟨ws', cc', hw', hle, hs', hi'⟩ := ih ws u u cc hl hw hiw
      cases ws' with
      | nil => obtain ⟨_, h0⟩ := walkL_nil_inv hw'; omega
      | cons y t => have := H u (y :: t) cc' (by simp) hw' hs' hi'; omega
    by_cases hs : Simple a vs
    · exact ⟨vs, c, h, Int.le_refl _, hs, hi⟩
    · by_cases ha : a ∈ vs.dropLast
      · -- the start is repeated in the interior
        have hvne : vs ≠ [] := by intro h0; subst h0; simp at ha
        obtain ⟨p2, p3', hd⟩ := List.append_of_mem ha
        have hvs : ∃ l, vs = p2 ++ a :: (p3' ++ [l]) := by
          refine ⟨vs.getLast hvne, ?_⟩
          have := List.dropLast_concat_getLast hvne
          rw [hd] at this
          simpa using this.symm
        obtain ⟨l, hvs⟩ := hvs
        subst hvs
        obtain ⟨c1, c2, h1, h2, hc⟩ := WalkL.split p2 h
        have hdl : (p2 ++ a :: (p3' ++ [l])).dropLast = p2 ++ a :: p3' := by
          rw [List.dropLast_append_of_ne_nil (by simp), List.dropLast_cons_of_ne_nil (by simp),
            List.dropLast_append_of_ne_nil (by simp)]
          simp
        have hc1 : 0 ≤ c1 := by
          apply hcyc a (p2 ++ [a]) c1 _ h1
          · intro u hu
            rw [List.dropLast_append_of_ne_nil (by simp)] at hu
            simp only [List.dropLast_singleton, List.append_nil] at hu
            apply hi u
            rw [hdl]; exact List.mem_append_left _ hu
          · simp only [List.length_append, List.length_cons, List.length_nil] at hn ⊢; omega
        have hlen : (p3' ++ [l]).length ≤ n := by
          simp only [List.length_append, List.length_cons, List.length_nil] at hn ⊢; omega
        have hi3 : Inter (p3' ++ [l]) K := by
          intro u hu
          rw [List.dropLast_append_of_ne_nil (by simp)] at hu
          simp only [List.dropLast_singleton, List.append_nil] at hu
          apply hi u
          rw [hdl]; exact List.mem_append_right _ (List.mem_cons_of_mem _ hu)
        obtain ⟨vs', c', h', hle, hs', hi'⟩ := ih _ a b c2 hlen h2 hi3
        exact ⟨vs', c', h', by omega, hs', hi'⟩
      · -- some vertex of the list is repeated
        have hnd : ¬ vs.Nodup := fun hn' => hs ⟨hn', ha⟩
        obtain ⟨u, p1, p2, p3, hl⟩ := exists_dup hnd
        have hvs : vs = p1 ++ u :: (p2 ++ u :: p3) := by simp [hl]
        subst hvs
        obtain ⟨c1, c23, h1, h23, hc⟩ := WalkL.split p1 h
        obtain ⟨c2, c3, h2, h3, hc'⟩ := WalkL.split p2 h23
        have hdl : (p1 ++ u :: (p2 ++ u :: p3)).dropLast = p1 ++ u :: (p2 ++ (u :: p3).dropLast) := by
          rw [List.dropLast_append_of_ne_nil (by simp), List.dropLast_cons_of_ne_nil (by simp),
            List.dropLast_append_of_ne_nil (by simp)]
        have hc2 : 0 ≤ c2 := by
          apply hcyc u (p2 ++ [u]) c2 _ h2
          · intro x hx
            rw [List.dropLast_append_of_ne_nil (by simp)] at hx
            simp only [List.dropLast_singleton, List.append_nil] at hx
            apply hi x
            rw [hdl]
            exact List.mem_append_right _ (List.mem_cons_of_mem _ (List.mem_append_left _ hx))
          · simp only [List.length_append, List.length_cons, List.length_nil] at hn ⊢; omega
        have hnew := h1.append h3
        have hlen : (p1 ++ [u] ++ p3).length ≤ n := by
          simp only [List.length_append, List.length_cons, List.length_nil] at hn ⊢; omega
        have hin : Inter (p1 ++ [u] ++ p3) K := by
          intro x hx
          apply hi x
          rw [hdl]
          have e : p1 ++ [u] ++ p3 = p1 ++ (u :: p3) := by simp
          rw [e, List.dropLast_append_of_ne_nil (by simp)] at hx
          rcases List.mem_append.mp hx with h' | h'
          · exact List.mem_append_left _ h'
          · apply List.mem_append_right
            cases p3 with
            | nil => simp at h'
            | cons y t =>
              rw [List.dropLast_cons_cons] at h' ⊢
              rcases List.mem_cons.mp h' with rfl | h''
              · exact List.mem_cons_self ..
              · exact List.mem_cons_of_mem _ (List.mem_append_right _ (List.mem_cons_of_mem _ h''))
        obtain ⟨vs', c', h', hle, hs', hi'⟩ := ih _ a b (c1 + c3) hlen hnew hin
        exact ⟨vs', c', h', by omega, hs', hi'⟩

/-! ### the semantic invariant -/

/-- every stored entry (of a row of the graph) is the cost of a walk with interior in `K` -/
def KReal (g : MGraph) (K : List Nat) (T : DTab) : Prop :=
  ∀ a ∈ g.nodes, ∀ b y, tget T (a, b) = some y → KWalk g K a b y

/-- every entry is at most the cost of every simple path with interior in `K` -/
def SimpleLB (B : Meas) (g : MGraph) (K : List Nat) (T : DTab) : Prop :=
  ∀ a ∈ g.nodes, ∀ vs b c, WalkL g a vs b c → Simple a vs → Inter vs K → Dd B T a b ≤ c

structure Sem (B : Meas) (g : MGraph) (K : List Nat) (S : FW) : Prop where
  real : FWReal g S
  kreal : KReal g K S.d
  lb : SimpleLB B g K S.d

/-- the linear bound on the stored entries: `(|V| − 1) · Wm` -/
def ubLin (g : MGraph) (Wm : Int) : Int := ((g.nodes.length - 1 : Nat) : Int) * Wm

theorem ubLin_nonneg (g : MGraph) {Wm : Int} (hWm : 0 ≤ Wm) : 0 ≤ ubLin g Wm :=
  Int.mul_nonneg (Int.natCast_nonneg _) hWm

theorem cyc_of_sem {B : Meas} {g : MGraph} {K : List Nat} {T : DTab} (hwf : g.WellFormed)
    (hdg : ∀ i ∈ g.nodes, Dd B T i i = 0) (hlb : SimpleLB B g K T) : CycNonneg g K := by
  intro u vs c hne hw hs hi
  have hu := walkL_start_node hwf hw hne
  have := hlb u hu vs u c hw hs hi
  rw [hdg u hu] at this
  exact this

theorem simple_len {g : MGraph} (hwf : g.WellFormed) {a b : Nat} {vs : List Nat} {c : Int}
    (hw : WalkL g a vs b c) (hs : Simple a vs) : vs.length ≤ g.nodes.length :=
  List.Nodup.length_le_of_subset hs.1 (fun u hu => hw.mem_nodes hwf u hu)

theorem simple_len_open {g : MGraph} (hwf : g.WellFormed) {a b : Nat} {vs : List Nat} {c : Int}
    (hw : WalkL g a vs b c) (hs : Simple a vs) (ha : a ∈ g.nodes) (hab : a ≠ b) :
    vs.length + 1 ≤ g.nodes.length := by
  have hnin : a ∉ vs := by
    intro hin
    rcases walkL_mem_cases hw a hin with h | h
    · exact hs.2 h
    · exact hab h
  have hnd : (a :: vs).Nodup := List.nodup_cons.mpr ⟨hnin, hs.1⟩
  have hsub : (a :: vs) ⊆ g.nodes := by
    intro u hu
    rcases List.mem_cons.mp hu with rfl | hu
    · exact ha
    · exact hw.mem_nodes hwf u hu
  have := List.Nodup.length_le_of_subset hnd hsub
  simpa using this

/-- **the bound does not double**: under the semantic invariant every stored entry is the cost of
a simple path, hence at most `(|V| − 1) · Wm` in absolute value -/
theorem ub_of_sem {B : Meas} {g : MGraph} {K : List Nat} {S : FW} (hwf : g.WellFormed) {Wm : Int}
    (hWm : 0 ≤ Wm) (hW : ∀ a b w, (a, b, w) ∈ g.arcs → -Wm ≤ w ∧ w ≤ Wm)
    (hbd : DBd B S.d) (hdg : ∀ i ∈ g.nodes, Dd B S.d i i = 0) (hS : Sem B g K S) :
    UBv B S.d (ubLin g Wm) := by
  intro a b hne
  have hU := ubLin_nonneg g hWm
  have hsome := Dd_some hbd hne
  by_cases ha : a ∈ g.nodes
  · by_cases hab : a = b
    · subst hab; rw [hdg a ha]; omega
    · obtain ⟨vs, hw, hi⟩ := (hS.kreal a ha b _ hsome).toL
      obtain ⟨vs', c', hw', hle, hs', hi'⟩ :=
        shortenK (cyc_of_sem hwf hdg hS.lb) vs.length vs a b _ (Nat.le_refl _) hw hi
      have h1 := hS.lb a ha vs' b c' hw' hs' hi'
      have hb := walkL_cost_bd hW hw'
      have hlen := simple_len_open hwf hw' hs' ha hab
      have hl : (vs'.length : Int) ≤ ((g.nodes.length - 1 : Nat) : Int) := by omega
      have := Int.mul_le_mul_of_nonneg_right hl hWm
      unfold ubLin
      omega
  · obtain ⟨_, h0⟩ := walk_from_outside hwf (hS.real a b _ hsome) ha
    omega

theorem kreal_pass {B : Meas} {g : MGraph} {K : List Nat} {k : Nat} {S T : DTab}
    (hrel : PassRel B k S T) (hbdS : DBd B S) (hk : k ∈ g.nodes) (h : KReal g K S) :
    KReal g (k :: K) T := by
  intro a ha b y hy
  have hD : Dd B T a b = y := by simp [Dd, hy]
  have hylt := hrel.bd a b y hy
  have hmono : ∀ x ∈ K, x ∈ k :: K := fun x hx => List.mem_cons_of_mem _ hx
  rcases hrel.val a b with hv | ⟨h1, h2, hv⟩
  · have hne : Dd B S a b ≠ B.max := by omega
    have := Dd_some hbdS hne
    rw [← hv, hD] at this
    exact (h a ha b y this).mono hmono
  · have s1 := Dd_some hbdS h1
    have s2 := Dd_some hbdS h2
    have w1 := (h a ha k _ s1).mono hmono
    have w2 := (h k hk b _ s2).mono hmono
    have := KWalk.join w1 (List.mem_cons_self ..) w2
    rw [← hv, hD] at this
    exact this

theorem simplelb_pass {B : Meas} {g : MGraph} {K : List Nat} {k : Nat} {S T : DTab} (hwf : g.WellFormed)
    {Wm : Int} (hWm : 0 ≤ Wm) (hW : ∀ a b w, (a, b, w) ∈ g.arcs → -Wm ≤ w ∧ w ≤ Wm)
    (hM : (g.nodes.length : Int) * Wm < B.max) (hk : k ∈ g.nodes) (hmono : DMono B S T)
    (hrelax : ∀ i j, i ∈ g.nodes → j ∈ g.nodes → Dd B S i k ≠ B.max → Dd B S k j ≠ B.max →
      Dd B T i j ≤ Dd B S i k + Dd B S k j)
    (h : SimpleLB B g K S) : SimpleLB B g (k :: K) T := by
  intro a ha vs b c hw hs hi
  by_cases hkin : k ∈ vs.dropLast
  · have hvne : vs ≠ [] := by intro h0; subst h0; simp at hkin
    obtain ⟨p1, p3', hd⟩ := List.append_of_mem hkin
    have hvs : ∃ l, vs = p1 ++ k :: (p3' ++ [l]) := by
      refine ⟨vs.getLast hvne, ?_⟩
      have := List.dropLast_concat_getLast hvne
      rw [hd] at this
      simpa using this.symm
    obtain ⟨l, hvs⟩ := hvs
    subst hvs
    have hdl : (p1 ++ k :: (p3' ++ [l])).dropLast = p1 ++ k :: p3' := by
      rw [List.dropLast_append_of_ne_nil (by simp), List.dropLast_cons_of_ne_nil (by simp),
        List.dropLast_append_of_ne_nil (by simp)]
      simp
    obtain ⟨c1, c2, h1, h2, hc⟩ := WalkL.split p1 hw
    obtain ⟨hn1, hn2, hdisj⟩ := List.nodup_append.mp hs.1
    obtain ⟨hk3, hn3⟩ := List.nodup_cons.mp hn2
    have hk1 : ∀ x ∈ p1, x ≠ k := fun x hx => hdisj x hx k (List.mem_cons_self ..)
    have hk3' : ∀ x ∈ p3', x ≠ k := by
      intro x hx hxk
      exact hk3 (hxk ▸ List.mem_append_left _ hx)
    have hs1 : Simple a (p1 ++ [k]) := by
      refine ⟨List.nodup_append.mpr ⟨hn1, by simp, ?_⟩, ?_⟩
      · intro x hx y hy
        have : y = k := by simpa using hy
        rw [this]; exact hk1 x hx
      · rw [List.dropLast_append_of_ne_nil (by simp)]
        simp only [List.dropLast_singleton, List.append_nil]
        intro hin
        apply hs.2
        rw [hdl]; exact List.mem_append_left _ hin
    have hi1 : Inter (p1 ++ [k]) K := by
      intro x hx
      rw [List.dropLast_append_of_ne_nil (by simp)] at hx
      simp only [List.dropLast_singleton, List.append_nil] at hx
      have := hi x (by rw [hdl]; exact List.mem_append_left _ hx)
      rcases List.mem_cons.mp this with h' | h'
      · exact absurd h' (hk1 x hx)
      · exact h'
    have hs3 : Simple k (p3' ++ [l]) := by
      refine ⟨hn3, ?_⟩
      rw [List.dropLast_append_of_ne_nil (by simp)]
      simp only [List.dropLast_singleton, List.append_nil]
      intro hin
      exact hk3 (List.mem_append_left _ hin)
    have hi3 : Inter (p3' ++ [l]) K := by
      intro x hx
      rw [List.dropLast_append_of_ne_nil (by simp)] at hx
      simp only [List.dropLast_singleton, List.append_nil] at hx
      have := hi x (by rw [hdl]; exact List.mem_append_right _ (List.mem_cons_of_mem _ hx))
      rcases List.mem_cons.mp this with h' | h'
      · exact absurd h' (hk3' x hx)
      · exact h'
    have e1 := h a ha _ k c1 h1 hs1 hi1
    have e2 := h k hk _ b c2 h2 hs3 hi3
    have b1 := (walkL_cost_bd hW h1).2
    have b2 := (walkL_cost_bd hW h2).2
    have l1 : ((p1 ++ [k]).length : Int) ≤ (g.nodes.length : Int) := by
      have := simple_len hwf h1 hs1; omega
    have l3 : ((p3' ++ [l]).length : Int) ≤ (g.nodes.length : Int) := by
      have := simple_len hwf h2 hs3; omega
    have m1 := Int.mul_le_mul_of_nonneg_right l1 hWm
    have m3 := Int.mul_le_mul_of_nonneg_right l3 hWm
    have hb : b ∈ g.nodes := h2.mem_nodes hwf b (walkL_end_mem h2 (by simp))
    have := hrelax a b ha hb (by omega) (by omega)
    omega
  · have hi' : Inter vs K := by
      intro x hx
      rcases List.mem_cons.mp (hi x hx) with h' | h'
      · exact absurd (h' ▸ hx) hkin
      · exact h'
    have := h a ha vs b c hw hs hi'
    have := hmono a b
    omega

theorem fwPass_real {B : Meas} {g : MGraph} (ord : List Nat) (k : Nat) (st : FW) (h : FWReal g st) :
    FWReal g (fwPass B ord k st) := by
  unfold fwPass
  apply foldl_inv (FWReal g) _ _ ord st h
  intro st i hst
  apply foldl_inv (FWReal g) _ _ ord st hst
  intro st j hst
  exact fwStep_real k i st j hst

/-- the linear width hypothesis -/
def LinFit (B : Meas) (g : MGraph) (Wm : Int) : Prop :=
  2 * ((g.nodes.length : Int) * Wm) < B.max ∧ B.min ≤ -(2 * ((g.nodes.length : Int) * Wm))

theorem ubLin_fit {B : Meas} {g : MGraph} {Wm : Int} (hWm : 0 ≤ Wm) (hfit : LinFit B g Wm)
    (hn : 0 < g.nodes.length) :
    (2 * ubLin g Wm + Wm < B.max ∧ B.min ≤ -(2 * ubLin g Wm)) ∧ (g.nodes.length : Int) * Wm < B.max := by
  have hU : ubLin g Wm = (g.nodes.length : Int) * Wm - Wm := by
    unfold ubLin
    have : ((g.nodes.length - 1 : Nat) : Int) = (g.nodes.length : Int) - 1 := by omega
    rw [this, Int.sub_mul, Int.one_mul]
  have hM : 0 ≤ (g.nodes.length : Int) * Wm := Int.mul_nonneg (Int.natCast_nonneg _) hWm
  obtain ⟨h1, h2⟩ := hfit
  rw [hU]
  refine ⟨⟨by omega, by omega⟩, by omega⟩

/-- **one pass keeps the semantic invariant and the linear bound** -/
theorem pass_lin {B : Meas} {g : MGraph} (hwf : g.WellFormed) {ord : List Nat}
    (hord : ∀ x, x ∈ ord ↔ x ∈ g.nodes) {Wm : Int}
    (hWm : 0 ≤ Wm) (hW : ∀ a b w, (a, b, w) ∈ g.arcs → -Wm ≤ w ∧ w ≤ Wm) (hfit : LinFit B g Wm)
    {k : Nat} (hk : k ∈ ord) {K : List Nat} (S : FW)
    (hA : FAlways B g S.d) (hG : FGood B g K S.d (ubLin g Wm)) (hS : Sem B g K S) :
    FAlways B g (fwPass B ord k S).d ∧
    (FNeg B g (fwPass B ord k S).d ∨
      (FGood B g (k :: K) (fwPass B ord k S).d (ubLin g Wm) ∧ Sem B g (k :: K) (fwPass B ord k S))) := by
  have hkn : k ∈ g.nodes := (hord k).1 hk
  have hU0 := ubLin_nonneg g hWm
  obtain ⟨hfit', hM⟩ := ubLin_fit hWm hfit (List.length_pos_of_mem hkn)
  obtain ⟨hA', hG'⟩ := pass_good hwf hord hWm hW hk S hU0 hA hG hfit'
  refine ⟨hA', ?_⟩
  rcases hG' with hneg | hgood2
  · exact Or.inl hneg
  · right
    have hkk : Dd B S.d k k = 0 := hG.dg k hkn
    have hno : NoOv B k S.d := by
      intro a b h1 h2
      have := hG.ub a k h1
      have := hG.ub k b h2
      exact oadd_fits (by omega) (by omega)
    have hrel := fwPass_passRel ord S hA.bd hkk hno
    have hS' : Sem B g (k :: K) (fwPass B ord k S) := by
      refine ⟨fwPass_real ord k S hS.real, kreal_pass hrel hA.bd hkn hS.kreal, ?_⟩
      exact simplelb_pass hwf hWm hW hM hkn (fwPass_mono B k ord S)
        (fun i j hi hj h1 h2 => fwPass_relaxes ord S hA.bd hkk hno ((hord i).2 hi) ((hord j).2 hj) h1 h2)
        hS.lb
    exact ⟨⟨hgood2.dg, ub_of_sem hwf hWm hW hA'.bd hgood2.dg hS', hgood2.fk⟩, hS'⟩

/-- the outer loop, with the chains of `prev` (`RowInv` of wave 2) carried along -/
theorem outer_lin {B : Meas} {g : MGraph} (hwf : g.WellFormed) {ord : List Nat}
    (hord : ∀ x, x ∈ ord ↔ x ∈ g.nodes) {Wm : Int}
    (hWm : 0 ≤ Wm) (hW : ∀ a b w, (a, b, w) ∈ g.arcs → -Wm ≤ w ∧ w ≤ Wm) (hfit : LinFit B g Wm) :
    ∀ (l : List Nat) (K : List Nat) (S : FW), (∀ x ∈ l, x ∈ ord) →
      FAlways B g S.d →
      (FNeg B g S.d ∨ (FGood B g K S.d (ubLin g Wm) ∧ Sem B g K S ∧ RowInv g B K S)) →
      FAlways B g (l.foldl (fun st k => fwPass B ord k st) S).d ∧
      (FNeg B g (l.foldl (fun st k => fwPass B ord k st) S).d ∨
        (FGood B g (l.reverse ++ K) (l.foldl (fun st k => fwPass B ord k st) S).d (ubLin g Wm) ∧
          Sem B g (l.reverse ++ K) (l.foldl (fun st k => fwPass B ord k st) S) ∧
          RowInv g B (l.reverse ++ K) (l.foldl (fun st k => fwPass B ord k st) S))) := by
  intro l
  induction l with
  | nil => intro K S _ hA hG; exact ⟨hA, by simpa using hG⟩
  | cons k l ih =>
    intro K S hl hA hG
    simp only [List.foldl_cons, List.reverse_cons, List.append_assoc, List.singleton_append]
    have hk := hl k (List.mem_cons_self ..)
    have hl' : ∀ x ∈ l, x ∈ ord := fun x hx => hl x (List.mem_cons_of_mem _ hx)
    rcases hG with hneg | ⟨hgood, hsem, hrow⟩
    · have hmono := fwPass_mono B k ord S
      have hA' : FAlways B g (fwPass B ord k S).d := by
        refine ⟨fwPass_bd B k ord S hA.bd, ?_, ?_⟩
        · intro a b w harc
          have := hA.arc a b w harc
          have := hmono a b
          omega
        · intro i hi
          have := hA.dgle i hi
          have := hmono i i
          omega
      exact ih (k :: K) _ hl' hA' (Or.inl (fneg_mono hmono hneg))
    · have hkn : k ∈ g.nodes := (hord k).1 hk
      have hU0 := ubLin_nonneg g hWm
      obtain ⟨hfit', _⟩ := ubLin_fit hWm hfit (List.length_pos_of_mem hkn)
      obtain ⟨hA', hG'⟩ := pass_lin hwf hord hWm hW hfit hk S hA hgood hsem
      rcases hG' with hneg' | ⟨hgood', hsem'⟩
      · exact ih (k :: K) _ hl' hA' (Or.inl hneg')
      · have hgood2 : FGood B g (k :: K) (fwPass B ord k S).d (2 * ubLin g Wm) :=
          ⟨hgood'.dg, fun a b hne => by have := hgood'.ub a b hne; omega, hgood'.fk⟩
        exact ih (k :: K) _ hl' hA'
          (Or.inr ⟨hgood', hsem', pass_tree hwf hord hWm hW hk S hU0 hA hgood hfit' hgood2 hrow⟩)

/-! ### the initialisation -/

theorem fwInit_real' (B : Meas) (v : View) : FWReal v.g (fwInit B v) := by
  unfold fwInit
  apply fwDiags_real
  apply fwInit_real _ _ (fun e he => he)
  intro i j y hy
  simp [tget] at hy

theorem init_lin (B : Meas) (v : View) (hwf : v.g.WellFormed) (Wm : Int) (hWm : 0 ≤ Wm)
    (hW : ∀ e ∈ v.g.edges, -Wm ≤ e.w ∧ e.w ≤ Wm) (hB : 0 < B.max) :
    FAlways B v.g (fwInit B v).d ∧
    (FNeg B v.g (fwInit B v).d ∨
      (FGood B v.g [] (fwInit B v).d (ubLin v.g Wm) ∧ Sem B v.g [] (fwInit B v) ∧ RowInv v.g B [] (fwInit B v))) := by
  have hWarc : ∀ a b w, (a, b, w) ∈ v.g.arcs → -Wm ≤ w ∧ w ≤ Wm := by
    intro a b w harc
    obtain ⟨e, he, hw, _⟩ := mem_arcs.mp harc
    rw [← hw]; exact hW e he
  have hI0 : InitInv B v.g.directed Wm ({} : FW).d := by
    refine ⟨?_, ?_, fun _ => ?_⟩
    · intro a b y hy; simp [tget] at hy
    · intro a b hne; simp [Dd, tget] at hne
    · intro a b; simp [Dd, tget]
  obtain ⟨hI1, _, hrelax⟩ := fwInit_inv (B := B) (dir := v.g.directed) v.g.edges {} hW hI0
  obtain ⟨⟨hbd2, hub2⟩, hm2, hdiag⟩ := fwDiags_inv (B := B) hWm v.g.nodes
    (v.g.edges.foldl (fwInitEdge B v.g.directed) {}) ⟨hI1.bd, hI1.ub⟩
  have hA0 : FAlways B v.g (fwInit B v).d := by
    refine ⟨hbd2, ?_, hdiag⟩
    intro a b w harc
    obtain ⟨e, he, hw, hor⟩ := mem_arcs.mp harc
    have hr := hrelax e he
    have := hm2 a b
    rcases hor with ⟨h1, h2⟩ | ⟨hd, h1, h2⟩
    · rw [← h1, ← h2, ← hw]
      have := hm2 e.src e.tgt
      show Dd B (fwInit B v).d e.src e.tgt ≤ e.w
      unfold fwInit
      omega
    · rw [← h1, ← h2, ← hw]
      have := hm2 e.tgt e.src
      have := hr.2 hd
      show Dd B (fwInit B v).d e.tgt e.src ≤ e.w
      unfold fwInit
      omega
  refine ⟨hA0, ?_⟩
  by_cases hneg : FNeg B v.g (fwInit B v).d
  · exact Or.inl hneg
  · right
    have hP0 := fwInit_initP B v
    have hdg : ∀ i ∈ v.g.nodes, Dd B (fwInit B v).d i i = 0 := by
      intro i hi
      have h1 := hA0.dgle i hi
      have h2 : ¬ Dd B (fwInit B v).d i i < 0 := fun hh => hneg ⟨i, hi, hh⟩
      omega
    have hS : Sem B v.g [] (fwInit B v) := by
      refine ⟨fwInit_real' B v, ?_, ?_⟩
      · intro a ha b y hy
        by_cases hab : a = b
        · subst hab
          have h0 := hdg a ha
          have hD : Dd B (fwInit B v).d a a = y := by simp [Dd, hy]
          have : y = 0 := by omega
          subst this
          exact KWalk.nil a
        · exact KWalk.arc (hP0 a b y hy hab).2
      · intro a ha vs b c hw hs hi
        cases vs with
        | nil =>
          obtain ⟨rfl, rfl⟩ := walkL_nil_inv hw
          exact hA0.dgle a ha
        | cons x t =>
          cases t with
          | nil =>
            cases hw with
            | cons harc h' =>
              obtain ⟨rfl, rfl⟩ := walkL_nil_inv h'
              have := hA0.arc _ _ _ harc
              omega
          | cons y t' =>
            have := hi x (by rw [List.dropLast_cons_cons]; exact List.mem_cons_self ..)
            cases this
    refine ⟨⟨hdg, ub_of_sem hwf hWm hWarc hA0.bd hdg hS, ?_⟩, hS, ?_⟩
    · intro i _ u j w _ hu; cases hu
    · intro i hi j hfin
      by_cases hji : j = i
      · subst hji; exact ⟨0, RD.root⟩
      · have hsome := Dd_some hA0.bd hfin
        obtain ⟨hp, harc⟩ := hP0 i j _ hsome (fun hh => hji hh.symm)
        have h0 := hdg i hi
        exact ⟨0 + Dd B (fwInit B v).d i j,
          RD.step RD.root hp hji harc (by omega) hfin (by omega) (Or.inl rfl)⟩

/-! ### the result -/

/-- the state of the matrix after the triple loop, under the linear width hypothesis: either a
diagonal entry is negative, or the semantic invariant holds with `K` = all nodes -/
theorem fw_lin (B : Meas) (v : View) (hwf : v.g.WellFormed) (Wm : Int) (hWm : 0 ≤ Wm)
    (hW : ∀ e ∈ v.g.edges, -Wm ≤ e.w ∧ e.w ≤ Wm) (hfit : LinFit B v.g Wm) :
    FAlways B v.g (fwMatrix B v).d ∧
    (FNeg B v.g (fwMatrix B v).d ∨
      (FGood B v.g ((ordByIx v).reverse ++ []) (fwMatrix B v).d (ubLin v.g Wm) ∧
        Sem B v.g ((ordByIx v).reverse ++ []) (fwMatrix B v) ∧
        RowInv v.g B ((ordByIx v).reverse ++ []) (fwMatrix B v))) := by
  obtain ⟨hord, _⟩ := ordByIx_spec v
  have hWarc : ∀ a b w, (a, b, w) ∈ v.g.arcs → -Wm ≤ w ∧ w ≤ Wm := by
    intro a b w harc
    obtain ⟨e, he, hw, _⟩ := mem_arcs.mp harc
    rw [← hw]; exact hW e he
  have hB : 0 < B.max := by
    have hM : 0 ≤ (v.g.nodes.length : Int) * Wm := Int.mul_nonneg (Int.natCast_nonneg _) hWm
    have := hfit.1
    omega
  obtain ⟨hA0, hG0⟩ := init_lin B v hwf Wm hWm hW hB
  have := outer_lin hwf hord hWm hWarc hfit (ordByIx v) [] (fwInit B v) (fun x hx => hx) hA0 hG0
  rw [← fwMatrix_eq] at this
  exact this

/-- with `K ⊇` all nodes: every walk lies above a simple path that the matrix accounts for -/
theorem below_walk {B : Meas} {g : MGraph} {K : List Nat} {S : FW} (hwf : g.WellFormed)
    (hK : ∀ x ∈ g.nodes, x ∈ K) (hdg : ∀ i ∈ g.nodes, Dd B S.d i i = 0) (hS : Sem B g K S)
    {a b : Nat} {c : Int} (ha : a ∈ g.nodes) (hw : WalkCost g a b c) :
    ∃ vs' c', WalkL g a vs' b c' ∧ c' ≤ c ∧ Simple a vs' ∧ Dd B S.d a b ≤ c' := by
  obtain ⟨vs, hvs⟩ := walkL_of_walk hw
  have hi : Inter vs K := fun x hx => hK x (hvs.mem_nodes hwf x (List.dropLast_subset vs hx))
  obtain ⟨vs', c', hw', hle, hs', hi'⟩ :=
    shortenK (cyc_of_sem hwf hdg hS.lb) vs.length vs a b c (Nat.le_refl _) hvs hi
  exact ⟨vs', c', hw', hle, hs', hS.lb a ha vs' b c' hw' hs' hi'⟩

theorem noneg_of_sem {B : Meas} {g : MGraph} {K : List Nat} {S : FW} (hwf : g.WellFormed)
    (hK : ∀ x ∈ g.nodes, x ∈ K) (hdg : ∀ i ∈ g.nodes, Dd B S.d i i = 0) (hS : Sem B g K S) :
    ¬ NegCycle g := by
  rintro ⟨u, c, hc, hlt⟩
  by_cases hu : u ∈ g.nodes
  · obtain ⟨vs', c', _, hle, _, h0⟩ := below_walk hwf hK hdg hS hu hc
    rw [hdg u hu] at h0
    omega
  · have := (walk_from_outside hwf hc hu).2
    omega

/-- **floyd_warshall, `Ok` half, linear width hypothesis.** -/
theorem floydWarshall_ok_lin (B : Meas) (v : View) (hwf : v.g.WellFormed) (Wm : Int) (hWm : 0 ≤ Wm)
    (hW : ∀ e ∈ v.g.edges, -Wm ≤ e.w ∧ e.w ≤ Wm) (hfit : LinFit B v.g Wm)
    (st : FW) (h : floydWarshall B v = some st) :
    (∀ i ∈ v.g.nodes,
      (∀ j y, tget st.d (i, j) = some y → IsShortest v.g i j y) ∧
      (∀ j, tget st.d (i, j) = none ↔ ¬ ∃ c, WalkCost v.g i j c)) ∧
    ¬ NegCycle v.g := by
  obtain ⟨hst, hnoneg⟩ := floydWarshall_some h
  subst hst
  obtain ⟨hord, _⟩ := ordByIx_spec v
  have hWarc : ∀ a b w, (a, b, w) ∈ v.g.arcs → -Wm ≤ w ∧ w ≤ Wm := by
    intro a b w harc
    obtain ⟨e, he, hw, _⟩ := mem_arcs.mp harc
    rw [← hw]; exact hW e he
  obtain ⟨hA, hG⟩ := fw_lin B v hwf Wm hWm hW hfit
  rcases hG with hneg | ⟨hgood, hS, _⟩
  · exact absurd hneg hnoneg
  · have hK : ∀ x ∈ v.g.nodes, x ∈ (ordByIx v).reverse ++ [] := by
      intro x hx; simpa using (hord x).2 hx
    refine ⟨?_, noneg_of_sem hwf hK hgood.dg hS⟩
    intro i hi
    constructor
    · intro j y hy
      refine ⟨hS.real i j y hy, ?_⟩
      intro c hc
      obtain ⟨vs', c', _, hle, _, h0⟩ := below_walk hwf hK hgood.dg hS hi hc
      have hD : Dd B (fwMatrix B v).d i j = y := by simp [Dd, hy]
      omega
    · intro j
      constructor
      · rintro hnone ⟨c, hc⟩
        obtain ⟨vs', c', hw', hle, hs', h0⟩ := below_walk hwf hK hgood.dg hS hi hc
        have hD : Dd B (fwMatrix B v).d i j = B.max := by simp [Dd, hnone]
        have hb := (walkL_cost_bd hWarc hw').2
        have hl : ((vs'.length : Nat) : Int) ≤ (v.g.nodes.length : Int) := by
          have := simple_len hwf hw' hs'; omega
        have := Int.mul_le_mul_of_nonneg_right hl hWm
        have hM : 0 ≤ (v.g.nodes.length : Int) * Wm := Int.mul_nonneg (Int.natCast_nonneg _) hWm
        obtain ⟨h1, _⟩ := hfit
        omega
      · intro hno
        cases hd : tget (fwMatrix B v).d (i, j) with
        | none => rfl
        | some y => exact absurd ⟨y, hS.real i j y hd⟩ hno

/-- **floyd_warshall detects every negative cycle, linear width hypothesis.** -/
theorem floydWarshall_detects_lin (B : Meas) (v : View) (hwf : v.g.WellFormed) (Wm : Int) (hWm : 0 ≤ Wm)
    (hW : ∀ e ∈ v.g.edges, -Wm ≤ e.w ∧ e.w ≤ Wm) (hfit : LinFit B v.g Wm)
    (hneg : NegCycle v.g) : floydWarshall B v = none := by
  cases h : floydWarshall B v with
  | none => rfl
  | some st => exact absurd hneg (floydWarshall_ok_lin B v hwf Wm hWm hW hfit st h).2

/-- **floyd_warshall_path, the predecessor matrix, linear width hypothesis.** -/
theorem floydWarshall_prev_lin (B : Meas) (v : View) (hwf : v.g.WellFormed) (Wm : Int) (hWm : 0 ≤ Wm)
    (hW : ∀ e ∈ v.g.edges, -Wm ≤ e.w ∧ e.w ≤ Wm) (hfit : LinFit B v.g Wm)
    (st : FW) (h : floydWarshall B v = some st) :
    ∀ i ∈ v.g.nodes, ∀ j y, tget st.d (i, j) = some y →
      TreeWalk v.g (fun x => if x == i then none else tget st.p (i, x)) i j y := by
  have hok := (floydWarshall_ok_lin B v hwf Wm hWm hW hfit st h).1
  obtain ⟨hst, hnoneg⟩ := floydWarshall_some h
  subst hst
  obtain ⟨hA, hG⟩ := fw_lin B v hwf Wm hWm hW hfit
  rcases hG with hneg | ⟨hgood, _, hrow⟩
  · exact absurd hneg hnoneg
  · intro i hi j y hy
    have hylt := hA.bd i j y hy
    have hD : Dd B (fwMatrix B v).d i j = y := by simp [Dd, hy]
    obtain ⟨c, hc⟩ := hrow i hi j (by omega)
    have hle := hc.cost_le
    have h0 := hgood.dg i hi
    have hsh := ((hok i hi).1 j y hy).2 c hc.walk
    have hcy : c = y := by omega
    subst hcy
    exact hc.tree

/-- **`prev[i][j]` is the penultimate node of a shortest walk**, linear width hypothesis. -/
theorem floydWarshall_prev_arc_lin (B : Meas) (v : View) (hwf : v.g.WellFormed) (Wm : Int) (hWm : 0 ≤ Wm)
    (hW : ∀ e ∈ v.g.edges, -Wm ≤ e.w ∧ e.w ≤ Wm) (hfit : LinFit B v.g Wm)
    (st : FW) (h : floydWarshall B v = some st) :
    ∀ i ∈ v.g.nodes, ∀ j, j ≠ i →
      (tget st.p (i, j) = none ↔ ¬ ∃ c, WalkCost v.g i j c) ∧
      (∀ q, tget st.p (i, j) = some q →
        ∃ a w, IsShortest v.g i q a ∧ tget st.d (i, q) = some a ∧ (q, j, w) ∈ v.g.arcs ∧
          tget st.d (i, j) = some (a + w) ∧ IsShortest v.g i j (a + w)) := by
  have hok := (floydWarshall_ok_lin B v hwf Wm hWm hW hfit st h).1
  have htree := floydWarshall_prev_lin B v hwf Wm hWm hW hfit st h
  have hps : PSome st := by
    obtain ⟨hst, _⟩ := floydWarshall_some h
    rw [hst]; exact fwMatrix_psome B v
  intro i hi j hji
  have hji' : (j == i) = false := by simpa using hji
  obtain ⟨hex, hinf⟩ := hok i hi
  have key : ∀ y, tget st.d (i, j) = some y →
      ∃ q a w, tget st.p (i, j) = some q ∧ IsShortest v.g i q a ∧ tget st.d (i, q) = some a ∧
        (q, j, w) ∈ v.g.arcs ∧ y = a + w := by
    intro y hy
    have htw := htree i hi j y hy
    cases htw with
    | root => exact absurd rfl hji
    | step hprev hp harc =>
      rename_i u c w
      simp only [hji'] at hp
      have hwalk := hprev.walk
      cases hdu : tget st.d (i, u) with
      | none => exact absurd ⟨c, hwalk⟩ ((hinf u).1 hdu)
      | some a =>
        have hsa := hex u a hdu
        have h1 := hsa.2 c hwalk
        have h2 := (hex j _ hy).2 (a + w) (WalkCost.snoc hsa.1 harc)
        have hac : a = c := by omega
        subst hac
        exact ⟨u, a, w, hp, hsa, hdu, harc, rfl⟩
  constructor
  · constructor
    · intro hn
      apply (hinf j).1
      cases hd : tget st.d (i, j) with
      | none => rfl
      | some y =>
        obtain ⟨q, _, _, hq, _⟩ := key y hd
        rw [hn] at hq; cases hq
    · intro hno
      have hd := (hinf j).2 hno
      cases hq : tget st.p (i, j) with
      | none => rfl
      | some q =>
        obtain ⟨y, hy⟩ := hps i j q hq
        rw [hd] at hy; cases hy
  · intro q hq
    obtain ⟨y, hy⟩ := hps i j q hq
    obtain ⟨q', a, w, hq', hsa, hda, harc, hyw⟩ := key y hy
    rw [hq] at hq'; cases hq'
    subst hyw
    exact ⟨a, w, hsa, hda, harc, hy, hex j _ hy⟩

end PetgraphModel.C11W3
