import PetgraphModel.Proofs.C15FlowModel
/-
C15 wave 5 — `ford_fulkerson` with a BOUNDED capacity type.

`Model/C15Flow.lean` computes with exact integers.  Here the same algorithm is written over partial
arithmetic `Ops` (`add`, `sub : Int → Int → Option Int`; `none` = the operation left the range of the
type: an overflow panic in a debug build).  The four places where `ford_fulkerson.rs` computes are
`*edge.weight() - flow` (`residual_capacity`), `flow - delta`, `flow + delta` (`adjust_residual_flow`)
and `max_flow + path_flow`; comparisons are exact in every type; `W::max()` stays the `none` of the
accumulator (an element that is `≥` every value of the type).

`Agrees o M`: the operations return the exact result whenever it lies in `0..M`.  This holds for
the overflow-checked operations of an unsigned type with maximum `M` (`opsB M`), for its wrapping
operations (`opsW M`, release builds), for `f64`/`f32` on integers up to `2^53`/`2^24`, and for exact
integers.  Main theorem (`fordFulkersonG_eq`): if every capacity is in `0..M` and the capacity of
SOME `s`-`t` cut (e.g. the edges out of the source) is at most `M`, then the run over `o` never leaves
the range and returns exactly what the integer model returns — to which `C15_flow_feasible` and
`C15_flow_max` apply.  Without the bound on a cut the statement is false (`needs_cut_bound`).
-/
namespace PetgraphModel.C15FB
open PetgraphModel PetgraphModel.C15 PetgraphModel.C15F PetgraphModel.C15P

structure Ops where
  add : Int → Int → Option Int
  sub : Int → Int → Option Int

/-- exact integers -/
def opsInt : Ops := ⟨fun a b => some (a + b), fun a b => some (a - b)⟩

def chk (M x : Int) : Option Int := if 0 ≤ x ∧ x ≤ M then some x else none

/-- overflow-checked arithmetic of an unsigned type with maximum `M` (debug builds panic on `none`) -/
def opsB (M : Int) : Ops := ⟨fun a b => chk M (a + b), fun a b => chk M (a - b)⟩

/-- wrapping arithmetic of an unsigned type with maximum `M` (release builds) -/
def opsW (M : Int) : Ops := ⟨fun a b => some ((a + b) % (M + 1)), fun a b => some ((a - b) % (M + 1))⟩

/-- the operations are exact whenever the exact result lies in `0..M` -/
structure Agrees (o : Ops) (M : Int) : Prop where
  add : ∀ a b, 0 ≤ a + b → a + b ≤ M → o.add a b = some (a + b)
  sub : ∀ a b, 0 ≤ a - b → a - b ≤ M → o.sub a b = some (a - b)

theorem agrees_int (M : Int) : Agrees opsInt M := ⟨fun _ _ _ _ => rfl, fun _ _ _ _ => rfl⟩

theorem agrees_B (M : Int) : Agrees (opsB M) M := by
  constructor <;> intro a b h1 h2 <;> simp only [opsB, chk] <;> rw [if_pos ⟨h1, h2⟩]

theorem agrees_W (M : Int) : Agrees (opsW M) M := by
  constructor <;> intro a b h1 h2 <;> simp only [opsW] <;>
    rw [Int.emod_eq_of_lt h1 (by omega)]

/-! ### the algorithm over `Ops` -/

/-- `residual_capacity`; outer `none` = arithmetic left the range, inner `none` = illegal endpoint -/
def residualCapG (o : Ops) (e : Edge) (vertex : Nat) (flow : Int) : Option (Option Int) :=
  if vertex = e.src then some (some flow)
  else if vertex = e.tgt then (o.sub e.w flow).map some else some none

/-- `adjust_residual_flow` -/
def adjustFlowG (o : Ops) (e : Edge) (vertex : Nat) (flow delta : Int) : Option (Option Int) :=
  if vertex = e.src then (o.sub flow delta).map some
  else if vertex = e.tgt then (o.add flow delta).map some else some none

def scanEdgesG (o : Ops) (v : View) (fl : Flows) (dst vertex : Nat) : List (Nat × Nat) → Bfs → Option Bfs
  | [], b => some b
  | (_, eid) :: rest, b =>
    match v.edge? eid with
    | none => some { b with fault := true }
    | some e =>
      match otherEndpoint e vertex with
      | none => some { b with fault := true }
      | some next =>
        match residualCapG o e next (getFlow fl eid) with
        | none => none
        | some none => some { b with fault := true }
        | some (some rc) =>
          if !b.visited.contains next && decide (rc > 0) then
            let b := { b with visited := next :: b.visited, edgeTo := (next, eid) :: b.edgeTo }
            if dst = next then some { b with found := true }
            else scanEdgesG o v fl dst vertex rest { b with queue := b.queue ++ [next] }
          else scanEdgesG o v fl dst vertex rest b

def bfsLoopG (o : Ops) (v : View) (fl : Flows) (dst : Nat) : Nat → Bfs → Option Bfs
  | 0, b => some { b with fault := true }
  | f+1, b =>
    match b.queue with
    | [] => some b
    | vertex :: q =>
      match scanEdgesG o v fl dst vertex (v.outOf vertex ++ v.innOf vertex) { b with queue := q } with
      | none => none
      | some b => if b.found || b.fault then some b else bfsLoopG o v fl dst f b

def bottleneckG (o : Ops) (v : View) (fl : Flows) (edgeTo : List (Nat × Nat)) :
    Nat → Nat → Option Int → Option (Option (Option Int))
  | 0, _, _ => some none
  | f+1, vertex, acc =>
    match edgeTo.lookup vertex with
    | none => some (some acc)
    | some eid =>
      match v.edge? eid with
      | none => some none
      | some e =>
        match residualCapG o e vertex (getFlow fl eid) with
        | none => none
        | some orc =>
          match orc, otherEndpoint e vertex with
          | some rc, some prev => bottleneckG o v fl edgeTo f prev (minOpt acc rc)
          | _, _ => some none

def pushPathG (o : Ops) (v : View) (edgeTo : List (Nat × Nat)) (delta : Int) :
    Nat → Nat → Flows → Option (Option Flows)
  | 0, _, _ => some none
  | f+1, vertex, fl =>
    match edgeTo.lookup vertex with
    | none => some (some fl)
    | some eid =>
      match v.edge? eid with
      | none => some none
      | some e =>
        match adjustFlowG o e vertex (getFlow fl eid) delta with
        | none => none
        | some onf =>
          match onf, otherEndpoint e vertex with
          | some nf, some prev => pushPathG o v edgeTo delta f prev (setFlow fl eid nf)
          | _, _ => some none

def ffLoopG (o : Ops) (v : View) (src dst : Nat) : Nat → FF → Option FF
  | 0, s => some { s with fault := true }
  | f+1, s =>
    let n := v.g.nodes.length + 2
    match bfsLoopG o v s.flows dst n { queue := [src], visited := [src], edgeTo := s.edgeTo } with
    | none => none
    | some b =>
      if b.fault then some { s with fault := true }
      else if !b.found then some { s with edgeTo := b.edgeTo }
      else
        match bottleneckG o v s.flows b.edgeTo n dst none with
        | none => none
        | some (some (some delta)) =>
          match pushPathG o v b.edgeTo delta n dst s.flows with
          | none => none
          | some (some fl) =>
            match o.add s.maxFlow delta with
            | none => none
            | some mf => ffLoopG o v src dst f { flows := fl, edgeTo := b.edgeTo, maxFlow := mf, fault := false }
          | some none => some { s with fault := true }
        | some _ => some { s with fault := true }

/-- `ford_fulkerson` over the arithmetic `o`; `none` = some operation left the range of the type -/
def fordFulkersonG (o : Ops) (v : View) (src dst : Nat) : Option FF :=
  ffLoopG o v src dst (ffFuel v) { flows := v.g.edges.map fun e => (e.id, 0) }

/-! ### inside the range the run is the integer run -/

/-- every flow value is between `0` and its capacity, and every capacity is at most `M` -/
def InRange (M : Int) (g : MGraph) (f : Nat → Int) : Prop :=
  ∀ e ∈ g.edges, 0 ≤ f e.id ∧ f e.id ≤ e.w ∧ e.w ≤ M

theorem residualCapG_eq {o : Ops} {M : Int} (ho : Agrees o M) (e : Edge) (x : Nat) (y : Int)
    (h1 : 0 ≤ e.w - y) (h2 : e.w - y ≤ M) : residualCapG o e x y = some (residualCap e x y) := by
  unfold residualCapG residualCap
  split
  · rfl
  · split
    · rw [ho.sub _ _ h1 h2]; rfl
    · rfl

theorem scanEdgesG_eq {o : Ops} {M : Int} (ho : Agrees o M) (v : View) (fl : Flows) (dst vertex : Nat)
    (hr : InRange M v.g (getFlow fl)) :
    ∀ (rest : List (Nat × Nat)) (b : Bfs),
      scanEdgesG o v fl dst vertex rest b = some (scanEdges v fl dst vertex rest b) := by
  intro rest
  induction rest with
  | nil => intro b; rfl
  | cons p rest ih =>
    intro b
    obtain ⟨x, eid⟩ := p
    unfold scanEdgesG scanEdges
    cases he : v.edge? eid with
    | none => rfl
    | some e =>
      simp only
      cases hn : otherEndpoint e vertex with
      | none => rfl
      | some next =>
        simp only
        obtain ⟨hmem, hid⟩ := edge?_some he
        have hre := hr e hmem
        rw [hid] at hre
        rw [residualCapG_eq ho e next (getFlow fl eid) (by omega) (by omega)]
        cases hrc : residualCap e next (getFlow fl eid) with
        | none => rfl
        | some rc =>
          simp only
          split
          · split
            · rfl
            · exact ih _
          · exact ih _

theorem bfsLoopG_eq {o : Ops} {M : Int} (ho : Agrees o M) (v : View) (fl : Flows) (dst : Nat)
    (hr : InRange M v.g (getFlow fl)) :
    ∀ (fuel : Nat) (b : Bfs), bfsLoopG o v fl dst fuel b = some (bfsLoop v fl dst fuel b) := by
  intro fuel
  induction fuel with
  | zero => intro b; rfl
  | succ f ih =>
    intro b
    unfold bfsLoopG bfsLoop
    cases hq : b.queue with
    | nil => rfl
    | cons vertex q =>
      simp only
      rw [scanEdgesG_eq ho v fl dst vertex hr]
      simp only
      split
      · rfl
      · exact ih _

theorem bottleneckG_eq {o : Ops} {M : Int} (ho : Agrees o M) (v : View) (fl : Flows) (et : List (Nat × Nat))
    (hr : InRange M v.g (getFlow fl)) :
    ∀ (fuel : Nat) (x : Nat) (acc : Option Int),
      bottleneckG o v fl et fuel x acc = some (bottleneck v fl et fuel x acc) := by
  intro fuel
  induction fuel with
  | zero => intro x acc; rfl
  | succ f ih =>
    intro x acc
    unfold bottleneckG bottleneck
    cases hl : et.lookup x with
    | none => rfl
    | some eid =>
      simp only
      cases he : v.edge? eid with
      | none => rfl
      | some e =>
        simp only
        obtain ⟨hmem, hid⟩ := edge?_some he
        have hre := hr e hmem
        rw [hid] at hre
        rw [residualCapG_eq ho e x (getFlow fl eid) (by omega) (by omega)]
        simp only
        cases hrc : residualCap e x (getFlow fl eid) with
        | none => rfl
        | some rc =>
          cases hn : otherEndpoint e x with
          | none => rfl
          | some prev => exact ih _ _

/-! ### pushing along the tree path -/

theorem adjustFlowG_eq {o : Ops} {M : Int} (ho : Agrees o M) {e : Edge} {x p : Nat}
    (h : otherEndpoint e x = some p) (y d : Int)
    (h1 : 0 ≤ (if x = e.src then y - d else y + d)) (h2 : (if x = e.src then y - d else y + d) ≤ M) :
    adjustFlowG o e x y d = some (some (if x = e.src then y - d else y + d)) := by
  unfold adjustFlowG
  by_cases hx : x = e.src
  · simp only [hx, if_true] at h1 h2 ⊢
    rw [ho.sub _ _ h1 h2]; rfl
  · simp only [hx, if_false] at h1 h2 ⊢
    rcases endpoint_of_other h with h' | h'
    · exact absurd h' hx
    · simp only [h', if_true]
      rw [ho.add _ _ h1 h2]; rfl

theorem pushPathG_eq {o : Ops} {M : Int} (ho : Agrees o M) (v : View) (hids : (v.g.edges.map (·.id)).Nodup)
    (et : List (Nat × Nat)) (s : Nat) (d : Int) (hd : 0 ≤ d) :
    ∀ (x : Nat) (path : List (Nat × Edge)), PathTo v et s x path → ∀ (fuel : Nat) (fl : Flows),
      Keys v fl → path.length < fuel → InRange M v.g (getFlow fl) →
      (path.map (·.2.id)).Nodup → (∀ q ∈ path, d ≤ rcOf (getFlow fl) q.2 q.1) →
      pushPathG o v et d fuel x fl = some (pushPath v et d fuel x fl) := by
  intro x path hp
  induction hp with
  | nil h =>
    intro fuel fl _ hf _ _ _
    cases fuel with
    | zero => simp at hf
    | succ f => simp [pushPathG, pushPath, h]
  | @cons x p e rest h1 h2 h3 _ ih =>
    intro fuel fl hk hf hr hnd hroom
    cases fuel with
    | zero => simp at hf
    | succ f =>
      obtain ⟨hmem, _⟩ := edge?_some h2
      have hre := hr e hmem
      have hroom0 := hroom (x, e) (List.mem_cons_self ..)
      simp only [rcOf] at hroom0
      have hnf1 : 0 ≤ (if x = e.src then getFlow fl e.id - d else getFlow fl e.id + d) := by
        split
        · rename_i hx; simp only [hx, if_true] at hroom0; omega
        · omega
      have hnf2 : (if x = e.src then getFlow fl e.id - d else getFlow fl e.id + d) ≤ e.w := by
        split
        · omega
        · rename_i hx; simp only [hx, if_false] at hroom0; omega
      have hkeys : e.id ∈ fl.map (·.1) := by
        rw [hk]; exact List.mem_map.mpr ⟨e, hmem, rfl⟩
      simp only [List.map_cons, List.nodup_cons, List.mem_map, not_exists, not_and] at hnd
      have hk' : Keys v (setFlow fl e.id (if x = e.src then getFlow fl e.id - d else getFlow fl e.id + d)) := by
        unfold Keys; rw [setFlow_keys]; exact hk
      have hgf := getFlow_setFlow fl e.id (if x = e.src then getFlow fl e.id - d else getFlow fl e.id + d) hkeys
      have hstep := ih f _ hk' (by simp at hf; omega)
        (by
          intro a ha
          rw [hgf]
          unfold upd
          by_cases hae : a.id = e.id
          · have := edge_eq_of_id hids ha hmem hae
            subst this
            simp only [if_true]
            exact ⟨hnf1, hnf2, hre.2.2⟩
          · simp only [hae, if_false]; exact hr a ha)
        hnd.2
        (by
          intro q hq
          have hne : ¬ q.2.id = e.id := fun h => hnd.1 q hq h
          have := hroom q (List.mem_cons_of_mem _ hq)
          rw [hgf]
          unfold rcOf upd at *
          simp only [hne, if_false]
          exact this)
      simp only [pushPathG, pushPath, h1, h2, h3, adjustFlow_eq h3,
        adjustFlowG_eq ho h3 _ _ hnf1 (by omega)]
      exact hstep

/-! ### the main loop -/

theorem ffLoopG_eq {o : Ops} {M : Int} (ho : Agrees o M) (v : View) (hv : FlowView v)
    (hwf : ∀ e ∈ v.g.edges, e.src ∈ v.g.nodes ∧ e.tgt ∈ v.g.nodes)
    (hw : ∀ e ∈ v.g.edges, 0 ≤ e.w ∧ e.w ≤ M) (src dst : Nat) (hne : src ≠ dst)
    (S : List Nat) (hS : IsCut src dst S) (hcap : cutCap v.g S ≤ M) :
    ∀ (fuel : Nat) (st : FF), FInv v src dst st → 0 ≤ st.maxFlow →
      ffLoopG o v src dst fuel st = some (ffLoop v src dst fuel st) := by
  intro fuel
  induction fuel with
  | zero => intro st _ _; rfl
  | succ fu ih =>
    intro st hst hpos
    have hr : InRange M v.g (getFlow st.flows) :=
      fun e he => ⟨(hst.feas.cap e he).1, (hst.feas.cap e he).2, (hw e he).2⟩
    simp only [ffLoopG, ffLoop]
    rw [bfsLoopG_eq ho v st.flows dst hr]
    simp only
    -- the BFS (as in `ffLoop_spec`)
    have hb0 : BInv v (getFlow st.flows) src st.edgeTo dst
        { queue := [src], visited := [src], edgeTo := st.edgeTo } :=
      ⟨Tree.root, by simp, rfl, fun h => (by cases h), fun _ => (by simpa using fun h => hne h.symm)⟩
    have hbfs := bfsLoop_spec v hv st.flows src dst st.edgeTo (v.g.nodes.length + 1)
      (fun vis et ht => ht.length_le hwf) (v.g.nodes.length + 2)
      { queue := [src], visited := [src], edgeTo := st.edgeTo } hb0 rfl
      (by intro x hx; exact Or.inl hx) (by simp)
    generalize bfsLoop v st.flows dst (v.g.nodes.length + 2)
      { queue := [src], visited := [src], edgeTo := st.edgeTo } = b at hbfs
    obtain ⟨hb, _⟩ := hbfs
    have hetsrc := hb.tree.lookup_source hst.etSrc
    simp only [hb.nofault, Bool.false_eq_true, if_false]
    split
    · rfl
    · rename_i hfound
      have hfound' : b.found = true := by simpa using hfound
      obtain ⟨path, hpt, hg⟩ := hb.tree.path hst.etSrc dst (hb.dstFound hfound')
      have hlen : path.length < v.g.nodes.length + 2 := by
        have := hb.tree.length_le hwf
        have := hg.short
        omega
      have hpne : path ≠ [] := by
        intro h
        subst h
        cases hpt
        exact hne rfl
      obtain ⟨d, hd1, hd2, hd3⟩ := pathMin_none (getFlow st.flows) path hpne hg.room
      have hbn := bottleneck_spec v st.flows b.edgeTo src dst path hpt (v.g.nodes.length + 2) none hlen
      rw [hd1] at hbn
      obtain ⟨fl', hpp, hk', hgf⟩ := pushPath_spec v b.edgeTo src d dst path hpt (v.g.nodes.length + 2)
        st.flows hst.keys hlen
      rw [bottleneckG_eq ho v st.flows b.edgeTo hr, hbn]
      simp only
      rw [pushPathG_eq ho v hv.ids b.edgeTo src d (by omega) dst path hpt (v.g.nodes.length + 2) st.flows
        hst.keys hlen hr hg.distinct hd3, hpp]
      simp only
      -- the next state satisfies the invariant
      have hnext : FInv v src dst { flows := fl', edgeTo := b.edgeTo, maxFlow := st.maxFlow + d, fault := false } := by
        refine ⟨hk', ⟨?_, ?_⟩, ?_, hetsrc, rfl⟩
        · rw [hgf]
          exact cap_pushed v.g hv.ids d (by omega) path _ hst.feas.cap
            (fun q hq => (edge?_some (hg.isEdge q hq)).1) hg.distinct hd3
        · intro x hx1 hx2
          have h1 := excess_pushed v hv b.edgeTo src d dst path hpt (getFlow st.flows) x
          have h2 := hst.feas.cons x hx1 hx2
          rw [hgf]
          unfold excess at h1
          simp only [hx1, hx2, if_false] at h1
          omega
        · show st.maxFlow + d = excess v.g (getFlow fl') src
          have h1 := excess_pushed v hv b.edgeTo src d dst path hpt (getFlow st.flows) src
          rw [hgf, h1, hst.value]
          simp [hne]
      -- the new value is the value of a feasible flow, hence at most the capacity of the cut `S`
      have hval : st.maxFlow + d ≤ M := by
        have h1 : excess v.g (getFlow fl') src ≤ cutCap v.g S :=
          value_le_cut' v.g src dst _ S hnext.feas hS.1 hS.2
        have h2 : st.maxFlow + d = excess v.g (getFlow fl') src := hnext.value
        omega
      have hval0 : 0 ≤ st.maxFlow + d := by omega
      rw [ho.add _ _ hval0 hval]
      exact ih _ hnext hval0

/-- **inside the range the bounded run is the integer run** -/
theorem fordFulkersonG_eq {o : Ops} {M : Int} (ho : Agrees o M) (v : View) (hv : FlowView v)
    (hwf : ∀ e ∈ v.g.edges, e.src ∈ v.g.nodes ∧ e.tgt ∈ v.g.nodes)
    (hw : ∀ e ∈ v.g.edges, 0 ≤ e.w ∧ e.w ≤ M) (src dst : Nat) (hne : src ≠ dst)
    (S : List Nat) (hS : IsCut src dst S) (hcap : cutCap v.g S ≤ M) :
    fordFulkersonG o v src dst = some (fordFulkerson v src dst) := by
  unfold fordFulkersonG fordFulkerson
  apply ffLoopG_eq ho v hv hwf hw src dst hne S hS hcap
  · have hz : getFlow (v.g.edges.map fun e => (e.id, (0 : Int))) = fun _ => 0 := by
      funext j; exact getFlow_zero _ j
    refine ⟨by simp [Keys, List.map_map, Function.comp_def], ⟨?_, ?_⟩, ?_, rfl, rfl⟩
    · intro e he; rw [hz]; exact ⟨Int.le_refl _, (hw e he).1⟩
    · intro x _ _
      rw [hz]
      unfold inflow outflow
      rw [esum_congr (ψ := fun _ => 0) (fun e _ => by simp), esum_congr (φ := fun e => if e.src = x then (0 : Int) else 0) (ψ := fun _ => 0) (fun e _ => by simp)]
    · show (0 : Int) = _
      rw [hz]
      unfold excess inflow outflow
      rw [esum_congr (ψ := fun _ => 0) (fun e _ => by simp), esum_congr (φ := fun e => if e.tgt = src then (0 : Int) else 0) (ψ := fun _ => 0) (fun e _ => by simp)]
      simp
  · exact Int.le_refl _

/-- the executable range condition is sound -/
theorem capsFitB_sound (M : Int) (g : MGraph) (s : Nat) (h : capsFitB M g s = true) :
    (∀ e ∈ g.edges, 0 ≤ e.w ∧ e.w ≤ M) ∧ cutCap g [s] ≤ M := by
  unfold capsFitB at h
  simp only [Bool.and_eq_true, List.all_eq_true, decide_eq_true_eq] at h
  exact ⟨fun e he => h.1 e he, h.2⟩

/-- two parallel edges `0 → 1` of capacity `2` each, in a type with maximum `3` -/
def twoPipes : View :=
  { g := { directed := true, nodes := [0, 1], edges := [⟨0, 0, 1, 2⟩, ⟨1, 0, 1, 2⟩] },
    nb := 2, ix := [(0, 0), (1, 1)],
    out := [(0, [(1, 1), (1, 0)]), (1, [])], inn := [(0, []), (1, [(0, 1), (0, 0)])] }

/-- **the bound on a cut cannot be dropped**: every capacity of `twoPipes` fits the type with maximum
`3`, but the maximum flow `4` does not; the overflow-checked run aborts at `max_flow + path_flow` and the
wrapping run returns the value `0` where the exact value is `4`. -/
theorem needs_cut_bound :
    flowViewB twoPipes = true ∧ (∀ e ∈ twoPipes.g.edges, 0 ≤ e.w ∧ e.w ≤ 3) ∧
    (fordFulkerson twoPipes 0 1).maxFlow = 4 ∧
    fordFulkersonG (opsB 3) twoPipes 0 1 = none ∧
    (fordFulkersonG (opsW 3) twoPipes 0 1).map (·.maxFlow) = some 0 := by
  decide

end PetgraphModel.C15FB
