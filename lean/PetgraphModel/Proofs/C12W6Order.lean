import PetgraphModel.Proofs.C12Forest
import PetgraphModel.Proofs.C12Min
import PetgraphModel.Proofs.C12W2Complete
import PetgraphModel.Model.C12W6
/-
C12, wave 6.

1. A minimum spanning forest depends on the ORDER of the weights only: re-weighing every edge by a
   strictly increasing function keeps exactly the same minimum spanning forests.  This is what allows
   the driver to judge float weights (NaN, infinities) by their integer keys: any key assignment
   that is strictly increasing along `MinScored`'s documented total order judges the same streams.
2. The two orders of `src/scored.rs` as orders of integer keys: `MinScored::cmp a b` is the
   comparison of the keys REVERSED with NaN the greatest key; `MaxScored::cmp a b` is the comparison
   of the keys with NaN the least key.
3. small facts about the view surgery of the driver (`dedupRow`, `primView`, `applySW`).
-/
namespace PetgraphModel.MST
open PetgraphModel MGraph

/-- re-weigh an edge -/
def rew (f : Int → Int) (e : Edge) : Edge := { e with w := f e.w }

theorem conn_map_rew (f : Int → Int) (F : List Edge) (a b : Nat) :
    Conn (F.map (rew f)) a b ↔ Conn F a b := by
  constructor
  · intro h
    refine Conn.of_edges ?_ h
    intro e' he'
    obtain ⟨e, he, rfl⟩ := List.mem_map.mp he'
    exact (Conn.edge he : Conn F e.src e.tgt)
  · intro h
    refine Conn.of_edges ?_ h
    intro e he
    exact Conn.edge (e := rew f e) (List.mem_map.mpr ⟨e, he, rfl⟩)

theorem acyclic_map_rew (f : Int → Int) (F : List Edge) : Acyclic (F.map (rew f)) ↔ Acyclic F := by
  constructor
  · intro h l1 e l2 hF hc
    refine h (l1.map (rew f)) (rew f e) (l2.map (rew f)) (by rw [hF]; simp) ?_
    have := (conn_map_rew f (l1 ++ l2) e.src e.tgt).mpr hc
    simpa [rew] using this
  · intro h l1' e' l2' hF hc
    obtain ⟨l1, r, hFe, hl1, hr⟩ := List.map_eq_append_iff.mp hF
    obtain ⟨e, l2, hre, he, hl2⟩ := List.map_eq_cons_iff.mp hr
    subst hl1 he hl2
    refine h l1 e l2 (by rw [hFe, hre]) ?_
    have : Conn ((l1 ++ l2).map (rew f)) e.src e.tgt := by simpa [rew] using hc
    exact (conn_map_rew f (l1 ++ l2) e.src e.tgt).mp this

theorem spanning_map_rew (f : Int → Int) (E F : List Edge) :
    Spanning (E.map (rew f)) (F.map (rew f)) ↔ Spanning E F := by
  constructor
  · intro h a b hc
    exact (conn_map_rew f F a b).mp (h a b ((conn_map_rew f E a b).mpr hc))
  · intro h a b hc
    exact (conn_map_rew f F a b).mpr (h a b ((conn_map_rew f E a b).mp hc))

theorem mono_le_iff {f : Int → Int} (hf : ∀ x y, x < y → f x < f y) (x y : Int) : f x ≤ f y ↔ x ≤ y := by
  constructor
  · intro h
    by_cases hxy : x ≤ y
    · exact hxy
    · have := hf y x (by omega)
      omega
  · intro h
    by_cases hxy : x = y
    · subst hxy; exact Int.le_refl _
    · have := hf x y (by omega)
      omega

theorem cycleProperty_map_rew {f : Int → Int} (hf : ∀ x y, x < y → f x < f y) (M R : List Edge) :
    CycleProperty (M.map (rew f)) (R.map (rew f)) ↔ CycleProperty M R := by
  constructor
  · intro h e he hne l1 g l2 hM hnc
    have := h (rew f e) (List.mem_map.mpr ⟨e, he, rfl⟩) (by simpa [rew] using hne)
      (l1.map (rew f)) (rew f g) (l2.map (rew f)) (by rw [hM]; simp)
      (by
        intro hc
        apply hnc
        have : Conn ((l1 ++ l2).map (rew f)) e.src e.tgt := by simpa [rew] using hc
        exact (conn_map_rew f (l1 ++ l2) e.src e.tgt).mp this)
    exact (mono_le_iff hf g.w e.w).mp (by simpa [rew] using this)
  · intro h e' he' hne l1' g' l2' hM hnc
    obtain ⟨e, he, rfl⟩ := List.mem_map.mp he'
    obtain ⟨l1, r, hMe, hl1, hr⟩ := List.map_eq_append_iff.mp hM
    obtain ⟨g, l2, hre, hg, hl2⟩ := List.map_eq_cons_iff.mp hr
    subst hl1 hg hl2
    have := h e he (by simpa [rew] using hne) l1 g l2 (by rw [hMe, hre])
      (by
        intro hc
        apply hnc
        have := (conn_map_rew f (l1 ++ l2) e.src e.tgt).mpr hc
        simpa [rew] using this)
    have h2 := (mono_le_iff hf g.w e.w).mpr this
    simpa [rew] using h2

/-- **a minimum spanning forest depends on the order of the weights only**: for a strictly
increasing `f`, `M` (with unused edges `R`) is a minimum spanning forest of `E` iff the re-weighed
`M` is one of the re-weighed `E` -/
theorem msf_order_invariant {f : Int → Int} (hf : ∀ x y, x < y → f x < f y) (E M R : List Edge)
    (hperm : (M ++ R).Perm E) :
    MinSpanningForest (E.map (rew f)) (M.map (rew f)) ↔ MinSpanningForest E M := by
  have hperm' : (M.map (rew f) ++ R.map (rew f)).Perm (E.map (rew f)) := by
    rw [← List.map_append]; exact hperm.map _
  have iff1 : MinSpanningForest E M ↔ Acyclic M ∧ Spanning E M ∧ CycleProperty M R :=
    ⟨fun h => ⟨h.1.acyclic, h.1.spanning, minimal_cycleProperty hperm h⟩,
     fun h => ⟨⟨⟨R, hperm⟩, h.1, h.2.1⟩, cycleProperty_minimal hperm h.1 h.2.1 h.2.2⟩⟩
  have iff2 : MinSpanningForest (E.map (rew f)) (M.map (rew f)) ↔
      Acyclic (M.map (rew f)) ∧ Spanning (E.map (rew f)) (M.map (rew f)) ∧
        CycleProperty (M.map (rew f)) (R.map (rew f)) :=
    ⟨fun h => ⟨h.1.acyclic, h.1.spanning, minimal_cycleProperty hperm' h⟩,
     fun h => ⟨⟨⟨R.map (rew f), hperm'⟩, h.1, h.2.1⟩, cycleProperty_minimal hperm' h.1 h.2.1 h.2.2⟩⟩
  rw [iff1, iff2, acyclic_map_rew, spanning_map_rew, cycleProperty_map_rew hf]

end PetgraphModel.MST

namespace PetgraphModel.MstModel
open PetgraphModel

/-! ### the orders of `scored.rs` as key orders -/

theorem cmpInt_lt {x y : Int} (h : x < y) : cmpInt x y = .less := by simp [cmpInt, h]
theorem cmpInt_gt {x y : Int} (h : y < x) : cmpInt x y = .greater := by
  have h1 : ¬ x < y := by omega
  have h2 : ¬ x = y := by omega
  simp [cmpInt, h1, h2]
theorem cmpInt_self (x : Int) : cmpInt x x = .equal := by simp [cmpInt]

/-- `MinScored::cmp a b` is the comparison of the keys, reversed (NaN = greatest key) -/
theorem scoreCmp_eq_cmpInt (a b : SP.Score) (ha : scoreInRangeB a = true) (hb : scoreInRangeB b = true) :
    SP.scoreCmp a b = cmpInt (scoreKey b) (scoreKey a) := by
  unfold SP.scoreCmp SP.minScoredCmp
  cases a <;> cases b <;>
    simp only [scoreInRangeB, Bool.and_eq_true, decide_eq_true_eq] at ha hb <;>
    simp only [SP.Score.eq, SP.Score.lt, scoreKey]
  case fin.fin x y =>
    unfold cmpInt
    by_cases h1 : x = y
    · subst h1; simp
    · by_cases h2 : x < y
      · have h3 : ¬ y < x := by omega
        have h4 : ¬ y = x := by omega
        simp [h1, h2, h3, h4]
      · have h3 : y < x := by omega
        simp [h1, h2, h3]
  all_goals first
    | decide
    | (simp; done)
    | (simp; exact (cmpInt_self _).symm)
    | (simp; exact (cmpInt_lt (by unfold bigKey at *; omega)).symm)
    | (simp; exact (cmpInt_gt (by unfold bigKey at *; omega)).symm)

/-- `MaxScored::cmp a b` is the comparison of the keys `maxKey` (NaN = least key) -/
theorem maxCmp_eq_cmpInt (a b : SP.Score) (ha : scoreInRangeB a = true) (hb : scoreInRangeB b = true) :
    maxCmp a b = cmpInt (maxKey a) (maxKey b) := by
  unfold maxCmp maxScoredCmp
  cases a <;> cases b <;>
    simp only [scoreInRangeB, Bool.and_eq_true, decide_eq_true_eq] at ha hb <;>
    simp only [SP.Score.eq, SP.Score.lt, maxKey]
  case fin.fin x y =>
    unfold cmpInt
    by_cases h1 : x = y
    · subst h1; simp
    · by_cases h2 : x < y
      · simp [h1, h2]
      · have h3 : y < x := by omega
        simp [h1, h2, h3]
  all_goals first
    | decide
    | (simp; done)
    | (simp; exact (cmpInt_self _).symm)
    | (simp; exact (cmpInt_lt (by unfold bigKey at *; omega)).symm)
    | (simp; exact (cmpInt_gt (by unfold bigKey at *; omega)).symm)

/-- comparison of integers is a total order: antisymmetric, transitive, total -/
theorem cmpInt_flip (x y : Int) :
    cmpInt x y = (match cmpInt y x with | .less => .greater | .equal => .equal | .greater => .less) := by
  unfold cmpInt
  by_cases h1 : x < y
  · have : ¬ y < x := by omega
    have : ¬ y = x := by omega
    simp [*]
  · by_cases h2 : x = y
    · subst h2; simp
    · have : y < x := by omega
      have : ¬ y = x := by omega
      simp [*]

theorem cmpInt_ne_greater_iff (x y : Int) : cmpInt x y ≠ .greater ↔ x ≤ y := by
  unfold cmpInt
  by_cases h1 : x < y
  · simp [h1]; omega
  · by_cases h2 : x = y
    · subst h2; simp
    · simp [h1, h2]; omega

theorem cmpInt_le_trans (x y z : Int) (h1 : cmpInt x y ≠ .greater) (h2 : cmpInt y z ≠ .greater) :
    cmpInt x z ≠ .greater := by
  unfold cmpInt at *
  by_cases a : x < y <;> by_cases b : y < z <;> by_cases c : x < z <;>
    by_cases a' : x = y <;> by_cases b' : y = z <;> by_cases c' : x = z <;> simp_all <;> omega

/-! ### view surgery -/

/-- a row without self-loops is left alone -/
theorem dedupRow_no_loops (a : Nat) (seen : List Nat) (row : List (Nat × Nat))
    (h : ∀ oe ∈ row, oe.1 ≠ a) : dedupRow a seen row = row := by
  induction row generalizing seen with
  | nil => rfl
  | cons oe rest ih =>
    have h1 : oe.1 ≠ a := h oe (List.mem_cons_self ..)
    have h1' : (oe.1 == a) = false := by simpa using h1
    simp only [dedupRow, h1', Bool.false_and, Bool.false_eq_true, if_false]
    rw [ih seen (fun x hx => h x (List.mem_cons_of_mem _ hx))]

/-- `dedupRow` keeps the first listing of every self-loop and every other entry: it only removes -/
theorem dedupRow_sublist (a : Nat) (seen : List Nat) (row : List (Nat × Nat)) :
    (dedupRow a seen row).Sublist row := by
  induction row generalizing seen with
  | nil => exact List.Sublist.refl _
  | cons oe rest ih =>
    simp only [dedupRow]
    split
    · exact (ih seen).cons _
    · exact (ih _).cons_cons _

theorem mapIdx_length {α β : Type} (f : Nat → α → β) (i : Nat) (l : List α) :
    (mapIdx f i l).length = l.length := by
  induction l generalizing i with
  | nil => rfl
  | cons x xs ih => simp [mapIdx, ih]

theorem mapIdx_id {α : Type} (i : Nat) (l : List α) : mapIdx (fun _ oe => oe) i l = l := by
  induction l generalizing i with
  | nil => rfl
  | cons x xs ih => simp [mapIdx, ih]

/-- without flagged entries Prim's view is the view -/
theorem primView_nil (v : View) : primView [] v = v := by
  unfold primView
  have : (v.out.map fun (x : Nat × List (Nat × Nat)) =>
      (x.1, mapIdx (fun i oe => if (([] : List (Nat × List Nat)).lookup x.1).getD [] |>.contains i then (x.1, oe.2) else oe) 0 x.2)) = v.out := by
    induction v.out with
    | nil => rfl
    | cons x xs ih =>
      simp only [List.map_cons, List.lookup_nil, Option.getD_none, List.contains_nil, Bool.false_eq_true, if_false, mapIdx_id] at ih ⊢
      rw [ih]
  cases v
  simp_all

theorem mem_of_lookup {α : Type} (k : Nat) (x : α) : ∀ (l : List (Nat × α)), l.lookup k = some x → (k, x) ∈ l
  | [], h => by simp at h
  | (k', y) :: rest, h => by
    simp only [List.lookup_cons] at h
    split at h
    · rename_i hk
      have hk' : k = k' := by simpa using hk
      cases h
      subst hk'
      exact List.mem_cons_self ..
    · exact List.mem_cons_of_mem _ (mem_of_lookup k x rest h)

/-- `applySW` changes weights only: ids, endpoints and the number of edges stay -/
theorem applySW_shape (sw : List (Nat × SP.Score)) (v : View) :
    (applySW sw v).g.nodes = v.g.nodes ∧ (applySW sw v).g.directed = v.g.directed ∧
    (applySW sw v).g.edges.map (fun e => (e.id, e.src, e.tgt)) = v.g.edges.map (fun e => (e.id, e.src, e.tgt)) := by
  refine ⟨rfl, rfl, ?_⟩
  simp only [applySW, List.map_map]
  apply List.map_congr_left
  intro e _
  simp only [Function.comp, reweighEdge]
  split <;> rfl

/-- … and every changed weight is the key of an in-range score when the driver's check passed -/
theorem applySW_weights (sw : List (Nat × SP.Score)) (v : View) (e : Edge) (he : e ∈ (applySW sw v).g.edges) :
    (∃ e0 ∈ v.g.edges, e = e0) ∨ ∃ x, (∃ k, (k, x) ∈ sw) ∧ e.w = scoreKey x := by
  simp only [applySW, List.mem_map] at he
  obtain ⟨e0, he0, rfl⟩ := he
  unfold reweighEdge
  split
  · rename_i x hx
    right
    refine ⟨x, ⟨e0.id, ?_⟩, rfl⟩
    exact mem_of_lookup _ _ _ hx
  · left; exact ⟨e0, he0, rfl⟩

end PetgraphModel.MstModel
