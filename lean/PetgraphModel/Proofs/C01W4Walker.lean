import PetgraphModel.Proofs.C01W2Main
import PetgraphModel.Spec.CompactGraphWalkers
/-
C01, wave 4 — detached walkers as values that survive interleaved calls (`Model/GraphWalkers.lean`,
specification `Spec/CompactGraphWalkers.lean`).

* `walkerNext_ok` — in a graph satisfying `Inv`, `WalkNeighbors::next` is fault-free for EVERY walker
  value (stale cursors included): a cursor is either out of range (the loop stops at once) or a live
  edge, and from a live edge the `next` chain is a suffix of an adjacency list, hence shorter than
  the fuel;
* `Rem g wk R` — "in `g`, walker `wk` still has to list exactly `R`"; one `next` pops the head
  (`rem_next`), link-preserving calls keep it (`rem_sameLinks`), a fresh walker has
  `R = CGS.nbr` (`rem_new`);
* `wstep_refines` / `wrun_refines` — the walker layer refines `WAccepts` / `SpecRunW` for all histories.
-/
namespace PetgraphModel.GProofs
open PetgraphModel PetgraphModel.G
open PetgraphModel.GW (WState WOp WOut keepsLinks)

/-! ### any cursor -/

theorem IsList.suffix_sublist {edges : List Edge} {k endv h l} (hl : IsList edges k endv h l) {x : Nat} (hx : x ∈ l) :
    ∃ l', IsList edges k endv x l' ∧ l'.Sublist l := by
  induction hl with
  | nil => cases hx
  | @cons e t ed he htl ih =>
    by_cases hxe : x = e
    · subst hxe
      exact ⟨x :: t, IsList.cons ed he htl, List.Sublist.refl _⟩
    · have hmem : x ∈ t := by
        rcases List.mem_cons.mp hx with h1 | h1
        · exact absurd h1 hxe
        · exact h1
      obtain ⟨l', h1, h2⟩ := ih hmem
      exact ⟨l', h1, h2.trans (List.sublist_cons_self _ _)⟩

/-- from ANY live edge index the `next[k]` chain is a proper list ending in `END`, no longer than
the edge array -/
theorem Inv.isList_from {s : State} (h : Inv s) (k : Bool) {cur : Nat} (hc : cur < s.edges.length) :
    ∃ l, IsList s.edges k s.endv cur l ∧ l.length ≤ s.edges.length := by
  have hed := List.getElem?_eq_getElem hc
  obtain ⟨adj, hl, hn, hm⟩ := h.lists
  have hi : (s.edges[cur]).node k < s.nodes.length := by
    have := h.ends cur _ hed
    cases k <;> simp [Edge.node] <;> omega
  have hnd := List.getElem?_eq_getElem hi
  have hmem : cur ∈ adj k ((s.edges[cur]).node k) := (hm k _ cur).mpr ⟨_, hed, rfl⟩
  obtain ⟨l', h1, h2⟩ := (hl k _ _ hnd).suffix_sublist hmem
  exact ⟨l', h1, nodup_length_le (h2.nodup (hn k _)) h1.lt⟩

/-- `WalkNeighbors::next` never faults, whatever the walker value (fresh, exhausted or stale) -/
theorem walkerNext_ok {s : State} (h : Inv s) (wk : Walker) : ∃ wk' r, walkerNext s wk = .ok (wk', r) := by
  unfold walkerNext
  cases h0 : s.edges[wk.next0]? with
  | some ed => exact ⟨_, _, rfl⟩
  | none =>
    dsimp only
    by_cases hc : wk.next1 < s.edges.length
    · obtain ⟨l1, hl1, hlen⟩ := h.isList_from true hc
      rcases walkIn_spec (skip := wk.skip) h.szE s.fuel wk.next1 l1 hl1 (by simp [State.fuel]; omega) with
        ⟨_, h2⟩ | ⟨e, ed, rest, _, _, _, _, h5⟩
      · rw [h2]; exact ⟨_, _, rfl⟩
      · rw [h5]; exact ⟨_, _, rfl⟩
    · have hn : s.edges[wk.next1]? = none := getElem?_none_of_le (by omega)
      have : walkIn s.edges wk.skip s.fuel wk.next1 = .ok (wk.next1, none) := by
        simp [State.fuel, walkIn, hn]
      rw [this]; exact ⟨_, _, rfl⟩

theorem walkIn_some {edges : List Edge} {skip : Nat} : ∀ (f cur n1 e n : Nat),
    walkIn edges skip f cur = .ok (n1, some (e, n)) → ∃ ed, edges[e]? = some ed ∧ n = ed.src := by
  intro f
  induction f with
  | zero => intro cur n1 e n h; simp [walkIn] at h
  | succ f ih =>
    intro cur n1 e n h
    unfold walkIn at h
    split at h
    · simp at h
    · rename_i ed hed
      split at h
      · simp at h
        exact ⟨ed, by rw [← h.2.1]; exact hed, h.2.2.symm⟩
      · exact ih _ _ _ _ h

/-- the shape of an answer: `Some((e, n))` names an edge that is live *now*, and `n` is one of its
endpoints — for every walker value and every graph (no invariant needed) -/
theorem walkerNext_some {s : State} {wk wk' : Walker} {e n : Nat} (h : walkerNext s wk = .ok (wk', some (e, n))) :
    ∃ ed, s.edges[e]? = some ed ∧ (n = ed.src ∨ n = ed.tgt) := by
  unfold walkerNext at h
  split at h
  · rename_i ed hed
    simp at h
    exact ⟨ed, by rw [← h.2.1]; exact hed, Or.inr h.2.2.symm⟩
  · split at h
    · cases h
    · rename_i n1 r hw
      simp at h
      rw [h.2] at hw
      obtain ⟨ed, hed, hn⟩ := walkIn_some _ _ _ _ _ hw
      exact ⟨ed, hed, Or.inl hn⟩

/-! ### what a walker still has to list -/

/-- in `g` the walker `wk` still lists exactly `R` -/
def Rem (g : State) (wk : Walker) (R : List (Nat × Nat)) : Prop :=
  ∃ l0 l1, IsList g.edges false g.endv wk.next0 l0 ∧ IsList g.edges true g.endv wk.next1 l1 ∧
    l1.length ≤ g.edges.length ∧ R = walkOut g.edges wk.skip l0 l1

/-- one `next`: the head of what is left, and the tail stays -/
theorem rem_next {g : State} (hsz : g.edges.length ≤ g.endv) {wk : Walker} {R : List (Nat × Nat)} (h : Rem g wk R) :
    ∃ wk', walkerNext g wk = .ok (wk', R.head?) ∧ Rem g wk' R.tail := by
  obtain ⟨skip, n0, n1⟩ := wk
  obtain ⟨l0, l1, hl0, hl1, hlen1, hR⟩ := h
  dsimp only at hl0 hl1 hR
  subst hR
  cases hl0 with
  | @cons _ l0' ed he htl =>
    have hnext : walkerNext g ⟨skip, n0, n1⟩ = .ok (⟨skip, ed.next0, n1⟩, some (n0, ed.tgt)) := by
      simp [walkerNext, he]
    have htl' : IsList g.edges false g.endv ed.next0 l0' := by simpa [Edge.next] using htl
    have htgt : tgtAt g.edges n0 = ed.tgt := by simp [tgtAt, he]
    refine ⟨⟨skip, ed.next0, n1⟩, hnext.trans ?_, ⟨l0', l1, htl', hl1, hlen1, ?_⟩⟩
    · simp [walkOut, htgt]
    · simp [walkOut]
  | nil =>
    have hnone : g.edges[g.endv]? = none := List.getElem?_eq_none hsz
    rcases walkIn_spec (skip := skip) hsz g.fuel n1 l1 hl1 (by simp [State.fuel]; omega) with
      ⟨h1, h2⟩ | ⟨e, ed, rest, h1, h2, h3, h4, h5⟩
    · have hnext : walkerNext g ⟨skip, g.endv, n1⟩ = .ok (⟨skip, g.endv, g.endv⟩, none) := by
        simp [walkerNext, hnone, h2]
      refine ⟨⟨skip, g.endv, g.endv⟩, hnext.trans ?_, ⟨[], [], IsList.nil, IsList.nil, by simp, ?_⟩⟩
      · simp [walkOut, h1]
      · simp [walkOut, h1]
    · have hnext : walkerNext g ⟨skip, g.endv, n1⟩ = .ok (⟨skip, g.endv, ed.next1⟩, some (e, ed.src)) := by
        simp [walkerNext, hnone, h5]
      have hsrc : srcAt g.edges e = ed.src := by simp [srcAt, h1]
      refine ⟨⟨skip, g.endv, ed.next1⟩, hnext.trans ?_, ⟨[], rest, IsList.nil, h2, by omega, ?_⟩⟩
      · simp [walkOut, h4, hsrc]
      · simp [walkOut, h4]

theorem sameLinks_edge {s s' : State} (hs : SameLinks s s') {e : Nat} {ed : Edge} (he : s.edges[e]? = some ed) :
    ∃ ed', s'.edges[e]? = some ed' ∧ edgeLinks ed' = edgeLinks ed := by
  obtain ⟨x, hx, hf⟩ := map_eq_getElem? hs.edges.symm e he
  exact ⟨x, hx, hf.symm⟩

theorem sameLinks_elen {s s' : State} (hs : SameLinks s s') : s'.edges.length = s.edges.length := by
  simpa using congrArg List.length hs.edges

theorem sameLinks_srcAt {s s' : State} (hs : SameLinks s s') (x : Nat) : srcAt s'.edges x = srcAt s.edges x := by
  unfold srcAt
  cases hx : s.edges[x]? with
  | none =>
    have : s'.edges[x]? = none := by
      apply List.getElem?_eq_none
      rw [sameLinks_elen hs]
      by_contra hc
      rw [List.getElem?_eq_getElem (by omega)] at hx
      cases hx
    rw [this]
  | some xd =>
    obtain ⟨xd', hx', hf⟩ := sameLinks_edge hs hx
    simp only [edgeLinks, Prod.mk.injEq] at hf
    rw [hx']
    simp [hf.2.2.1]

theorem sameLinks_tgtAt {s s' : State} (hs : SameLinks s s') (x : Nat) : tgtAt s'.edges x = tgtAt s.edges x := by
  unfold tgtAt
  cases hx : s.edges[x]? with
  | none =>
    have : s'.edges[x]? = none := by
      apply List.getElem?_eq_none
      rw [sameLinks_elen hs]
      by_contra hc
      rw [List.getElem?_eq_getElem (by omega)] at hx
      cases hx
    rw [this]
  | some xd =>
    obtain ⟨xd', hx', hf⟩ := sameLinks_edge hs hx
    simp only [edgeLinks, Prod.mk.injEq] at hf
    rw [hx']
    simp [hf.2.2.2]

theorem sameLinks_isList {s s' : State} (hs : SameLinks s s') {k : Bool} {h : Nat} {l : List Nat}
    (hl : IsList s.edges k s.endv h l) : IsList s'.edges k s'.endv h l := by
  rw [hs.endv]
  refine hl.congr ?_
  intro x xd _ hx
  obtain ⟨xd', hx', hf⟩ := sameLinks_edge hs hx
  refine ⟨xd', hx', ?_⟩
  simp only [edgeLinks, Prod.mk.injEq] at hf
  cases k <;> simp [Edge.next, hf.1, hf.2.1]

/-- calls that keep the links keep what every walker still has to list -/
theorem rem_sameLinks {s s' : State} (hs : SameLinks s s') {wk : Walker} {R : List (Nat × Nat)} (h : Rem s wk R) :
    Rem s' wk R := by
  obtain ⟨l0, l1, hl0, hl1, hlen, hR⟩ := h
  refine ⟨l0, l1, sameLinks_isList hs hl0, sameLinks_isList hs hl1, by rw [sameLinks_elen hs]; exact hlen, ?_⟩
  rw [hR]
  unfold walkOut
  simp only [sameLinks_srcAt hs, sameLinks_tgtAt hs]

/-- a fresh walker has to list the specification's `nbr`, in that order -/
theorem rem_new {s : State} {st : Nat → Nat} {ck : Nat} (h : RInv s st ck) (a mode : Nat) :
    Rem s (walkerNew s a mode) (CGS.nbr (absG s st ck) a (normMode mode)) := by
  by_cases ha : s.nodes.length ≤ a
  · have hnbr : CGS.nbr (absG s st ck) a (normMode mode) = [] := by simp [CGS.nbr, absG_nodes_length, ha]
    rw [hnbr]
    have hwk : (walkerNew s a mode).next0 = s.endv ∧ (walkerNew s a mode).next1 = s.endv := by
      unfold walkerNew
      simp only [heads_absent ha]
      split
      · exact ⟨rfl, rfl⟩
      · split <;> exact ⟨rfl, rfl⟩
    refine ⟨[], [], ?_, ?_, by simp, by simp [walkOut]⟩
    · rw [hwk.1]; exact IsList.nil
    · rw [hwk.2]; exact IsList.nil
  · have ha' : a < s.nodes.length := by omega
    have hnd := List.getElem?_eq_getElem ha'
    have hh : heads s a = (s.nodes[a].next0, s.nodes[a].next1) := by simp [heads, hnd]
    obtain ⟨l0, hl0, he0, hlen0, _⟩ := h.node_list false hnd
    obtain ⟨l1, hl1, he1, hlen1, hinc1⟩ := h.node_list true hnd
    simp only [Node.next, Bool.false_eq_true, if_false] at hl0 he0
    simp only [Node.next, if_true] at hl1 he1
    have hge : ¬ a ≥ (absG s st ck).nodes.length := by rw [absG_nodes_length]; omega
    have hdir : (absG s st ck).directed = s.directed := rfl
    have hboth : walkOut s.edges a l0 l1 =
        ((CGS.outEdges (absG s st ck) a).map fun e => (e, (CGS.edgeAt (absG s st ck) e).tgt)) ++
          (((CGS.inEdges (absG s st ck) a).map fun e => (e, (CGS.edgeAt (absG s st ck) e).src)).filter
            fun p => p.2 != a) := by
      simp only [walkOut, edgeAt_absG_tgt, edgeAt_absG_src, ← he0, ← he1, List.filter_map]
      rfl
    unfold walkerNew
    simp only [hh]
    by_cases hb : (decide (mode = 2) || !s.directed) = true
    · rw [if_pos hb]
      refine ⟨l0, l1, hl0, hl1, hlen1, ?_⟩
      dsimp only
      rw [hboth]
      simp only [CGS.nbr, hge, if_false, hdir]
      cases hd : s.directed with
      | false => simp
      | true =>
        have hm2 : mode = 2 := by simpa [hd] using hb
        simp [hm2, normMode]
    · rw [if_neg hb]
      have hd : s.directed = true := by
        cases hd : s.directed with
        | true => rfl
        | false => simp [hd] at hb
      have hm2 : mode ≠ 2 := by
        intro hm; simp [hm] at hb
      by_cases hm1 : mode = 1
      · rw [if_pos hm1]
        refine ⟨[], l1, IsList.nil, hl1, hlen1, ?_⟩
        dsimp only
        have hfil : l1.filter (fun e => srcAt s.edges e != s.endv) = l1 := by
          apply List.filter_eq_self.mpr
          intro e he
          obtain ⟨ed, hed, _⟩ := hinc1 e he
          have := (h.inv.src_ne_end hed).1
          simpa [srcAt, hed] using this
        simp only [walkOut, List.map_nil, List.nil_append, hfil]
        simp only [CGS.nbr, hge, if_false, hdir, hd, if_true, hm1, normMode]
        simp [he1, edgeAt_absG_src]
      · rw [if_neg hm1]
        refine ⟨l0, [], hl0, IsList.nil, by simp, ?_⟩
        dsimp only
        simp only [walkOut, List.filter_nil, List.map_nil, List.append_nil]
        simp only [CGS.nbr, hge, if_false, hdir, hd, if_true, normMode, hm2, hm1]
        simp [he0, edgeAt_absG_tgt]

/-! ### every walker value, stale ones included, has a finite rest -/

/-- a cursor of a possibly stale walker: a proper chain, or an index beyond the edge array (then
`edges.get` answers `None` at once) -/
def GList (edges : List Edge) (k : Bool) (endv cur : Nat) (l : List Nat) : Prop :=
  IsList edges k endv cur l ∨ (edges.length ≤ cur ∧ l = [])

/-- `Rem` for arbitrary cursors -/
def RemG (g : State) (wk : Walker) (R : List (Nat × Nat)) : Prop :=
  ∃ l0 l1, GList g.edges false g.endv wk.next0 l0 ∧ GList g.edges true g.endv wk.next1 l1 ∧
    l1.length ≤ g.edges.length ∧ R = walkOut g.edges wk.skip l0 l1

theorem rem_to_remG {g : State} {wk : Walker} {R : List (Nat × Nat)} (h : Rem g wk R) : RemG g wk R := by
  obtain ⟨l0, l1, h0, h1, h2, h3⟩ := h
  exact ⟨l0, l1, Or.inl h0, Or.inl h1, h2, h3⟩

theorem remG_next {g : State} (hsz : g.edges.length ≤ g.endv) {wk : Walker} {R : List (Nat × Nat)} (h : RemG g wk R) :
    ∃ wk', walkerNext g wk = .ok (wk', R.head?) ∧ RemG g wk' R.tail := by
  obtain ⟨skip, n0, n1⟩ := wk
  obtain ⟨l0, l1, hl0, hl1, hlen1, hR⟩ := h
  dsimp only at hl0 hl1 hR
  subst hR
  -- phase 2: the outgoing cursor is exhausted / out of range
  have phase2 : g.edges[n0]? = none → l0 = [] →
      ∃ wk', walkerNext g ⟨skip, n0, n1⟩ = .ok (wk', (walkOut g.edges skip l0 l1).head?) ∧
        RemG g wk' (walkOut g.edges skip l0 l1).tail := by
    intro hnone hl0nil
    subst hl0nil
    rcases hl1 with hl1 | ⟨hge1, hl1nil⟩
    · rcases walkIn_spec (skip := skip) hsz g.fuel n1 l1 hl1 (by simp [State.fuel]; omega) with
        ⟨h1, h2⟩ | ⟨e, ed, rest, h1, h2, h3, h4, h5⟩
      · have hnext : walkerNext g ⟨skip, n0, n1⟩ = .ok (⟨skip, n0, g.endv⟩, none) := by
          simp [walkerNext, hnone, h2]
        refine ⟨⟨skip, n0, g.endv⟩, hnext.trans ?_, ⟨[], [], hl0, Or.inl IsList.nil, by simp, ?_⟩⟩
        · simp [walkOut, h1]
        · simp [walkOut, h1]
      · have hnext : walkerNext g ⟨skip, n0, n1⟩ = .ok (⟨skip, n0, ed.next1⟩, some (e, ed.src)) := by
          simp [walkerNext, hnone, h5]
        have hsrc : srcAt g.edges e = ed.src := by simp [srcAt, h1]
        refine ⟨⟨skip, n0, ed.next1⟩, hnext.trans ?_, ⟨[], rest, hl0, Or.inl h2, by omega, ?_⟩⟩
        · simp [walkOut, h4, hsrc]
        · simp [walkOut, h4]
    · subst hl1nil
      have hn1 : g.edges[n1]? = none := List.getElem?_eq_none hge1
      have hw : walkIn g.edges skip g.fuel n1 = .ok (n1, none) := by simp [State.fuel, walkIn, hn1]
      have hnext : walkerNext g ⟨skip, n0, n1⟩ = .ok (⟨skip, n0, n1⟩, none) := by
        simp [walkerNext, hnone, hw]
      exact ⟨⟨skip, n0, n1⟩, hnext.trans (by simp [walkOut]), ⟨[], [], hl0, Or.inr ⟨hge1, rfl⟩, by simp, by simp [walkOut]⟩⟩
  rcases hl0 with hl0' | ⟨hge0, hl0nil⟩
  · cases hl0' with
    | @cons _ l0' ed he htl =>
      have hnext : walkerNext g ⟨skip, n0, n1⟩ = .ok (⟨skip, ed.next0, n1⟩, some (n0, ed.tgt)) := by
        simp [walkerNext, he]
      have htl' : IsList g.edges false g.endv ed.next0 l0' := by simpa [Edge.next] using htl
      have htgt : tgtAt g.edges n0 = ed.tgt := by simp [tgtAt, he]
      refine ⟨⟨skip, ed.next0, n1⟩, hnext.trans ?_, ⟨l0', l1, Or.inl htl', hl1, hlen1, ?_⟩⟩
      · simp [walkOut, htgt]
      · simp [walkOut]
    | nil => exact phase2 (List.getElem?_eq_none hsz) rfl
  · exact phase2 (List.getElem?_eq_none hge0) hl0nil

theorem sameLinks_gList {s s' : State} (hs : SameLinks s s') {k : Bool} {h : Nat} {l : List Nat}
    (hl : GList s.edges k s.endv h l) : GList s'.edges k s'.endv h l := by
  rcases hl with hl | ⟨hge, hnil⟩
  · exact Or.inl (sameLinks_isList hs hl)
  · exact Or.inr ⟨by rw [sameLinks_elen hs]; exact hge, hnil⟩

theorem remG_sameLinks {s s' : State} (hs : SameLinks s s') {wk : Walker} {R : List (Nat × Nat)} (h : RemG s wk R) :
    RemG s' wk R := by
  obtain ⟨l0, l1, hl0, hl1, hlen, hR⟩ := h
  refine ⟨l0, l1, sameLinks_gList hs hl0, sameLinks_gList hs hl1, by rw [sameLinks_elen hs]; exact hlen, ?_⟩
  rw [hR]
  unfold walkOut
  simp only [sameLinks_srcAt hs, sameLinks_tgtAt hs]

/-- in a graph satisfying the invariant EVERY walker value has a rest, of at most `2 m` items -/
theorem remG_any {g : State} (h : Inv g) (wk : Walker) : ∃ R, RemG g wk R ∧ R.length ≤ 2 * g.edges.length := by
  have cur : ∀ (k : Bool) (c : Nat), ∃ l, GList g.edges k g.endv c l ∧ l.length ≤ g.edges.length := by
    intro k c
    by_cases hc : c < g.edges.length
    · obtain ⟨l, h1, h2⟩ := h.isList_from k hc
      exact ⟨l, Or.inl h1, h2⟩
    · exact ⟨[], Or.inr ⟨by omega, rfl⟩, by simp⟩
  obtain ⟨l0, h0, hlen0⟩ := cur false wk.next0
  obtain ⟨l1, h1, hlen1⟩ := cur true wk.next1
  refine ⟨walkOut g.edges wk.skip l0 l1, ⟨l0, l1, h0, h1, hlen1, rfl⟩, ?_⟩
  unfold walkOut
  simp only [List.length_append, List.length_map]
  have := List.length_filter_le (fun e => srcAt g.edges e != wk.skip) l1
  omega

/-! ### link-preserving calls -/

theorem sameLinks_of_setNodeWeight {s s' : State} {old a w : Nat} (he : setNodeWeight s a w = some (s', old)) :
    SameLinks s s' := by
  unfold setNodeWeight at he
  split at he
  · rename_i nd hnd
    simp at he; rw [← he.1]
    exact sameLinks_setNodeWeight hnd w
  · simp at he

theorem sameLinks_of_setEdgeWeight {s s' : State} {old e w : Nat} (he : setEdgeWeight s e w = some (s', old)) :
    SameLinks s s' := by
  unfold setEdgeWeight at he
  split at he
  · rename_i ed hed
    simp at he; rw [← he.1]
    exact sameLinks_setEdgeWeight hed w
  · simp at he

theorem sameLinks_liftF {α : Type} {s : State} (r : Except Fault α) (g : α → State × Out)
    (hg : ∀ v, r = .ok v → SameLinks s (g v).1) : SameLinks s (liftF s r g).1 := by
  unfold liftF
  split
  · rename_i v; exact hg v rfl
  · exact SameLinks.refl s

/-- every call classified by `GW.keepsLinks` leaves all `next` links, endpoints and counts alone -/
theorem keepsLinks_sameLinks (s : State) (op : Op) (hk : keepsLinks op = true) : SameLinks s (step s op).1 := by
  cases op <;> simp only [keepsLinks] at hk <;> simp only [step, liftF_query] <;> try exact SameLinks.refl s
  all_goals try (cases hk; done)
  case nodeWeightMut a w =>
    split
    · rename_i s' old heq; exact sameLinks_of_setNodeWeight heq
    · exact SameLinks.refl s
  case edgeWeightMut e w =>
    split
    · rename_i s' old heq; exact sameLinks_of_setEdgeWeight heq
    · exact SameLinks.refl s
  case indexMutNode a w =>
    split
    · rename_i s' old heq; exact sameLinks_of_setNodeWeight heq
    · exact SameLinks.refl s
  case indexMutEdge e w =>
    split
    · rename_i s' old heq; exact sameLinks_of_setEdgeWeight heq
    · exact SameLinks.refl s
  case indexTwiceMut ki kj i j wi wj =>
    split
    · rename_i s' heq
      unfold indexTwiceMut at heq
      split at heq
      · simp at heq
      · split at heq
        · simp at heq
        · simp only [Option.some.injEq] at heq
          rw [← heq]
          exact (sameLinks_putWeight s ki i wi).trans (sameLinks_putWeight _ kj j wj)
    · exact SameLinks.refl s
  case bumpNodes d => exact sameLinks_bumpNodes s d
  case bumpEdges d => exact sameLinks_bumpEdges s d
  case map dn de => exact sameLinks_mapWeights s dn de
  case intoEdgeType d => exact ⟨rfl, rfl, rfl⟩
  case walk a mode bump =>
    refine sameLinks_liftF _ _ ?_
    intro v hv
    obtain ⟨s', l⟩ := v
    exact sameLinks_walkAll bump _ _ _ _ _ hv
  case indexNode a => split <;> exact SameLinks.refl s
  case indexEdge e => split <;> exact SameLinks.refl s

/-! ### the walker layer refines its specification -/

/-- coupling of a walker-layer state with the specification's view of it -/
structure WInv (s : WState) (x : WSpec) : Prop where
  rinv : ∃ st ck, RInv s.g st ck ∧ x.sp = absG s.g st ck
  len : x.ws.length = s.ws.length
  rem : ∀ (i : Nat) (wk : Walker) (sw : SWalker) (R : List (Nat × Nat)),
    s.ws[i]? = some wk → x.ws[i]? = some sw → sw.rest = some R → Rem s.g wk R

theorem winv_init (endv : Nat) (directed : Bool) : WInv (GW.init endv directed) ⟨CGS.empty endv directed, []⟩ :=
  ⟨⟨id, 0, rinv_empty endv directed, rfl⟩, rfl, by intro i wk sw R h; simp [GW.init] at h⟩

theorem specWalkerNext_clean {sp : CGS.Spec} {sw : SWalker} {R : List (Nat × Nat)} (hR : sw.rest = some R) :
    specWalkerNext sp sw R.head? = some { sw with rest := some R.tail } := by
  unfold specWalkerNext
  rw [hR]
  dsimp only
  cases ho : sw.ordered with
  | true => simp
  | false =>
    cases R with
    | nil =>
      simp only [List.head?_nil, List.isEmpty_nil, if_true, List.tail_nil, Bool.false_eq_true, if_false]
      cases sw; simp_all
    | cons p t => simp

theorem wstep_refines {s : WState} {x : WSpec} (h : WInv s x) (op : WOp) :
    ∃ x', WAccepts x op (GW.step s op).2 x' ∧ WInv (GW.step s op).1 x' := by
  obtain ⟨st, ck, hr, hsp⟩ := h.rinv
  cases op with
  | base op =>
    obtain ⟨st', ck', hacc, hr'⟩ := stepOK_all hr op
    refine ⟨⟨absG (G.step s.g op).1 st' ck', if keepsLinks op then x.ws else x.ws.map SWalker.disturb⟩, ?_, ?_⟩
    · show SpecAccepts2 x.sp op (G.step s.g op).2 _ ∧ _
      rw [hsp]
      exact ⟨hacc, rfl⟩
    · refine ⟨⟨st', ck', hr', rfl⟩, ?_, ?_⟩
      · show (if keepsLinks op then x.ws else x.ws.map SWalker.disturb).length = s.ws.length
        split
        · exact h.len
        · simp [h.len]
      · intro i wk sw R hwk hsw hR
        show Rem (G.step s.g op).1 wk R
        by_cases hk : keepsLinks op = true
        · have hsw' : x.ws[i]? = some sw := by simpa [hk] using hsw
          exact rem_sameLinks (keepsLinks_sameLinks s.g op hk) (h.rem i wk sw R hwk hsw' hR)
        · have hsw' : (x.ws.map SWalker.disturb)[i]? = some sw := by simpa [hk] using hsw
          rw [List.getElem?_map] at hsw'
          cases hx : x.ws[i]? with
          | none => rw [hx] at hsw'; cases hsw'
          | some sw0 =>
            rw [hx] at hsw'
            simp only [Option.map_some, Option.some.injEq] at hsw'
            rw [← hsw'] at hR
            simp [SWalker.disturb] at hR
  | walkerNew a mode =>
    refine ⟨{ x with ws := x.ws ++ [specWalkerNew x.sp a mode] }, ⟨h.len.symm, rfl⟩, ⟨⟨st, ck, hr, hsp⟩, ?_, ?_⟩⟩
    · show (x.ws ++ [_]).length = (s.ws ++ [_]).length
      simp [h.len]
    · intro i wk sw R hwk hsw hR
      show Rem s.g wk R
      have hwk' : (s.ws ++ [walkerNew s.g a mode])[i]? = some wk := hwk
      have hsw' : (x.ws ++ [specWalkerNew x.sp a mode])[i]? = some sw := hsw
      by_cases hi : i < s.ws.length
      · rw [List.getElem?_append_left hi] at hwk'
        rw [List.getElem?_append_left (by rw [h.len]; exact hi)] at hsw'
        exact h.rem i wk sw R hwk' hsw' hR
      · have hlt := lt_of_getElem? hwk'
        simp only [List.length_append, List.length_cons, List.length_nil] at hlt
        have hie : i = s.ws.length := by omega
        subst hie
        rw [List.getElem?_append_right (Nat.le_refl _)] at hwk'
        rw [← h.len, List.getElem?_append_right (Nat.le_refl _)] at hsw'
        simp only [Nat.sub_self, List.getElem?_cons_zero, Option.some.injEq] at hwk' hsw'
        subst hwk' hsw'
        simp only [specWalkerNew, Option.some.injEq] at hR
        subst hR
        rw [hsp]
        exact rem_new hr a mode
  | walkerNext w =>
    cases hw : s.ws[w]? with
    | none =>
      have hx : x.ws[w]? = none := by
        apply List.getElem?_eq_none
        rw [h.len]
        by_contra hc
        rw [List.getElem?_eq_getElem (by omega)] at hw
        cases hw
      refine ⟨x, ?_, ?_⟩
      · simp only [GW.step, hw, WAccepts, hx]
        trivial
      · simp only [GW.step, hw]
        exact h
    | some wk =>
      have hwlt := lt_of_getElem? hw
      have hxlt : w < x.ws.length := by rw [h.len]; exact hwlt
      have hx := List.getElem?_eq_getElem hxlt
      -- the successor coupling, given the model's step and an accepted successor of the spec walker
      have key : ∀ (wk' : Walker) (r : Option (Nat × Nat)) (sw' : SWalker), walkerNext s.g wk = .ok (wk', r) →
          specWalkerNext x.sp x.ws[w] r = some sw' →
          (∀ R, sw'.rest = some R → Rem s.g wk' R) →
          ∃ x', WAccepts x (.walkerNext w) (GW.step s (.walkerNext w)).2 x' ∧ WInv (GW.step s (.walkerNext w)).1 x' := by
        intro wk' r sw' hnx hsp' hrem'
        refine ⟨{ x with ws := x.ws.set w sw' }, ?_, ?_⟩
        · simp only [GW.step, hw, hnx, WAccepts, hx]
          exact ⟨r, sw', rfl, hsp', rfl⟩
        · simp only [GW.step, hw, hnx]
          refine ⟨⟨st, ck, hr, hsp⟩, by simp [h.len], ?_⟩
          intro i wk2 sw2 R hwk2 hsw2 hR
          show Rem s.g wk2 R
          have hwk2' : (s.ws.set w wk')[i]? = some wk2 := hwk2
          have hsw2' : (x.ws.set w sw')[i]? = some sw2 := hsw2
          by_cases hiw : w = i
          · subst hiw
            rw [List.getElem?_set_self hwlt] at hwk2'
            rw [List.getElem?_set_self hxlt] at hsw2'
            cases hwk2'; cases hsw2'
            exact hrem' R hR
          · rw [List.getElem?_set_ne hiw] at hwk2' hsw2'
            exact h.rem i wk2 sw2 R hwk2' hsw2' hR
      cases hrest : (x.ws[w]).rest with
      | some R =>
        obtain ⟨wk', hnx, hrem'⟩ := rem_next hr.inv.szE (h.rem w wk x.ws[w] R hw hx hrest)
        refine key wk' R.head? _ hnx (specWalkerNext_clean hrest) ?_
        intro R' hR'
        simp only [Option.some.injEq] at hR'
        rw [← hR']
        exact hrem'
      | none =>
        obtain ⟨wk', r, hnx⟩ := walkerNext_ok hr.inv wk
        have hacc : specWalkerNext x.sp x.ws[w] r = some x.ws[w] := by
          unfold specWalkerNext
          rw [hrest]
          dsimp only
          cases r with
          | none => rfl
          | some p =>
            obtain ⟨e, n⟩ := p
            obtain ⟨ed, hed, hn⟩ := walkerNext_some hnx
            have he : e < x.sp.edges.length := by rw [hsp, absG_edges_length]; exact lt_of_getElem? hed
            have hat : CGS.edgeAt x.sp e = absEdgeG st e ed := by rw [hsp]; exact edgeAt_absG hed
            dsimp only
            rw [hat]
            rcases hn with hn | hn <;> simp [he, hn, absEdgeG]
        refine key wk' r _ hnx hacc ?_
        intro R hR
        rw [hrest] at hR
        cases hR

theorem wrun_refines : ∀ (ops : List WOp) (s : WState) (x : WSpec), WInv s x →
    ∃ x', SpecRunW x ops (GW.run s ops).2 x' ∧ WInv (GW.run s ops).1 x' := by
  intro ops
  induction ops with
  | nil => intro s x h; exact ⟨x, SpecRunW.nil _, h⟩
  | cons op ops ih =>
    intro s x h
    obtain ⟨x1, hacc, h1⟩ := wstep_refines h op
    obtain ⟨x2, hrun, h2⟩ := ih _ x1 h1
    exact ⟨x2, SpecRunW.cons hacc hrun, h2⟩

theorem wAccepts_no_fault {x x' : WSpec} {op : WOp} {o : WOut} (h : WAccepts x op o x') :
    (∀ f, o ≠ .fault f) ∧ (∀ f, o ≠ .base (.fault f)) := by
  constructor
  · intro f hf
    subst hf
    cases op with
    | base op => exact h
    | walkerNew a mode => exact h
    | walkerNext w =>
      simp only [WAccepts] at h
      split at h
      · cases h.1
      · obtain ⟨_, _, h1, _⟩ := h; cases h1
  · intro f hf
    subst hf
    cases op with
    | base op => exact specAccepts2_no_fault h.1
    | walkerNew a mode => exact h
    | walkerNext w =>
      simp only [WAccepts] at h
      split at h
      · cases h.1
      · obtain ⟨_, _, h1, _⟩ := h; cases h1

theorem specRunW_no_fault {x x' : WSpec} {ops : List WOp} {os : List WOut} (h : SpecRunW x ops os x') :
    ∀ o ∈ os, (∀ f, o ≠ .fault f) ∧ (∀ f, o ≠ .base (.fault f)) := by
  induction h with
  | nil => intro o ho; cases ho
  | cons hacc _ ih =>
    intro o ho
    rcases List.mem_cons.mp ho with h1 | h1
    · rw [h1]; exact wAccepts_no_fault hacc
    · exact ih o h1

/-! ### a walker in an undisturbed graph lists exactly what was left, whatever is interleaved -/

theorem range_succ_map {β : Type} (f : Nat → β) (n : Nat) :
    (List.range (n + 1)).map f = f 0 :: (List.range n).map (fun i => f (i + 1)) := by
  rw [List.range_succ_eq_map]
  simp [List.map_map, Function.comp_def]

theorem inv_wstep {s : WState} (h : Inv s.g) (op : WOp) : Inv (GW.step s op).1.g := by
  cases op with
  | base op => exact inv_step h op
  | walkerNew a mode => exact h
  | walkerNext w =>
    simp only [GW.step]
    split
    · exact h
    · split <;> exact h

/-- if walker `w` still has to list `R` and only quiet calls follow (link-preserving calls of the
`Graph` alphabet, creation and stepping of walkers — `w` itself included), then the `i`-th answer
`w` gives is `R[i]?`: the items of `R` in order, then `None` for ever -/
theorem answers_of_rem (w : Nat) : ∀ (ops : List WOp) (s : WState) (wk : Walker) (R : List (Nat × Nat)),
    Inv s.g → s.ws[w]? = some wk → RemG s.g wk R → (∀ op ∈ ops, op.quietFor = true) →
    GW.answersOf w ops (GW.run s ops).2 =
      (List.range (GW.answersOf w ops (GW.run s ops).2).length).map (fun i => WOut.item R[i]?) := by
  intro ops
  induction ops with
  | nil => intro s wk R _ _ _ _; simp [GW.run, GW.answersOf]
  | cons op ops ih =>
    intro s wk R hinv hw hrem hq
    have hq' : ∀ o ∈ ops, o.quietFor = true := fun o ho => hq o (List.mem_cons_of_mem _ ho)
    have hrun : GW.run s (op :: ops) = ((GW.run (GW.step s op).1 ops).1, (GW.step s op).2 :: (GW.run (GW.step s op).1 ops).2) := rfl
    rw [hrun]
    have hinv' := inv_wstep hinv op
    cases op with
    | base b =>
      have hk : keepsLinks b = true := hq _ (List.mem_cons_self ..)
      have hs : GW.answersOf w (.base b :: ops) ((GW.step s (.base b)).2 :: (GW.run (GW.step s (.base b)).1 ops).2) =
          GW.answersOf w ops (GW.run (GW.step s (.base b)).1 ops).2 := rfl
      rw [hs]
      exact ih _ wk R hinv' hw (remG_sameLinks (keepsLinks_sameLinks s.g b hk) hrem) hq'
    | walkerNew a mode =>
      have hs : GW.answersOf w (.walkerNew a mode :: ops) ((GW.step s (.walkerNew a mode)).2 :: (GW.run (GW.step s (.walkerNew a mode)).1 ops).2) =
          GW.answersOf w ops (GW.run (GW.step s (.walkerNew a mode)).1 ops).2 := rfl
      rw [hs]
      refine ih _ wk R hinv' ?_ hrem hq'
      show (s.ws ++ [walkerNew s.g a mode])[w]? = some wk
      rw [List.getElem?_append_left (lt_of_getElem? hw)]
      exact hw
    | walkerNext w' =>
      by_cases hww : w' = w
      · subst hww
        obtain ⟨wk', hnx, hrem'⟩ := remG_next hinv.szE hrem
        have hst : GW.step s (.walkerNext w') = ({ s with ws := s.ws.set w' wk' }, .item R.head?) := by
          simp only [GW.step, hw, hnx]
        rw [hst]
        have hs : ∀ os, GW.answersOf w' (.walkerNext w' :: ops) (WOut.item R.head? :: os) =
            WOut.item R.head? :: GW.answersOf w' ops os := by
          intro os; simp [GW.answersOf]
        rw [hs]
        have hw' : ({ s with ws := s.ws.set w' wk' } : WState).ws[w']? = some wk' := by
          show (s.ws.set w' wk')[w']? = some wk'
          rw [List.getElem?_set_self (lt_of_getElem? hw)]
        have := ih { s with ws := s.ws.set w' wk' } wk' R.tail hinv hw' hrem' hq'
        rw [List.length_cons, range_succ_map, this]
        congr 1
        · cases R <;> rfl
        · simp only [List.length_map, List.length_range]
          apply List.map_congr_left
          intro i _
          cases R <;> simp
      · have hs : ∀ o os, GW.answersOf w (.walkerNext w' :: ops) (o :: os) = GW.answersOf w ops os := by
          intro o os; simp [GW.answersOf, hww]
        rw [hs]
        have hg : (GW.step s (.walkerNext w')).1.g = s.g := by
          simp only [GW.step]
          split
          · rfl
          · split <;> rfl
        have hw' : (GW.step s (.walkerNext w')).1.ws[w]? = some wk := by
          simp only [GW.step]
          split
          · exact hw
          · split
            · exact hw
            · show (s.ws.set w' _)[w]? = some wk
              rw [List.getElem?_set_ne hww]
              exact hw
        exact ih _ wk R hinv' hw' (by rw [hg]; exact hrem) hq'

/-- the edge indices `edges_directed(a, dir)` lists are those of `neighbors_directed(a, dir)` -/
theorem refs_ix (sp : CGS.Spec) (a : Nat) (dir : Bool) :
    (CGS.refs sp a dir).map (·.ix) = (CGS.nbr sp a (if dir then 1 else 0)).map (·.1) := by
  unfold CGS.refs CGS.nbr
  by_cases ha : a ≥ sp.nodes.length
  · simp [ha]
  · simp only [ha, if_false]
    cases hd : sp.directed with
    | true => cases dir <;> simp [List.map_map, Function.comp_def]
    | false =>
      simp only [Bool.false_eq_true, if_false, List.map_map, Function.comp_def]
      cases dir <;> simp

end PetgraphModel.GProofs
