import PetgraphModel.Proofs.C16W2ApInv
/-
C16, second wave — articulation points, Part I (f): the invariant is preserved by a `rootCheck`
step (the node is finished; a root with at least two tree children is reported).
-/
namespace PetgraphModel.C16P.W2Ap
open PetgraphModel MGraph C16M

section
variable {v : View} {u : Nat} {P : List Nat} {rest : List (Nat × FS)} {st : AP}

theorem finished_root {x : Nat} (h : Finished ((u, .fin) :: rest) st x) :
    x = u ∨ Finished ((u, .run P []) :: rest) st x := by
  by_cases hxu : x = u
  · exact Or.inl hxu
  · refine Or.inr ⟨h.1, fun s hs => ?_⟩
    cases List.mem_cons.mp hs with
    | inl h' => cases h'; exact (hxu rfl).elim
    | inr h' => exact h.2 s (List.mem_cons_of_mem _ h')

theorem finished_root_mk {x : Nat} (h : Finished ((u, .run P []) :: rest) st x) :
    Finished ((u, .fin) :: rest) st x := by
  refine ⟨h.1, fun s hs => ?_⟩
  cases List.mem_cons.mp hs with
  | inl h' => cases h'; rfl
  | inr h' => exact h.2 s (List.mem_cons_of_mem _ h')

/-- all neighbours of the node that finishes are visited -/
theorem root_nbr_vis (C : Core v ((u, .run P []) :: rest) st) {w : Nat} (hw : w ∈ nbr v u) :
    w ∈ P ∧ w ∈ st.visited := by
  have hmem : (u, FS.run P []) ∈ (u, FS.run P []) :: rest := List.mem_cons_self ..
  have hP : w ∈ P := by
    have := C.run_split u P [] hmem
    rw [List.append_nil] at this
    rw [← this]; exact List.mem_reverse.mpr hw
  refine ⟨hP, ?_⟩
  rcases C.proc_vis u P [] w hmem hP with h | h
  · exact h
  · cases List.mem_cons.mp h with
    | inl h' => cases h'
    | inr h' => exact (C.pend_head rfl h').elim

theorem core_root (C : Core v ((u, .run P []) :: rest) st) : Core v ((u, .fin) :: rest) st := by
  have hmem : (u, FS.run P []) ∈ (u, FS.run P []) :: rest := List.mem_cons_self ..
  have huv : u ∈ st.visited := C.nonpend_vis u _ hmem (by intro h; cases h)
  refine
    { tab := C.tab, gvalid := ?_, gnodup := by simpa using C.gnodup, disc_vis := C.disc_vis,
      disc_lt := C.disc_lt, disc_inj := C.disc_inj, par_vis := C.par_vis, par_lt := C.par_lt,
      par_unvis := ?_, chain := chain_head_state _ _ _ _ _ C.chain,
      pend_unvis := ?_, nonpend_vis := ?_, run_split := ?_, proc_vis := ?_, done_vis := ?_,
      desc := ?_, done_desc := ?_ }
  · intro x s hm
    cases List.mem_cons.mp hm with
    | inl h => cases h; exact C.gvalid u _ hmem
    | inr h => exact C.gvalid x s (List.mem_cons_of_mem _ h)
  · intro i p hp hiv
    obtain ⟨r', hr'⟩ := C.par_unvis i p hp hiv
    cases hr'
  · intro x hm
    cases List.mem_cons.mp hm with
    | inl h => cases h
    | inr h => exact C.pend_unvis x (List.mem_cons_of_mem _ h)
  · intro x s hm hs
    cases List.mem_cons.mp hm with
    | inl h => cases h; exact huv
    | inr h => exact C.nonpend_vis x s (List.mem_cons_of_mem _ h) hs
  · intro x P' R' hm
    cases List.mem_cons.mp hm with
    | inl h => cases h
    | inr h => exact C.run_split x P' R' (List.mem_cons_of_mem _ h)
  · intro x P' R' w hm hw
    cases List.mem_cons.mp hm with
    | inl h => cases h
    | inr h =>
      rcases C.proc_vis x P' R' w (List.mem_cons_of_mem _ h) hw with h1 | h1
      · exact Or.inl h1
      · cases List.mem_cons.mp h1 with
        | inl h' => cases h'
        | inr h' => exact Or.inr (List.mem_cons_of_mem _ h')
  · intro x w hf hw
    rcases finished_root (P := P) hf with h | h
    · subst h; exact (root_nbr_vis C hw).2
    · exact C.done_vis x w h hw
  · intro x u' s hx hm hu' hle
    cases List.mem_cons.mp hm with
    | inl h => cases h; exact C.desc x u _ hx hmem hu' hle
    | inr h => exact C.desc x u' s hx (List.mem_cons_of_mem _ h) hu' hle
  · intro x w hf hw hlt
    rcases finished_root (P := P) hf with h | h
    · subst h
      exact C.desc w x _ (root_nbr_vis C hw).2 hmem huv (by omega)
    · exact C.done_desc x w h hw hlt

theorem low_root (C : Core v ((u, .run P []) :: rest) st) (L : LowInv v ((u, .run P []) :: rest) st) :
    LowInv v ((u, .fin) :: rest) st := by
  have hmem : (u, FS.run P []) ∈ (u, FS.run P []) :: rest := List.mem_cons_self ..
  have hfold : ∀ x, Folded ((u, .fin) :: rest) st x ↔ Folded ((u, .run P []) :: rest) st x :=
    fun x => folded_head_iff u _ _ rest st x
  refine { low_le := L.low_le, proc_low := ?_, done_low := ?_, low_fold := ?_, low_att := ?_ }
  · intro x P' R' w hm hw hwv hwp
    cases List.mem_cons.mp hm with
    | inl h => cases h
    | inr h => exact L.proc_low x P' R' w (List.mem_cons_of_mem _ h) hw hwv hwp
  · intro x w hf hw hwp
    rcases finished_root (P := P) hf with h | h
    · subst h
      obtain ⟨hP, hwv⟩ := root_nbr_vis C hw
      exact L.proc_low x P [] w hmem hP hwv hwp
    · exact L.done_low x w h hw hwp
  · intro c u' hp' hf
    exact L.low_fold c u' hp' ((hfold c).mp hf)
  · intro x hxv
    rcases L.low_att x hxv with h1 | ⟨w, hw, hwv, h1⟩ | ⟨c', hc', hf, h1⟩
    · exact Or.inl h1
    · exact Or.inr (Or.inl ⟨w, hw, hwv, h1⟩)
    · exact Or.inr (Or.inr ⟨c', hc', (hfold c').mpr hf, h1⟩)

theorem aps_rootCheck (C : Core v ((u, .run P []) :: rest) st) (A : ApsInv ((u, .run P []) :: rest) st)
    (n : Nat) (K : pO st u = none → CcOk st u n) :
    ApsInv ((u, .fin) :: rest) (if (pO st u).isNone ∧ n > 1 then stAps st u else st) := by
  have hmem : (u, FS.run P []) ∈ (u, FS.run P []) :: rest := List.mem_cons_self ..
  have huv : u ∈ st.visited := C.nonpend_vis u _ hmem (by intro h; cases h)
  have hfold : ∀ x, Folded ((u, .fin) :: rest) st x ↔ Folded ((u, .run P []) :: rest) st x :=
    fun x => folded_head_iff u _ _ rest st x
  split
  · rename_i hc
    have hpu : pO st u = none := by
      cases hp : pO st u with
      | none => rfl
      | some q => rw [hp] at hc; simp at hc
    have K' := K hpu
    refine { aps_vis := ?_, aps_sound := ?_, aps_nonroot := ?_, aps_root := ?_ }
    · intro i hia
      rcases (mem_insertAp i u st.aps).mp hia with h | h
      · subst h; exact huv
      · exact A.aps_vis i h
    · intro i hia
      rcases (mem_insertAp i u st.aps).mp hia with h | h
      · subst h
        exact Or.inr ⟨hpu, K'.many (by omega)⟩
      · rcases A.aps_sound i h with ⟨q, c', h1, h2, h3, h4⟩ | h'
        · exact Or.inl ⟨q, c', h1, h2, (hfold c').mpr h3, h4⟩
        · exact Or.inr h'
    · intro u' q c' h1 h2 hf hle
      exact (mem_insertAp u' u st.aps).mpr (Or.inr (A.aps_nonroot u' q c' h1 h2 ((hfold c').mp hf) hle))
    · intro r c1 c2 h0 hf hne h1 h2
      apply (mem_insertAp r u st.aps).mpr
      rcases finished_root (P := P) hf with h | h
      · exact Or.inl h
      · exact Or.inr (A.aps_root r c1 c2 h0 h hne h1 h2)
  · rename_i hc
    refine { aps_vis := A.aps_vis, aps_sound := ?_, aps_nonroot := ?_, aps_root := ?_ }
    · intro i hia
      rcases A.aps_sound i hia with ⟨q, c', h1, h2, h3, h4⟩ | h'
      · exact Or.inl ⟨q, c', h1, h2, (hfold c').mpr h3, h4⟩
      · exact Or.inr h'
    · intro u' q c' h1 h2 hf hle
      exact A.aps_nonroot u' q c' h1 h2 ((hfold c').mp hf) hle
    · intro r c1 c2 h0 hf hne h1 h2
      rcases finished_root (P := P) hf with h | h
      · subst h
        exfalso
        have K' := K h0
        apply hc
        refine ⟨by rw [h0]; rfl, ?_⟩
        apply Classical.byContradiction
        intro hn
        have hn' : n = 0 ∨ n = 1 := by omega
        rcases hn' with hn' | hn'
        · exact K'.zero hn' c1 h1
        · obtain ⟨c0, _, hc0⟩ := K'.one hn'
          exact hne ((hc0 c1 h1).trans (hc0 c2 h2).symm)
      · exact A.aps_root r c1 c2 h0 h hne h1 h2

end
end PetgraphModel.C16P.W2Ap
