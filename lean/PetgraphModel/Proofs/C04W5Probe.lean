import PetgraphModel.Proofs.MatrixGraph
/-
C04 wave 5 — the harness' `probe` lines: an edge-writing call on a pair that is NOT an edge (in
particular: with an endpoint that is not a live node — outside the property's quantifier), followed by
`try_remove_edge` of the same pair.  The pair of calls leaves the state inside the invariant and related to
the SAME simple graph (the matrix may have grown, invisibly), so the judged history continues inside the
scope of `C04_all_histories` / `run_refines`.
-/
namespace PetgraphModel.MatrixProofs
open PetgraphModel.Matrix PetgraphModel.MatrixSpec

theorem set_set_none (a : Array Cell) (p : Nat) (x : Cell) (hp : a[p]? = some none) :
    (a.setIfInBounds p x).setIfInBounds p none = a := by
  apply Array.ext_getElem?
  intro i
  by_cases hi : p = i
  · subst hi
    have hlt : p < a.size := by
      by_cases h : p < a.size
      · exact h
      · rw [Array.getElem?_eq_none (by omega)] at hp; cases hp
    rw [Array.getElem?_setIfInBounds_self_of_lt (by rw [Array.size_setIfInBounds]; exact hlt), hp]
  · rw [Array.getElem?_setIfInBounds_ne hi, Array.getElem?_setIfInBounds_ne hi]

/-- `update_edge` on a pair that is not an edge, then `try_remove_edge` of it -/
theorem updateEdge_undo {s : State} {g : G} (h : Inv s) (r : R s g) (a b : Nat) (w : Int)
    (hno : g.weight a b = none) :
    ∃ s1, Inv s1 ∧ R s1 g ∧ tryRemoveEdge s1 a b = (s1, .optW none) ∧
      (((s.nz = true ∧ w = 0) → updateEdge s a b w = (s1, .panic)) ∧
       (¬ (s.nz = true ∧ w = 0) → ∃ s2, updateEdge s a b w = (s2, .optW none) ∧
          tryRemoveEdge s2 a b = (s1, .optW (some w)))) := by
  obtain ⟨s1, e1, hinv1, hab, _, hobs, hn, hc, hd, hnz, _⟩ := extendForEdge_spec h a b
  have r1 : R s1 g := R_of_obs r hd hn hc hobs
  obtain ⟨c, hcell, hcw⟩ := cell_in_bounds hinv1 hab
  have hcn : c = none := by rw [← hcw, hobs, ← r.edges, hno]
  subst hcn
  refine ⟨s1, hinv1, r1, (tryRemoveEdge_spec hinv1 r1 a b).2 hno, ?_, ?_⟩
  · intro ⟨h1, h2⟩
    unfold updateEdge
    rw [e1]
    simp only [hcell]
    have : mkCell s1.nz w = none := by unfold mkCell; rw [hnz, h1, h2]; rfl
    rw [this]
  · intro hz
    have hmk : mkCell s1.nz w = some (some w) := by
      unfold mkCell
      rw [hnz]
      by_cases h1 : s.nz = true
      · have : w ≠ 0 := fun e => hz ⟨h1, e⟩
        simp [h1, this]
      · simp [h1]
    refine ⟨_, by unfold updateEdge; rw [e1]; simp only [hcell, hmk]; rfl, ?_⟩
    have hlt : linPos s1.dir a b s1.cap < s1.adj.size := by
      by_cases hh : linPos s1.dir a b s1.cap < s1.adj.size
      · exact hh
      · rw [Array.getElem?_eq_none (by omega)] at hcell; cases hcell
    unfold tryRemoveEdge edgePos
    simp only [Option.isNone_none, if_true]
    rw [if_neg (by omega)]
    simp only [Array.getElem?_setIfInBounds, hlt, if_true]
    rw [if_neg (by omega)]
    simp only [set_set_none _ _ _ hcell, Nat.add_sub_cancel]

/-- the state after a probe: the call, then `try_remove_edge` of the same pair -/
def probeState (s : State) (op : Op) (a b : Nat) : State :=
  (step (step s op).1 (.tryRemoveEdge a b)).1

theorem probe_via_update {s : State} {g : G} (h : Inv s) (r : R s g) (a b : Nat) (w : Int)
    (hno : g.weight a b = none) (s' : State) (hs : s' = (updateEdge s a b w).1) :
    Inv (step s' (.tryRemoveEdge a b)).1 ∧ R (step s' (.tryRemoveEdge a b)).1 g := by
  obtain ⟨s1, hi1, r1, e0, p1, p2⟩ := updateEdge_undo h r a b w hno
  subst hs
  by_cases hz : s.nz = true ∧ w = 0
  · rw [p1 hz]
    simp only [step, e0]
    exact ⟨hi1, r1⟩
  · obtain ⟨s2, e2, e3⟩ := p2 hz
    rw [e2]
    simp only [step, e3]
    exact ⟨hi1, r1⟩

theorem addEdge_fst (s : State) (a b : Nat) (w : Int) : (addEdge s a b w).1 = (updateEdge s a b w).1 := by
  unfold addEdge
  split <;> simp_all

theorem tryUpdateEdge_fst {s : State} {a b : Nat} (w : Int) (hb : assertNodeBounds s a b = none) :
    (tryUpdateEdge s a b w).1 = (updateEdge s a b w).1 := by
  unfold tryUpdateEdge
  rw [hb]
  simp only
  split <;> simp_all

theorem buildAddEdge_fst {s : State} {a b : Nat} (w : Int) (hb : hasEdge s a b = false) :
    (buildAddEdge s a b w).1 = (updateEdge s a b w).1 := by
  unfold buildAddEdge
  rw [hb]
  simp only [Bool.false_eq_true, if_false]
  split <;> simp_all

theorem buildUpdateEdge_fst (s : State) (a b : Nat) (w : Int) :
    (buildUpdateEdge s a b w).1 = (updateEdge s a b w).1 := by
  unfold buildUpdateEdge
  split <;> simp_all

/-- **probes are undone**: for each of the six edge-writing calls on a pair `(a, b)` that is not an edge
of the graph — whatever `a` and `b` are, live or not — the call followed by `try_remove_edge(a, b)` leaves
a state inside the invariant that still describes the same simple graph. -/
theorem probe_undone {s : State} {g : G} (h : Inv s) (r : R s g) (a b : Nat) (w : Int)
    (hno : g.weight a b = none) (op : Op)
    (hop : op = .addEdge a b w ∨ op = .updateEdge a b w ∨ op = .tryUpdateEdge a b w ∨
      op = .addOrUpdateEdge a b w ∨ op = .buildAddEdge a b w ∨ op = .buildUpdateEdge a b w) :
    Inv (probeState s op a b) ∧ R (probeState s op a b) g := by
  unfold probeState
  have hundo := (tryRemoveEdge_spec h r a b).2 hno
  rcases hop with rfl | rfl | rfl | rfl | rfl | rfl
  · exact probe_via_update h r a b w hno _ (addEdge_fst s a b w)
  · exact probe_via_update h r a b w hno _ rfl
  · -- try_update_edge
    cases hb : assertNodeBounds s a b with
    | some e =>
      have : (step s (.tryUpdateEdge a b w)).1 = s := by
        simp only [step]; unfold tryUpdateEdge; rw [hb]
      rw [this]
      simp only [step, hundo]
      exact ⟨h, r⟩
    | none => exact probe_via_update h r a b w hno _ (tryUpdateEdge_fst w hb)
  · -- add_or_update_edge
    obtain ⟨s1, e1, hinv1, hab, _, hobs, hn, hc, hd, hnz, _⟩ := extendForEdge_spec h a b
    have r1 : R s1 g := R_of_obs r hd hn hc hobs
    have hb : assertNodeBounds s1 a b = none := by
      unfold assertNodeBounds nodeMissing
      have ha' : ¬ (a ≥ s1.cap) := by omega
      have hb' : ¬ (b ≥ s1.cap) := by omega
      simp [ha', hb']
    have : (step s (.addOrUpdateEdge a b w)).1 = (updateEdge s1 a b w).1 := by
      simp only [step]; unfold addOrUpdateEdge; rw [e1]; exact tryUpdateEdge_fst w hb
    exact probe_via_update hinv1 r1 a b w hno _ this
  · -- Build::add_edge
    have hhe : hasEdge s a b = false := by rw [hasEdge_eq, ← r.edges, hno]; rfl
    exact probe_via_update h r a b w hno _ (buildAddEdge_fst w hhe)
  · exact probe_via_update h r a b w hno _ (buildUpdateEdge_fst s a b w)

end PetgraphModel.MatrixProofs
