import PetgraphModel.Spec.SerdeCheck
import PetgraphModel.Proofs.SerdeTrip
/-
C17 wave 4 — soundness of the spec-level judges of `Spec/Serde.lean` w.r.t. declarative statements.
-/
namespace PetgraphModel.SerdeProofs
open PetgraphModel.Serde PetgraphModel.SerdeSpec PetgraphModel.SerdeCheck

/-! ### multisets and sortedness -/

theorem sameMultiset_perm {α} [BEq α] [LawfulBEq α] (a : List α) :
    ∀ b : List α, sameMultiset a b = true → a.Perm b := by
  induction a with
  | nil =>
    intro b h
    simp only [sameMultiset, List.length_nil, Bool.and_eq_true, beq_iff_eq] at h
    have : b = [] := List.eq_nil_of_length_eq_zero h.1.symm
    subst this
    exact List.Perm.nil
  | cons x a ih =>
    intro b h
    simp only [sameMultiset, Bool.and_eq_true, beq_iff_eq, List.all_eq_true] at h
    obtain ⟨hl, hc⟩ := h
    have hx : x ∈ b := by
      have := hc x (List.mem_cons_self ..)
      rw [List.count_cons_self] at this
      exact List.count_pos_iff.1 (by omega)
    have hp : b.Perm (x :: b.erase x) := List.perm_cons_erase hx
    have hrec : sameMultiset a (b.erase x) = true := by
      simp only [sameMultiset, Bool.and_eq_true, beq_iff_eq, List.all_eq_true]
      refine ⟨?_, fun y hy => ?_⟩
      · rw [List.length_erase_of_mem hx]
        simp only [List.length_cons] at hl
        omega
      · have hy' := hc y (List.mem_cons_of_mem _ hy)
        by_cases hyx : y = x
        · subst hyx
          rw [List.count_cons_self] at hy'
          rw [List.count_erase_self]
          omega
        · rw [List.count_cons_of_ne (fun h => hyx h.symm)] at hy'
          rw [List.count_erase_of_ne hyx]
          exact hy'
    exact ((ih _ hrec).cons x).trans hp.symm

theorem perm_sameMultiset {α} [BEq α] [LawfulBEq α] (a b : List α) (h : a.Perm b) : sameMultiset a b = true := by
  simp only [sameMultiset, Bool.and_eq_true, beq_iff_eq, List.all_eq_true]
  exact ⟨h.length_eq, fun x _ => h.count_eq x⟩

theorem sameMultiset_iff_perm {α} [BEq α] [LawfulBEq α] (a b : List α) : sameMultiset a b = true ↔ a.Perm b :=
  ⟨sameMultiset_perm a b, perm_sameMultiset a b⟩

theorem strictlyIncreasing_pairwise (l : List Nat) : strictlyIncreasing l = true ↔ l.Pairwise (· < ·) := by
  induction l with
  | nil => simp [strictlyIncreasing]
  | cons a t ih =>
    cases t with
    | nil => simp [strictlyIncreasing]
    | cons b r =>
      simp only [strictlyIncreasing, Bool.and_eq_true, decide_eq_true_eq, ih]
      constructor
      · rintro ⟨hab, hp⟩
        refine List.pairwise_cons.2 ⟨?_, hp⟩
        intro c hc
        rcases List.mem_cons.1 hc with rfl | hc
        · exact hab
        · exact Nat.lt_trans hab ((List.pairwise_cons.1 hp).1 c hc)
      · intro hp
        obtain ⟨h1, h2⟩ := List.pairwise_cons.1 hp
        exact ⟨h1 b (List.mem_cons_self ..), h2⟩

/-- in a strictly increasing list the last element is the maximum -/
theorem pairwise_le_getLast (l : List Nat) (hp : l.Pairwise (· < ·)) (x : Nat) (hx : x ∈ l) :
    ∃ m, l.getLast? = some m ∧ x ≤ m := by
  induction l generalizing x with
  | nil => simp at hx
  | cons a t ih =>
    obtain ⟨h1, h2⟩ := List.pairwise_cons.1 hp
    cases t with
    | nil =>
      simp only [List.mem_singleton] at hx
      exact ⟨a, rfl, by omega⟩
    | cons b r =>
      rcases List.mem_cons.1 hx with rfl | hx
      · obtain ⟨m, hm, hbm⟩ := ih h2 b (List.mem_cons_self ..)
        refine ⟨m, by simpa [List.getLast?_cons_cons] using hm, ?_⟩
        have := h1 b (List.mem_cons_self ..)
        omega
      · obtain ⟨m, hm, hxm⟩ := ih h2 x hx
        exact ⟨m, by simpa [List.getLast?_cons_cons] using hm, hxm⟩

/-- `b` is the least strict upper bound of the ids (`0` for no ids): the declarative reading of
    `node_bound` / `edge_bound` -/
def IsBound (ids : List Nat) (b : Nat) : Prop := (∀ i, i ∈ ids → i < b) ∧ ∀ c, (∀ i, i ∈ ids → i < c) → b ≤ c

theorem isBound_of_getLast (ids : List Nat) (hp : ids.Pairwise (· < ·)) (b : Nat)
    (h : b = (match ids.getLast? with | some x => x + 1 | none => 0)) : IsBound ids b := by
  subst h
  cases hl : ids.getLast? with
  | none =>
    have : ids = [] := List.getLast?_eq_none_iff.1 hl
    subst this
    exact ⟨by simp, by simp⟩
  | some m =>
    refine ⟨fun i hi => ?_, fun c hc => ?_⟩
    · obtain ⟨m', hm', him⟩ := pairwise_le_getLast ids hp i hi
      rw [hl] at hm'; cases hm'
      show i < m + 1
      omega
    · have : m ∈ ids := List.mem_of_getLast? hl
      have := hc m this
      show m + 1 ≤ c
      omega

/-! ### `obsConsistent` -/

/-- the consistency guarantees of a `Graph` / `StableGraph` as they show in an observation: what `obsConsistent`
    decides -/
structure ObsOK (kind : Kind) (END : Nat) (directed : Bool) (o : Obs) : Prop where
  nc : o.nc = o.nodes.length
  ec : o.ec = o.edges.length
  /-- node / edge indices are listed once, in increasing order -/
  nodeIds : (o.nodes.map (·.1)).Pairwise (· < ·)
  edgeIds : (o.edges.map (·.1)).Pairwise (· < ·)
  /-- a `Graph` has compact indices -/
  compact : kind = .graph → o.nodes.map (·.1) = List.range o.nc ∧ o.edges.map (·.1) = List.range o.ec
  /-- `node_bound` / `edge_bound` are the least strict upper bounds of the live indices … -/
  nb : IsBound (o.nodes.map (·.1)) o.nb
  eb : IsBound (o.edges.map (·.1)) o.eb
  /-- … within the index type -/
  capN : o.nb ≤ END
  capE : o.eb ≤ END
  /-- every edge joins live nodes -/
  endpoints : ∀ e s t w, (e, s, t, w) ∈ o.edges → s ∈ o.nodes.map (·.1) ∧ t ∈ o.nodes.map (·.1)
  /-- an adjacency entry for every live node, once -/
  adjNodes : (o.adj.map (·.1)).Perm (o.nodes.map (·.1))
  /-- each node's `edges_directed(Outgoing)`, `edges_directed(Incoming)` and `neighbors_undirected` are, as
      multisets, exactly its incident edges / neighbours -/
  adj : ∀ a out inn nb, (a, out, inn, nb) ∈ o.adj →
    out.Perm (expectedOut directed o.edges a) ∧ inn.Perm (expectedIn directed o.edges a) ∧
    nb.Perm (expectedNbrs o.edges a)

theorem firstFalse_none (cs : List Bool) : ∀ ms, firstFalse cs ms = none ↔ cs.all id = true := by
  induction cs with
  | nil => intro ms; simp [firstFalse]
  | cons c cs ih =>
    intro ms
    cases c with
    | true => simp [firstFalse, ih]
    | false => simp [firstFalse]

theorem obsConsistent_sound (kind : Kind) (END : Nat) (directed : Bool) (o : Obs)
    (h : obsConsistent kind END directed o = none) : ObsOK kind END directed o := by
  unfold obsConsistent at h
  rw [firstFalse_none] at h
  simp only [obsConds, List.all_cons, List.all_nil, id, Bool.and_true, Bool.and_eq_true, beq_iff_eq,
    decide_eq_true_eq] at h
  obtain ⟨h1, h2, h3, h4, h5, h6, h7, h8, h9, h10, h11, h12⟩ := h
  have hn := (strictlyIncreasing_pairwise _).1 h3
  have he := (strictlyIncreasing_pairwise _).1 h4
  refine { nc := h1, ec := h2, nodeIds := hn, edgeIds := he, compact := ?_, nb := isBound_of_getLast _ hn _ h6,
           eb := isBound_of_getLast _ he _ h7, capN := h8, capE := h9, endpoints := ?_,
           adjNodes := sameMultiset_perm _ _ h11, adj := ?_ }
  · intro hk
    subst hk
    simp only [beq_self_eq_true, Bool.true_and, Bool.not_eq_true', Bool.or_eq_false_iff, bne_eq_false_iff_eq] at h5
    exact h5
  · intro e s t w hm
    have := List.all_eq_true.1 h10 (e, s, t, w) hm
    simpa using this
  · intro a out inn nb hm
    have := List.all_eq_true.1 h12 (a, out, inn, nb) hm
    simp only [Bool.and_eq_true] at this
    exact ⟨sameMultiset_perm _ _ this.1.1, sameMultiset_perm _ _ this.1.2, sameMultiset_perm _ _ this.2⟩

/-! ### `obsMatches`, `judgeObs`, `judgeRoundTrip` -/

theorem obsMatches_sound (a : AGraph) (o : Obs) (h : obsMatches a o = none) :
    o.nodes.Perm a.nodes ∧
    (if a.looseEdgeIds then
      (o.edges.map fun (_, s, t, w) => (s, t, w)).Perm (a.edges.map fun (_, s, t, w) => (s, t, w))
     else o.edges.Perm a.edges) := by
  unfold obsMatches at h
  by_cases h1 : sameMultiset o.nodes a.nodes = true
  · simp only [h1, Bool.not_true, Bool.false_eq_true, if_false] at h
    refine ⟨sameMultiset_perm _ _ h1, ?_⟩
    by_cases hl : a.looseEdgeIds = true
    · simp only [hl, if_true] at h ⊢
      by_cases h2 : sameMultiset (o.edges.map fun (_, s, t, w) => (s, t, w)) (a.edges.map fun (_, s, t, w) => (s, t, w)) = true
      · exact sameMultiset_perm _ _ h2
      · simp [h2] at h
    · simp only [hl, if_false] at h ⊢
      by_cases h2 : sameMultiset o.edges a.edges = true
      · exact sameMultiset_perm _ _ h2
      · simp [h2] at h
  · simp [h1] at h

/-- **soundness of the observation judge**: an observation the judge accepts (against an abstract graph with
determined edge ids) satisfies every consistency guarantee (`ObsOK`) and shows exactly the abstract graph: the same
(index, weight) nodes and the same (index, source, target, weight) edges. -/
theorem judgeObs_sound (a a' : AGraph) (o : Obs) (h : judgeObs a o = .ok a') :
    ObsOK a.kind a.END a.directed o ∧ o.nodes.Perm a.nodes ∧
    (a.looseEdgeIds = false → o.edges.Perm a.edges) ∧
    (a.looseEdgeIds = true →
      (o.edges.map fun (_, s, t, w) => (s, t, w)).Perm (a.edges.map fun (_, s, t, w) => (s, t, w))) ∧
    a' = { a with edges := o.edges, looseEdgeIds := false } := by
  unfold judgeObs at h
  cases hc : obsConsistent a.kind a.END a.directed o with
  | some why => simp [hc] at h
  | none =>
    simp only [hc] at h
    cases hm : obsMatches a o with
    | some why => simp [hm] at h
    | none =>
      simp only [hm, Except.ok.injEq] at h
      obtain ⟨h1, h2⟩ := obsMatches_sound a o hm
      refine ⟨obsConsistent_sound _ _ _ _ hc, h1, ?_, ?_, h.symm⟩
      · intro hl; simpa [hl] using h2
      · intro hl; simpa [hl] using h2

/-- **soundness of the round-trip judge**: "same node and edge indices, weights, direction". -/
theorem judgeRoundTrip_sound (src a' : AGraph) (directed : Bool) (h : judgeRoundTrip src a' directed = true) :
    src.nodes.Perm a'.nodes ∧ src.edges.Perm a'.edges ∧ src.directed = directed := by
  simp only [judgeRoundTrip, Bool.and_eq_true, beq_iff_eq] at h
  exact ⟨sameMultiset_perm _ _ h.1.1, sameMultiset_perm _ _ h.1.2, h.2⟩

theorem judgeRoundTrip_complete (src a' : AGraph) (directed : Bool)
    (h : src.nodes.Perm a'.nodes ∧ src.edges.Perm a'.edges ∧ src.directed = directed) :
    judgeRoundTrip src a' directed = true := by
  simp only [judgeRoundTrip, Bool.and_eq_true, beq_iff_eq]
  exact ⟨⟨perm_sameMultiset _ _ h.1, perm_sameMultiset _ _ h.2.1⟩, h.2.2⟩

theorem judgeRT_sound (src : AGraph) (kind : Kind) (directed : Bool) (a' r : AGraph)
    (hk : src.kind ≠ .map) (hk' : kind ≠ .map) (h : judgeRT (some src) kind directed a' = .ok r) :
    r = a' ∧ src.nodes.Perm a'.nodes ∧ src.edges.Perm a'.edges ∧ src.directed = directed := by
  unfold judgeRT at h
  have h1 : (src.kind != .map && kind != .map) = true := by simp [hk, hk']
  simp only [h1, if_true] at h
  by_cases hj : judgeRoundTrip src a' directed = true
  · simp only [hj, if_true, Except.ok.injEq] at h
    exact ⟨h.symm, judgeRoundTrip_sound _ _ _ hj⟩
  · simp [hj] at h

/-! ### `GraphMap` observations -/

/-- the consistency guarantees of a `GraphMap` as they show in an observation -/
structure MapObsOK (directed : Bool) (o : MapObs) : Prop where
  nc : o.nc = o.nodes.length
  ec : o.ec = o.edges.length
  nodes : o.nodes.Nodup
  keys : (o.edges.map (·.1)).Nodup
  canonical : directed = false → ∀ a b w, ((a, b), w) ∈ o.edges → a ≤ b
  endpoints : ∀ a b w, ((a, b), w) ∈ o.edges → a ∈ o.nodes ∧ b ∈ o.nodes
  adjNodes : (o.adj.map (·.1)).Perm o.nodes
  adj : ∀ a out inn, (a, out, inn) ∈ o.adj →
    out.Perm (mapExpected directed (o.edges.map (·.1)) a).1 ∧ inn.Perm (mapExpected directed (o.edges.map (·.1)) a).2

theorem nodup_of_count_one {α} [BEq α] [LawfulBEq α] (l : List α) (h : ∀ x, x ∈ l → l.count x = 1) : l.Nodup := by
  rw [List.nodup_iff_count]
  intro a
  by_cases ha : a ∈ l
  · rw [h a ha]; omega
  · rw [List.count_eq_zero.2 ha]; omega

theorem mapObsConsistent_sound (directed : Bool) (o : MapObs) (h : mapObsConsistent directed o = none) :
    MapObsOK directed o := by
  unfold mapObsConsistent at h
  rw [firstFalse_none] at h
  simp only [mapObsConds, List.all_cons, List.all_nil, id, Bool.and_true, Bool.and_eq_true, beq_iff_eq,
    Bool.or_eq_true] at h
  obtain ⟨h1, h2, h3, h4, h5, h6, h7, h8⟩ := h
  refine { nc := h1, ec := h2, nodes := ?_, keys := ?_, canonical := ?_, endpoints := ?_,
           adjNodes := sameMultiset_perm _ _ h7, adj := ?_ }
  · apply nodup_of_count_one
    intro x hx
    have := List.all_eq_true.1 h3 x hx
    simpa using this
  · apply nodup_of_count_one
    intro k hk
    obtain ⟨⟨k', w⟩, hm, rfl⟩ := List.mem_map.1 hk
    have := List.all_eq_true.1 h4 (k', w) hm
    simpa using this
  · intro hd a b w hm
    subst hd
    simp only [Bool.false_eq_true, false_or] at h5
    have := List.all_eq_true.1 h5 ((a, b), w) hm
    simpa using this
  · intro a b w hm
    have := List.all_eq_true.1 h6 ((a, b), w) hm
    simpa using this
  · intro a out inn hm
    have := List.all_eq_true.1 h8 (a, out, inn) hm
    simp only [Bool.and_eq_true] at this
    exact ⟨sameMultiset_perm _ _ this.1, sameMultiset_perm _ _ this.2⟩

theorem judgeMapObs_sound (a a' : AGraph) (o : MapObs) (h : judgeMapObs a o = .ok a') :
    MapObsOK a.directed o ∧ o.nodes.Perm a.mnodes ∧ o.edges.Perm a.medges ∧ a' = a := by
  unfold judgeMapObs at h
  cases hc : mapObsConsistent a.directed o with
  | some why => simp [hc] at h
  | none =>
    simp only [hc] at h
    cases hm : mapObsMatches a o with
    | some why => simp [hm] at h
    | none =>
      simp only [hm, Except.ok.injEq] at h
      unfold mapObsMatches at hm
      by_cases h1 : sameMultiset o.nodes a.mnodes = true
      · by_cases h2 : sameMultiset o.edges a.medges = true
        · exact ⟨mapObsConsistent_sound _ _ hc, sameMultiset_perm _ _ h1, sameMultiset_perm _ _ h2, h.symm⟩
        · simp [h1, h2] at hm
      · simp [h1] at hm

end PetgraphModel.SerdeProofs
