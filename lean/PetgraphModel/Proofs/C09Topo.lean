import PetgraphModel.Proofs.C09Partial
/-
`toposort` (mirror model): an `Ok(order)` answer is a topological order of all nodes.

* first pass: the finish list has no duplicates, contains exactly the nodes, and no node on it has a
  self-loop (invariant of the explicit-stack DFS);
* second pass: it IS a check of the order — a restart at `b` (in the order found) that emits nothing
  but `b` means every predecessor of `b` is `b` itself or was placed before `b`.
Core Lean only.
-/
namespace PetgraphModel.C09P
open PetgraphModel PetgraphModel.MGraph PetgraphModel.C09J PetgraphModel.C09M PetgraphModel.Trav

/-! ### first pass -/

structure TInv (v : View) (lf : Bool) (N : List Nat) (s : TS) : Prop where
  outNodup : s.out.Nodup
  outFin : ∀ x, x ∈ s.out ↔ x ∈ s.fin
  finDisc : ∀ x ∈ s.fin, x ∈ s.disc
  greyStack : ∀ x ∈ s.disc, x ∉ s.fin → x ∈ s.stack
  stackN : ∀ x ∈ s.stack, x ∈ N
  discN : ∀ x ∈ s.disc, x ∈ N
  noLoop : lf = true → ∀ x ∈ s.disc, x ∉ v.succ x
  /-- an unfinished stack entry is reached by every unfinished discovered node that occurs only below it -/
  rReach : ∀ above x below, s.stack = above ++ x :: below → x ∉ s.fin →
    ∀ y ∈ below, y ∈ s.disc → y ∉ s.fin → y ∉ above → y = x ∨ Reach v.g y x
  /-- the successors of a discovered stack entry are discovered or still above it -/
  succSeen : ∀ above x below, s.stack = above ++ x :: below → x ∈ s.disc →
    ∀ y ∈ v.succ x, y ∈ s.disc ∨ y ∈ above
  /-- a successor of a finished node finished earlier, or reaches it back -/
  finEdge : ∀ l1 a l2, s.out = l1 ++ a :: l2 → ∀ b, v.g.Adj a b → b ∈ l1 ∨ b = a ∨ Reach v.g b a
  /-- every successor of a finished node is discovered -/
  finSucc : ∀ x ∈ s.fin, ∀ y ∈ v.succ x, y ∈ s.disc
  /-- a finished node that reaches an unfinished one has an unfinished node in its own class -/
  sccOpen : ∀ x ∈ s.fin, ∀ y, Reach v.g x y → y ∈ s.fin ∨ ∃ z, SC v.g x z ∧ z ∉ s.fin
  /-- ... and in terms of the finish list: if `x` finished before `y` and reaches `y`, some node of the
  class of `x` did not finish before `y` -/
  sccLate : ∀ l1 y l2, s.out = l1 ++ y :: l2 → ∀ x ∈ l1, Reach v.g x y → ∃ z, SC v.g x z ∧ z ∉ l1

theorem split_cases {P : List Nat} {n : Nat} : ∀ {above st below : List Nat} {x : Nat},
    P ++ n :: st = above ++ x :: below →
    (∃ c, P = above ++ x :: c ∧ below = c ++ n :: st) ∨ (above = P ∧ x = n ∧ below = st) ∨
    (∃ a, above = P ++ n :: a ∧ st = a ++ x :: below) := by
  induction P with
  | nil =>
    intro above st below x h
    cases above with
    | nil =>
      simp only [List.nil_append, List.cons.injEq] at h
      exact Or.inr (Or.inl ⟨rfl, h.1.symm, h.2.symm⟩)
    | cons a0 above' =>
      simp only [List.nil_append, List.cons_append, List.cons.injEq] at h
      exact Or.inr (Or.inr ⟨above', by rw [h.1]; rfl, h.2⟩)
  | cons p P' ih =>
    intro above st below x h
    cases above with
    | nil =>
      simp only [List.nil_append, List.cons_append, List.cons.injEq] at h
      exact Or.inl ⟨P', by rw [h.1]; rfl, h.2.symm⟩
    | cons a0 above' =>
      simp only [List.cons_append, List.cons.injEq] at h
      rcases ih h.2 with ⟨c, h1, h2⟩ | ⟨h1, h2, h3⟩ | ⟨a, h1, h2⟩
      · exact Or.inl ⟨c, by rw [h.1, h1]; rfl, h2⟩
      · exact Or.inr (Or.inl ⟨by rw [h.1, h1], h2, h3⟩)
      · exact Or.inr (Or.inr ⟨a, by rw [h.1, h1]; rfl, h2⟩)

theorem snoc_split {out l1 l2 : List Nat} {nx a : Nat} (h : out ++ [nx] = l1 ++ a :: l2) :
    (l2 = [] ∧ l1 = out ∧ a = nx) ∨ (∃ l2', l2 = l2' ++ [nx] ∧ out = l1 ++ a :: l2') := by
  cases hr : l2.reverse with
  | nil =>
    have hl2 : l2 = [] := by simpa using hr
    subst hl2
    have h' : out ++ [nx] = l1 ++ [a] := h
    have := List.append_inj' h' rfl
    exact Or.inl ⟨rfl, this.1.symm, by simpa using this.2.symm⟩
  | cons c r =>
    have hl2 : l2 = r.reverse ++ [c] := by
      have := congrArg List.reverse hr
      simpa using this
    subst hl2
    have h' : out ++ [nx] = (l1 ++ a :: r.reverse) ++ [c] := by rw [h]; simp
    have := List.append_inj' h' rfl
    have hc : nx = c := by simpa using this.2
    exact Or.inr ⟨r.reverse, by rw [hc], this.1⟩

theorem reach_exit {g : MGraph} {F : List Nat} {a y : Nat} (h : Reach g a y) (ha : a ∈ F) (hy : y ∉ F) :
    ∃ c c', Reach g a c ∧ c ∈ F ∧ g.Adj c c' ∧ c' ∉ F := by
  induction h with
  | refl => exact absurd ha hy
  | step hr hadj ih =>
    rename_i w y'
    by_cases hw : w ∈ F
    · exact ⟨w, y', hr, hw, hadj, hy⟩
    · exact ih hw

/-- first visit of the top entry `nx`: it is marked discovered and its undiscovered successors `P` are
pushed above it -/
theorem tinv_discover {v : View} {lf : Bool} (hv : ViewOk v) {N : List Nat} (hN : ∀ x ∈ N, ∀ y ∈ v.succ x, y ∈ N)
    {s : TS} {nx : Nat} {st P : List Nat} (inv : TInv v lf N s) (hst : s.stack = nx :: st) (hnd : nx ∉ s.disc)
    (hself : lf = true → nx ∉ v.succ nx) (hP1 : ∀ y ∈ P, y ∈ v.succ nx ∧ y ∉ nx :: s.disc)
    (hP2 : ∀ y ∈ v.succ nx, y ∈ nx :: s.disc ∨ y ∈ P) :
    TInv v lf N { stack := P ++ nx :: st, disc := nx :: s.disc, fin := s.fin, out := s.out } := by
  have hnxN : nx ∈ N := inv.stackN nx (by rw [hst]; exact List.mem_cons_self ..)
  have hnxf : nx ∉ s.fin := fun h => hnd (inv.finDisc nx h)
  have hold : ∀ y ∈ st, y ∈ s.disc → y ∉ s.fin → y = nx ∨ Reach v.g y nx := fun y hy hd hf =>
    inv.rReach [] nx st (by rw [hst]; rfl) hnxf y hy hd hf (by simp)
  refine ⟨inv.outNodup, inv.outFin, fun x hx => List.mem_cons_of_mem _ (inv.finDisc x hx), ?_, ?_, ?_, ?_, ?_, ?_, inv.finEdge,
    fun x hx y hy => List.mem_cons_of_mem _ (inv.finSucc x hx y hy), inv.sccOpen, inv.sccLate⟩
  · intro x hx hxf
    cases List.mem_cons.mp hx with
    | inl hxn => exact List.mem_append_right _ (hxn ▸ List.mem_cons_self ..)
    | inr hxd =>
      have := inv.greyStack x hxd hxf
      rw [hst] at this
      exact List.mem_append_right _ this
  · intro x hx
    cases List.mem_append.mp hx with
    | inl h => exact hN nx hnxN x (hP1 x h).1
    | inr h => exact inv.stackN x (by rw [hst]; exact h)
  · intro x hx
    cases List.mem_cons.mp hx with
    | inl h => exact h ▸ hnxN
    | inr h => exact inv.discN x h
  · intro hlf x hx
    cases List.mem_cons.mp hx with
    | inl h => exact h ▸ hself hlf
    | inr h => exact inv.noLoop hlf x h
  · -- rReach
    intro above x below hsplit hxf y hyb hyd hyf hya
    rcases split_cases hsplit with ⟨c, hPc, hb⟩ | ⟨ha, hx, hb⟩ | ⟨a, ha, hstx⟩
    · have hxP : x ∈ P := by rw [hPc]; simp
      have hadj : v.g.Adj nx x := (hv nx x).mp (hP1 x hxP).1
      right
      rw [hb] at hyb
      cases List.mem_append.mp hyb with
      | inl hyc =>
        have hyP : y ∈ P := by rw [hPc]; exact List.mem_append_right _ (List.mem_cons_of_mem _ hyc)
        exact absurd hyd (hP1 y hyP).2
      | inr hy2 =>
        cases List.mem_cons.mp hy2 with
        | inl hyn => exact hyn ▸ reach_of_adj hadj
        | inr hyst =>
          cases List.mem_cons.mp hyd with
          | inl hyn => exact hyn ▸ reach_of_adj hadj
          | inr hyd' =>
            cases hold y hyst hyd' hyf with
            | inl h => exact h ▸ reach_of_adj hadj
            | inr h => exact Reach.step h hadj
    · subst hx
      rw [hb] at hyb
      cases List.mem_cons.mp hyd with
      | inl hyn => exact Or.inl hyn
      | inr hyd' => exact hold y hyb hyd' hyf
    · rw [ha] at hya
      have hyn : y ≠ nx := fun h => hya (by rw [h]; simp)
      have hyd' : y ∈ s.disc := by
        cases List.mem_cons.mp hyd with
        | inl h => exact absurd h hyn
        | inr h => exact h
      have hya' : y ∉ nx :: a := fun h => hya (List.mem_append_right _ h)
      exact inv.rReach (nx :: a) x below (by rw [hst, hstx]; rfl) hxf y hyb hyd' hyf hya'
  · -- succSeen
    intro above x below hsplit hxd y hy
    rcases split_cases hsplit with ⟨c, hPc, _⟩ | ⟨ha, hx, _⟩ | ⟨a, ha, hstx⟩
    · have hxP : x ∈ P := by rw [hPc]; simp
      exact absurd hxd (hP1 x hxP).2
    · subst hx; rw [ha]
      exact hP2 y hy
    · rw [ha]
      cases List.mem_cons.mp hxd with
      | inl hxn =>
        subst hxn
        cases hP2 y hy with
        | inl h => exact Or.inl h
        | inr h => exact Or.inr (List.mem_append_left _ h)
      | inr hxd' =>
        cases inv.succSeen (nx :: a) x below (by rw [hst, hstx]; rfl) hxd' y hy with
        | inl h => exact Or.inl (List.mem_cons_of_mem _ h)
        | inr h => exact Or.inr (List.mem_append_right _ h)

/-- popping a discovered top entry (finishing it if it is not finished yet) -/
theorem tinv_pop {v : View} {lf : Bool} (hv : ViewOk v) {N : List Nat} {s : TS} {nx : Nat} {st : List Nat}
    (inv : TInv v lf N s) (hst : s.stack = nx :: st) (hnd : nx ∈ s.disc) :
    (nx ∈ s.fin → TInv v lf N { s with stack := st }) ∧
    (nx ∉ s.fin → TInv v lf N { s with stack := st, fin := nx :: s.fin, out := s.out ++ [nx] }) := by
  have hsplit : ∀ {above x below}, st = above ++ x :: below → s.stack = (nx :: above) ++ x :: below := by
    intro above x below h; rw [hst, h]; rfl
  constructor
  · intro hnf
    refine ⟨inv.outNodup, inv.outFin, inv.finDisc, ?_, ?_, inv.discN, inv.noLoop, ?_, ?_, inv.finEdge, inv.finSucc, inv.sccOpen, inv.sccLate⟩
    · intro x hx hxf
      have := inv.greyStack x hx hxf
      rw [hst] at this
      cases List.mem_cons.mp this with
      | inl h => exact absurd (h ▸ hnf) hxf
      | inr h => exact h
    · intro x hx; exact inv.stackN x (by rw [hst]; exact List.mem_cons_of_mem _ hx)
    · intro above x below h hxf y hyb hyd hyf hya
      refine inv.rReach (nx :: above) x below (hsplit h) hxf y hyb hyd hyf ?_
      intro hmem
      cases List.mem_cons.mp hmem with
      | inl h' => exact hyf (h' ▸ hnf)
      | inr h' => exact hya h'
    · intro above x below h hxd y hy
      cases inv.succSeen (nx :: above) x below (hsplit h) hxd y hy with
      | inl h' => exact Or.inl h'
      | inr h' =>
        cases List.mem_cons.mp h' with
        | inl h'' => exact Or.inl (h'' ▸ hnd)
        | inr h'' => exact Or.inr h''
  · intro hnf
    refine ⟨?_, ?_, ?_, ?_, ?_, inv.discN, inv.noLoop, ?_, ?_, ?_, ?_, ?_, ?_⟩
    · refine List.nodup_append.mpr ⟨inv.outNodup, by simp, ?_⟩
      intro a ha b hb hab
      have : b = nx := by simpa using hb
      subst this; subst hab
      exact hnf ((inv.outFin a).mp ha)
    · intro x
      simp only [List.mem_append, List.mem_cons, List.not_mem_nil, or_false]
      rw [inv.outFin x]
      exact Or.comm
    · intro x hx
      cases List.mem_cons.mp hx with
      | inl h => exact h ▸ hnd
      | inr h => exact inv.finDisc x h
    · intro x hx hxf
      have hxf' : x ∉ s.fin := fun h => hxf (List.mem_cons_of_mem _ h)
      have hxn : x ≠ nx := fun h => hxf (h ▸ List.mem_cons_self ..)
      have := inv.greyStack x hx hxf'
      rw [hst] at this
      cases List.mem_cons.mp this with
      | inl h => exact absurd h hxn
      | inr h => exact h
    · intro x hx; exact inv.stackN x (by rw [hst]; exact List.mem_cons_of_mem _ hx)
    · intro above x below h hxf y hyb hyd hyf hya
      have hxf' : x ∉ s.fin := fun h' => hxf (List.mem_cons_of_mem _ h')
      have hyf' : y ∉ s.fin := fun h' => hyf (List.mem_cons_of_mem _ h')
      have hyn : y ≠ nx := fun h' => hyf (h' ▸ List.mem_cons_self ..)
      refine inv.rReach (nx :: above) x below (hsplit h) hxf' y hyb hyd hyf' ?_
      intro hmem
      cases List.mem_cons.mp hmem with
      | inl h' => exact hyn h'
      | inr h' => exact hya h'
    · intro above x below h hxd y hy
      cases inv.succSeen (nx :: above) x below (hsplit h) hxd y hy with
      | inl h' => exact Or.inl h'
      | inr h' =>
        cases List.mem_cons.mp h' with
        | inl h'' => exact Or.inl (h'' ▸ hnd)
        | inr h'' => exact Or.inr h''
    · -- finEdge: the node finished now
      intro l1 a l2 hout b hab
      rcases snoc_split hout with ⟨_, hl1, ha⟩ | ⟨l2', _, hout'⟩
      · subst ha; subst hl1
        have hb : b ∈ s.disc := by
          cases inv.succSeen [] a st (by rw [hst]; rfl) hnd b ((hv a b).mpr hab) with
          | inl h => exact h
          | inr h => cases h
        by_cases hbf : b ∈ s.fin
        · exact Or.inl ((inv.outFin b).mpr hbf)
        · right
          have hbs := inv.greyStack b hb hbf
          rw [hst] at hbs
          cases List.mem_cons.mp hbs with
          | inl h => exact Or.inl h
          | inr h => exact inv.rReach [] a st (by rw [hst]; rfl) hnf b h hb hbf (by simp)
      · exact inv.finEdge l1 a l2' hout' b hab
    · -- finSucc
      intro x hx y hy
      cases List.mem_cons.mp hx with
      | inl h =>
        subst h
        cases inv.succSeen [] x st (by rw [hst]; rfl) hnd y hy with
        | inl h' => exact h'
        | inr h' => cases h'
      | inr h => exact inv.finSucc x h y hy
    · -- sccOpen
      have hA : ∀ y, Reach v.g nx y → y ∈ nx :: s.fin ∨ ∃ z, SC v.g nx z ∧ z ∉ nx :: s.fin := by
        intro y hy
        by_cases hyf : y ∈ nx :: s.fin
        · exact Or.inl hyf
        · right
          obtain ⟨c, c', hac, hcF, hcc', hc'F⟩ := reach_exit (F := nx :: s.fin) hy (List.mem_cons_self ..) hyf
          have hs : c' ∈ v.succ c := (hv c c').mpr hcc'
          have hc'd : c' ∈ s.disc := by
            cases List.mem_cons.mp hcF with
            | inl h =>
              subst h
              cases inv.succSeen [] c st (by rw [hst]; rfl) hnd c' hs with
              | inl h' => exact h'
              | inr h' => cases h'
            | inr h => exact inv.finSucc c h c' hs
          have hc'f : c' ∉ s.fin := fun h => hc'F (List.mem_cons_of_mem _ h)
          have hc'n : c' ≠ nx := fun h => hc'F (h ▸ List.mem_cons_self ..)
          have hc's := inv.greyStack c' hc'd hc'f
          rw [hst] at hc's
          have hc'st : c' ∈ st := by
            cases List.mem_cons.mp hc's with
            | inl h => exact absurd h hc'n
            | inr h => exact h
          have hback : Reach v.g c' nx := by
            cases inv.rReach [] nx st (by rw [hst]; rfl) hnf c' hc'st hc'd hc'f (by simp) with
            | inl h => exact absurd h hc'n
            | inr h => exact h
          exact ⟨c', ⟨Reach.step hac hcc', hback⟩, hc'F⟩
      intro x hx y hxy
      cases List.mem_cons.mp hx with
      | inl h => subst h; exact hA y hxy
      | inr h =>
        cases inv.sccOpen x h y hxy with
        | inl hyf => exact Or.inl (List.mem_cons_of_mem _ hyf)
        | inr hz =>
          obtain ⟨z, hsc, hzf⟩ := hz
          by_cases hzn : z = nx
          · subst hzn
            cases hA y (reach_trans hsc.2 hxy) with
            | inl h' => exact Or.inl h'
            | inr h' =>
              obtain ⟨z', hsc', hz'⟩ := h'
              exact Or.inr ⟨z', sc_trans hsc hsc', hz'⟩
          · refine Or.inr ⟨z, hsc, fun hm => ?_⟩
            cases List.mem_cons.mp hm with
            | inl h' => exact hzn h'
            | inr h' => exact hzf h'
    · -- sccLate
      intro l1 y l2 hout x hx hxy
      rcases snoc_split hout with ⟨_, hl1, hy⟩ | ⟨l2', _, hout'⟩
      · subst hy; subst hl1
        have hxf : x ∈ s.fin := (inv.outFin x).mp hx
        cases inv.sccOpen x hxf y hxy with
        | inl h => exact absurd h hnf
        | inr h =>
          obtain ⟨z, hsc, hz⟩ := h
          exact ⟨z, hsc, fun hzo => hz ((inv.outFin z).mp hzo)⟩
      · exact inv.sccLate l1 y l2' hout' x hx hxy

theorem topoWhile_ok (v : View) (hv : ViewOk v) (N : List Nat) (hN : ∀ x ∈ N, ∀ y ∈ v.succ x, y ∈ N) (i : Nat) :
    ∀ (f : Nat) (s s' : TS), topoWhile v f s = some (.ok s') → TInv v true N s → (i ∈ s.disc ∨ i ∈ s.stack) →
    TInv v true N s' ∧ s'.stack = [] ∧ (∀ x ∈ s.disc, x ∈ s'.disc) ∧ i ∈ s'.disc := by
  intro f
  induction f with
  | zero => intro s s' h; simp [topoWhile] at h
  | succ f ih =>
    intro s s' h inv hi
    unfold topoWhile at h
    split at h
    · rename_i hst
      cases h
      refine ⟨inv, hst, fun _ h => h, ?_⟩
      cases hi with
      | inl h => exact h
      | inr h => rw [hst] at h; cases h
    · rename_i nx st hst
      split at h
      · rename_i hnd
        have hnd' : nx ∉ s.disc := by simpa using hnd
        split at h
        · cases h
        · rename_i hself
          have hself' : nx ∉ v.succ nx := by simpa using hself
          have inv' := tinv_discover hv hN inv hst hnd' (fun _ => hself')
            (P := ((v.succ nx).filter fun y => !(nx :: s.disc).contains y).reverse)
            (by
              intro y hy
              have := List.mem_filter.mp (List.mem_reverse.mp hy)
              exact ⟨this.1, by simpa using this.2⟩)
            (by
              intro y hy
              by_cases hyd : y ∈ nx :: s.disc
              · exact Or.inl hyd
              · exact Or.inr (List.mem_reverse.mpr (List.mem_filter.mpr ⟨hy, by simpa using hyd⟩)))
          have := ih _ s' h inv'
            (by
              cases hi with
              | inl h => exact Or.inl (List.mem_cons_of_mem _ h)
              | inr h =>
                rw [hst] at h
                exact Or.inr (List.mem_append_right _ h))
          exact ⟨this.1, this.2.1, fun x hx => this.2.2.1 x (List.mem_cons_of_mem _ hx), this.2.2.2⟩
      · rename_i hnd
        have hnd' : nx ∈ s.disc := by simpa using hnd
        have hi' : i ∈ s.disc ∨ i ∈ st := by
          cases hi with
          | inl h => exact Or.inl h
          | inr h =>
            rw [hst] at h
            cases List.mem_cons.mp h with
            | inl h => exact Or.inl (h ▸ hnd')
            | inr h => exact Or.inr h
        have hpop := tinv_pop hv inv hst hnd'
        split at h
        · rename_i hnf
          have hnf' : nx ∉ s.fin := by simpa using hnf
          exact ih { s with stack := st, fin := nx :: s.fin, out := s.out ++ [nx] } s' h (hpop.2 hnf') hi'
        · rename_i hnf
          have hnf' : nx ∈ s.fin := by simpa using hnf
          exact ih { s with stack := st } s' h (hpop.1 hnf') hi'

theorem topoFirst_ok (v : View) (hv : ViewOk v) (N : List Nat) (hN : ∀ x ∈ N, ∀ y ∈ v.succ x, y ∈ N) (f : Nat) :
    ∀ (l : List Nat) (s s' : TS), topoFirst v f l s = some (.ok s') → TInv v true N s → s.stack = [] →
    (∀ x ∈ l, x ∈ N) →
    TInv v true N s' ∧ s'.stack = [] ∧ (∀ x ∈ s.disc, x ∈ s'.disc) ∧ ∀ x ∈ l, x ∈ s'.disc := by
  intro l
  induction l with
  | nil =>
    intro s s' h inv hst _
    simp [topoFirst] at h
    subst h
    exact ⟨inv, hst, fun _ h => h, by simp⟩
  | cons i rest ih =>
    intro s s' h inv hst hl
    have hl' : ∀ x ∈ rest, x ∈ N := fun x hx => hl x (List.mem_cons_of_mem _ hx)
    simp only [topoFirst] at h
    split at h
    · rename_i hid
      obtain ⟨h1, h2, h3, h4⟩ := ih s s' h inv hst hl'
      refine ⟨h1, h2, h3, ?_⟩
      intro x hx
      cases List.mem_cons.mp hx with
      | inl h => exact h ▸ h3 i (by simpa using hid)
      | inr h => exact h4 x h
    · rename_i hid
      have hid' : i ∉ s.disc := by simpa using hid
      split at h
      · cases h
      · cases h
      · rename_i s1 hw
        have inv0 : TInv v true N { s with stack := i :: s.stack } := by
          refine ⟨inv.outNodup, inv.outFin, inv.finDisc, ?_, ?_, inv.discN, inv.noLoop, ?_, ?_, inv.finEdge, inv.finSucc, inv.sccOpen, inv.sccLate⟩
          · intro x hx hxf; exact List.mem_cons_of_mem _ (inv.greyStack x hx hxf)
          · intro x hx
            cases List.mem_cons.mp hx with
            | inl h => exact h ▸ hl i (List.mem_cons_self ..)
            | inr h => exact inv.stackN x h
          · intro above x below hsp _ y hyb
            have hsp' : i :: ([] : List Nat) = above ++ x :: below := by rw [← hst]; exact hsp
            cases above with
            | nil =>
              simp only [List.nil_append, List.cons.injEq] at hsp'
              rw [← hsp'.2] at hyb; cases hyb
            | cons a0 ab =>
              simp only [List.cons_append, List.cons.injEq] at hsp'
              have := hsp'.2
              simp at this
          · intro above x below hsp hxd y _
            have hsp' : i :: ([] : List Nat) = above ++ x :: below := by rw [← hst]; exact hsp
            cases above with
            | nil =>
              simp only [List.nil_append, List.cons.injEq] at hsp'
              exact absurd (hsp'.1 ▸ hxd) hid'
            | cons a0 ab =>
              simp only [List.cons_append, List.cons.injEq] at hsp'
              have := hsp'.2
              simp at this
        obtain ⟨i1, i2, i3, i4⟩ := topoWhile_ok v hv N hN i f _ s1 hw inv0 (Or.inr (List.mem_cons_self ..))
        obtain ⟨h1, h2, h3, h4⟩ := ih s1 s' h i1 i2 hl'
        refine ⟨h1, h2, fun x hx => h3 x (i3 x hx), ?_⟩
        intro x hx
        cases List.mem_cons.mp hx with
        | inl h => exact h ▸ h3 i i4
        | inr h => exact h4 x h

theorem tinv_init (v : View) (lf : Bool) (N : List Nat) : TInv v lf N {} := by
  refine ⟨by simp, by simp, by simp, by simp, by simp, by simp, by simp, ?_, ?_, ?_, by simp, by simp, ?_⟩
  · intro above x below h; simp at h
  · intro above x below h; simp at h
  · intro l1 a l2 h; simp at h
  · intro l1 a l2 h; simp at h

/-! ### second pass -/

theorem dfsNext_none_stack (w : View) : ∀ (f : Nat) (d d' : Dfs), dfsNext w f d = some (none, d') →
    ∀ x ∈ d.stack, x ∈ d.disc := by
  intro f
  induction f with
  | zero => intro d d' h; simp [dfsNext] at h
  | succ f ih =>
    intro d d' h
    unfold dfsNext at h
    split at h
    · rename_i hst
      intro x hx; rw [hst] at hx; cases hx
    · rename_i y st hst
      split at h
      · rename_i hy
        intro x hx
        rw [hst] at hx
        cases List.mem_cons.mp hx with
        | inl h' => exact h' ▸ hy
        | inr h' => exact ih _ d' h x h'
      · simp at h

theorem dfsNext_moveTo' (v : View) (f : Nat) (d : Dfs) (i : Nat) (hi : i ∉ d.disc) :
    dfsNext v (f + 1) (d.moveTo i) = some (some i,
      { stack := ((v.succ i).filter fun y => !(i :: d.disc).contains y).reverse, disc := i :: d.disc }) := by
  simp [dfsNext, Dfs.moveTo, hi]

theorem topoSecond_ok (v : View) (f : Nat) : ∀ (rest : List Nat) (d : Dfs) (pre : List Nat),
    (∀ x, x ∈ d.disc ↔ x ∈ pre) → (pre ++ rest).Nodup → topoSecond v f rest d = some none →
    ∀ l1 b l2, rest = l1 ++ b :: l2 → ∀ p ∈ v.pred b, p ∈ pre ++ l1 ++ [b] := by
  intro rest
  induction rest with
  | nil => intro d pre _ _ _ l1 b l2 h; simp at h
  | cons i rest ih =>
    intro d pre hd hnd h l1 b l2 hsplit p hp
    have hi : i ∉ d.disc := by
      rw [hd]
      exact fun hip => (List.nodup_append.mp hnd).2.2 i hip i (List.mem_cons_self ..) rfl
    -- the restart at `i`
    cases f with
    | zero => simp [topoSecond, dfsNext] at h
    | succ f =>
      have hm := dfsNext_moveTo' (rev v) f d i hi
      obtain ⟨d1, hd1def⟩ : ∃ d1 : Dfs, d1 = { stack := (((rev v).succ i).filter fun y => !(i :: d.disc).contains y).reverse, disc := i :: d.disc } := ⟨_, rfl⟩
      rw [← hd1def] at hm
      have hd1 : d1.disc = i :: d.disc := by rw [hd1def]
      have hstack1 : d1.stack = (((rev v).succ i).filter fun y => !(i :: d.disc).contains y).reverse := by rw [hd1def]
      simp only [topoSecond, hm] at h
      cases h2 : dfsNext (rev v) (f + 1) d1 with
      | none => simp [h2] at h
      | some q =>
        obtain ⟨o, d2⟩ := q
        cases o with
        | some j => simp [h2] at h
        | none =>
          simp only [h2] at h
          have hall := dfsNext_none_stack (rev v) (f + 1) d1 d2 h2
          have hd2 : d2.disc = i :: d.disc := by
            rw [(dfsNext_disc (rev v) (f + 1) d1 none d2 h2).1 rfl, hd1]
          -- every predecessor of `i` is `i` or already discovered
          have hpred : ∀ q ∈ v.pred i, q ∈ i :: d.disc := by
            intro q hq
            apply Classical.byContradiction
            intro hnq
            have hqs : q ∈ d1.stack := by
              rw [hstack1]
              apply List.mem_reverse.mpr
              apply List.mem_filter.mpr
              refine ⟨hq, ?_⟩
              simpa using hnq
            have := hall q hqs
            rw [hd1] at this
            exact hnq this
          cases l1 with
          | nil =>
            simp only [List.nil_append, List.cons.injEq] at hsplit
            obtain ⟨hib, _⟩ := hsplit
            subst hib
            have := hpred p hp
            simp only [List.append_nil, List.mem_append, List.mem_singleton]
            cases List.mem_cons.mp this with
            | inl h => exact Or.inr h
            | inr h => exact Or.inl ((hd p).mp h)
          | cons x l1' =>
            simp only [List.cons_append, List.cons.injEq] at hsplit
            obtain ⟨hix, hrest⟩ := hsplit
            subst hix
            have := ih d2 (pre ++ [i])
              (by
                intro y
                rw [hd2]
                simp [hd y, or_comm])
              (by simpa using hnd) h l1' b l2 hrest p hp
            simpa using this

theorem nodup_reverse' {l : List Nat} (h : l.Nodup) : l.reverse.Nodup := by
  unfold List.Nodup at *
  rw [List.pairwise_reverse]
  exact h.imp (fun hab => fun e => hab e.symm)

theorem idxOf_prefix_lt {l l1 l2 : List Nat} {a b : Nat} (hnd : l.Nodup) (hl : l = l1 ++ b :: l2)
    (ha : a ∈ l1) : l.idxOf a < l.idxOf b := by
  subst hl
  have hnd' := List.nodup_append.mp hnd
  have hb1 : b ∉ l1 := fun h => hnd'.2.2 b h b (List.mem_cons_self ..) rfl
  rw [List.idxOf_append, List.idxOf_append, if_pos ha, if_neg hb1, List.idxOf_cons_self]
  have := List.idxOf_lt_length_of_mem ha
  omega

/-- **`toposort` `Ok(order)`** (mirror model, every view with consistent successor / predecessor
iteration over a well-formed graph): the order contains every node exactly once and every edge points
forward. -/
theorem toposort_ok (v : View) (hv : ViewOk v) (hp : ∀ a b, b ∈ v.pred a ↔ v.g.Adj b a)
    (hwf : v.g.WellFormed) (ord : List Nat) (h : toposort v = some (.ok ord)) : TopoOrder v.g ord := by
  unfold toposort at h
  have hN : ∀ x ∈ v.g.nodes, ∀ y ∈ v.succ x, y ∈ v.g.nodes := by
    intro x _ y hy
    obtain ⟨e, he, hc⟩ := (hv x y).mp hy
    rcases hc with ⟨_, h2⟩ | ⟨_, h1, _⟩
    · exact h2 ▸ (hwf.2 e he).2
    · exact h1 ▸ (hwf.2 e he).1
  cases hfirst : topoFirst v (2 * fuel v) v.g.nodes {} with
  | none => simp [hfirst] at h
  | some r1 =>
  cases r1 with
  | error x => simp [hfirst] at h
  | ok s =>
    obtain ⟨inv, hst, _, hall⟩ := topoFirst_ok v hv v.g.nodes hN _ v.g.nodes {} s hfirst (tinv_init v true _) rfl (fun _ h => h)
    have hdf : ∀ x ∈ s.disc, x ∈ s.fin := by
      intro x hx
      apply Classical.byContradiction
      intro hnf
      have := inv.greyStack x hx hnf
      rw [hst] at this; cases this
    simp only [hfirst] at h
    cases hsecond : topoSecond v (2 * fuel v) s.out.reverse {} with
    | none => simp [hsecond] at h
    | some r2 =>
    cases r2 with
    | some j => simp [hsecond] at h
    | none =>
      simp [hsecond] at h
      subst h
      have hnd : s.out.reverse.Nodup := nodup_reverse' inv.outNodup
      have hcover : ∀ x, x ∈ s.out.reverse ↔ x ∈ v.g.nodes := by
        intro x
        rw [List.mem_reverse, inv.outFin]
        exact ⟨fun h => inv.discN x (inv.finDisc x h), fun h => hdf x (hall x h)⟩
      refine ⟨hnd, hcover, ?_⟩
      intro a b hab
      have hbn : b ∈ v.g.nodes := by
        obtain ⟨e, he, hc⟩ := hab
        rcases hc with ⟨_, h2⟩ | ⟨_, h1, _⟩
        · exact h2 ▸ (hwf.2 e he).2
        · exact h1 ▸ (hwf.2 e he).1
      obtain ⟨l1, l2, hsplit⟩ := List.append_of_mem ((hcover b).mpr hbn)
      have := topoSecond_ok v _ s.out.reverse {} [] (by simp) (by simpa using hnd) hsecond l1 b l2 hsplit a
        ((hp b a).mpr hab)
      simp only [List.nil_append, List.mem_append, List.mem_singleton] at this
      cases this with
      | inl ha1 => exact idxOf_prefix_lt hnd hsplit ha1
      | inr hab' =>
        -- a self-loop on `b`: excluded by the first pass
        subst hab'
        have hbd : a ∈ s.disc := hall a hbn
        exact absurd ((hv a a).mpr hab) (inv.noLoop rfl a hbd)

theorem dfsNext_some_stack (w : View) : ∀ (f : Nat) (d : Dfs) (x : Nat) (d' : Dfs),
    dfsNext w f d = some (some x, d') → x ∈ d.stack := by
  intro f
  induction f with
  | zero => intro d x d' h; simp [dfsNext] at h
  | succ f ih =>
    intro d x d' h
    unfold dfsNext at h
    split at h
    · simp at h
    · rename_i y st hst
      split at h
      · rw [hst]; exact List.mem_cons_of_mem _ (ih _ x d' h)
      · simp at h
        rw [hst, ← h.1]; exact List.mem_cons_self ..

/-- a `Cycle(j)` of the second pass: `j` is a predecessor of the restart node `i` that was not placed
before `i` -/
theorem topoSecond_cycle (v : View) (f : Nat) (j : Nat) : ∀ (rest : List Nat) (d : Dfs) (pre : List Nat),
    (∀ x, x ∈ d.disc ↔ x ∈ pre) → (pre ++ rest).Nodup → topoSecond v f rest d = some (some j) →
    ∃ l1 i l2, rest = l1 ++ i :: l2 ∧ j ∈ v.pred i ∧ j ∉ pre ++ l1 ++ [i] := by
  intro rest
  induction rest with
  | nil => intro d pre _ _ h; simp [topoSecond] at h
  | cons i rest ih =>
    intro d pre hd hnd h
    have hi : i ∉ d.disc := by
      rw [hd]
      exact fun hip => (List.nodup_append.mp hnd).2.2 i hip i (List.mem_cons_self ..) rfl
    cases f with
    | zero => simp [topoSecond, dfsNext] at h
    | succ f =>
      have hm := dfsNext_moveTo' (rev v) f d i hi
      obtain ⟨d1, hd1def⟩ : ∃ d1 : Dfs, d1 = { stack := (((rev v).succ i).filter fun y => !(i :: d.disc).contains y).reverse, disc := i :: d.disc } := ⟨_, rfl⟩
      rw [← hd1def] at hm
      have hd1 : d1.disc = i :: d.disc := by rw [hd1def]
      have hstack1 : d1.stack = (((rev v).succ i).filter fun y => !(i :: d.disc).contains y).reverse := by rw [hd1def]
      simp only [topoSecond, hm] at h
      cases h2 : dfsNext (rev v) (f + 1) d1 with
      | none => simp [h2] at h
      | some q =>
        obtain ⟨o, d2⟩ := q
        cases o with
        | some j' =>
          simp [h2] at h
          subst h
          have hjs := dfsNext_some_stack (rev v) (f + 1) d1 j' d2 h2
          rw [hstack1] at hjs
          have := List.mem_filter.mp (List.mem_reverse.mp hjs)
          refine ⟨[], i, rest, rfl, this.1, ?_⟩
          have hnot : j' ∉ i :: d.disc := by simpa using this.2
          intro hmem
          simp only [List.append_nil, List.mem_append, List.mem_singleton] at hmem
          cases hmem with
          | inl h' => exact hnot (List.mem_cons_of_mem _ ((hd j').mpr h'))
          | inr h' => exact hnot (h' ▸ List.mem_cons_self ..)
        | none =>
          simp only [h2] at h
          have hd2 : d2.disc = i :: d.disc := by
            rw [(dfsNext_disc (rev v) (f + 1) d1 none d2 h2).1 rfl, hd1]
          obtain ⟨l1, i', l2, hsplit, hj1, hj2⟩ := ih d2 (pre ++ [i])
            (by
              intro y
              rw [hd2]
              simp [hd y, or_comm])
            (by simpa using hnd) h
          refine ⟨i :: l1, i', l2, by rw [hsplit]; rfl, hj1, ?_⟩
          intro hmem
          apply hj2
          simpa using hmem

/-- **`toposort` `Err(Cycle(x))`** (mirror model): `x` lies on a cycle. -/
theorem toposort_cycle (v : View) (hv : ViewOk v) (hp : ∀ a b, b ∈ v.pred a ↔ v.g.Adj b a)
    (hwf : v.g.WellFormed) (x : Nat) (h : toposort v = some (.cycle x)) : Reach1 v.g x x := by
  unfold toposort at h
  have hN : ∀ x ∈ v.g.nodes, ∀ y ∈ v.succ x, y ∈ v.g.nodes := by
    intro x _ y hy
    obtain ⟨e, he, hc⟩ := (hv x y).mp hy
    rcases hc with ⟨_, h2⟩ | ⟨_, h1, _⟩
    · exact h2 ▸ (hwf.2 e he).2
    · exact h1 ▸ (hwf.2 e he).1
  cases hfirst : topoFirst v (2 * fuel v) v.g.nodes {} with
  | none => simp [hfirst] at h
  | some r1 =>
  cases r1 with
  | error y =>
    simp [hfirst] at h
    subst h
    exact Reach1.single ((hv y y).mp (topoFirst_error v _ _ _ y hfirst))
  | ok s =>
    obtain ⟨inv, hst, _, hall⟩ := topoFirst_ok v hv v.g.nodes hN _ v.g.nodes {} s hfirst (tinv_init v true _) rfl (fun _ h => h)
    have hdf : ∀ x ∈ s.disc, x ∈ s.fin := by
      intro x hx
      apply Classical.byContradiction
      intro hnf
      have := inv.greyStack x hx hnf
      rw [hst] at this; cases this
    simp only [hfirst] at h
    cases hsecond : topoSecond v (2 * fuel v) s.out.reverse {} with
    | none => simp [hsecond] at h
    | some r2 =>
    cases r2 with
    | none => simp [hsecond] at h
    | some j =>
      simp [hsecond] at h
      subst h
      have hnd : s.out.reverse.Nodup := nodup_reverse' inv.outNodup
      obtain ⟨l1, i, l2, hsplit, hj1, hj2⟩ := topoSecond_cycle v _ j s.out.reverse {} [] (by simp)
        (by simpa using hnd) hsecond
      have hadj : v.g.Adj j i := (hp i j).mp hj1
      have hjn : j ∈ v.g.nodes := by
        obtain ⟨e, he, hc⟩ := hadj
        rcases hc with ⟨h1, _⟩ | ⟨_, _, h2⟩
        · exact h1 ▸ (hwf.2 e he).1
        · exact h2 ▸ (hwf.2 e he).2
      have hjout : j ∈ s.out := (inv.outFin j).mpr (hdf j (hall j hjn))
      have hout : s.out = l2.reverse ++ i :: l1.reverse := by
        have := congrArg List.reverse hsplit
        simpa using this
      have hj2' : j ∉ l1 ∧ j ≠ i := by
        simp only [List.nil_append, List.mem_append, List.mem_singleton, not_or] at hj2
        exact hj2
      have hjl2 : j ∈ l2.reverse := by
        rw [hout] at hjout
        cases List.mem_append.mp hjout with
        | inl h => exact h
        | inr h =>
          cases List.mem_cons.mp h with
          | inl h => exact absurd h hj2'.2
          | inr h => exact absurd (List.mem_reverse.mp h) hj2'.1
      obtain ⟨m1, m2, hm⟩ := List.append_of_mem hjl2
      have hout2 : s.out = m1 ++ j :: (m2 ++ i :: l1.reverse) := by
        rw [hout, hm]; simp
      rcases inv.finEdge m1 j _ hout2 i hadj with h1 | h1 | h1
      · exfalso
        have hnd2 := inv.outNodup
        rw [hout2] at hnd2
        exact (List.nodup_append.mp hnd2).2.2 i h1 i
          (List.mem_cons_of_mem _ (List.mem_append_right _ (List.mem_cons_self ..))) rfl
      · exact absurd h1.symm hj2'.2
      · exact reach1_of_adj_reach hadj h1

end PetgraphModel.C09P
