import PetgraphModel.Oracle.C15BarrierSearch
import PetgraphModel.Proofs.C15Matching
import PetgraphModel.Proofs.C15Greedy
/-
C15 wave 5 — the canonical undirected view `uview g` of a well-formed graph with distinct edge ids
passes every side condition of the Gabow theorems (`gabowChecksB (uview g) = true`), so the driver's
size judge `canonicalMax` is total on every graph whose `graph` line was accepted.
-/
namespace PetgraphModel.C15W5C
open PetgraphModel PetgraphModel.C15 PetgraphModel.C15M PetgraphModel.C15P

/-! ### the index map `enumFrom 0 nodes` -/

theorem lookup_enumFrom_range : ∀ (l : List Nat) (i : Nat) (a : Nat), a ∈ l →
    ∃ j, (enumFrom i l).lookup a = some j ∧ i ≤ j ∧ j < i + l.length
  | [], _, _, h => by cases h
  | x :: r, i, a, h => by
    simp only [enumFrom, List.lookup_cons]
    by_cases hax : a = x
    · subst hax
      exact ⟨i, by simp, Nat.le_refl _, by simp⟩
    · have hb : (a == x) = false := by simpa using hax
      simp only [hb]
      have hr : a ∈ r := by
        rcases List.mem_cons.mp h with h | h
        · exact absurd h hax
        · exact h
      obtain ⟨j, h1, h2, h3⟩ := lookup_enumFrom_range r (i + 1) a hr
      exact ⟨j, h1, by omega, by simp only [List.length_cons]; omega⟩

theorem enumFrom_snd_ge : ∀ (l : List Nat) (i : Nat) (p : Nat × Nat), p ∈ enumFrom i l → i ≤ p.2
  | [], _, _, h => by cases h
  | x :: r, i, p, h => by
    simp only [enumFrom] at h
    rcases List.mem_cons.mp h with h | h
    · rw [h]; exact Nat.le_refl _
    · have := enumFrom_snd_ge r (i + 1) p h
      omega

theorem find_enumFrom : ∀ (l : List Nat) (i : Nat), l.Nodup → ∀ a ∈ l, ∀ j,
    (enumFrom i l).lookup a = some j → (enumFrom i l).find? (fun p => p.2 == j) = some (a, j)
  | [], _, _, _, h, _, _ => by cases h
  | x :: r, i, hnd, a, h, j, hl => by
    simp only [enumFrom, List.lookup_cons] at hl ⊢
    rw [List.nodup_cons] at hnd
    by_cases hax : a = x
    · subst hax
      simp only [beq_self_eq_true] at hl
      cases hl
      simp
    · have hb : (a == x) = false := by simpa using hax
      simp only [hb] at hl
      have hr : a ∈ r := by
        rcases List.mem_cons.mp h with h | h
        · exact absurd h hax
        · exact h
      obtain ⟨j', h1, h2, _⟩ := lookup_enumFrom_range r (i + 1) a hr
      have hjj : j' = j := by
        rw [h1] at hl; exact Option.some.inj hl
      subst hjj
      have hne : (i == j') = false := by
        have : i ≠ j' := by omega
        simpa using this
      rw [List.find?_cons]
      simp only [hne]
      exact find_enumFrom r (i + 1) hnd.2 a hr j' h1

theorem enumFrom_surj : ∀ (l : List Nat) (i : Nat), l.Nodup → ∀ j, i ≤ j → j < i + l.length →
    ∃ a ∈ l, (enumFrom i l).lookup a = some j
  | [], _, _, j, h1, h2 => by simp at h2; omega
  | x :: r, i, hnd, j, h1, h2 => by
    rw [List.nodup_cons] at hnd
    by_cases hj : j = i
    · subst hj
      exact ⟨x, List.mem_cons_self .., by simp [enumFrom]⟩
    · simp only [List.length_cons] at h2
      obtain ⟨a, ha, hl⟩ := enumFrom_surj r (i + 1) hnd.2 j (by omega) (by omega)
      refine ⟨a, List.mem_cons_of_mem _ ha, ?_⟩
      have hax : a ≠ x := fun h => hnd.1 (h ▸ ha)
      have hb : (a == x) = false := by simpa using hax
      simp only [enumFrom, List.lookup_cons, hb]
      exact hl

/-! ### the rows -/

theorem lookup_rows (f : Nat → List (Nat × Nat)) : ∀ (l : List Nat) (a : Nat), a ∈ l →
    (l.map fun x => (x, f x)).lookup a = some (f a)
  | [], _, h => by cases h
  | x :: r, a, h => by
    simp only [List.map_cons, List.lookup_cons]
    by_cases hax : a = x
    · subst hax; simp
    · have hb : (a == x) = false := by simpa using hax
      simp only [hb]
      rcases List.mem_cons.mp h with h | h
      · exact absurd h hax
      · exact lookup_rows f r a h

theorem mem_urow (es : List Edge) (a : Nat) (be : Nat × Nat) (h : be ∈ urow es a) :
    ∃ e ∈ es, e.id = be.2 ∧ ((e.src = a ∧ e.tgt = be.1) ∨ (e.tgt = a ∧ e.src = be.1)) := by
  unfold urow at h
  obtain ⟨e, he, hf⟩ := List.mem_filterMap.mp h
  refine ⟨e, he, ?_⟩
  by_cases h1 : e.src = a
  · simp only [h1, beq_self_eq_true, if_true] at hf
    cases hf
    exact ⟨rfl, Or.inl ⟨h1, rfl⟩⟩
  · have hb : (e.src == a) = false := by simpa using h1
    simp only [hb] at hf
    by_cases h2 : e.tgt = a
    · simp only [h2, beq_self_eq_true, if_true] at hf
      cases hf
      exact ⟨rfl, Or.inr ⟨h2, rfl⟩⟩
    · have hb2 : (e.tgt == a) = false := by simpa using h2
      simp [hb2] at hf

theorem urow_src (es : List Edge) (e : Edge) (he : e ∈ es) : (e.tgt, e.id) ∈ urow es e.src := by
  unfold urow
  exact List.mem_filterMap.mpr ⟨e, he, by simp⟩

theorem urow_tgt (es : List Edge) (e : Edge) (he : e ∈ es) : (e.src, e.id) ∈ urow es e.tgt := by
  unfold urow
  refine List.mem_filterMap.mpr ⟨e, he, ?_⟩
  by_cases h : e.src = e.tgt
  · simp [h]
  · have hb : (e.src == e.tgt) = false := by simpa using h
    simp [hb]

/-! ### all side conditions hold for the canonical view -/

theorem uview_toIndex (g : MGraph) (a : Nat) (ha : a ∈ g.nodes) :
    ∃ j, (enumFrom 0 g.nodes).lookup a = some j ∧ (uview g).toIndex a = j ∧ j < g.nodes.length := by
  obtain ⟨j, h1, _, h3⟩ := lookup_enumFrom_range g.nodes 0 a ha
  refine ⟨j, h1, ?_, by omega⟩
  show ((enumFrom 0 g.nodes).lookup a).getD a = j
  rw [h1]; rfl

theorem uview_outOf (g : MGraph) (a : Nat) (ha : a ∈ g.nodes) : (uview g).outOf a = urow g.edges a := by
  show (((g.nodes.map fun x => (x, urow g.edges x)).lookup a).getD []) = _
  rw [lookup_rows (urow g.edges) g.nodes a ha]; rfl

theorem uview_innOf (g : MGraph) (a : Nat) (ha : a ∈ g.nodes) : (uview g).innOf a = urow g.edges a := by
  show (((g.nodes.map fun x => (x, urow g.edges x)).lookup a).getD []) = _
  rw [lookup_rows (urow g.edges) g.nodes a ha]; rfl

theorem uview_ixOk (g : MGraph) (hnd : g.nodes.Nodup) : ixOkB (uview g) = true := by
  unfold ixOkB
  rw [List.all_eq_true]
  intro a ha
  have ha' : a ∈ g.nodes := ha
  obtain ⟨j, hl, ht, hlt⟩ := uview_toIndex g a ha'
  have hfind := find_enumFrom g.nodes 0 hnd a ha' j hl
  simp only [Bool.and_eq_true, decide_eq_true_eq, beq_iff_eq, List.all_eq_true, Bool.or_eq_true,
    bne_iff_ne, ne_eq]
  refine ⟨⟨by rw [ht]; exact hlt, ?_⟩, ?_⟩
  · rw [ht]
    show (match (enumFrom 0 g.nodes).find? (fun p => p.2 == j) with
      | some p => p.1 | none => 1000000 + j) = a
    rw [hfind]
  · intro b hb
    have hb' : b ∈ g.nodes := hb
    obtain ⟨j', hl', ht', _⟩ := uview_toIndex g b hb'
    by_cases hjj : j = j'
    · right
      subst hjj
      have h2 := find_enumFrom g.nodes 0 hnd b hb' j hl'
      rw [hfind] at h2
      exact (Prod.mk.inj (Option.some.inj h2)).1
    · left
      rw [ht, ht']; exact hjj

theorem uview_vacOk (g : MGraph) (hnd : g.nodes.Nodup) : vacOkB (uview g) = true := by
  unfold vacOkB
  rw [List.all_eq_true]
  intro i hi
  have hi' : i < g.nodes.length := List.mem_range.mp hi
  obtain ⟨a, ha, hl⟩ := enumFrom_surj g.nodes 0 hnd i (Nat.zero_le _) (by omega)
  rw [Bool.or_eq_true]
  left
  rw [List.any_eq_true]
  refine ⟨a, ha, ?_⟩
  obtain ⟨j, hl', ht, _⟩ := uview_toIndex g a ha
  rw [hl] at hl'
  cases hl'
  simp [ht]

theorem uview_viewExact (g : MGraph) (hwf : g.WellFormed) (hids : nodupB (g.edges.map (·.id)) = true) :
    viewExactB (uview g) = true := by
  unfold viewExactB
  simp only [Bool.and_eq_true]
  refine ⟨⟨⟨⟨hids, ?_⟩, ?_⟩, ?_⟩, ?_⟩
  · rw [List.all_eq_true]
    intro r hr
    obtain ⟨a, _, rfl⟩ := List.mem_map.mp hr
    rw [List.all_eq_true]
    intro be hbe
    obtain ⟨e, he, hid, hh⟩ := mem_urow g.edges a be hbe
    rw [List.any_eq_true]
    refine ⟨e, he, ?_⟩
    rcases hh with ⟨h1, h2⟩ | ⟨h1, h2⟩
    · simp [hid, h1, h2]
    · simp [hid, h1, h2, uview]
  · rw [List.all_eq_true]
    intro e he
    have he' : e ∈ g.edges := he
    obtain ⟨hs, ht⟩ := hwf.2 e he'
    rw [uview_outOf g e.src hs, uview_outOf g e.tgt ht]
    simp only [Bool.and_eq_true, List.contains_eq_mem, decide_eq_true_eq, Bool.or_eq_true]
    exact ⟨urow_src g.edges e he', Or.inr (urow_tgt g.edges e he')⟩
  · rw [List.all_eq_true]
    intro r hr
    obtain ⟨a, _, rfl⟩ := List.mem_map.mp hr
    rw [List.all_eq_true]
    intro be hbe
    obtain ⟨e, he, hid, hh⟩ := mem_urow g.edges a be hbe
    rw [List.any_eq_true]
    refine ⟨e, he, ?_⟩
    rcases hh with ⟨h1, h2⟩ | ⟨h1, h2⟩
    · simp [hid, h1, h2, uview]
    · simp [hid, h1, h2]
  · rw [List.all_eq_true]
    intro e he
    have he' : e ∈ g.edges := he
    obtain ⟨_, ht⟩ := hwf.2 e he'
    rw [uview_innOf g e.tgt ht]
    simp only [List.contains_eq_mem, decide_eq_true_eq]
    exact urow_tgt g.edges e he'

/-- **the canonical view passes every side condition of the Gabow theorems** -/
theorem uview_checks (g : MGraph) (hwf : wfB g = true) (hids : nodupB (g.edges.map (·.id)) = true) :
    gabowChecksB (uview g) = true := by
  have hW := wfB_sound g hwf
  unfold gabowChecksB
  simp only [Bool.and_eq_true]
  exact ⟨⟨⟨uview_ixOk g hW.1, hwf⟩, uview_viewExact g hW hids⟩, uview_vacOk g hW.1⟩

end PetgraphModel.C15W5C
