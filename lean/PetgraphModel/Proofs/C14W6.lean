import PetgraphModel.Proofs.C14W4Range
import PetgraphModel.Proofs.C14W4Graph
import PetgraphModel.Proofs.C14W4Stable
/-
C14 (wave 6): the corners.

* `range_single`        the closed one-position range `p..=p` is `at_position(p)` (as a list); only
                        sortedness of the map is needed;  `range_single_live`: for a live node `n`,
                        `range(get_position(n)..=get_position(n)) = [n]`;
* `range_half_open_empty` `p..p` and `(Excluded p, Included p)` are empty and do not panic;
* `range_inverted_false_witness` "an inverted range is empty" is NOT what the code does: it panics on a
                        non-empty map (std's `BTreeMap::range`), and yields `[]` only on an empty one;
* `ag_node_limit_iff`   `Acyclic<DiGraph>::add_node` returns iff the node-index limit is not reached
                        (at the limit it panics — the documented panic of `Graph::add_node` — and it does
                        so before anything is changed);
* `ag_edge_limit`       at the edge-index limit an insertion that the bookkeeping ACCEPTS panics (after
                        the reorder, in `Graph::add_edge`), one that it rejects returns as always and
                        leaves the state unchanged.
-/
namespace PetgraphModel.AcyW6
open PetgraphModel PetgraphModel.MGraph PetgraphModel.Dag PetgraphModel.Acy
open PetgraphModel.AcyProofs PetgraphModel.AcyW4

/-! ### `range` at a single position -/

theorem sorted_head_lt {e : Nat × Nat} {t : PMap} (hs : Sorted (e :: t)) : ∀ e' ∈ t, e.1 < e'.1 := by
  unfold Sorted at hs
  exact (List.pairwise_cons.mp hs).1

theorem sorted_tail {e : Nat × Nat} {t : PMap} (hs : Sorted (e :: t)) : Sorted t := by
  unfold Sorted at hs ⊢
  exact (List.pairwise_cons.mp hs).2

theorem filter_above_nil {t : PMap} {p : Nat} (h : ∀ e' ∈ t, p < e'.1) :
    t.filter (fun e => decide (p ≤ e.1) && decide (e.1 ≤ p)) = [] := by
  rw [List.filter_eq_nil_iff]
  intro e he
  have := h e he
  simp only [Bool.and_eq_true, decide_eq_true_eq, not_and]
  omega

theorem lookup_above_none {t : PMap} {p : Nat} (h : ∀ e' ∈ t, p < e'.1) : t.lookup p = none := by
  induction t with
  | nil => rfl
  | cons e t ih =>
    have h1 := h e (List.mem_cons_self ..)
    have hne : (p == e.1) = false := by simp; omega
    obtain ⟨k, x⟩ := e
    simp only [List.lookup_cons, hne]
    exact ih fun e' he' => h e' (List.mem_cons_of_mem _ he')

theorem filter_key_eq_lookup (m : PMap) (hs : Sorted m) (p : Nat) :
    (m.filter fun e => decide (p ≤ e.1) && decide (e.1 ≤ p)).map (·.2) = (m.lookup p).toList := by
  induction m with
  | nil => rfl
  | cons e t ih =>
    obtain ⟨k, x⟩ := e
    have hlt := sorted_head_lt hs
    by_cases hk : p = k
    · subst hk
      have h1 := filter_above_nil (t := t) (p := p) (fun e' he' => hlt e' he')
      simp [h1]
    · have hne : (p == k) = false := by simp [hk]
      have hf : (decide (p ≤ k) && decide (k ≤ p)) = false := by
        simp only [Bool.and_eq_false_imp, decide_eq_true_eq, decide_eq_false_iff_not]
        omega
      simp only [List.filter_cons, hf, List.lookup_cons, hne]
      exact ih (sorted_tail hs)

/-- **`range(p..=p)` is `at_position(p)`**: the one node at that position, or nothing. -/
theorem range_single {om : OrderMap} (hs : Sorted om.p2n) (p : Nat) :
    om.range (.inc p) (.inc p) = some (om.atPos p).toList := by
  have hp : rangePanics (.inc p) (.inc p) = false := by simp [rangePanics]
  simp only [OrderMap.range, hp, Bool.false_and, Bool.false_eq_true, if_false, Bnd.loOk, Bnd.hiOk,
    OrderMap.atPos, pmGet]
  exact congrArg some (filter_key_eq_lookup om.p2n hs p)

/-- for a live node `n`: `range(get_position(n)..=get_position(n)) = [n]` -/
theorem range_single_live {L : List Nat} {om : OrderMap} (h : OMInv L om) {n p : Nat} (hn : n ∈ L)
    (hp : om.getPos n = .ok p) : om.range (.inc p) (.inc p) = some [n] := by
  rw [range_single h.sorted p, (h.atPos p n).mpr ⟨hn, hp⟩]
  rfl

/-- `p..p` and `(Excluded(p), Included(p))` are empty — and do not panic, whatever the map holds -/
theorem range_half_open_empty (om : OrderMap) (p : Nat) :
    om.range (.inc p) (.exc p) = some [] ∧ om.range (.exc p) (.inc p) = some [] := by
  have h1 : rangePanics (.inc p) (.exc p) = false := by simp [rangePanics]
  have h2 : rangePanics (.exc p) (.inc p) = false := by simp [rangePanics]
  have f1 : om.p2n.filter (fun e => Bnd.loOk (.inc p) e.1 && Bnd.hiOk (.exc p) e.1) = [] := by
    rw [List.filter_eq_nil_iff]; intro e _
    simp only [Bnd.loOk, Bnd.hiOk, Bool.and_eq_true, decide_eq_true_eq, not_and]; omega
  have f2 : om.p2n.filter (fun e => Bnd.loOk (.exc p) e.1 && Bnd.hiOk (.inc p) e.1) = [] := by
    rw [List.filter_eq_nil_iff]; intro e _
    simp only [Bnd.loOk, Bnd.hiOk, Bool.and_eq_true, decide_eq_true_eq, not_and]; omega
  constructor
  · simp only [OrderMap.range, h1, Bool.false_and, Bool.false_eq_true, if_false, f1, List.map_nil]
  · simp only [OrderMap.range, h2, Bool.false_and, Bool.false_eq_true, if_false, f2, List.map_nil]

/-! ### the index limits of `Acyclic<DiGraph>` -/

open PetgraphModel.AcyG PetgraphModel.GProofs

/-- **`add_node` returns iff the node-index limit is not reached**; at the limit the call panics in
`Graph::add_node`, before the bookkeeping is touched. -/
theorem ag_node_limit_iff {x : AG} (hx : AGInv x) (w : Nat) :
    (∃ x', x.step (.addNode w) = .ok x') ↔ x.g.nodes.length ≠ x.g.endv := by
  constructor
  · rintro ⟨x', h⟩ heq
    have hc : G.canGrow x.g x.g.nodes.length = false := by simp [G.canGrow, heq]
    simp [AG.step, G.tryAddNode, hc] at h
  · exact fun h => (ag_no_panic hx).1 w h

theorem ag_node_limit_panics (x : AG) (w : Nat) (h : x.g.nodes.length = x.g.endv) :
    x.step (.addNode w) = .error "Graph::add_node: index limit" := by
  have hc : G.canGrow x.g x.g.nodes.length = false := by simp [G.canGrow, h]
  simp [AG.step, G.tryAddNode, hc]

/-- **at the edge-index limit**: an insertion the bookkeeping accepts panics in `Graph::add_edge`
(after the reorder: the object has to be dropped); one it rejects returns, the state is the old one
with the scratch capacity possibly grown. -/
theorem ag_edge_limit (x : AG) (a b w : Nat) (a' : AState) (r : EdgeRes)
    (hfull : x.g.edges.length = x.g.endv) (hres : tryAddEdge (gView x.g) x.a a b = .ok (a', r)) :
    (r = .accepted → x.step (.tryAddEdge a b w) = .error "Graph::add_edge: index limit") ∧
    (r ≠ .accepted → x.step (.tryAddEdge a b w) = .ok ⟨x.g, a'⟩ ∧ x.step (.tryUpdateEdge a b w) = .ok ⟨x.g, a'⟩) := by
  have hc : G.canGrow x.g x.g.edges.length = false := by simp [G.canGrow, hfull]
  constructor
  · rintro rfl
    simp [AG.step, hres, G.tryAddEdge, hc]
  · intro hr
    cases r with
    | accepted => exact absurd rfl hr
    | selfLoop => simp [AG.step, hres]
    | cycle n => simp [AG.step, hres]

/-! ### the node-index limit of `Acyclic<StableDiGraph>` -/

open PetgraphModel.AcyS PetgraphModel.SGProofs in
/-- at the node limit (every index below `Ix::max()` is live: no vacancy, no room for a new slot)
`add_node` panics in `StableGraph::add_node`, before the bookkeeping is touched -/
theorem as_node_limit_panics {x : AS} (hi : SGProofs.Inv x.g) (w : Nat) (h : x.g.nodeCount = x.g.fin) :
    x.step (.addNode w) = .error "StableGraph::add_node: index limit" := by
  have hcnt := hi.cntN
  simp only [Option.isSome_none, Bool.false_eq_true, if_false, Nat.add_zero] at hcnt
  have hle := List.countP_le_length (p := fun n : SG.Node => n.w.isSome) (l := x.g.nodes)
  have hlen := hi.lenN
  have hall : x.g.nodes.countP (fun n => n.w.isSome) = x.g.nodes.length := by omega
  have hlenfin : x.g.nodes.length = x.g.fin := by omega
  rcases tryAddNode_spec (d := none) (fe := x.g.freeEdge) (w : Int) hi with ⟨s', i, _, _, hnone, hlt, _⟩ | ⟨herr, _⟩
  · exfalso
    have hi' : i < x.g.nodes.length := by omega
    have hsome := (List.countP_eq_length.mp hall) x.g.nodes[i] (List.getElem_mem hi')
    simp only [SG.nodeWeight, List.getElem?_eq_getElem hi'] at hnone
    cases hw : x.g.nodes[i].w with
    | none => simp [hw] at hsome
    | some v => simp [hw] at hnone
  · simp only [AS.step, herr]

open PetgraphModel.AcyS in
/-- **`Acyclic<StableDiGraph>::add_node` returns iff the node-index limit is not reached** -/
theorem as_node_limit_iff {x : AS} (hx : ASInv x) (w : Nat) :
    (∃ x', x.step (.addNode w) = .ok x') ↔ x.g.nodeCount ≠ x.g.fin := by
  constructor
  · rintro ⟨x', h⟩ heq
    rw [as_node_limit_panics hx.1 w heq] at h
    cases h
  · exact fun h => (as_no_panic hx).1 w h

/-! ### what the driver's limit tests mean (run-time checks) -/

/-- the driver's test `nodes.length ≥ endv` on a graph line that is the view of the storage model is
the hypothesis `nodes.length = endv` of `ag_node_limit_panics` -/
theorem ag_node_limit_check {g : G.State} (h : GProofs.Inv g)
    (hb : decide ((AcyG.gView g).g.nodes.length ≥ g.endv) = true) : g.nodes.length = g.endv := by
  have h1 : (AcyG.gView g).g.nodes.length = g.nodes.length := by simp [AcyG.gView]
  have h2 := h.szN
  simp only [decide_eq_true_eq, h1] at hb
  omega

/-- … and `edges.length ≥ endv` is `edges.length = endv` of `ag_edge_limit` -/
theorem ag_edge_limit_check {g : G.State} (h : GProofs.Inv g)
    (hb : decide ((AcyG.gView g).g.edges.length ≥ g.endv) = true) : g.edges.length = g.endv := by
  have h1 : (AcyG.gView g).g.edges.length = g.edges.length := by
    simp [AcyG.gView, AcyG.gEdges, G.allERefs]
  have h2 := h.szE
  simp only [decide_eq_true_eq, h1] at hb
  omega

open PetgraphModel.SGProofs in
/-- for a `StableGraph`: the number of live nodes the graph line lists is `node_count` -/
theorem as_node_limit_check {g : SG.State} (h : SGProofs.Inv g)
    (hb : decide ((AcyS.sView g).g.nodes.length ≥ g.fin) = true) : g.nodeCount = g.fin := by
  have hcnt := h.cntN
  simp only [Option.isSome_none, Bool.false_eq_true, if_false, Nat.add_zero] at hcnt
  have h1 : (AcyS.sView g).g.nodes.length = g.nodes.countP (fun n => n.w.isSome) := by
    simp only [AcyS.sView, SG.nodeIndices]
    rw [liveIdx_eq_liveIds, liveIds_length, List.countP_map]
    rfl
  have hle := List.countP_le_length (p := fun n : SG.Node => n.w.isSome) (l := g.nodes)
  have hlen := h.lenN
  simp only [decide_eq_true_eq, h1] at hb
  omega

end PetgraphModel.AcyW6
