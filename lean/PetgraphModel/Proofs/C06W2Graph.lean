import PetgraphModel.Proofs.C06W2Base
import PetgraphModel.Model.C06Views
import PetgraphModel.Theorems.C01
/-
C06 wave 2 — `Graph`: the table computed from the storage model (`graphTable`, Model/C06ViewsGraph.lean) is
consistent in every state that satisfies the representation invariant of C01 (`GProofs.Inv`), hence after every
history of public calls from any constructor.  No bound on the ids is needed: nodes and edges are identified by
their raw indices.
-/
namespace PetgraphModel.Visit
open PetgraphModel PetgraphModel.G PetgraphModel.GProofs
open PetgraphModel.Visit.GView

/-- the reference of slot `ed` at index `i`, in the harness's code -/
def mkE (i : Nat) (ed : Edge) : Visit.ERef := ⟨i, ed.src, ed.tgt, (ed.weight : Int)⟩

/-- `edge_references` of the table -/
def gERefs (s : State) : List Visit.ERef := (allERefs s).map eref

theorem gERefs_getElem? (s : State) (i : Nat) : (gERefs s)[i]? = (s.edges[i]?).map (mkE i) := by
  unfold gERefs allERefs
  rw [List.getElem?_map, List.getElem?_zipWith]
  cases he : s.edges[i]? with
  | none =>
    cases hr : (List.range s.edges.length)[i]? <;> simp
  | some ed =>
    have hlt := lt_of_getElem? he
    rw [List.getElem?_range hlt]
    rfl

theorem mem_gERefs (s : State) (e : Visit.ERef) :
    e ∈ gERefs s ↔ ∃ i ed, s.edges[i]? = some ed ∧ e = mkE i ed := by
  rw [List.mem_iff_getElem?]
  constructor
  · rintro ⟨i, hi⟩
    rw [gERefs_getElem?] at hi
    cases he : s.edges[i]? with
    | none => rw [he] at hi; cases hi
    | some ed => rw [he] at hi; exact ⟨i, ed, he, by simpa using hi.symm⟩
  · rintro ⟨i, ed, he, rfl⟩
    exact ⟨i, by rw [gERefs_getElem?, he]; rfl⟩

theorem gERefs_ids (s : State) : (gERefs s).map (·.id) = List.range s.edges.length := by
  apply List.ext_getElem?
  intro i
  rw [List.getElem?_map, gERefs_getElem?]
  by_cases hi : i < s.edges.length
  · rw [List.getElem?_range hi, List.getElem?_eq_getElem hi]; rfl
  · rw [List.getElem?_eq_none (by omega), List.getElem?_eq_none (by simp; omega)]; rfl

theorem gERefs_ids_nodup (s : State) : ((gERefs s).map (·.id)).Nodup := by
  rw [gERefs_ids]; exact List.nodup_range

theorem gERefs_length (s : State) : (gERefs s).length = s.edges.length := by
  have := congrArg List.length (gERefs_ids s)
  simpa using this

theorem nodeRefs_ids (s : State) : (nodeRefs s).map (·.1) = List.range s.nodes.length := by
  apply List.ext_getElem?
  intro i
  unfold nodeRefs
  rw [List.getElem?_map, List.getElem?_zipWith]
  by_cases hi : i < s.nodes.length
  · rw [List.getElem?_range hi, List.getElem?_eq_getElem hi]; rfl
  · rw [List.getElem?_eq_none (l := s.nodes) (by omega), List.getElem?_eq_none (by simp; omega)]
    cases (List.range s.nodes.length)[i]? <;> rfl

theorem ixNew_eq (s : State) {x : Nat} (h : x ≤ s.endv) : ixNew s x = x := by
  unfold ixNew; exact Nat.mod_eq_of_lt (by omega)

/-! ### node clauses -/

theorem g_ids (s : State) : idsOk (List.range s.nodes.length) (graphTable s) := by
  simp only [idsOk, graphTable, whenSome_some]
  exact ⟨List.nodup_range, fun a ha => ha, List.length_range⟩

theorem g_refs (s : State) : refsOk (graphTable s) := by
  simp only [refsOk, graphTable, whenSome_some]
  rw [nodeRefs_ids]

theorem g_index (s : State) (h : Inv s) : indexOk (graphTable s) := by
  simp only [indexOk, graphTable, whenSome_some]
  refine ⟨?_, ?_, ?_⟩
  · intro a ha
    rw [lookup_map_self (fun q => q) _ a ha]
    exact List.mem_range.1 ha
  · have : (List.range s.nodes.length).map (fun a => ((List.range s.nodes.length).map fun q => (q, q)).lookup a) =
        (List.range s.nodes.length).map (fun a => some a) :=
      List.map_congr_left fun a ha => lookup_map_self (fun q => q) _ a ha
    rw [this]
    exact nodup_map_of_inj_on _ _ List.nodup_range fun a _ b _ e => by simpa using e
  · intro a ha
    rw [lookup_map_self (fun q => ixNew s q) _ a ha, ixNew_eq]
    have := List.mem_range.1 ha
    have := h.szN
    omega

theorem g_compact (s : State) : compactOk (graphTable s) := by
  intro _
  simp only [graphTable, whenSome_some]
  have : (List.range s.nodes.length).map
      (fun a => (((List.range s.nodes.length).map fun q => (q, q)).lookup a).getD s.nodes.length) =
      (List.range s.nodes.length).map (fun a => a) :=
    List.map_congr_left fun a ha => by rw [lookup_map_self (fun q => q) _ a ha]; rfl
  rw [this, List.map_id']

/-! ### edge clauses -/

theorem g_erefs (s : State) (h : Inv s) : erefsOk (graphTable s) := by
  simp only [erefsOk, graphTable, whenSome_some]
  refine ⟨gERefs_ids_nodup s, gERefs_length s, ?_⟩
  intro e he
  obtain ⟨i, ed, hed, rfl⟩ := (mem_gERefs s e).1 he
  have := h.ends i ed hed
  simp only [mkE, List.mem_range]
  exact this

theorem g_eix (s : State) (h : Inv s) : eixOk (graphTable s) := by
  simp only [eixOk, graphTable, whenSome_some]
  intro e he
  obtain ⟨i, ed, hed, rfl⟩ := (mem_gERefs s e).1 he
  have hlt := lt_of_getElem? hed
  have hl := lookup_map_self (fun q => (q, ixNew s q)) (List.range s.edges.length) i (List.mem_range.2 hlt)
  simp only [mkE]
  rw [hl]
  have := h.szE
  simp only [optRound]
  exact ⟨hlt, ixNew_eq s (by omega)⟩

/-! ### the two `next` chains of a node -/

/-- `(i, ed)` is on the `k`-chain of node `a` exactly when slot `i` holds `ed` and `a` is its `k`-end -/
theorem mem_chain {s : State} {k : Bool} {a : Nat} {c : List (Nat × Edge)} (hc : ChainSpec s k a c)
    (i : Nat) (ed : Edge) : (i, ed) ∈ c ↔ s.edges[i]? = some ed ∧ ed.node k = a := by
  constructor
  · intro hm
    have hs : s.edges[i]? = some ed := hc.slots _ hm
    refine ⟨hs, ?_⟩
    obtain ⟨ed', hed', hk⟩ := (hc.mem i).1 (List.mem_map.2 ⟨_, hm, rfl⟩)
    rw [hs] at hed'; cases hed'; exact hk
  · rintro ⟨hs, hk⟩
    obtain ⟨p, hp, hpi⟩ := List.mem_map.1 ((hc.mem i).2 ⟨ed, hs, hk⟩)
    have hsl := hc.slots p hp
    obtain ⟨j, ed'⟩ := p
    simp only at hpi hsl; subst hpi
    rw [hs] at hsl; cases hsl; exact hp

/-- the out-chain `c0` and the in-chain `c1` of node `a`, as the iterators compute them -/
structure Chains (s : State) (a : Nat) (c0 c1 : List (Nat × Edge)) : Prop where
  spec0 : ChainSpec s false a c0
  spec1 : ChainSpec s true a c1
  run0 : chain s.edges false s.fuel (heads s a).1 = .ok c0
  run1 : chain s.edges true s.fuel (heads s a).2 = .ok c1

theorem chains_exist (s : State) (h : Inv s) (a : Nat) (ha : a < s.nodes.length) : ∃ c0 c1, Chains s a c0 c1 := by
  have hnd := List.getElem?_eq_getElem ha
  obtain ⟨c0, hc0, hs0⟩ := h.chain_spec false a _ hnd
  obtain ⟨c1, hc1, hs1⟩ := h.chain_spec true a _ hnd
  simp only [Node.next, Bool.false_eq_true, if_false] at hc0
  simp only [Node.next, if_true] at hc1
  have hh : heads s a = (s.nodes[a].next0, s.nodes[a].next1) := by simp [heads, hnd]
  exact ⟨c0, c1, hs0, hs1, by rw [hh]; exact hc0, by rw [hh]; exact hc1⟩

/-- what `edges_directed(a, dir)` yields, in terms of the two chains -/
def rowE (directed : Bool) (a : Nat) (c0 c1 : List (Nat × Edge)) (dir : Bool) : List G.ERef :=
  if directed then (if dir then c1 else c0).map (mkRef false)
  else c0.map (mkRef dir) ++ (c1.filter (fun p => p.2.src != a)).map (mkRef (!dir))

theorem edgesDirected_eq {s : State} {a : Nat} {c0 c1 : List (Nat × Edge)} (hc : Chains s a c0 c1) (dir : Bool) :
    edgesDirected s a dir = .ok (rowE s.directed a c0 c1 dir) := by
  unfold edgesDirected
  simp only [hc.run0, hc.run1, rowE]
  cases s.directed <;> cases dir <;> rfl

theorem edgesDir_eq {s : State} {a : Nat} {c0 c1 : List (Nat × Edge)} (hc : Chains s a c0 c1) (dir : Bool) :
    edgesDir s a dir = (rowE s.directed a c0 c1 dir).map eref := by
  simp [edgesDir, edgesDirected_eq hc, okOr]

/-- the neighbours are the far ends of the listed edges -/
theorem nbrsDir_eq {s : State} (h : Inv s) {a : Nat} {c0 c1 : List (Nat × Edge)} (hc : Chains s a c0 c1) (k : Bool) :
    nbrsDir s a k = (edgesDir s a k).map (fun r => if k then r.src else r.tgt) := by
  rw [edgesDir_eq hc]
  unfold nbrsDir neighborsDirected nbrIter
  have hend : ∀ k', chain s.edges k' s.fuel s.endv = .ok [] := fun k' => h.chain_end k' s.edges.length
  have hfil : c1.filter (fun p => p.2.src != s.endv) = c1 := by
    rw [List.filter_eq_self]
    intro p hp
    have := (h.ends p.1 p.2 (hc.spec1.slots p hp)).1
    have := h.szN
    simp only [bne_iff_ne, ne_eq]; omega
  cases hd : s.directed <;> cases k <;>
    simp [hc.run0, hc.run1, hend, hfil, rowE, okOr, eref, mkRef, List.map_map, Function.comp_def]

theorem eref_mkRef_false (p : Nat × Edge) : eref (mkRef false p) = mkE p.1 p.2 := rfl
theorem eref_mkRef_true (p : Nat × Edge) : eref (mkRef true p) = (mkE p.1 p.2).swap := rfl
theorem eref_mkRef_id (sw : Bool) (p : Nat × Edge) : (eref (mkRef sw p)).id = p.1 := by cases sw <;> rfl

theorem row_part_ids (sw : Bool) (c : List (Nat × Edge)) :
    ((c.map (mkRef sw)).map eref).map (·.id) = c.map Prod.fst := by
  simp [List.map_map, Function.comp_def, eref_mkRef_id]

/-- a row lists every edge index at most once -/
theorem row_ids_nodup {s : State} {a : Nat} {c0 c1 : List (Nat × Edge)} (hc : Chains s a c0 c1) (dir : Bool) :
    (((rowE s.directed a c0 c1 dir).map eref).map (·.id)).Nodup := by
  unfold rowE
  split
  · rw [row_part_ids]
    split
    · exact hc.spec1.nodup
    · exact hc.spec0.nodup
  · rw [List.map_append, List.map_append, row_part_ids, row_part_ids, List.nodup_append]
    refine ⟨hc.spec0.nodup, List.Nodup.sublist (List.Sublist.map _ List.filter_sublist) hc.spec1.nodup, ?_⟩
    intro x hx y hy hxy
    subst hxy
    obtain ⟨ed, hed, hk⟩ := (hc.spec0.mem x).1 hx
    obtain ⟨p, hp, hpx⟩ := List.mem_map.1 hy
    have hp' := List.mem_filter.1 hp
    have hsl := hc.spec1.slots p hp'.1
    rw [hpx, hed] at hsl
    cases hsl
    have := hp'.2
    simp [Edge.node] at hk this
    exact this hk

theorem row_nodup {s : State} {a : Nat} {c0 c1 : List (Nat × Edge)} (hc : Chains s a c0 c1) (dir : Bool) :
    ((rowE s.directed a c0 c1 dir).map eref).Nodup :=
  nodup_of_nodup_map _ _ (row_ids_nodup hc dir)

theorem mem_part {s : State} {k : Bool} {a : Nat} {c : List (Nat × Edge)} (hc : ChainSpec s k a c) (sw : Bool)
    (e : Visit.ERef) : e ∈ (c.map (mkRef sw)).map eref ↔
      ∃ i ed, s.edges[i]? = some ed ∧ ed.node k = a ∧ e = eref (mkRef sw (i, ed)) := by
  simp only [List.mem_map]
  constructor
  · rintro ⟨_, ⟨⟨i, ed⟩, hp, rfl⟩, rfl⟩
    obtain ⟨h1, h2⟩ := (mem_chain hc i ed).1 hp
    exact ⟨i, ed, h1, h2, rfl⟩
  · rintro ⟨i, ed, h1, h2, rfl⟩
    exact ⟨_, ⟨(i, ed), (mem_chain hc i ed).2 ⟨h1, h2⟩, rfl⟩, rfl⟩

/-- directed kind: the row of direction `dir` lists the slots with `a` at end `dir`, true endpoints -/
theorem mem_row_dir {s : State} {a : Nat} {c0 c1 : List (Nat × Edge)} (hc : Chains s a c0 c1) (dir : Bool)
    (e : Visit.ERef) : e ∈ (rowE true a c0 c1 dir).map eref ↔
      ∃ i ed, s.edges[i]? = some ed ∧ ed.node dir = a ∧ e = mkE i ed := by
  unfold rowE
  cases dir
  · exact mem_part hc.spec0 false e
  · exact mem_part hc.spec1 false e

/-- undirected kind: the out-list, then the in-list without the self-loops, swapped as the direction says -/
theorem mem_row_und {s : State} {a : Nat} {c0 c1 : List (Nat × Edge)} (hc : Chains s a c0 c1) (dir : Bool)
    (e : Visit.ERef) : e ∈ (rowE false a c0 c1 dir).map eref ↔
      (∃ i ed, s.edges[i]? = some ed ∧ ed.src = a ∧ e = eref (mkRef dir (i, ed))) ∨
      (∃ i ed, s.edges[i]? = some ed ∧ ed.tgt = a ∧ ed.src ≠ a ∧ e = eref (mkRef (!dir) (i, ed))) := by
  unfold rowE
  simp only [Bool.false_eq_true, if_false, List.map_append, List.mem_append]
  apply or_congr
  · simpa [Edge.node] using mem_part hc.spec0 dir e
  · simp only [List.mem_map, List.mem_filter]
    constructor
    · rintro ⟨_, ⟨⟨i, ed⟩, ⟨hp, hne⟩, rfl⟩, rfl⟩
      obtain ⟨h1, h2⟩ := (mem_chain hc.spec1 i ed).1 hp
      exact ⟨i, ed, h1, by simpa [Edge.node] using h2, by simpa using hne, rfl⟩
    · rintro ⟨i, ed, h1, h2, h3, rfl⟩
      exact ⟨_, ⟨(i, ed), ⟨(mem_chain hc.spec1 i ed).2 ⟨h1, by simpa [Edge.node] using h2⟩, by simpa using h3⟩, rfl⟩, rfl⟩

theorem swap_loop {i : Nat} {ed : Edge} (h : ed.src = ed.tgt) : (mkE i ed).swap = mkE i ed := by
  simp [mkE, ERef.swap, h]

/-! ### per-node iterators -/

/-- `edges_directed(a, Outgoing)` is, as a multiset, what the specification prescribes from `edge_references` -/
theorem g_out_perm (s : State) (h : Inv s) (a : Nat) (ha : a < s.nodes.length) :
    (edgesDir s a false).Perm (expOut s.directed (gERefs s) a) := by
  obtain ⟨c0, c1, hc⟩ := chains_exist s h a ha
  rw [edgesDir_eq hc]
  apply perm_of_nodup_mem (row_nodup hc false) (expOut_nodup (gERefs_ids_nodup s) a)
  intro e
  cases hd : s.directed with
  | true =>
    rw [mem_row_dir hc]
    simp only [expOut, if_true, List.mem_filter, mem_gERefs, beq_iff_eq]
    constructor
    · rintro ⟨i, ed, h1, h2, rfl⟩
      exact ⟨⟨i, ed, h1, rfl⟩, by simpa [Edge.node, mkE] using h2⟩
    · rintro ⟨⟨i, ed, h1, rfl⟩, h2⟩
      exact ⟨i, ed, h1, by simpa [Edge.node, mkE] using h2, rfl⟩
  | false =>
    rw [mem_row_und hc]
    simp only [expOut, Bool.false_eq_true, if_false, List.mem_map, List.mem_filter, mem_gERefs, Bool.not_false]
    constructor
    · rintro (⟨i, ed, h1, h2, rfl⟩ | ⟨i, ed, h1, h2, h3, rfl⟩)
      · exact ⟨mkE i ed, ⟨⟨i, ed, h1, rfl⟩, by simp [incident, mkE, h2]⟩, by simp [orientOut, mkE, h2, eref, mkRef]⟩
      · exact ⟨mkE i ed, ⟨⟨i, ed, h1, rfl⟩, by simp [incident, mkE, h2]⟩, by
          rw [eref_mkRef_true]; simp [orientOut, mkE, h3]⟩
    · rintro ⟨_, ⟨⟨i, ed, h1, rfl⟩, hinc⟩, rfl⟩
      by_cases hs : ed.src = a
      · left
        exact ⟨i, ed, h1, hs, by simp [orientOut, mkE, hs, eref, mkRef]⟩
      · right
        have ht : ed.tgt = a := by simpa [incident, mkE, hs] using hinc
        exact ⟨i, ed, h1, ht, hs, by rw [eref_mkRef_true]; simp [orientOut, mkE, hs]⟩

/-- `edges_directed(a, Incoming)` -/
theorem g_in_perm (s : State) (h : Inv s) (a : Nat) (ha : a < s.nodes.length) :
    (edgesDir s a true).Perm (expIn s.directed (gERefs s) a) := by
  obtain ⟨c0, c1, hc⟩ := chains_exist s h a ha
  rw [edgesDir_eq hc]
  apply perm_of_nodup_mem (row_nodup hc true) (expIn_nodup (gERefs_ids_nodup s) a)
  intro e
  cases hd : s.directed with
  | true =>
    rw [mem_row_dir hc]
    simp only [expIn, if_true, List.mem_filter, mem_gERefs, beq_iff_eq]
    constructor
    · rintro ⟨i, ed, h1, h2, rfl⟩
      exact ⟨⟨i, ed, h1, rfl⟩, by simpa [Edge.node, mkE] using h2⟩
    · rintro ⟨⟨i, ed, h1, rfl⟩, h2⟩
      exact ⟨i, ed, h1, by simpa [Edge.node, mkE] using h2, rfl⟩
  | false =>
    rw [mem_row_und hc]
    simp only [expIn, Bool.false_eq_true, if_false, List.mem_map, List.mem_filter, mem_gERefs, Bool.not_true]
    constructor
    · rintro (⟨i, ed, h1, h2, rfl⟩ | ⟨i, ed, h1, h2, h3, rfl⟩)
      · refine ⟨mkE i ed, ⟨⟨i, ed, h1, rfl⟩, by simp [incident, mkE, h2]⟩, ?_⟩
        rw [eref_mkRef_true]
        by_cases ht : ed.tgt = a
        · rw [swap_loop (by rw [h2, ht])]; simp [orientIn, mkE, ht]
        · simp [orientIn, mkE, ht]
      · exact ⟨mkE i ed, ⟨⟨i, ed, h1, rfl⟩, by simp [incident, mkE, h2]⟩, by simp [orientIn, mkE, h2, eref, mkRef]⟩
    · rintro ⟨_, ⟨⟨i, ed, h1, rfl⟩, hinc⟩, rfl⟩
      by_cases hs : ed.src = a
      · left
        refine ⟨i, ed, h1, hs, ?_⟩
        rw [eref_mkRef_true]
        by_cases ht : ed.tgt = a
        · rw [swap_loop (by rw [hs, ht])]; simp [orientIn, mkE, ht]
        · simp [orientIn, mkE, ht]
      · right
        have ht : ed.tgt = a := by simpa [incident, mkE, hs] using hinc
        exact ⟨i, ed, h1, ht, hs, by simp [orientIn, mkE, ht, eref, mkRef]⟩

theorem g_edgesOut (s : State) (h : Inv s) : edgesOutOk (List.range s.nodes.length) (graphTable s) := by
  simp only [edgesOutOk, graphTable, whenSome_some]
  exact rowsMatch_rowsOver fun a ha => g_out_perm s h a (List.mem_range.1 ha)

theorem g_edges (s : State) (h : Inv s) : edgesOk (List.range s.nodes.length) (graphTable s) := by
  simp only [edgesOk, graphTable, whenSome_some]
  exact rowsMatch_rowsOver fun a ha => g_out_perm s h a (List.mem_range.1 ha)

theorem g_edgesIn (s : State) (h : Inv s) : edgesInOk (List.range s.nodes.length) (graphTable s) := by
  simp only [edgesInOk, graphTable, whenSome_some]
  exact rowsMatch_rowsOver fun a ha => g_in_perm s h a (List.mem_range.1 ha)

theorem g_nbrs_out_perm (s : State) (h : Inv s) (a : Nat) (ha : a < s.nodes.length) :
    (nbrsDir s a false).Perm ((expOut s.directed (gERefs s) a).map (·.tgt)) := by
  obtain ⟨c0, c1, hc⟩ := chains_exist s h a ha
  rw [nbrsDir_eq h hc]
  exact (g_out_perm s h a ha).map _

theorem g_nbrs_in_perm (s : State) (h : Inv s) (a : Nat) (ha : a < s.nodes.length) :
    (nbrsDir s a true).Perm ((expIn s.directed (gERefs s) a).map (·.src)) := by
  obtain ⟨c0, c1, hc⟩ := chains_exist s h a ha
  rw [nbrsDir_eq h hc]
  exact (g_in_perm s h a ha).map _

theorem g_nbrsOut (s : State) (h : Inv s) : nbrsOutOk (List.range s.nodes.length) (graphTable s) := by
  simp only [nbrsOutOk, graphTable, whenSome_some]
  exact rowsMatch_rowsOver fun a ha => g_nbrs_out_perm s h a (List.mem_range.1 ha)

theorem g_nbrs (s : State) (h : Inv s) : nbrsOk (List.range s.nodes.length) (graphTable s) := by
  simp only [nbrsOk, graphTable, whenSome_some]
  exact rowsMatch_rowsOver fun a ha => g_nbrs_out_perm s h a (List.mem_range.1 ha)

theorem g_nbrsIn (s : State) (h : Inv s) : nbrsInOk (List.range s.nodes.length) (graphTable s) := by
  simp only [nbrsInOk, graphTable, whenSome_some]
  exact rowsMatch_rowsOver fun a ha => g_nbrs_in_perm s h a (List.mem_range.1 ha)

/-! ### adjacency matrix -/

theorem allERefs_getElem? (s : State) (i : Nat) :
    (allERefs s)[i]? = (s.edges[i]?).map fun ed => (⟨i, ed.src, ed.tgt, ed.weight⟩ : G.ERef) := by
  unfold allERefs
  rw [List.getElem?_zipWith]
  cases he : s.edges[i]? with
  | none =>
    cases hr : (List.range s.edges.length)[i]? <;> simp
  | some ed =>
    have hlt := lt_of_getElem? he
    rw [List.getElem?_range hlt]
    rfl

theorem mem_allERefs (s : State) (r : G.ERef) :
    r ∈ allERefs s ↔ ∃ i ed, s.edges[i]? = some ed ∧ r = ⟨i, ed.src, ed.tgt, ed.weight⟩ := by
  rw [List.mem_iff_getElem?]
  constructor
  · rintro ⟨i, hi⟩
    rw [allERefs_getElem?] at hi
    cases he : s.edges[i]? with
    | none => rw [he] at hi; cases hi
    | some ed => rw [he] at hi; exact ⟨i, ed, he, by simpa using hi.symm⟩
  · rintro ⟨i, ed, he, rfl⟩
    exact ⟨i, by rw [allERefs_getElem?, he]; rfl⟩

/-- the positions set in the bit matrix -/
theorem mem_adjMatrix (s : State) (x : Nat) :
    x ∈ adjMatrix s ↔ ∃ (i : Nat) (ed : Edge), s.edges[i]? = some ed ∧
      (x = ed.src * s.nodes.length + ed.tgt ∨ (s.directed = false ∧ x = ed.src + s.nodes.length * ed.tgt)) := by
  unfold adjMatrix
  simp only [List.mem_flatMap, mem_allERefs]
  constructor
  · rintro ⟨_, ⟨i, ed, he, rfl⟩, hx⟩
    refine ⟨i, ed, he, ?_⟩
    cases hd : s.directed <;> simp [hd] at hx ⊢ <;> exact hx
  · rintro ⟨i, ed, he, hx⟩
    refine ⟨_, ⟨i, ed, he, rfl⟩, ?_⟩
    cases hd : s.directed <;> simp [hd] at hx ⊢ <;> exact hx

/-- no `put` of `adjacency_matrix` is out of the bit set's range (no panic) -/
theorem adjMatrix_in_range (s : State) (h : Inv s) : ∀ x ∈ adjMatrix s, x < s.nodes.length * s.nodes.length := by
  intro x hx
  obtain ⟨i, ed, he, hx⟩ := (mem_adjMatrix s x).1 hx
  obtain ⟨h1, h2⟩ := h.ends i ed he
  have k1 : (ed.src + 1) * s.nodes.length ≤ s.nodes.length * s.nodes.length := Nat.mul_le_mul_right _ h1
  have k2 : s.nodes.length * (ed.tgt + 1) ≤ s.nodes.length * s.nodes.length := Nat.mul_le_mul_left _ h2
  rw [Nat.add_mul] at k1
  rw [Nat.mul_add] at k2
  rcases hx with rfl | ⟨_, rfl⟩ <;> omega

theorem pos_inj {n a b c d : Nat} (hb : b < n) (hd : d < n) (h : n * a + b = n * c + d) : a = c ∧ b = d := by
  have hn : 0 < n := by omega
  have h1 := congrArg (· % n) h
  simp only [Nat.mul_add_mod, Nat.mod_eq_of_lt hb, Nat.mod_eq_of_lt hd] at h1
  have h2 := congrArg (· / n) h
  simp only [Nat.mul_add_div hn, Nat.div_eq_of_lt hb, Nat.div_eq_of_lt hd, Nat.add_zero] at h2
  exact ⟨h2, h1⟩

theorem g_adj (s : State) (h : Inv s) : adjOk (List.range s.nodes.length) (graphTable s) := by
  simp only [adjOk, graphTable, whenSome_some]
  refine ⟨rowsOver_keys _ _, fun a ha b hb => ?_⟩
  rw [rowOf_rowsOver _ _ a ha]
  have hbn := List.mem_range.1 hb
  have han := List.mem_range.1 ha
  simp only [List.mem_filter, hb, true_and, expAdj, List.any_eq_true, isAdjacent, List.contains_iff_mem,
    mem_adjMatrix]
  change _ ↔ ∃ e, e ∈ gERefs s ∧ _
  constructor
  · rintro ⟨i, ed, he, hx⟩
    obtain ⟨h1, h2⟩ := h.ends i ed he
    refine ⟨mkE i ed, (mem_gERefs s _).2 ⟨i, ed, he, rfl⟩, ?_⟩
    rcases hx with hx | ⟨hd, hx⟩
    · rw [Nat.mul_comm ed.src] at hx
      obtain ⟨rfl, rfl⟩ := pos_inj hbn h2 hx
      simp [mkE]
    · rw [Nat.add_comm ed.src] at hx
      obtain ⟨rfl, rfl⟩ := pos_inj hbn h1 hx
      simp [mkE, hd]
  · rintro ⟨e, hm, hc⟩
    obtain ⟨i, ed, he, rfl⟩ := (mem_gERefs s e).1 hm
    refine ⟨i, ed, he, ?_⟩
    simp only [mkE, Bool.or_eq_true, Bool.and_eq_true, beq_iff_eq, Bool.not_eq_true'] at hc
    rcases hc with ⟨rfl, rfl⟩ | ⟨⟨hd, rfl⟩, rfl⟩
    · left; rw [Nat.mul_comm]
    · right; exact ⟨hd, by rw [Nat.add_comm]⟩

/-! ### the table of `Graph` is consistent -/

theorem graphTable_consistent (s : State) (h : Inv s) :
    TableConsistent (List.range s.nodes.length) (graphTable s) where
  ids := g_ids s
  refs := g_refs s
  index := g_index s h
  compact := g_compact s
  erefs := g_erefs s h
  eix := g_eix s h
  nbrs := g_nbrs s h
  nbrsOut := g_nbrsOut s h
  nbrsIn := g_nbrsIn s h
  edges := g_edges s h
  edgesOut := g_edgesOut s h
  edgesIn := g_edgesIn s h
  adj := g_adj s h

/-- the iterators behind the rows never fault (no out-of-bounds access, every `next` walk terminates), for any
queried node, so the empty-row default of `GView.okOr` is never used; and `adjacency_matrix` never panics -/
theorem graphTable_no_fault (s : State) (h : Inv s) (a : Nat) (k : Bool) :
    (∃ l, neighborsDirected s a k = .ok l) ∧ (∃ l, edgesDirected s a k = .ok l) ∧
      ∀ x ∈ adjMatrix s, x < s.nodes.length * s.nodes.length := by
  refine ⟨?_, ?_, adjMatrix_in_range s h⟩
  · by_cases ha : s.nodes.length ≤ a
    · exact ⟨[], h.neighborsDirected_absent k ha⟩
    · obtain ⟨c0, c1, hc⟩ := chains_exist s h a (by omega)
      have hend : ∀ k', chain s.edges k' s.fuel s.endv = .ok [] := fun k' => h.chain_end k' s.edges.length
      unfold neighborsDirected nbrIter
      cases s.directed <;> cases k <;> simp [hc.run0, hc.run1, hend]
  · by_cases ha : s.nodes.length ≤ a
    · exact ⟨[], h.edgesDirected_absent k ha⟩
    · obtain ⟨c0, c1, hc⟩ := chains_exist s h a (by omega)
      exact ⟨_, edgesDirected_eq hc k⟩

/-- **C06 for `Graph`, all histories**: after every finite history of public calls (adds, removals, `update_edge`,
`reverse`, `clear*`, `retain_*`, `filter_map`, …, with arbitrary arguments) from any constructor, for every index
width and both edge types, the `visit` traits of the graph describe one consistent graph -/
theorem graphTable_consistent_all_histories (endv : Nat) (directed : Bool) (ops : List G.Op) :
    TableConsistent (List.range (run (G.empty endv directed) ops).1.nodes.length)
      (graphTable (run (G.empty endv directed) ops).1) :=
  graphTable_consistent _ (C01T.C01_inv_all_histories endv directed ops)

/-- and none of the iterators faults there -/
theorem graphTable_no_fault_all_histories (endv : Nat) (directed : Bool) (ops : List G.Op) (a : Nat) (k : Bool) :
    (∃ l, neighborsDirected (run (G.empty endv directed) ops).1 a k = .ok l) ∧
    (∃ l, edgesDirected (run (G.empty endv directed) ops).1 a k = .ok l) :=
  let r := graphTable_no_fault _ (C01T.C01_inv_all_histories endv directed ops) a k
  ⟨r.1, r.2.1⟩

end PetgraphModel.Visit
