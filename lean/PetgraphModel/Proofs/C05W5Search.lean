import PetgraphModel.Spec.C05Scope
import PetgraphModel.Proofs.CsrOps
/-
C05, wave 5 — `slice::binary_search` by its documented contract.

The mirror runs a textbook binary search (`CsrM.binaryPos`) where `csr.rs` calls `<[T]>::binary_search`.  Here: ANY
search function that meets the documented contract of `binary_search` returns, on a strictly ascending slice, exactly
what the mirror's search returns (the `Ok` position and the `Err` insertion point are unique there), hence
`find_edge_pos` — and with it every mutating call of the model — is the same function whichever such search is used.
-/
set_option linter.style.nameCheck false
namespace PetgraphModel.CsrProofs
open PetgraphModel.CsrM PetgraphModel.C05Scope

/-- the documented contract of `<[T]>::binary_search`, for one call on the slice `xs` with the key `b`:
"If the value is found then `Ok` is returned, containing the index of the matching element. … If the value is not
found then `Err` is returned, containing the index where a matching element could be inserted while maintaining
sorted order." -/
def BSAnswer (xs : List Nat) (b : Nat) : Pos → Prop
  | .found i => xs[i]? = some b
  | .absent i => b ∉ xs ∧ i ≤ xs.length ∧ (xs.insertIdx i b).Pairwise (· ≤ ·)

/-- a search function meets the contract on every strictly ascending slice (rows of a `Csr` are strictly ascending
by the representation invariant; nothing is assumed about other inputs) -/
def MeetsContract (search : List Nat → Nat → Pos) : Prop :=
  ∀ xs b, Asc xs → BSAnswer xs b (search xs b)

theorem insertIdx_eq_take_drop' {α : Type} (l : List α) (i : Nat) (x : α) (h : i ≤ l.length) :
    l.insertIdx i x = l.take i ++ x :: l.drop i := by
  induction l generalizing i with
  | nil => simp at h; subst h; simp
  | cons y ys ih =>
    cases i with
    | zero => simp
    | succ i => simp at h; simp [ih i h]

/-- the split characterisation of `lb`: everything before `i` below `b`, nothing from `i` on below `b` -/
theorem lb_of_split (b : Nat) (xs : List Nat) (i : Nat) (hi : i ≤ xs.length)
    (h1 : ∀ y ∈ xs.take i, y < b) (h2 : ∀ y ∈ xs.drop i, ¬ y < b) : lb b xs = i := by
  induction xs generalizing i with
  | nil => simp at hi; subst hi; rfl
  | cons x xs ih =>
    cases i with
    | zero =>
      have := h2 x (by simp)
      simp [lb, this]
    | succ i =>
      have hx : x < b := h1 x (by simp)
      simp only [lb, hx, if_true]
      congr 1
      apply ih i (by simpa using hi)
      · intro y hy; exact h1 y (by simp [hy])
      · intro y hy; exact h2 y (by simpa using hy)

/-- what `Err(i)` of the contract means element by element -/
theorem BSAnswer.absent_split {xs : List Nat} {b i : Nat} (h : BSAnswer xs b (.absent i)) :
    i ≤ xs.length ∧ (∀ y ∈ xs.take i, y < b) ∧ (∀ y ∈ xs.drop i, b < y) := by
  obtain ⟨hnot, hi, hp⟩ := h
  rw [insertIdx_eq_take_drop' xs i b hi, List.pairwise_append] at hp
  obtain ⟨_, h2, h3⟩ := hp
  refine ⟨hi, ?_, ?_⟩
  · intro y hy
    have hle := h3 y hy b (List.mem_cons_self ..)
    have : y ≠ b := fun e => hnot (e ▸ List.mem_of_mem_take hy)
    omega
  · intro y hy
    have hle := (List.pairwise_cons.mp h2).1 y hy
    have : y ≠ b := fun e => hnot (e ▸ List.mem_of_mem_drop hy)
    omega

/-- **on a strictly ascending slice the contract determines the answer**: it is the answer of the linear scan
(and of the mirror's binary search). -/
theorem BSAnswer.unique {xs : List Nat} {b : Nat} (hs : Asc xs) {p : Pos} (h : BSAnswer xs b p) :
    p = linearPos b xs 0 := by
  rw [linearPos_eq]
  cases p with
  | found i =>
    have h' : xs[i]? = some b := h
    have hil : i < xs.length := by
      rcases Nat.lt_or_ge i xs.length with h1 | h1
      · exact h1
      · rw [List.getElem?_eq_none h1] at h'; cases h'
    have hib : xs[i] = b := by rw [List.getElem?_eq_getElem hil] at h'; exact Option.some.inj h'
    have hlb : lb b xs = i := by
      apply lb_unique _ _ _ (by omega)
      · intro j hj hjm; rw [← hib]; exact hs.get_lt hj hil hjm
      · intro _; omega
    simp [hlb, h']
  | absent i =>
    obtain ⟨hi, h1, h2⟩ := BSAnswer.absent_split h
    have hlb : lb b xs = i := lb_of_split b xs i hi h1 (fun y hy => by have := h2 y hy; omega)
    have hnot : b ∉ xs := h.1
    have : ¬ xs[lb b xs]? = some b := fun e => hnot ((mem_iff_lb xs b hs).mp e)
    rw [if_neg this, hlb, Nat.zero_add]

/-- the mirror's search (either branch, any cut-off) meets the contract -/
theorem searchPos_meets (c : Nat) : MeetsContract (searchPos c) := by
  intro xs b h
  rw [searchPos_eq_linear c xs b h, linearPos_eq]
  by_cases hf : xs[lb b xs]? = some b
  · simp only [hf, if_true, Nat.zero_add]; exact hf
  · simp only [hf, if_false, Nat.zero_add]
    have hnot : b ∉ xs := fun hm => hf ((mem_iff_lb xs b h).mpr hm)
    refine ⟨hnot, lb_le b xs, ?_⟩
    let r : Row := xs.map fun x => (x, (0 : Int))
    have hk : keys r = xs := by simp [r, keys, Function.comp_def]
    have h1 := asc_insRow b 0 r (by rw [hk]; exact h) (by rw [hk]; exact hnot)
    rw [← insertIdx_lb] at h1
    have h2 : keys (r.insertIdx (lb b (keys r)) (b, 0)) = (keys r).insertIdx (lb b (keys r)) b := by
      unfold keys; rw [map_insertIdx']
    rw [h2, hk] at h1
    exact List.Pairwise.imp (fun h => Nat.le_of_lt h) h1

/-- **any search meeting the documented contract of `binary_search` is, on strictly ascending slices, the mirror's
search** -/
theorem contract_search_eq (search : List Nat → Nat → Pos) (hc : MeetsContract search) (c : Nat) (xs : List Nat)
    (b : Nat) (hs : Asc xs) :
    search xs b = searchPos c xs b ∧ search xs b = binaryPos xs b (xs.length + 1) 0 xs.length := by
  have h1 := BSAnswer.unique hs (hc xs b hs)
  refine ⟨by rw [h1, searchPos_eq_linear c xs b hs], ?_⟩
  have := searchPos_eq_linear 0 xs b hs
  simp only [searchPos, Nat.not_lt_zero, if_false] at this
  rw [h1, this]

/-! ### `find_edge_pos` and the mutating calls with an arbitrary contract-meeting search -/

/-- the search `find_edge_pos` runs, with `search` in place of `slice::binary_search` -/
def searchPosWith (search : List Nat → Nat → Pos) (cutoff : Nat) (nb : List Nat) (b : Nat) : Pos :=
  if nb.length < cutoff then linearPos b nb 0 else search nb b

/-- `find_edge_pos(a, b)` with `search` in place of `slice::binary_search` -/
def findEdgePosWith (search : List Nat → Nat → Pos) (s : State) (a b : Nat) : Option Pos :=
  match neighborsOf s a with
  | none => none
  | some (index, nb) => some ((searchPosWith search s.cutoff nb b).shift index)

theorem searchPosWith_eq (search : List Nat → Nat → Pos) (hc : MeetsContract search) (c : Nat) (xs : List Nat)
    (b : Nat) (hs : Asc xs) : searchPosWith search c xs b = searchPos c xs b := by
  unfold searchPosWith searchPos
  split
  · rfl
  · exact (contract_search_eq search hc 0 xs b hs).2

theorem Rep.neighborsOf_ge {s : State} {R : List Row} (h : Rep s R) (a : Nat) (ha : R.length ≤ a) :
    neighborsOf s a = none := by
  simp [neighborsOf, h.range_ge a ha]

/-- under the representation invariant (`Rep` + strictly ascending rows — also in the intermediate state of an
undirected `try_add_edge`, where the symmetry is momentarily broken) `find_edge_pos` does not depend on which
contract-meeting search is used -/
theorem Rep.findEdgePosWith_eq {s : State} {R : List Row} (h : Rep s R) (ok : RowsOK R)
    (search : List Nat → Nat → Pos) (hc : MeetsContract search) (a b : Nat) :
    findEdgePosWith search s a b = findEdgePos s a b := by
  unfold findEdgePosWith findEdgePos
  by_cases ha : a < R.length
  · rw [h.neighborsOf_lt a ha]
    simp only [searchPosWith_eq search hc _ _ _ (ok _ (List.getElem_mem ha)).1]
  · rw [h.neighborsOf_ge a (by omega)]

/-- `add_edge_` with `search` -/
def addEdge_With (search : List Nat → Nat → Pos) (s : State) (a b : Nat) (w : Int) :
    Option (State × Except (Nat × Nat) Bool) :=
  if ¬ (a < s.nodeCount ∧ b < s.nodeCount) then some (s, .error (a, b))
  else match findEdgePosWith search s a b with
    | none => none
    | some (.found _) => some (s, .ok false)
    | some (.absent pos) =>
      if pos ≤ s.column.length ∧ pos ≤ s.edges.length ∧ a + 1 ≤ s.row.length then
        some ({ s with column := s.column.insertIdx pos b,
                       edges := s.edges.insertIdx pos w,
                       row := s.row.take (a + 1) ++ (s.row.drop (a + 1)).map (· + 1) }, .ok true)
      else none

/-- `try_add_edge` with `search` -/
def tryAddEdgeWith (search : List Nat → Nat → Pos) (s : State) (a b : Nat) (w : Int) :
    Option (State × Except (Nat × Nat) Bool) :=
  match addEdge_With search s a b w with
  | none => none
  | some (s1, .error e) => some (s1, .error e)
  | some (s1, .ok ret) =>
    let s2 := if ret && !s1.directed then { s1 with edgeCount := s1.edgeCount + 1 } else s1
    if ret && !s2.directed && a != b then
      match addEdge_With search s2 b a w with
      | none => none
      | some (s3, .error e) => some (s3, .error e)
      | some (s3, .ok ret2) =>
        if s.debug && ret2 != ret then none else some (s3, .ok ret)
    else some (s2, .ok ret)

/-- `add_edge` = `try_add_edge(..).unwrap()` with `search` -/
def addEdgeWith (search : List Nat → Nat → Pos) (s : State) (a b : Nat) (w : Int) : Option (State × Bool) :=
  match tryAddEdgeWith search s a b w with
  | some (s', .ok r) => some (s', r)
  | _ => none

/-- one mutating public call with `search` (the other calls do not search) -/
def stepWith (search : List Nat → Nat → Pos) (s : State) : Op → State × Out
  | .addEdge a b w => match addEdgeWith search s a b w with
    | some (s', r) => (s', .bool r) | none => (s, .panic)
  | .tryAddEdge a b w => match tryAddEdgeWith search s a b w with
    | some (s', r) => (s', .res r) | none => (s, .panic)
  | op => step s op

def runWith (search : List Nat → Nat → Pos) (s : State) : List Op → State × List Out
  | [] => (s, [])
  | op :: ops =>
    let (s1, o) := stepWith search s op
    let (s2, os) := runWith search s1 ops
    (s2, o :: os)

theorem Rep.addEdge_With_eq {s : State} {R : List Row} (h : Rep s R) (ok : RowsOK R)
    (search : List Nat → Nat → Pos) (hc : MeetsContract search) (a b : Nat) (w : Int) :
    addEdge_With search s a b w = addEdge_ s a b w := by
  unfold addEdge_With addEdge_
  rw [h.findEdgePosWith_eq ok search hc a b]
  rfl

theorem Good.tryAddEdgeWith_eq {s : State} {R : List Row} (g : Good s R)
    (search : List Nat → Nat → Pos) (hc : MeetsContract search) (a b : Nat) (w : Int) :
    tryAddEdgeWith search s a b w = tryAddEdge s a b w := by
  unfold tryAddEdgeWith tryAddEdge
  rw [g.rep.addEdge_With_eq g.ok search hc a b w]
  by_cases hr : a < R.length ∧ b < R.length
  · by_cases hin : b ∈ keys (R[a]'(hr.1))
    · rw [g.rep.addEdge__present g.ok a b w hr.1 hr.2 hin]
      simp
    · obtain ⟨s', e, rep', hd, hm, hcut, hdbg, hnw, hec, hlen⟩ := g.rep.addEdge__absent g.ok a b w hr.1 hr.2 hin
      rw [e]
      have ok' : RowsOK (insAt R a b w) := g.ok.insAt a b w hr.1 hr.2 hin
      simp only
      have hrep2 : Rep (if true && !s'.directed then { s' with edgeCount := s'.edgeCount + 1 } else s') (insAt R a b w) := by
        split
        · exact ⟨rep'.col, rep'.wts, rep'.row, rep'.nw⟩
        · exact rep'
      simp only [Bool.true_and] at hrep2 ⊢
      rw [hrep2.addEdge_With_eq ok' search hc b a w]
      rfl
  · rw [addEdge__oob s a b w (by rw [g.rep.nodeCount]; exact hr)]

theorem Good.stepWith_eq {s : State} {R : List Row} (g : Good s R)
    (search : List Nat → Nat → Pos) (hc : MeetsContract search) (op : Op) :
    stepWith search s op = step s op := by
  cases op with
  | addEdge a b w =>
    have : addEdgeWith search s a b w = CsrM.addEdge s a b w := by
      unfold addEdgeWith CsrM.addEdge; rw [g.tryAddEdgeWith_eq search hc]; rfl
    simp only [stepWith, step]; rw [this]; rfl
  | tryAddEdge a b w => simp only [stepWith, step]; rw [g.tryAddEdgeWith_eq search hc]; rfl
  | addNode w => rfl
  | clearEdges => rfl
  | setWeight a w => rfl

/-! ### the spec-level judge of the `bsearch` lines -/

/-- **the judge of the `bsearch` lines is sound and complete**: on a sorted slice, `bsContractB` accepts an answer iff
the answer meets the documented contract of `binary_search` (the `→` direction needs sortedness only for "inserting
keeps the order"; `←` holds for every slice) -/
theorem bsContractB_iff (xs : List Nat) (x : Nat) (p : Pos) (hs : xs.Pairwise (· ≤ ·)) :
    bsContractB xs x p = true ↔ BSAnswer xs x p := by
  cases p with
  | found i => simp [bsContractB, BSAnswer]
  | absent i =>
    constructor
    · intro h
      simp only [bsContractB, Bool.and_eq_true, decide_eq_true_eq, List.all_eq_true] at h
      obtain ⟨⟨hi, h1⟩, h2⟩ := h
      have hsplit : xs = xs.take i ++ xs.drop i := (List.take_append_drop i xs).symm
      refine ⟨?_, hi, ?_⟩
      · intro hm
        rw [hsplit, List.mem_append] at hm
        rcases hm with hm | hm
        · have := h1 x hm; omega
        · have := h2 x hm; omega
      · rw [insertIdx_eq_take_drop' xs i x hi, List.pairwise_append]
        rw [hsplit, List.pairwise_append] at hs
        obtain ⟨hs1, hs2, hs3⟩ := hs
        refine ⟨hs1, List.pairwise_cons.mpr ⟨fun y hy => Nat.le_of_lt (h2 y hy), hs2⟩, ?_⟩
        intro a ha c hc
        rcases List.mem_cons.mp hc with rfl | hc
        · exact Nat.le_of_lt (h1 a ha)
        · exact hs3 a ha c hc
    · intro h
      obtain ⟨hi, h1, h2⟩ := BSAnswer.absent_split h
      simp only [bsContractB, Bool.and_eq_true, decide_eq_true_eq, List.all_eq_true]
      exact ⟨⟨hi, h1⟩, h2⟩

end PetgraphModel.CsrProofs
