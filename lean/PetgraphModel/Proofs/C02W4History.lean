import PetgraphModel.Proofs.C02W4Extend
/-
C02 wave 4, part 5: histories that mix mutating calls, panicking variants and queries (`Call`): every such history is
fault-free and a run of the reference machine.
-/
namespace PetgraphModel.SGProofs
open PetgraphModel PetgraphModel.SG PetgraphModel.SGSpec

/-! ### histories of calls -/

/-- one call of the public API in the reference: a mutating call is a transition `SpecStep` (and `extend_with_edges` panics
exactly when the request does not fit, leaving exactly the processed prefix: `SpecExtendP`), a panicking variant a transition
`SpecPStep`, a query an observation `SpecQuery` that leaves the state unchanged -/
def SpecCall (fin : Nat) (sp : Spec) : Call → COut → Spec → Prop
  | .op o, .op out, sp' => SpecStep fin sp o out sp' ∧
      ∀ l, o = .extendWithEdges l →
        ((out = .panic) ↔ extendFits fin sp.edgeCount l = false) ∧ (out = .panic → SpecExtendP fin sp l sp')
  | .p c, .p out, sp' => SpecPStep fin sp c out sp'
  | .q x, .q out, sp' => SpecQuery sp x out ∧ sp' = sp
  | _, _, _ => False

inductive SpecCalls (fin : Nat) : Spec → List Call → List COut → Spec → Prop
  | nil (sp : Spec) : SpecCalls fin sp [] [] sp
  | cons {sp sp1 sp2 : Spec} {c : Call} {out : COut} {cs : List Call} {outs : List COut} :
      SpecCall fin sp c out sp1 → SpecCalls fin sp1 cs outs sp2 → SpecCalls fin sp (c :: cs) (out :: outs) sp2

theorem callStep_refines {s : State} (hinv : Inv s) (c : Call) :
    ∃ s' out, callStep s c = .ok (s', out) ∧ Inv s' ∧ s'.fin = s.fin ∧ SpecCall s.fin (abs s) c out (abs s') := by
  cases c with
  | op o =>
    obtain ⟨s', out, h, hinv'⟩ := step_inv_all hinv o
    refine ⟨s', .op out, by simp [callStep, h, mapOk], hinv', step_fin hinv h, step_refines hinv h, ?_⟩
    rintro l rfl
    obtain ⟨s1, p, h1, _, _, hp, _, hpan⟩ := extendWithEdges_general l hinv
    rw [(counts_abs hinv).2] at hp
    simp only [step, h1] at h
    cases p with
    | false =>
      simp only [Except.ok.injEq, Prod.mk.injEq] at h
      obtain ⟨rfl, rfl⟩ := h
      have : extendFits s.fin (abs s).edgeCount l = true := by simpa using hp
      simp [this]
    | true =>
      simp only [Except.ok.injEq, Prod.mk.injEq] at h
      obtain ⟨rfl, rfl⟩ := h
      have : extendFits s.fin (abs s).edgeCount l = false := by simpa using hp
      exact ⟨by simp [this], fun _ => hpan rfl⟩
  | p c =>
    obtain ⟨s', out, h, hinv', hfin, href, _⟩ := pstep_refines hinv c
    exact ⟨s', .p out, by simp [callStep, h, mapOk], hinv', hfin, href⟩
  | q x =>
    obtain ⟨out, h, href⟩ := query_refines hinv x
    exact ⟨s, .q out, by simp [callStep, h, mapOk], hinv, rfl, href, rfl⟩

/-- **all histories of calls** (mutating calls, panicking variants, queries, in any order, with any arguments): no fault, the
invariant holds at the end, and answers and states are a run of the reference machine -/
theorem runCalls_refines : ∀ (cs : List Call) {s : State}, Inv s →
    ∃ s' outs, runCalls s cs = .ok (s', outs) ∧ Inv s' ∧ s'.fin = s.fin ∧ outs.length = cs.length ∧
      SpecCalls s.fin (abs s) cs outs (abs s') := by
  intro cs
  induction cs with
  | nil => intro s hinv; exact ⟨s, [], rfl, hinv, rfl, rfl, .nil _⟩
  | cons c cs ih =>
    intro s hinv
    obtain ⟨s1, o, h1, hinv1, hfin1, href1⟩ := callStep_refines hinv c
    obtain ⟨s2, os, h2, hinv2, hfin2, hlen, href2⟩ := ih hinv1
    rw [hfin1] at href2
    exact ⟨s2, o :: os, by simp [runCalls, h1, h2], hinv2, by rw [hfin2, hfin1], by simp [hlen], .cons href1 href2⟩

end PetgraphModel.SGProofs
