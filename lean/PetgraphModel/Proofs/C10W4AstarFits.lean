import PetgraphModel.Proofs.C10AstarTerm
import PetgraphModel.Proofs.C10W4Bounded
/-
Bounded cost types, `astar` (wave 4): a static sufficient condition for the overflow-checked model not
to abort.  Every g-score is a non-negative integer at most `(#adom − 1) · totalW` (invariant `TI` of the
termination proof), so every sum `g + w` is at most `#adom · totalW` and every estimate `g + w + h`
at most `#adom · totalW + H` when `0 ≤ h ≤ H`.
-/
namespace PetgraphModel.C10P
open PetgraphModel PetgraphModel.MGraph PetgraphModel.SP

/-- the heuristic takes values in `0..H`, and `#adom · totalW + H` fits the cost type -/
def AstarFits (g : MGraph) (s : Nat) (h : Nat → Int) (M : Int) : Prop :=
  ∃ H, (∀ x, 0 ≤ h x ∧ h x ≤ H) ∧ ((adom g s).length : Int) * totalW g + H ≤ M

theorem astarRelaxG_fits {g : MGraph} (hw : NonNeg g) (v : View) {s : Nat} {h : Nat → Int} {node : Nat} {gn : Int}
    (M : Int) (hfit : AstarFits g s h M) :
    ∀ (rows : List (Nat × Nat)) (st : AState), TI g s st → amGet st.scores node = some gn →
      (∀ be, be ∈ rows → (node, be.1, v.weight be.2) ∈ g.arcs) →
      astarRelaxG (addB M) v h node gn rows st = some (astarRelax v h node gn rows st) := by
  obtain ⟨H, hH, hM⟩ := hfit
  intro rows
  induction rows with
  | nil => intro st _ _ _; rfl
  | cons hd rest ih =>
    intro st T hsc harcs
    obtain ⟨next, eid⟩ := hd
    have harc : (node, next, v.weight eid) ∈ g.arcs := harcs (next, eid) (List.mem_cons_self ..)
    have harcs' : ∀ be, be ∈ rest → (node, be.1, v.weight be.2) ∈ g.arcs :=
      fun be hbe => harcs be (List.mem_cons_of_mem _ hbe)
    have hw0 : 0 ≤ v.weight eid := hw _ _ _ harc
    obtain ⟨hwW, hW0⟩ := le_totalW hw _ harc
    simp only at hwW
    have hgn0 := T.nonneg node gn hsc
    have hb := T.bound node gn hsc
    have hlen : (st.scores.length : Int) * totalW g ≤ ((adom g s).length : Int) * totalW g :=
      Int.mul_le_mul_of_nonneg_right (Int.ofNat_le.mpr (scores_len_le T)) hW0
    have hsum : gn + v.weight eid ≤ ((adom g s).length : Int) * totalW g := by omega
    have h0 := hH next
    have hadd1 : addB M gn (v.weight eid) = some (gn + v.weight eid) := by
      have hc : 0 ≤ gn + v.weight eid ∧ gn + v.weight eid ≤ M := ⟨by omega, by omega⟩
      unfold addB
      rw [if_pos hc]
    have hadd2 : addB M (gn + v.weight eid) (h next) = some (gn + v.weight eid + h next) := by
      have hc : 0 ≤ gn + v.weight eid + h next ∧ gn + v.weight eid + h next ≤ M := ⟨by omega, by omega⟩
      unfold addB
      rw [if_pos hc]
    simp only [astarRelaxG, astarRelax, hadd1]
    cases hold : amGet st.scores next with
    | none =>
      simp only [Bool.false_eq_true, if_false, hadd2]
      obtain ⟨T1, _, hsc1⟩ := ti_upd (h := h) hw T hsc harc (fun old ho => by rw [hold] at ho; cases ho)
      exact ih _ T1 hsc1 harcs'
    | some old =>
      simp only
      by_cases hle : old ≤ gn + v.weight eid
      · simp only [hle, decide_true, if_true]
        exact ih st T hsc harcs'
      · simp only [hle, decide_false, Bool.false_eq_true, if_false, hadd2]
        have hl : ∀ old', amGet st.scores next = some old' → gn + v.weight eid < old' := by
          intro old' ho; rw [hold] at ho; cases ho; omega
        obtain ⟨T1, _, hsc1⟩ := ti_upd (h := h) hw T hsc harc hl
        exact ih _ T1 hsc1 harcs'

theorem astarLoopG_fits {pop : Pop} {v : View} (hv : ViewArcs v) (hw : NonNeg v.g)
    (s : Nat) (isGoal : Nat → Bool) (h : Nat → Int) (M : Int) (hfit : AstarFits v.g s h M) :
    ∀ (fuel : Nat) (st : AState), TI v.g s st →
      astarLoopG (addB M) pop v isGoal h fuel st = some (astarLoop pop v isGoal h fuel st) := by
  intro fuel
  induction fuel with
  | zero => intro st _; rfl
  | succ f ih =>
    intro st T
    simp only [astarLoopG, astarLoop]
    cases hpop : pop st.heap with
    | none => rfl
    | some eh =>
      obtain ⟨⟨e, node⟩, h'⟩ := eh
      simp only
      have Tpop : TI v.g s { st with heap := h' } := ⟨T.nonneg, T.bound, T.keysNodup, T.keysDom, T.cameNodup, T.rank⟩
      by_cases hgoal : isGoal node = true
      · simp only [hgoal, if_true]
        cases hsc : amGet st.scores node with
        | none => rfl
        | some cost =>
          simp only
          cases reconstruct st.came (st.came.length + 1) node [node] <;> rfl
      · have hgoal' : isGoal node = false := by simpa using hgoal
        simp only [hgoal', Bool.false_eq_true, if_false]
        cases hsc : amGet st.scores node with
        | none => rfl
        | some gn =>
          simp only
          have harcs : ∀ be, be ∈ v.outOf node → (node, be.1, v.weight be.2) ∈ v.g.arcs :=
            fun be hbe => (hv node be.1 (v.weight be.2)).mp ⟨be.2, hbe, rfl⟩
          have T1 : TI v.g s { scores := st.scores, est := amSet st.est node e, came := st.came, heap := h' } :=
            ⟨T.nonneg, T.bound, T.keysNodup, T.keysDom, T.cameNodup, T.rank⟩
          have expand :
              (match astarRelaxG (addB M) v h node gn (v.outOf node)
                  { scores := st.scores, est := amSet st.est node e, came := st.came, heap := h' } with
                | none => none
                | some st => astarLoopG (addB M) pop v isGoal h f st) =
              some (astarLoop pop v isGoal h f (astarRelax v h node gn (v.outOf node)
                  { scores := st.scores, est := amSet st.est node e, came := st.came, heap := h' })) := by
            rw [astarRelaxG_fits hw v M hfit _ _ T1 hsc harcs]
            simp only
            exact ih _ (trelax (h := h) hw v (v.outOf node) _ T1 hsc harcs).1
          cases hest : amGet st.est node with
          | none => simp only; exact expand
          | some e0 =>
            simp only
            by_cases hle : e0 ≤ e
            · simp only [hle, if_true]
              exact ih _ Tpop
            · simp only [hle, if_false]
              exact expand

/-- **no abort under the static bound** (astar): a heuristic with values in `0..H` and
`#adom · totalW + H ≤ M` never aborts the overflow-checked model, which therefore is the `Int` model -/
theorem astarG_fits {pop : Pop} {v : View} (hv : ViewArcs v) (hw : NonNeg v.g)
    (s : Nat) (isGoal : Nat → Bool) (h : Nat → Int) (M : Int) (hfit : AstarFits v.g s h M) (fuel : Nat) :
    astarG (addB M) pop v s isGoal h fuel = some (astar pop v s isGoal h fuel) := by
  unfold astarG astar
  exact astarLoopG_fits hv hw s isGoal h M hfit fuel _ (ti_init v.g hw s h)

end PetgraphModel.C10P
