import PetgraphModel.Model.UnionFind
/-
Generic lemmas about parent-pointer forests (`parent : List Nat`) with an abstract rank function
`ρ : Nat → Nat`: the root relation, termination measure, `findLoop`, `halveLoop`, linking.
-/
namespace PetgraphModel.UFBase
open PetgraphModel PetgraphModel.UF

/-- well-formed forest: parents in range, rank strictly increases along non-trivial links -/
structure WF (parent : List Nat) (ρ : Nat → Nat) : Prop where
  parentLt : ∀ (x p : Nat), parent[x]? = some p → p < parent.length
  rankLt : ∀ (x p : Nat), parent[x]? = some p → p ≠ x → ρ x < ρ p

/-- `IsRoot parent x r`: following parent links from `x` ends in the self-loop `r` -/
inductive IsRoot (parent : List Nat) : Nat → Nat → Prop
  | root {x : Nat} : parent[x]? = some x → IsRoot parent x x
  | step {x p r : Nat} : parent[x]? = some p → p ≠ x → IsRoot parent p r → IsRoot parent x r

theorem lt_of_getElem?_eq_some {l : List Nat} {x p : Nat} (h : l[x]? = some p) : x < l.length := by
  have := @List.getElem?_eq_none _ l x
  grind

theorem IsRoot.lt {parent x r} (h : IsRoot parent x r) : x < parent.length := by
  cases h with
  | root h => exact lt_of_getElem?_eq_some h
  | step h _ _ => exact lt_of_getElem?_eq_some h

theorem IsRoot.self {parent x r} (h : IsRoot parent x r) : parent[r]? = some r := by
  induction h with
  | root h => exact h
  | step _ _ _ ih => exact ih

theorem IsRoot.root_lt {parent x r} (h : IsRoot parent x r) : r < parent.length :=
  lt_of_getElem?_eq_some h.self

theorem IsRoot.root_root {parent x r} (h : IsRoot parent x r) : IsRoot parent r r :=
  .root h.self

theorem IsRoot.functional {parent x r r'} (h : IsRoot parent x r) (h' : IsRoot parent x r') :
    r = r' := by
  induction h with
  | root h =>
    cases h' with
    | root _ => rfl
    | step h1 hne _ => simp_all
  | step h hne _ ih =>
    cases h' with
    | root h1 => simp_all
    | step h1 hne1 h2 =>
      have : some _ = some _ := h.symm.trans h1
      cases this
      exact ih h2

theorem IsRoot.of_self {parent x r} (hx : parent[x]? = some x) (h : IsRoot parent x r) : r = x :=
  h.functional (.root hx)

theorem IsRoot.rank_le {parent ρ x r} (wf : WF parent ρ) (h : IsRoot parent x r) : ρ x ≤ ρ r := by
  induction h with
  | root _ => exact Nat.le_refl _
  | step h hne _ ih => have := wf.rankLt _ _ h hne; omega

theorem IsRoot.rank_lt {parent ρ x r} (wf : WF parent ρ) (h : IsRoot parent x r) (hne : x ≠ r) :
    ρ x < ρ r := by
  cases h with
  | root _ => exact absurd rfl hne
  | step h hne' h2 => have := wf.rankLt _ _ h hne'; have := h2.rank_le wf; omega

/-- the parent of an element has the same root -/
theorem IsRoot.parent {parent x p r} (h : IsRoot parent x r) (hp : parent[x]? = some p) :
    IsRoot parent p r := by
  cases h with
  | root h => simp_all; exact .root h
  | step h1 _ h2 =>
    have : some _ = some _ := h1.symm.trans hp
    cases this; exact h2

/-! ### termination measure: number of elements of strictly larger rank -/

theorem countP_lt {α} {p q : α → Bool} : ∀ (l : List α), (∀ a ∈ l, p a = true → q a = true) →
    ∀ z, z ∈ l → q z = true → p z = false → l.countP p < l.countP q
  | [], _, z, hz, _, _ => by simp at hz
  | a :: l, h, z, hz, hq, hp => by
    rw [List.countP_cons, List.countP_cons]
    have hmono : l.countP p ≤ l.countP q :=
      List.countP_mono_left (fun x hx => h x (List.mem_cons_of_mem _ hx))
    have ha := h a List.mem_cons_self
    rcases List.mem_cons.mp hz with rfl | hz'
    · simp [hq, hp]; omega
    · have := countP_lt l (fun x hx => h x (List.mem_cons_of_mem _ hx)) z hz' hq hp
      by_cases hpa : p a = true
      · simp [hpa, ha hpa]; omega
      · simp [hpa]; omega

def above (ρ : Nat → Nat) (n x : Nat) : Nat := (List.range n).countP (fun y => decide (ρ x < ρ y))

theorem above_le (ρ n x) : above ρ n x ≤ n := by
  have := @List.countP_le_length _ (fun y => decide (ρ x < ρ y)) (List.range n)
  simpa [above] using this

theorem above_lt {ρ n x y} (hy : y < n) (h : ρ x < ρ y) : above ρ n y < above ρ n x := by
  unfold above
  apply countP_lt _ _ y (List.mem_range.mpr hy)
  · simpa using h
  · simp
  · intro a _ ha
    simp at ha ⊢; omega

/-! ### `findLoop` computes the root -/

theorem findLoop_spec {parent ρ} (wf : WF parent ρ) : ∀ fuel x, x < parent.length →
    above ρ parent.length x < fuel → ∃ r, findLoop parent fuel x = .ok r ∧ IsRoot parent x r
  | 0, _, _, h => by omega
  | fuel+1, x, hx, hf => by
    have hpx : parent[x]? = some parent[x] := List.getElem?_eq_getElem hx
    unfold findLoop
    rw [hpx]
    by_cases hself : parent[x] = x
    · exact ⟨x, by simp [hself], .root (by rw [hpx, hself])⟩
    · have hlt := wf.parentLt _ _ hpx
      have hr := wf.rankLt _ _ hpx hself
      have := above_lt (n := parent.length) hlt hr
      obtain ⟨r, h1, h2⟩ := findLoop_spec wf fuel parent[x] hlt (by omega)
      exact ⟨r, by simp [hself, h1], .step hpx hself h2⟩

theorem root_exists {parent ρ} (wf : WF parent ρ) {x} (hx : x < parent.length) :
    ∃ r, IsRoot parent x r := by
  obtain ⟨r, _, h⟩ := findLoop_spec wf (parent.length + 1) x hx
    (by have := above_le ρ parent.length x; omega)
  exact ⟨r, h⟩

theorem findLoop_eq {parent ρ} (wf : WF parent ρ) {x r} (h : IsRoot parent x r) {fuel}
    (hf : parent.length < fuel) : findLoop parent fuel x = .ok r := by
  obtain ⟨r', h1, h2⟩ := findLoop_spec wf fuel x h.lt
    (by have := above_le ρ parent.length x; omega)
  rw [h1, h.functional h2]

/-! ### re-pointing an element at something with the same root and larger rank -/

theorem isRoot_set_of_rank {parent ρ x g} (wf : WF parent ρ) {z r} (h : IsRoot parent z r)
    (hρ : ρ x < ρ z) : IsRoot (parent.set x g) z r := by
  induction h with
  | @root z h =>
    refine .root ?_
    rw [List.getElem?_set_ne (by rintro rfl; omega)]; exact h
  | @step z p r h hne _ ih =>
    have := wf.rankLt _ _ h hne
    refine .step ?_ hne (ih (by omega))
    rw [List.getElem?_set_ne (by rintro rfl; omega)]; exact h

theorem set_preserve {parent ρ x g r} (wf : WF parent ρ) (hx : IsRoot parent x r)
    (hg : IsRoot parent g r) (hne : g ≠ x) (hρ : ρ x < ρ g) :
    WF (parent.set x g) ρ ∧ ∀ z r', IsRoot parent z r' → IsRoot (parent.set x g) z r' := by
  have hxl := hx.lt
  refine ⟨⟨?_, ?_⟩, ?_⟩
  · intro y p hy
    rw [List.length_set]
    rw [List.getElem?_set] at hy
    split at hy
    · simp at hy; subst hy; exact hg.lt
    · exact wf.parentLt _ _ hy
  · intro y p hy hpy
    rw [List.getElem?_set] at hy
    split at hy
    · simp at hy; subst hy; subst_vars; exact hρ
    · exact wf.rankLt _ _ hy hpy
  · intro z r' h
    induction h with
    | @root z h =>
      by_cases hzx : z = x
      · subst hzx
        have := hx.of_self h
        subst this
        have := hg.rank_le wf
        omega
      · refine .root ?_
        rw [List.getElem?_set_ne (Ne.symm hzx)]; exact h
    | @step z p r' h hpz h2 ih =>
      by_cases hzx : z = x
      · subst hzx
        have : r' = r := (IsRoot.step h hpz h2).functional hx
        subst this
        refine .step (List.getElem?_set_self hxl) hne ?_
        exact isRoot_set_of_rank wf hg hρ
      · refine .step ?_ hpz ih
        rw [List.getElem?_set_ne (Ne.symm hzx)]; exact h

/-- pointing an element directly at its root -/
theorem set_root_preserve {parent ρ x r} (wf : WF parent ρ) (hx : IsRoot parent x r) :
    WF (parent.set x r) ρ ∧ ∀ z r', IsRoot parent z r' → IsRoot (parent.set x r) z r' := by
  by_cases hne : r = x
  · subst hne
    have h := hx.self
    have hl := hx.lt
    have : parent.set r r = parent := by
      have h2 : parent[r] = r := by
        have := List.getElem?_eq_getElem hl
        rw [this] at h; exact Option.some.inj h
      conv => lhs; arg 3; rw [← h2]
      exact List.set_getElem_self hl
    rw [this]; exact ⟨wf, fun _ _ h => h⟩
  · exact set_preserve wf hx hx.root_root hne (hx.rank_lt wf (Ne.symm hne))

/-! ### path halving -/

theorem halveLoop_spec {ρ : Nat → Nat} : ∀ (fuel : Nat) (parent : List Nat) (x p : Nat), WF parent ρ → parent[x]? = some p →
    above ρ parent.length x < fuel →
    ∃ par' r, halveLoop parent fuel x p = .ok (par', r) ∧ WF par' ρ ∧
      par'.length = parent.length ∧ IsRoot parent x r ∧
      (∀ z r', IsRoot parent z r' → IsRoot par' z r') ∧
      (∀ (j pj : Nat), parent[j]? = some pj → parent[pj]? = some pj → par'[j]? = some pj)
  | 0, _, _, _, _, _, h => by omega
  | fuel+1, parent, x, p, wf, hp, hf => by
    unfold halveLoop
    by_cases hpx : p = x
    · subst hpx
      exact ⟨parent, p, by simp, wf, rfl, .root hp, fun _ _ h => h, fun _ _ h _ => h⟩
    · have hxl := lt_of_getElem?_eq_some hp
      have hpl := wf.parentLt _ _ hp
      have hgp : parent[p]? = some parent[p] := List.getElem?_eq_getElem hpl
      obtain ⟨r, hxr⟩ := root_exists wf hxl
      have hpr := hxr.parent hp
      have hgr := hpr.parent hgp
      have hρ1 := wf.rankLt _ _ hp hpx
      have hρ2 : ρ p ≤ ρ parent[p] := by
        by_cases h : parent[p] = p
        · rw [h]; exact Nat.le_refl _
        · exact Nat.le_of_lt (wf.rankLt _ _ hgp h)
      have hgx : parent[p] ≠ x := by intro h; rw [h] at hρ2; omega
      obtain ⟨wf1, pres1⟩ := set_preserve wf hxr hgr hgx (by omega)
      have hp1 : (parent.set x parent[p])[p]? = some parent[p] := by
        rw [List.getElem?_set_ne (Ne.symm hpx)]; exact hgp
      have hm := above_lt (n := parent.length) hpl hρ1
      obtain ⟨par', r', h1, wf', hlen, hr', pres2, fix2⟩ :=
        halveLoop_spec fuel (parent.set x parent[p]) p parent[p] wf1 hp1
          (by rw [List.length_set]; omega)
      have hrr : r' = r := hr'.functional (pres1 _ _ hpr)
      subst hrr
      refine ⟨par', r', ?_, wf', by rw [hlen, List.length_set], hxr,
        fun z r'' h => pres2 _ _ (pres1 _ _ h), ?_⟩
      · simp [hpx, hgp, hxl, h1]
      · intro j pj hj hpj
        apply fix2
        · by_cases hjx : j = x
          · subst hjx
            have : pj = p := by rw [hp] at hj; exact (Option.some.inj hj).symm
            subst this
            rw [List.getElem?_set_self hxl]
            rw [hgp] at hpj; exact hpj
          · rw [List.getElem?_set_ne (Ne.symm hjx)]; exact hj
        · by_cases hjx : pj = x
          · subst hjx
            have : p = pj := by rw [hp] at hpj; exact Option.some.inj hpj
            exact absurd this hpx
          · rw [List.getElem?_set_ne (Ne.symm hjx)]; exact hpj

/-! ### linking root `a` below root `b` -/

theorem link_roots {parent : List Nat} {a b : Nat} (ha : parent[a]? = some a) (hb : parent[b]? = some b)
    (hab : a ≠ b) {z r} (h : IsRoot parent z r) :
    IsRoot (parent.set a b) z (if r = a then b else r) := by
  have hal := lt_of_getElem?_eq_some ha
  have hb' : IsRoot (parent.set a b) b b :=
    .root (by rw [List.getElem?_set_ne hab]; exact hb)
  induction h with
  | @root z h =>
    by_cases hza : z = a
    · subst hza
      simp only [if_true]
      exact .step (List.getElem?_set_self hal) (Ne.symm hab) hb'
    · simp only [hza, if_false]
      exact .root (by rw [List.getElem?_set_ne (Ne.symm hza)]; exact h)
  | @step z p r h hne _ ih =>
    have hza : z ≠ a := by
      rintro rfl
      rw [ha] at h; exact hne (Option.some.inj h).symm
    exact .step (by rw [List.getElem?_set_ne (Ne.symm hza)]; exact h) hne ih

theorem link_wf {parent : List Nat} {ρ ρ' : Nat → Nat} {a b : Nat} (wf : WF parent ρ) (ha : parent[a]? = some a)
    (hb : parent[b]? = some b) (hab : a ≠ b) (hρa : ρ' a < ρ' b)
    (hρ : ∀ x, x ≠ b → ρ' x = ρ x) (hρb : ρ b ≤ ρ' b) : WF (parent.set a b) ρ' := by
  have hal := lt_of_getElem?_eq_some ha
  have hbl := lt_of_getElem?_eq_some hb
  refine ⟨?_, ?_⟩
  · intro y p hy
    rw [List.length_set]
    rw [List.getElem?_set] at hy
    split at hy
    · simp at hy; subst hy; exact hbl
    · exact wf.parentLt _ _ hy
  · intro y p hy hpy
    rw [List.getElem?_set] at hy
    split at hy
    · simp at hy; subst hy; subst_vars; exact hρa
    · have := wf.rankLt _ _ hy hpy
      have hyb : y ≠ b := by
        rintro rfl
        rw [hb] at hy; exact hpy (Option.some.inj hy).symm
      rw [hρ y hyb]
      by_cases hpb : p = b
      · subst hpb; omega
      · rw [hρ p hpb]; exact this

end PetgraphModel.UFBase
