import PetgraphModel.Proofs.SerdeTrip
/-
Helper lemmas for C17 (part 7): under the invariant the executable walkers of the model (the debug-build free-list
self check, the `Edges` and `Neighbors` iterators) never fault and compute exactly the lists the invariant names.
-/
namespace PetgraphModel.SerdeProofs
open PetgraphModel.Serde

theorem idxDesc_length_le {α} (p : α → Bool) (l : List α) (n : Nat) : (idxDesc p l n).length ≤ n := by
  induction n with
  | zero => simp [idxDesc]
  | succ n ih =>
    unfold idxDesc
    split
    · simp only [List.length_cons]; omega
    · omega

theorem filter_add_filter_not {α} (p : α → Bool) (l : List α) :
    (l.filter p).length + (l.filter (fun x => !p x)).length = l.length := by
  induction l with
  | nil => rfl
  | cons x xs ih =>
    simp only [List.filter_cons, List.length_cons]
    cases p x <;> simp <;> omega

theorem idxDesc_length {α} (p : α → Bool) (l : List α) (n : Nat) :
    (idxDesc p l n).length = ((l.take n).filter p).length := by
  induction n with
  | zero => simp [idxDesc]
  | succ n ih =>
    unfold idxDesc
    rw [List.take_add_one, List.filter_append, List.length_append]
    unfold hit
    cases hn : l[n]? with
    | none => simp [ih]
    | some s =>
      cases hp : p s <;> simp [ih, hp]

theorem vacantN_length (nodes : List NodeSlot) :
    (vacantN nodes).length + (nodes.filter (fun (n : NodeSlot) => n.w.isSome)).length = nodes.length := by
  unfold vacantN
  rw [idxDesc_length, List.take_length]
  have := filter_add_filter_not (fun (n : NodeSlot) => n.w.isNone) nodes
  have e : (fun (x : NodeSlot) => !x.w.isNone) = (fun (n : NodeSlot) => n.w.isSome) := by
    funext x; cases x.w <;> rfl
  rw [e] at this
  exact this

theorem vacantE_length (edges : List EdgeSlot) :
    (vacantE edges).length + (edges.filter (fun (e : EdgeSlot) => e.w.isSome)).length = edges.length := by
  unfold vacantE
  rw [idxDesc_length, List.take_length]
  have := filter_add_filter_not (fun (n : EdgeSlot) => n.w.isNone) edges
  have e : (fun (x : EdgeSlot) => !x.w.isNone) = (fun (n : EdgeSlot) => n.w.isSome) := by
    funext x; cases x.w <;> rfl
  rw [e] at this
  exact this

theorem checkFreeNodes_ok (s : Stable) (hlen : s.g.nodes.length ≤ s.g.END) {prev h : Nat} {l : List Nat}
    (c : DChain s.g.nodes s.g.END prev h l) :
    ∀ (fuel len : Nat), l.length < fuel → checkFreeNodes s fuel h prev len = .ok (len + l.length) := by
  induction c with
  | nil p =>
    intro fuel len hf
    cases fuel with
    | zero => omega
    | succ f => simp [checkFreeNodes]
  | cons p h x l hx hw hp _ ih =>
    intro fuel len hf
    cases fuel with
    | zero => omega
    | succ f =>
      have hne : h ≠ s.g.END := by
        have := (List.getElem?_eq_some_iff.1 hx).1
        omega
      unfold checkFreeNodes
      rw [if_neg hne]
      simp only [hx, hw, Option.isNone_none, if_true, hp, ne_eq, not_true_eq_false, if_false]
      rw [ih f (len + 1) (by simp at hf; omega)]
      simp; omega

theorem checkFreeEdges_ok (s : Stable) (hlen : s.g.edges.length ≤ s.g.END) {h : Nat} {l : List Nat}
    (c : Chain s.g.edges s.g.END 0 h l) (hv : ∀ e x, e ∈ l → s.g.edges[e]? = some x → x.w = none) :
    ∀ (fuel len : Nat), l.length < fuel → checkFreeEdges s fuel h len = .ok (len + l.length) := by
  induction c with
  | nil =>
    intro fuel len hf
    cases fuel with
    | zero => omega
    | succ f => simp [checkFreeEdges]
  | cons e x l hx _ ih =>
    intro fuel len hf
    cases fuel with
    | zero => omega
    | succ f =>
      have hne : e ≠ s.g.END := by
        have := (List.getElem?_eq_some_iff.1 hx).1
        omega
      have hw := hv e x (List.mem_cons_self ..) hx
      unfold checkFreeEdges
      rw [if_neg hne]
      simp only [hx, hw, Option.isNone_none, if_true]
      have : x.next 0 = x.n0 := rfl
      rw [← this, ih (fun e' x' he' => hv e' x' (List.mem_cons_of_mem _ he')) f (len + 1) (by simp at hf; omega)]
      simp; omega

/-- the debug-build self check `check_free_lists` passes on every loaded `StableGraph` -/
theorem StableDe.checkFreeLists_ok {END : Nat} {directed : Bool} {s : Stable} (D : StableDe END directed s) :
    s.checkFreeLists = .ok () := by
  have hE := D.hEND
  have hN : s.g.nodes.length ≤ s.g.END := by have := D.lenN; omega
  have hEd : s.g.edges.length ≤ s.g.END := by have := D.lenE; omega
  have cN : DChain s.g.nodes s.g.END s.g.END s.freeNode (vacantN s.g.nodes) := hE ▸ D.freeNodes
  have cE : Chain s.g.edges s.g.END 0 s.freeEdge (vacantE s.g.edges) := hE ▸ D.freeEdges
  have lN := idxDesc_length_le (fun (n : NodeSlot) => n.w.isNone) s.g.nodes s.g.nodes.length
  have lE := idxDesc_length_le (fun (n : EdgeSlot) => n.w.isNone) s.g.edges s.g.edges.length
  unfold Stable.checkFreeLists
  rw [checkFreeNodes_ok s hN cN _ 0 (by unfold vacantN; omega)]
  simp only [Nat.zero_add]
  have h1 := vacantN_length s.g.nodes
  have h2 := vacantE_length s.g.edges
  rw [if_neg (by unfold vacantN; omega)]
  rw [if_neg (by rw [D.nodeCount]; omega)]
  rw [checkFreeEdges_ok s hEd cE (by
    intro e x he hx
    obtain ⟨y, hy, hyv⟩ := ((exact_vacantE s.g.edges).2 e).1 he
    rw [hx] at hy; cases hy; exact hyv) _ 0 (by unfold vacantE; omega)]
  simp only [Nat.zero_add]
  rw [if_neg (by unfold vacantE; omega)]
  rw [if_neg (by rw [D.edgeCount]; omega)]


/-! ### the iterators on a linked structure -/

def srcOf (edges : List EdgeSlot) (e : Nat) : Nat := match edges[e]? with | some s => s.src | none => 0
def tgtOf (edges : List EdgeSlot) (e : Nat) : Nat := match edges[e]? with | some s => s.tgt | none => 0
def tripleOf (edges : List EdgeSlot) (swap : Bool) (e : Nat) : Nat × Nat × Nat :=
  if swap then (e, tgtOf edges e, srcOf edges e) else (e, srcOf edges e, tgtOf edges e)

def AllLive (edges : List EdgeSlot) (l : List Nat) : Prop :=
  ∀ e x, e ∈ l → edges[e]? = some x → x.w.isSome = true

theorem AllLive.tail {edges : List EdgeSlot} {e : Nat} {l : List Nat} (h : AllLive edges (e :: l)) : AllLive edges l :=
  fun e' x he' hx => h e' x (List.mem_cons_of_mem _ he') hx

theorem edgesOut_chain (edges : List EdgeSlot) (END : Nat) (swap : Bool) (hlen : edges.length ≤ END) {h : Nat} {l : List Nat}
    (c : Chain edges END 0 h l) (hl : AllLive edges l) :
    ∀ fuel, l.length < fuel → edgesOut edges swap fuel h = .ok (l.map (tripleOf edges swap)) := by
  induction c with
  | nil =>
    intro fuel hf
    cases fuel with
    | zero => omega
    | succ f => simp [edgesOut, List.getElem?_eq_none hlen]
  | cons e x l hx _ ih =>
    intro fuel hf
    cases fuel with
    | zero => omega
    | succ f =>
      have hw := hl e x (List.mem_cons_self ..) hx
      have hnn : x.w.isNone = false := by cases hh : x.w <;> simp_all
      unfold edgesOut
      simp only [hx, hnn, Bool.false_eq_true, if_false]
      have : x.next 0 = x.n0 := rfl
      rw [← this, ih hl.tail f (by simp at hf; omega)]
      simp only [List.map_cons, tripleOf, srcOf, tgtOf, hx]

theorem edgesIn_chain (edges : List EdgeSlot) (END : Nat) (swap : Bool) (skip : Option Nat) (hlen : edges.length ≤ END)
    {h : Nat} {l : List Nat} (c : Chain edges END 1 h l) (hl : AllLive edges l) :
    ∀ fuel, l.length < fuel → edgesIn edges swap skip fuel h
      = .ok ((l.filter (fun e => !(skip == some (srcOf edges e)))).map (tripleOf edges swap)) := by
  induction c with
  | nil =>
    intro fuel hf
    cases fuel with
    | zero => omega
    | succ f => simp [edgesIn, List.getElem?_eq_none hlen]
  | cons e x l hx _ ih =>
    intro fuel hf
    cases fuel with
    | zero => omega
    | succ f =>
      have hw := hl e x (List.mem_cons_self ..) hx
      have hnn : x.w.isNone = false := by cases hh : x.w <;> simp_all
      unfold edgesIn
      simp only [hx, hnn, Bool.false_eq_true, if_false]
      have : x.next 1 = x.n1 := rfl
      rw [← this, ih hl.tail f (by simp at hf; omega)]
      simp only [List.filter_cons, srcOf, hx]
      by_cases hs : skip = some x.src
      · simp [hs]
      · simp only [hs, if_false]
        have : (skip == some x.src) = false := by simpa using hs
        simp only [this, Bool.not_false, if_true, List.map_cons, tripleOf, srcOf, tgtOf, hx]

theorem nbrsOut_chain (edges : List EdgeSlot) (END : Nat) (hlen : edges.length ≤ END) {h : Nat} {l : List Nat}
    (c : Chain edges END 0 h l) (hl : AllLive edges l) :
    ∀ fuel, l.length < fuel → nbrsOut edges fuel h = .ok (l.map (tgtOf edges)) := by
  induction c with
  | nil =>
    intro fuel hf
    cases fuel with
    | zero => omega
    | succ f => simp [nbrsOut, List.getElem?_eq_none hlen]
  | cons e x l hx _ ih =>
    intro fuel hf
    cases fuel with
    | zero => omega
    | succ f =>
      have hw := hl e x (List.mem_cons_self ..) hx
      have hnn : x.w.isNone = false := by cases hh : x.w <;> simp_all
      unfold nbrsOut
      simp only [hx, hnn, Bool.false_eq_true, if_false]
      have : x.next 0 = x.n0 := rfl
      rw [← this, ih hl.tail f (by simp at hf; omega)]
      simp [tgtOf, hx]

theorem nbrsIn_chain (edges : List EdgeSlot) (END : Nat) (skip : Nat) (hlen : edges.length ≤ END) {h : Nat} {l : List Nat}
    (c : Chain edges END 1 h l) (hl : AllLive edges l) :
    ∀ fuel, l.length < fuel → nbrsIn edges skip fuel h
      = .ok ((l.filter (fun e => !(srcOf edges e == skip))).map (srcOf edges)) := by
  induction c with
  | nil =>
    intro fuel hf
    cases fuel with
    | zero => omega
    | succ f => simp [nbrsIn, List.getElem?_eq_none hlen]
  | cons e x l hx _ ih =>
    intro fuel hf
    cases fuel with
    | zero => omega
    | succ f =>
      have hw := hl e x (List.mem_cons_self ..) hx
      have hnn : x.w.isNone = false := by cases hh : x.w <;> simp_all
      unfold nbrsIn
      simp only [hx, hnn, Bool.false_eq_true, if_false]
      have : x.next 1 = x.n1 := rfl
      rw [← this, ih hl.tail f (by simp at hf; omega)]
      simp only [List.filter_cons, srcOf, hx]
      by_cases hs : x.src = skip
      · simp [hs]
      · simp [hs, srcOf, hx]

theorem incident_allLive (edges : List EdgeSlot) (k i : Nat) : AllLive edges (incident edges k i) := by
  intro e x he hx
  obtain ⟨_, y, hy, hp⟩ := (mem_idxDesc _ _ _ _).1 he
  rw [hx] at hy; cases hy
  simp only [incP, Bool.and_eq_true] at hp
  exact hp.1

theorem incident_length_le (edges : List EdgeSlot) (k i : Nat) : (incident edges k i).length ≤ edges.length :=
  idxDesc_length_le _ _ _

/-- on a linked structure the iterators of a live node never fault -/
theorem Linked.iterators_ok {END : Nat} {g : Raw} (hE : g.END = END) (L : Linked END g.nodes g.edges)
    (hlen : g.edges.length ≤ END) (i : Nat) (nd : NodeSlot) (hi : g.nodes[i]? = some nd) (hl : nd.w.isSome = true) :
    (∃ o, g.edgesDirected i true = .ok o) ∧ (∃ o, g.edgesDirected i false = .ok o) ∧
    (∃ o, g.neighborsUndirected i = .ok o) := by
  obtain ⟨c0, c1⟩ := L.heads i nd hi hl
  have l0 := incident_length_le g.edges 0 i
  have l1 := incident_length_le g.edges 1 i
  have a0 := incident_allLive g.edges 0 i
  have a1 := incident_allLive g.edges 1 i
  refine ⟨?_, ?_, ?_⟩
  · unfold Raw.edgesDirected
    simp only [hi, hl, if_true]
    cases g.directed with
    | true =>
      simp only [if_true]
      exact ⟨_, edgesOut_chain g.edges END false hlen c0 a0 _ (by omega)⟩
    | false =>
      simp only [Bool.false_eq_true, if_false]
      rw [edgesOut_chain g.edges END _ hlen c0 a0 _ (by omega),
          edgesIn_chain g.edges END _ _ hlen c1 a1 _ (by omega)]
      exact ⟨_, rfl⟩
  · unfold Raw.edgesDirected
    simp only [hi, hl, if_true]
    cases g.directed with
    | true =>
      simp only [if_true, Bool.false_eq_true, if_false]
      exact ⟨_, edgesIn_chain g.edges END false none hlen c1 a1 _ (by omega)⟩
    | false =>
      simp only [Bool.false_eq_true, if_false]
      rw [edgesOut_chain g.edges END _ hlen c0 a0 _ (by omega),
          edgesIn_chain g.edges END _ _ hlen c1 a1 _ (by omega)]
      exact ⟨_, rfl⟩
  · unfold Raw.neighborsUndirected
    simp only [hi, hl, if_true]
    rw [nbrsOut_chain g.edges END hlen c0 a0 _ (by omega), nbrsIn_chain g.edges END i hlen c1 a1 _ (by omega)]
    exact ⟨_, rfl⟩

theorem mem_enum_filterMap_w (nodes : List NodeSlot) : ∀ (j i : Nat) (w : Int),
    (i, w) ∈ (enumFrom j nodes).filterMap (fun (x : Nat × NodeSlot) => x.2.w.map fun w => (x.1, w)) →
    ∃ nd, j ≤ i ∧ nodes[i - j]? = some nd ∧ nd.w = some w := by
  induction nodes with
  | nil => intro j i w h; simp [enumFrom] at h
  | cons n ns ih =>
    intro j i w h
    simp only [enumFrom, List.filterMap_cons] at h
    cases hw : n.w with
    | none =>
      simp only [hw, Option.map_none] at h
      obtain ⟨nd, h1, h2, h3⟩ := ih (j + 1) i w h
      refine ⟨nd, by omega, ?_, h3⟩
      have : i - j = (i - (j + 1)) + 1 := by omega
      rw [this]; simpa using h2
    | some x =>
      simp only [hw, Option.map_some, List.mem_cons, Prod.mk.injEq] at h
      rcases h with ⟨rfl, rfl⟩ | h
      · exact ⟨n, Nat.le_refl _, by simp, hw⟩
      · obtain ⟨nd, h1, h2, h3⟩ := ih (j + 1) i w h
        refine ⟨nd, by omega, ?_, h3⟩
        have : i - j = (i - (j + 1)) + 1 := by omega
        rw [this]; simpa using h2

theorem adjOf_ok {END : Nat} {g : Raw} (hE : g.END = END) (L : Linked END g.nodes g.edges)
    (hlen : g.edges.length ≤ END) :
    ∀ (l : List (Nat × Int)), (∀ i w, (i, w) ∈ l → ∃ nd, g.nodes[i]? = some nd ∧ nd.w.isSome = true) →
      ∃ a, adjOf g l = .ok a := by
  intro l
  induction l with
  | nil => intro _; exact ⟨[], rfl⟩
  | cons p ps ih =>
    intro h
    obtain ⟨i, w⟩ := p
    obtain ⟨nd, hi, hl⟩ := h i w (List.mem_cons_self ..)
    obtain ⟨⟨o1, h1⟩, ⟨o2, h2⟩, ⟨o3, h3⟩⟩ := L.iterators_ok hE hlen i nd hi hl
    obtain ⟨r, hr⟩ := ih (fun i' w' h' => h i' w' (List.mem_cons_of_mem _ h'))
    exact ⟨(i, o1, o2, o3) :: r, by simp only [adjOf, h1, h2, h3, hr]⟩

theorem Linked.obs_ok {END : Nat} {g : Raw} (hE : g.END = END) (L : Linked END g.nodes g.edges)
    (hlen : g.edges.length ≤ END) : ∃ a, adjOf g (liveNodes g) = .ok a := by
  apply adjOf_ok hE L hlen
  intro i w h
  obtain ⟨nd, _, h2, h3⟩ := mem_enum_filterMap_w g.nodes 0 i w h
  exact ⟨nd, by simpa using h2, by simp [h3]⟩

end PetgraphModel.SerdeProofs
