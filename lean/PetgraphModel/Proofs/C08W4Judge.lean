import PetgraphModel.Proofs.C08W4Acc
import PetgraphModel.Proofs.C08W3Driver
/-
C08 (wave 4): soundness of the executable event-replay checker `C08.judgeEvents`.

`judgeEvents g starts script evs res = none` (the driver's `ok` for a `dfsv` answer, as far as the
specification is concerned) implies that `evs` is accepted by the reference machine of
`C08W2Machine` on SOME neighbour order of the abstract graph `g` (`ordView g ord`, every neighbour
list a permutation of `g.succ`), ending in a state that matches `res`.  All clause theorems of
`C08W4Acc` therefore hold of every accepted implementation answer.

The judge never looks at a neighbour order: per open call it keeps the multiset of edge targets
reported so far.  The machine consumes the neighbour list of a node in order.  The order is
therefore chosen *from the stream*: the proof goes by induction on the remaining events, the
induction hypothesis delivering, for every open call, the list of targets still to come.
-/
namespace PetgraphModel.TravProofs
open PetgraphModel PetgraphModel.Trav PetgraphModel.C08

/-! ### a view of `g` with prescribed neighbour orders -/

def ordView (g : MGraph) (ord : List (Nat × List Nat)) : View :=
  { g := g, nb := 0, ix := [],
    out := (ord ++ ((g.edges.flatMap fun e => [e.src, e.tgt]).map fun a => (a, g.succ a))).map
      fun p => (p.1, p.2.map fun w => (w, 0)),
    inn := [] }

theorem lookup_dflt (g : MGraph) (a : Nat) : ∀ (l : List Nat),
    ((l.map fun a => (a, g.succ a)).map fun p => (p.1, p.2.map fun w => (w, 0))).lookup a =
      if a ∈ l then some ((g.succ a).map fun w => (w, 0)) else none := by
  intro l
  induction l with
  | nil => simp
  | cons b l ih =>
    simp only [List.map_cons, List.lookup_cons, ih, List.mem_cons]
    by_cases hab : a = b
    · subst hab; simp
    · have : (a == b) = false := by simpa using hab
      simp [this, hab]

theorem ordView_nil_succ (g : MGraph) (a : Nat) : (ordView g []).succ a = g.succ a := by
  simp only [View.succ, View.outOf, ordView, List.nil_append, lookup_dflt]
  split
  · simp [Function.comp_def]
  · rename_i h
    simp only [Option.getD_none, List.map_nil]
    symm
    rw [List.eq_nil_iff_forall_not_mem]
    intro b hb
    obtain ⟨e, he, hh⟩ := MGraph.mem_succ.mp hb
    apply h
    simp only [List.mem_flatMap, List.mem_cons, List.not_mem_nil, or_false]
    rcases hh with ⟨h1, _⟩ | ⟨_, _, h2⟩
    · exact ⟨e, he, Or.inl h1.symm⟩
    · exact ⟨e, he, Or.inr h2.symm⟩

theorem ordView_cons_succ (g : MGraph) (b : Nat) (l : List Nat) (ord : List (Nat × List Nat)) (a : Nat) :
    (ordView g ((b, l) :: ord)).succ a = if a = b then l else (ordView g ord).succ a := by
  simp only [View.succ, View.outOf, ordView, List.cons_append, List.map_cons, List.lookup_cons]
  by_cases hab : a = b
  · subst hab; simp [Function.comp_def]
  · have : (a == b) = false := by simpa using hab
    simp [this, hab]

def OrdOk (g : MGraph) (ord : List (Nat × List Nat)) : Prop := ∀ p, p ∈ ord → p.2.Perm (g.succ p.1)

theorem ordView_perm (g : MGraph) : ∀ (ord : List (Nat × List Nat)), OrdOk g ord →
    ∀ a, ((ordView g ord).succ a).Perm (g.succ a) := by
  intro ord
  induction ord with
  | nil => intro _ a; rw [ordView_nil_succ]
  | cons p ord ih =>
    intro h a
    obtain ⟨b, l⟩ := p
    rw [ordView_cons_succ]
    split
    · rename_i hab; subst hab; exact h (a, l) (List.mem_cons_self ..)
    · exact ih (fun q hq => h q (List.mem_cons_of_mem _ hq)) a

theorem ordView_g (g : MGraph) (ord : List (Nat × List Nat)) : (ordView g ord).g = g := rfl

theorem ordView_viewOk (g : MGraph) (ord : List (Nat × List Nat)) (h : OrdOk g ord) : ViewOk (ordView g ord) := by
  intro a b
  rw [(ordView_perm g ord h a).mem_iff]
  exact MGraph.mem_succ

/-! ### the machine consults the view only at undiscovered nodes -/

theorem step_congr {v1 v2 : View} {starts : List Nat} {c : Ctl} {m : MS} (e : Ev)
    (h : ∀ a, a ∉ m.disc → v1.succ a = v2.succ a) : step v1 starts c m e = step v2 starts c m e := by
  cases e with
  | discover n t =>
    simp only [step]
    by_cases hn : n ∈ m.disc
    · simp [hn]
    · rw [h n hn]
  | finish n t => rfl
  | tree a w => rfl
  | back a w => rfl
  | cross a w => rfl

theorem step_disc_mono {v : View} {starts : List Nat} {c : Ctl} {m m' : MS} {e : Ev}
    (h : step v starts c m e = some m') : ∀ a, a ∈ m.disc → a ∈ m'.disc := by
  intro a ha
  cases e with
  | discover n t => obtain ⟨_, _, _, rfl⟩ := step_discover h; exact List.mem_cons_of_mem _ ha
  | finish n t => obtain ⟨_, _, _, _, _, rfl⟩ := step_finish h; exact ha
  | tree x w => obtain ⟨_, _, _, _, _, rfl⟩ := step_tree h; exact ha
  | back x w => obtain ⟨_, _, _, _, _, _, rfl⟩ := step_back h; exact ha
  | cross x w => obtain ⟨_, _, _, _, _, _, rfl⟩ := step_cross h; exact ha

theorem run_congr {v1 v2 : View} {starts : List Nat} {script : List Ctl} :
    ∀ (l : List Ev) (m : MS) (k : Nat), (∀ a, a ∉ m.disc → v1.succ a = v2.succ a) →
      run v1 starts script m k l = run v2 starts script m k l := by
  intro l
  induction l with
  | nil => intro m k _; rfl
  | cons e l ih =>
    intro m k h
    simp only [run]
    rw [step_congr e h]
    cases hs : step v2 starts (ctlAt script k) m e with
    | none => rfl
    | some m' =>
      simp only [Option.bind_some]
      exact ih m' (k + 1) (fun a ha => h a (fun hm => ha (step_disc_mono hs a hm)))


/-! ### judge state vs machine state -/

/-- the judge's open calls against the machine's: same nodes, and for each call the targets already
reported (oldest first) followed by the machine's list of neighbours still to examine is a permutation
of the node's successors in the abstract graph -/
def StkRel (g : MGraph) : List (Nat × List Nat × Bool) → List (Nat × List Nat) → Prop
  | [], [] => True
  | (u, seen, _) :: js, (u', ws) :: ms => u' = u ∧ (seen.reverse ++ ws).Perm (g.succ u) ∧ StkRel g js ms
  | _, _ => False

/-- the mode the judge state encodes -/
def modeOf (s : JS) : Mode :=
  match s.pending with
  | some w => .expectDisc w
  | none => match s.stack with
    | (_, _, true) :: _ => .expectFin
    | _ => .run

structure JInv (g : MGraph) (starts : List Nat) (s : JS) : Prop where
  rel : ∃ stk, StkRel g s.stack stk
  sl : ∀ x, x ∈ s.startsLeft → x ∈ starts
  below : ∀ en, en ∈ s.stack.tail → en.2.2 = false
  pend : ∀ w, s.pending = some w → ∃ u seen rest, s.stack = (u, seen, false) :: rest
  covered : ∀ x, x ∈ starts → x ∈ s.startsLeft ∨ x ∈ s.disc

def msOf (s : JS) (stk : List (Nat × List Nat)) (md : Mode) : MS := ⟨stk, s.disc, s.fin, s.time, md⟩

/-! ### elimination lemmas for the judge's step functions -/

theorem jDiscover_ok {ctl : Ctl} {s s' : JS} {u t : Nat} (h : jDiscover ctl s u t = .ok s') :
    t = s.time ∧ u ∉ s.disc ∧
    ((s.pending = some u ∧ s'.startsLeft = s.startsLeft) ∨
     (s.pending = none ∧ s.stack = [] ∧
       s.startsLeft.dropWhile (fun x => s.disc.contains x) = u :: s'.startsLeft)) ∧
    s'.disc = u :: s.disc ∧ s'.fin = s.fin ∧ s'.time = s.time + 1 ∧
    s'.stack = (u, [], ctl == .prune) :: s.stack ∧ s'.pending = none := by
  unfold jDiscover at h
  split at h
  · cases h
  rename_i ht
  split at h
  · cases h
  rename_i hd
  have ht' : t = s.time := by simpa using ht
  have hd' : u ∉ s.disc := by simpa using hd
  split at h
  · rename_i w hp
    split at h
    · cases h
    rename_i hw
    have hw' : u = w := by simpa using hw
    subst hw'
    simp only [Except.ok.injEq] at h
    subst h
    exact ⟨ht', hd', Or.inl ⟨hp, rfl⟩, rfl, rfl, rfl, rfl, rfl⟩
  · rename_i hp
    split at h
    · cases h
    rename_i hst
    have hst' : s.stack = [] := by simpa using hst
    split at h
    · rename_i x r hdw
      split at h
      · cases h
      rename_i hx
      have hx' : x = u := by simpa using hx
      subst hx'
      simp only [Except.ok.injEq] at h
      subst h
      exact ⟨ht', hd', Or.inr ⟨hp, hst', hdw⟩, rfl, rfl, rfl, rfl, hp⟩
    · cases h

theorem jEdge_ok {g : MGraph} {ctl : Ctl} {s s' : JS} {cls u w : Nat} (h : jEdge g ctl s cls u w = .ok s') :
    s.pending = none ∧ ∃ seen rest, s.stack = (u, seen, false) :: rest ∧
      seen.count w < (g.succ u).count w ∧
      cls = (if w ∉ s.disc then 0 else if w ∉ s.fin then 1 else 2) ∧
      s' = { s with stack := (u, w :: seen, false) :: rest,
                    pending := if cls == 0 && ctl == .cont then some w else none } := by
  unfold jEdge at h
  split at h
  · cases h
  rename_i hp
  split at h
  · rename_i top seen pruned rest hst
    split at h
    · cases h
    rename_i htop
    have htop' : top = u := by simpa using htop
    subst htop'
    split at h
    · cases h
    rename_i hpr
    have hpr' : pruned = false := by simpa using hpr
    subst hpr'
    split at h
    · cases h
    rename_i hcnt
    split at h
    · cases h
    rename_i hcls
    simp only [Except.ok.injEq] at h
    refine ⟨hp, seen, rest, hst, by omega, ?_, h.symm⟩
    have : cls = edgeWant s w := by simpa using hcls
    rw [this, edgeWant]
    by_cases h1 : w ∈ s.disc <;> by_cases h2 : w ∈ s.fin <;> simp [h1, h2]
  · cases h

theorem jFinish_ok {g : MGraph} {s s' : JS} {u t : Nat} (h : jFinish g s u t = .ok s') :
    s.pending = none ∧ t = s.time ∧ ∃ seen pruned rest, s.stack = (u, seen, pruned) :: rest ∧
      (pruned = false → seen.Perm (g.succ u)) ∧
      s' = { s with time := s.time + 1, fin := u :: s.fin, stack := rest } := by
  unfold jFinish at h
  split at h
  · cases h
  rename_i hp
  split at h
  · cases h
  rename_i ht
  have ht' : t = s.time := by simpa using ht
  split at h
  · rename_i top seen pruned rest hst
    split at h
    · cases h
    rename_i htop
    have htop' : top = u := by simpa using htop
    subst htop'
    split at h
    · cases h
    rename_i hss
    simp only [Except.ok.injEq] at h
    refine ⟨hp, ht', seen, pruned, rest, hst, ?_, h.symm⟩
    intro hpf
    subst hpf
    simp only [Bool.not_false, Bool.true_and, Bool.not_eq_true', Bool.not_eq_false] at hss
    exact sameSet_perm hss
  · cases h


/-! ### small list facts -/

theorem mem_of_mem_dropWhile {p : Nat → Bool} {x : Nat} : ∀ {l : List Nat}, x ∈ l.dropWhile p → x ∈ l := by
  intro l h
  exact (List.dropWhile_sublist p).subset h

theorem mem_dropWhile_or {p : Nat → Bool} {x : Nat} : ∀ {l : List Nat}, x ∈ l → x ∈ l.dropWhile p ∨ p x = true := by
  intro l
  induction l with
  | nil => intro h; cases h
  | cons a l ih =>
    intro h
    by_cases hp : p a = true
    · rw [List.dropWhile_cons_of_pos hp]
      rcases List.mem_cons.mp h with h | h
      · exact Or.inr (h ▸ hp)
      · exact ih h
    · rw [List.dropWhile_cons_of_neg hp]
      exact Or.inl h

theorem stkRel_nil_left {g : MGraph} {stk : List (Nat × List Nat)} (h : StkRel g [] stk) : stk = [] := by
  cases stk with
  | nil => rfl
  | cons a l => simp [StkRel] at h

theorem stkRel_cons_left {g : MGraph} {u : Nat} {seen : List Nat} {b : Bool}
    {js : List (Nat × List Nat × Bool)} {stk : List (Nat × List Nat)}
    (h : StkRel g ((u, seen, b) :: js) stk) :
    ∃ ws ms, stk = (u, ws) :: ms ∧ (seen.reverse ++ ws).Perm (g.succ u) ∧ StkRel g js ms := by
  cases stk with
  | nil => simp [StkRel] at h
  | cons a ms =>
    obtain ⟨u', ws⟩ := a
    simp only [StkRel] at h
    obtain ⟨h1, h2, h3⟩ := h
    subst h1
    exact ⟨ws, ms, rfl, h2, h3⟩

theorem edgeWant_cases {s : JS} {w : Nat} :
    ((if w ∉ s.disc then 0 else if w ∉ s.fin then 1 else 2) = 0 → w ∉ s.disc) ∧
    ((if w ∉ s.disc then 0 else if w ∉ s.fin then 1 else 2) = 1 → w ∈ s.disc ∧ w ∉ s.fin) ∧
    ((if w ∉ s.disc then 0 else if w ∉ s.fin then 1 else 2) = 2 → w ∈ s.disc ∧ w ∈ s.fin) := by
  by_cases h1 : w ∈ s.disc <;> by_cases h2 : w ∈ s.fin <;> simp [h1, h2]

/-! ### the invariant is kept -/

theorem jstep_inv {g : MGraph} {starts : List Nat} {ctl : Ctl} {s s' : JS} {e : Ev}
    (inv : JInv g starts s) (h : jstep g ctl s e = .ok s') : JInv g starts s' := by
  obtain ⟨stk, hrel⟩ := inv.rel
  have edge : ∀ cls u w, jEdge g ctl s cls u w = .ok s' → JInv g starts s' := by
    intro cls u w h
    obtain ⟨hp, seen, rest, hst, hcnt, _, rfl⟩ := jEdge_ok h
    rw [hst] at hrel
    obtain ⟨ws, ms, rfl, hperm, hms⟩ := stkRel_cons_left hrel
    have hw : w ∈ ws := by
      have := hperm.count_eq w
      rw [List.count_append, List.count_reverse] at this
      apply List.count_pos_iff.mp
      omega
    refine ⟨⟨(u, ws.erase w) :: ms, ?_⟩, inv.sl, ?_, fun _ _ => ⟨u, w :: seen, rest, rfl⟩, inv.covered⟩
    · refine ⟨rfl, ?_, hms⟩
      rw [List.reverse_cons, List.append_assoc]
      exact (List.Perm.append_left _ (List.perm_cons_erase hw).symm).trans hperm
    · intro en hen
      exact inv.below en (by rw [hst]; exact hen)
  cases e with
  | discover u t =>
    obtain ⟨_, hud, hcase, hd, _, _, hst, hp⟩ := jDiscover_ok (show jDiscover ctl s u t = .ok s' from h)
    refine ⟨⟨(u, g.succ u) :: stk, by rw [hst]; exact ⟨rfl, by simp, hrel⟩⟩, ?_, ?_, ?_, ?_⟩
    · intro x hx
      rcases hcase with ⟨_, h1⟩ | ⟨_, _, h1⟩
      · rw [h1] at hx; exact inv.sl x hx
      · exact inv.sl x (mem_of_mem_dropWhile (by rw [h1]; exact List.mem_cons_of_mem _ hx))
    · intro en hen
      rw [hst] at hen
      simp only [List.tail_cons] at hen
      rcases hcase with ⟨h1, _⟩ | ⟨_, h1, _⟩
      · obtain ⟨a, seen, rest, hs⟩ := inv.pend u h1
        rw [hs] at hen
        rcases List.mem_cons.mp hen with h2 | h2
        · rw [h2]
        · exact inv.below en (by rw [hs]; exact h2)
      · rw [h1] at hen; cases hen
    · intro w hw; rw [hp] at hw; cases hw
    · intro x hx
      rw [hd]
      rcases inv.covered x hx with h1 | h1
      · rcases hcase with ⟨_, h2⟩ | ⟨_, _, h2⟩
        · rw [h2]; exact Or.inl h1
        · rcases mem_dropWhile_or (p := fun x => s.disc.contains x) h1 with h3 | h3
          · rw [h2] at h3
            rcases List.mem_cons.mp h3 with h4 | h4
            · exact Or.inr (h4 ▸ List.mem_cons_self ..)
            · exact Or.inl h4
          · exact Or.inr (List.mem_cons_of_mem _ (by simpa using h3))
      · exact Or.inr (List.mem_cons_of_mem _ h1)
  | tree u w => exact edge 0 u w h
  | back u w => exact edge 1 u w h
  | cross u w => exact edge 2 u w h
  | finish u t =>
    obtain ⟨hp, _, seen, pruned, rest, hst, _, rfl⟩ := jFinish_ok (show jFinish g s u t = .ok s' from h)
    rw [hst] at hrel
    obtain ⟨ws, ms, rfl, _, hms⟩ := stkRel_cons_left hrel
    refine ⟨⟨ms, hms⟩, inv.sl, ?_, ?_, inv.covered⟩
    · intro en hen
      exact inv.below en (by rw [hst]; exact List.mem_of_mem_tail hen)
    · intro w hw
      have : s.pending = some w := hw
      rw [hp] at this; cases this

/-! ### one event: the machine follows the judge -/

theorem jstep_sim {g : MGraph} {starts : List Nat} {ctl : Ctl} {s s' : JS} {e : Ev}
    (inv : JInv g starts s) (h : jstep g ctl s e = .ok s')
    (stk' : List (Nat × List Nat)) (hrel' : StkRel g s'.stack stk')
    (ord' : List (Nat × List Nat)) (hord' : OrdOk g ord') :
    ∃ stk ord, StkRel g s.stack stk ∧ OrdOk g ord ∧
      step (ordView g ord) starts ctl (msOf s stk (modeOf s)) e = some (msOf s' stk' (modeAfter ctl e)) ∧
      ∀ a, a ∉ s'.disc → (ordView g ord).succ a = (ordView g ord').succ a := by
  have edge : ∀ cls u w, jEdge g ctl s cls u w = .ok s' →
      (e = .tree u w ∧ cls = 0) ∨ (e = .back u w ∧ cls = 1) ∨ (e = .cross u w ∧ cls = 2) →
      ∃ stk ord, StkRel g s.stack stk ∧ OrdOk g ord ∧
        step (ordView g ord) starts ctl (msOf s stk (modeOf s)) e = some (msOf s' stk' (modeAfter ctl e)) ∧
        ∀ a, a ∉ s'.disc → (ordView g ord).succ a = (ordView g ord').succ a := by
    intro cls u w h he
    obtain ⟨hp, seen, rest, hst, _, hcls, rfl⟩ := jEdge_ok h
    obtain ⟨ws, ms, rfl, hperm, hms⟩ := stkRel_cons_left hrel'
    refine ⟨(u, w :: ws) :: ms, ord', ?_, hord', ?_, fun _ _ => rfl⟩
    · rw [hst]
      refine ⟨rfl, ?_, hms⟩
      rw [List.reverse_cons, List.append_assoc] at hperm
      exact hperm
    · have hmode : modeOf s = .run := by simp [modeOf, hp, hst]
      rcases he with ⟨rfl, rfl⟩ | ⟨rfl, rfl⟩ | ⟨rfl, rfl⟩
      · have := edgeWant_cases.1 hcls.symm
        simp [step, msOf, hmode, this, modeAfter]
      · have := edgeWant_cases.2.1 hcls.symm
        simp [step, msOf, hmode, this, modeAfter]
      · have := edgeWant_cases.2.2 hcls.symm
        simp [step, msOf, hmode, this, modeAfter]
  cases e with
  | discover u t =>
    obtain ⟨ht, hud, hcase, hd, hf, htm, hst, hp⟩ := jDiscover_ok (show jDiscover ctl s u t = .ok s' from h)
    rw [hst] at hrel'
    obtain ⟨ws, ms, rfl, hperm, hms⟩ := stkRel_cons_left hrel'
    simp only [List.reverse_nil, List.nil_append] at hperm
    refine ⟨ms, (u, ws) :: ord', hms, ?_, ?_, ?_⟩
    · intro p hp'
      rcases List.mem_cons.mp hp' with h1 | h1
      · rw [h1]; exact hperm
      · exact hord' p h1
    · have hsucc : (ordView g ((u, ws) :: ord')).succ u = ws := by rw [ordView_cons_succ]; simp
      have hcond : modeOf s = .expectDisc u ∨ (modeOf s = .run ∧ ms = [] ∧ u ∈ starts) := by
        rcases hcase with ⟨h1, _⟩ | ⟨h1, h2, h3⟩
        · exact Or.inl (by simp [modeOf, h1])
        · refine Or.inr ⟨by simp [modeOf, h1, h2], ?_, ?_⟩
          · rw [h2] at hms; exact stkRel_nil_left hms
          · exact inv.sl u (mem_of_mem_dropWhile (by rw [h3]; exact List.mem_cons_self ..))
      simp only [step, msOf, ht, hud, not_false_eq_true, true_and, hsucc, hd, hf, htm, modeAfter]
      rw [if_pos hcond]
    · intro a ha
      rw [ordView_cons_succ]
      have : a ≠ u := fun e => ha (by rw [hd, e]; exact List.mem_cons_self ..)
      simp [this]
  | tree u w => exact edge 0 u w h (Or.inl ⟨rfl, rfl⟩)
  | back u w => exact edge 1 u w h (Or.inr (Or.inl ⟨rfl, rfl⟩))
  | cross u w => exact edge 2 u w h (Or.inr (Or.inr ⟨rfl, rfl⟩))
  | finish u t =>
    obtain ⟨hp, ht, seen, pruned, rest, hst, hperm, rfl⟩ := jFinish_ok (show jFinish g s u t = .ok s' from h)
    obtain ⟨stk0, hrel0⟩ := inv.rel
    rw [hst] at hrel0
    obtain ⟨ws0, ms0, rfl, hperm0, _⟩ := stkRel_cons_left hrel0
    cases pruned with
    | false =>
      refine ⟨(u, []) :: stk', ord', ?_, hord', ?_, fun _ _ => rfl⟩
      · rw [hst]
        exact ⟨rfl, by simpa using (List.reverse_perm seen).trans (hperm rfl), hrel'⟩
      · have hmode : modeOf s = .run := by simp [modeOf, hp, hst]
        simp [step, msOf, hmode, ht, modeAfter]
    | true =>
      refine ⟨(u, ws0) :: stk', ord', ?_, hord', ?_, fun _ _ => rfl⟩
      · rw [hst]; exact ⟨rfl, hperm0, hrel'⟩
      · have hmode : modeOf s = .expectFin := by simp [modeOf, hp, hst]
        simp [step, msOf, hmode, ht, modeAfter]


/-- unless the traversal stops (Break, or Prune on Finish), the mode the machine is in after the
event is the one the judge's next state encodes -/
theorem jstep_mode {g : MGraph} {starts : List Nat} {ctl : Ctl} {s s' : JS} {e : Ev}
    (inv : JInv g starts s) (h : jstep g ctl s e = .ok s')
    (hb : ctl ≠ .brk) (hpf : ¬ (ctl = .prune ∧ isFinishEv e = true)) : modeAfter ctl e = modeOf s' := by
  have edge : ∀ cls u w, jEdge g ctl s cls u w = .ok s' →
      modeOf s' = if cls = 0 ∧ ctl = .cont then .expectDisc w else .run := by
    intro cls u w h
    obtain ⟨_, seen, rest, _, _, _, rfl⟩ := jEdge_ok h
    by_cases hc : cls = 0 ∧ ctl = .cont
    · simp [modeOf, hc.1, hc.2]
    · have : (cls == 0 && ctl == .cont) = false := by
        by_cases h1 : cls = 0
        · have h2 : ctl ≠ .cont := fun h2 => hc ⟨h1, h2⟩
          cases ctl <;> simp_all
        · simp [h1]
      simp [modeOf, this, hc]
  cases e with
  | discover u t =>
    obtain ⟨_, _, _, _, _, _, hst, hp⟩ := jDiscover_ok (show jDiscover ctl s u t = .ok s' from h)
    cases ctl <;> simp_all [modeAfter, afterDiscover, modeOf]
  | tree u w =>
    rw [edge 0 u w h]
    cases ctl <;> simp_all [modeAfter, afterTree]
  | back u w =>
    rw [edge 1 u w h]
    cases ctl <;> simp_all [modeAfter, afterEdge]
  | cross u w =>
    rw [edge 2 u w h]
    cases ctl <;> simp_all [modeAfter, afterEdge]
  | finish u t =>
    obtain ⟨hp, _, seen, pruned, rest, hst, _, rfl⟩ := jFinish_ok (show jFinish g s u t = .ok s' from h)
    have hc : ctl = .cont := by
      cases ctl with
      | cont => rfl
      | brk => exact absurd rfl hb
      | prune => exact absurd ⟨rfl, rfl⟩ hpf
    subst hc
    simp only [modeAfter, afterFinish, modeOf, hp]
    cases rest with
    | nil => rfl
    | cons en rest' =>
      obtain ⟨a, sn, b⟩ := en
      have := inv.below (a, sn, b) (by rw [hst]; exact List.mem_cons_self ..)
      simp only at this
      subst this
      rfl

/-- how the harness prints a result -/
def resStr : Res → String
  | .cont => "cont" | .brk => "break" | .panicPruneFinish => "panic" | .fuel => "FUEL"

/-! ### the whole stream -/

theorem jrun_sound (g : MGraph) (starts : List Nat) (script : List Ctl) (res : String) :
    ∀ (evs : List Ev) (s : JS), JInv g starts s → jrun g script res s evs = none →
      ∃ stk ord m r, StkRel g s.stack stk ∧ OrdOk g ord ∧
        run (ordView g ord) starts script (msOf s stk (modeOf s)) s.k evs = some m ∧
        ResMode r m ∧ r ≠ .fuel ∧ res = resStr r ∧ (r = .cont → ∀ x, x ∈ starts → x ∈ m.disc) := by
  intro evs
  induction evs with
  | nil =>
    intro s inv h
    simp only [jrun] at h
    split at h
    · cases h
    rename_i hp
    split at h
    · cases h
    rename_i hst
    have hst' : s.stack = [] := by simpa using hst
    split at h
    · cases h
    rename_i hdw
    split at h
    · rename_i hres
      have hres' : res = "cont" := by simpa using hres
      refine ⟨[], [], msOf s [] (modeOf s), .cont, (by rw [hst']; trivial), (fun p hp => by cases hp), rfl,
        ⟨(by simp [msOf, modeOf, hp, hst']), rfl⟩, (by simp), hres', ?_⟩
      intro _ x hx
      show x ∈ s.disc
      rcases inv.covered x hx with h1 | h1
      · rcases mem_dropWhile_or (p := fun x => s.disc.contains x) h1 with h2 | h2
        · rw [hdw] at h2; cases h2
        · simpa using h2
      · exact h1
    · cases h
  | cons e rest ih =>
    intro s inv h
    simp only [jrun] at h
    split at h
    · cases h
    rename_i s1 hs1
    have inv1 := jstep_inv inv hs1
    split at h
    · -- Break: the stream ends here
      rename_i hb
      have hb' : ctlAt script s.k = .brk := by simpa using hb
      split at h
      · cases h
      rename_i hrest
      have hrest' : rest = [] := by simpa using hrest
      subst hrest'
      split at h
      · rename_i hres
        have hres' : res = "break" := by simpa using hres
        obtain ⟨stk1, hrel1⟩ := inv1.rel
        obtain ⟨stk, ord, hrel, hord, hstep, _⟩ := jstep_sim inv hs1 stk1 hrel1 [] (fun p hp => by cases hp)
        refine ⟨stk, ord, msOf s1 stk1 (modeAfter (ctlAt script s.k) e), .brk, hrel, hord, ?_, ?_, (by simp), hres',
          (fun h => by cases h)⟩
        · simp only [run, hstep, Option.bind_some]
        · exact modeAfter_dead.mpr hb'
      · cases h
    · rename_i hb
      have hb' : ctlAt script s.k ≠ .brk := by simpa using hb
      split at h
      · -- Prune on Finish: the documented panic
        rename_i hpf
        simp only [Bool.and_eq_true, beq_iff_eq] at hpf
        split at h
        · rename_i hres
          simp only [Bool.and_eq_true, List.isEmpty_iff, beq_iff_eq] at hres
          obtain ⟨hrest', hres'⟩ := hres
          subst hrest'
          obtain ⟨stk1, hrel1⟩ := inv1.rel
          obtain ⟨stk, ord, hrel, hord, hstep, _⟩ := jstep_sim inv hs1 stk1 hrel1 [] (fun p hp => by cases hp)
          refine ⟨stk, ord, msOf s1 stk1 (modeAfter (ctlAt script s.k) e), .panicPruneFinish, hrel, hord, ?_, ?_,
            (by simp), hres', (fun h => by cases h)⟩
          · simp only [run, hstep, Option.bind_some]
          · cases e with
            | finish n t => exact modeAfter_panic.mpr ⟨hpf.1, n, t, rfl⟩
            | discover n t => simp [isFinishEv] at hpf
            | tree a w => simp [isFinishEv] at hpf
            | back a w => simp [isFinishEv] at hpf
            | cross a w => simp [isFinishEv] at hpf
        · cases h
      · rename_i hpf
        have hpf' : ¬ (ctlAt script s.k = .prune ∧ isFinishEv e = true) := by
          simpa only [Bool.and_eq_true, beq_iff_eq] using hpf
        have inv1' : JInv g starts { s1 with k := s.k + 1 } :=
          ⟨inv1.rel, inv1.sl, inv1.below, inv1.pend, inv1.covered⟩
        obtain ⟨stk1, ord1, m, r, hrel1, hord1, hrun1, hres, hrf, hrs, hcov⟩ := ih _ inv1' h
        obtain ⟨stk, ord, hrel, hord, hstep, hcongr⟩ := jstep_sim inv hs1 stk1 hrel1 ord1 hord1
        refine ⟨stk, ord, m, r, hrel, hord, ?_, hres, hrf, hrs, hcov⟩
        simp only [run, hstep, Option.bind_some]
        rw [jstep_mode inv hs1 hb' hpf']
        rw [run_congr rest _ _ (v2 := ordView g ord1) hcongr]
        exact hrun1

/-- **Soundness of the event-replay checker.**  A stream `judgeEvents` accepts is accepted by the
reference machine on a view of `g` whose neighbour lists are permutations of the abstract graph's,
with a result that is what the implementation printed; on `Continue` every start node was discovered. -/
theorem judgeEvents_sound (g : MGraph) (starts : List Nat) (script : List Ctl) (evs : List Ev) (res : String)
    (h : judgeEvents g starts script evs res = none) :
    ∃ v r, v.g = g ∧ (∀ a, (v.succ a).Perm (g.succ a)) ∧ ViewOk v ∧ Accepts v starts script evs r ∧
      r ≠ .fuel ∧ res = resStr r ∧ (r = .cont → ∀ x, x ∈ starts → x ∈ discOf evs) := by
  have inv0 : JInv g starts { startsLeft := starts } :=
    ⟨⟨[], trivial⟩, fun x hx => hx, (fun en hen => by cases hen), (fun w hw => by cases hw), fun x hx => Or.inl hx⟩
  obtain ⟨stk, ord, m, r, hrel, hord, hrun, hres, hrf, hrs, hcov⟩ := jrun_sound g starts script res evs _ inv0 h
  have hstk := stkRel_nil_left hrel
  subst hstk
  have hrun' : run (ordView g ord) starts script MS.init 0 evs = some m := hrun
  refine ⟨ordView g ord, r, rfl, ordView_perm g ord hord, ordView_viewOk g ord hord, ⟨m, hrun', hres⟩, hrf, hrs, ?_⟩
  intro hr x hx
  have := hcov hr x hx
  rw [(inv_of_run hrun').discEq, List.mem_reverse] at this
  exact this

end PetgraphModel.TravProofs
