import PetgraphModel.Proofs.SerdeTrip
import PetgraphModel.Proofs.SerdeExec
import PetgraphModel.Proofs.C17W3Obs
import PetgraphModel.Proofs.C17W2Map
/-
C17 wave 4 — WHAT a serde round trip preserves, precisely.

`IView` is the abstract indexed multigraph a storage state denotes: edge type, the live node indices with their
weights, the live edge indices with endpoints and weights, and the two bounds (which say how many trailing … no:
how far the index space reaches).  The theorems here say: a round trip preserves exactly the view —

* the loaded graph has the same view (and index type, and counts);
* the stream is a function of the view alone, so two graphs with the same view have the SAME round trip: nothing
  beyond the view (adjacency-list order, free-list order, vacancies beyond the bounds) can survive;
* the loaded graph serializes to the very same stream and is a fixed point of the round trip;
* per node, the `Edges` / `Neighbors` iterators of the loaded graph return a permutation of what they returned before.
-/
namespace PetgraphModel.SerdeProofs
open PetgraphModel PetgraphModel.Serde

/-- the abstract indexed multigraph a `Graph` / `StableGraph` denotes -/
structure IView where
  directed : Bool
  /-- live node indices (ascending) with their weights -/
  nodes : List (Nat × Int)
  /-- live edge indices (ascending) with source, target, weight -/
  edges : List (Nat × Nat × Nat × Int)
  nodeBound : Nat
  edgeBound : Nat
  deriving DecidableEq, Repr

def viewRaw (g : Raw) : IView :=
  { directed := g.directed, nodes := liveNodes g, edges := liveEdges g,
    nodeBound := boundOf nlive g.nodes, edgeBound := boundOf elive g.edges }

/-- the node slots / edge slots a stream lists: those below the bounds -/
def wsOfRaw (g : Raw) : List (Option Int) := (g.nodes.take (boundOf nlive g.nodes)).map (fun (n : NodeSlot) => n.w)
def esOfRaw (g : Raw) : List (Option (Nat × Nat × Int)) := (g.edges.take (boundOf elive g.edges)).map liveSkel

theorem viewRaw_of_sameObs (g g' : Raw) (hd : g'.directed = g.directed) (O : SameObs g g') : viewRaw g' = viewRaw g := by
  simp only [viewRaw, hd, O.nodes, O.edges, O.nodeBound, O.edgeBound]

theorem wsOfRaw_length (g : Raw) : (wsOfRaw g).length = boundOf nlive g.nodes := by
  have := boundOf_le nlive g.nodes
  simp only [wsOfRaw, List.length_map, List.length_take]
  omega

theorem esOfRaw_length (g : Raw) : (esOfRaw g).length = boundOf elive g.edges := by
  have := boundOf_le elive g.edges
  simp only [esOfRaw, List.length_map, List.length_take]
  omega

theorem liveSkel_eq_some (e : EdgeSlot) (a b : Nat) (x : Int) :
    liveSkel e = some (a, b, x) ↔ e.w = some x ∧ e.src = a ∧ e.tgt = b := by
  cases hw : e.w with
  | none => simp [liveSkel, hw]
  | some y =>
    simp only [liveSkel, hw, Option.map_some, Option.some.injEq, Prod.mk.injEq]
    constructor
    · rintro ⟨h1, h2, h3⟩; exact ⟨h3, h1, h2⟩
    · rintro ⟨h1, h2, h3⟩; exact ⟨h2, h3, h1⟩

/-- the slots below the bounds — hence the stream — are a function of the view -/
theorem slots_of_view (g1 g2 : Raw) (h : viewRaw g1 = viewRaw g2) :
    wsOfRaw g1 = wsOfRaw g2 ∧ esOfRaw g1 = esOfRaw g2 := by
  have hN : liveNodes g1 = liveNodes g2 := congrArg IView.nodes h
  have hE : liveEdges g1 = liveEdges g2 := congrArg IView.edges h
  have hnb : boundOf nlive g1.nodes = boundOf nlive g2.nodes := congrArg IView.nodeBound h
  have heb : boundOf elive g1.edges = boundOf elive g2.edges := congrArg IView.edgeBound h
  constructor
  · apply List.ext_getElem?
    intro i
    by_cases hi : i < boundOf nlive g1.nodes
    · have l1 := boundOf_le nlive g1.nodes
      have l2 := boundOf_le nlive g2.nodes
      obtain ⟨n1, hn1⟩ : ∃ n, g1.nodes[i]? = some n := ⟨g1.nodes[i]'(by omega), List.getElem?_eq_getElem (by omega)⟩
      obtain ⟨n2, hn2⟩ : ∃ n, g2.nodes[i]? = some n := ⟨g2.nodes[i]'(by omega), List.getElem?_eq_getElem (by omega)⟩
      simp only [wsOfRaw, List.getElem?_map, List.getElem?_take_of_lt hi, List.getElem?_take_of_lt (hnb ▸ hi), hn1, hn2,
        Option.map_some, Option.some.injEq]
      apply opt_ext
      intro x
      have m1 := mem_liveNodes g1 i x
      have m2 := mem_liveNodes g2 i x
      rw [hN] at m1
      constructor
      · intro hx
        obtain ⟨n, hn, hw⟩ := m2.1 (m1.2 ⟨n1, hn1, hx⟩)
        rw [hn2] at hn; cases hn; exact hw
      · intro hx
        obtain ⟨n, hn, hw⟩ := m1.1 (m2.2 ⟨n2, hn2, hx⟩)
        rw [hn1] at hn; cases hn; exact hw
    · rw [List.getElem?_eq_none (by rw [wsOfRaw_length]; omega),
          List.getElem?_eq_none (by rw [wsOfRaw_length]; omega)]
  · apply List.ext_getElem?
    intro i
    by_cases hi : i < boundOf elive g1.edges
    · have l1 := boundOf_le elive g1.edges
      have l2 := boundOf_le elive g2.edges
      obtain ⟨e1, he1⟩ : ∃ e, g1.edges[i]? = some e := ⟨g1.edges[i]'(by omega), List.getElem?_eq_getElem (by omega)⟩
      obtain ⟨e2, he2⟩ : ∃ e, g2.edges[i]? = some e := ⟨g2.edges[i]'(by omega), List.getElem?_eq_getElem (by omega)⟩
      simp only [esOfRaw, List.getElem?_map, List.getElem?_take_of_lt hi, List.getElem?_take_of_lt (heb ▸ hi), he1, he2,
        Option.map_some, Option.some.injEq]
      apply opt_ext
      rintro ⟨a, b, x⟩
      have m1 := mem_liveEdges g1 i a b x
      have m2 := mem_liveEdges g2 i a b x
      rw [hE] at m1
      rw [liveSkel_eq_some, liveSkel_eq_some]
      constructor
      · intro hx
        obtain ⟨e, he, hw⟩ := m2.1 (m1.2 ⟨e1, he1, hx⟩)
        rw [he2] at he; cases he; exact hw
      · intro hx
        obtain ⟨e, he, hw⟩ := m1.1 (m2.2 ⟨e2, he2, hx⟩)
        rw [he1] at he; cases he; exact hw
    · rw [List.getElem?_eq_none (by rw [esOfRaw_length]; omega),
          List.getElem?_eq_none (by rw [esOfRaw_length]; omega)]

/-- the stream of a `StableGraph`, as a function of its view -/
def streamOfView (v : IView) (ws : List (Option Int)) (es : List (Option (Nat × Nat × Int))) : Wire :=
  { nodes := somesW ws, holes := holesW 0 ws, prop := some v.directed, edges := es }

theorem serStable_view (s : Stable) (hI : StableInv s) :
    serStable s = some (streamOfView (viewRaw s.g) (wsOfRaw s.g) (esOfRaw s.g)) :=
  serStable_eq s hI.nodeCount

/-- **the stream is a function of the view**: two consistent `StableGraph`s denoting the same abstract indexed graph
serialize to the same stream (whatever their free-list orders, adjacency orders and trailing vacancies). -/
theorem serStable_of_view (s1 s2 : Stable) (h1 : StableInv s1) (h2 : StableInv s2) (h : viewRaw s1.g = viewRaw s2.g) :
    serStable s1 = serStable s2 := by
  obtain ⟨hw, he⟩ := slots_of_view s1.g s2.g h
  rw [serStable_view s1 h1, serStable_view s2 h2, h, hw, he]

/-- the field order does not matter for what is loaded -/
theorem parseStage_none_fields {stable : Bool} {m : Nat} {w : Wire} {order : List Field}
    (h : parseStage stable m w order = none) :
    (∀ f, f ∈ order → parseField stable m w f = none) ∧
    order.contains .n = true ∧ order.contains .p = true ∧ order.contains .e = true := by
  unfold parseStage at h
  cases hf : order.findSome? (parseField stable m w) with
  | some e => simp [hf] at h
  | none =>
    simp only [hf] at h
    refine ⟨fun f hm => (List.findSome?_eq_none_iff.1 hf) f hm, ?_⟩
    by_cases hc : (order.contains .n && order.contains .p && order.contains .e) = true
    · simpa [Bool.and_eq_true, and_assoc] using hc
    · rw [if_neg hc] at h
      cases h

theorem parseStage_order_irrelevant {stable : Bool} {m : Nat} {w : Wire} {order order' : List Field}
    (h : parseStage stable m w order = none) (hsub : ∀ f, f ∈ order' → f ∈ order)
    (ho' : Field.n ∈ order' ∧ Field.p ∈ order' ∧ Field.e ∈ order') :
    parseStage stable m w order' = none := by
  obtain ⟨hf, _⟩ := parseStage_none_fields h
  unfold parseStage
  have : order'.findSome? (parseField stable m w) = none :=
    List.findSome?_eq_none_iff.2 (fun f hm => hf f (hsub f hm))
  rw [this]
  obtain ⟨h1, h2, h3⟩ := ho'
  simp [h1, h2, h3]

theorem deStable_order_irrelevant {END : Nat} {directed : Bool} {order order' : List Field} {w : Wire} {s : Stable}
    (ho : FullOrder order) (ho' : FullOrder order') (h : deStable END directed order w = .ok s) :
    deStable END directed order' w = .ok s := by
  unfold deStable at h ⊢
  cases hp : parseStage true (END + 1) w order with
  | some e => simp [hp] at h
  | none =>
    have hp' := parseStage_order_irrelevant (order' := order') hp
      (by
        intro f _
        cases f
        · exact ho.1
        · exact ho.2.1
        · exact ho.2.2.1
        · exact ho.2.2.2) ⟨ho'.1, ho'.2.2.1, ho'.2.2.2⟩
    have hc : order.contains Field.h = true := by simpa using ho.2.1
    have hc' : order'.contains Field.h = true := by simpa using ho'.2.1
    simp only [hp, hc, if_true] at h
    simp only [hp', hc', if_true]
    exact h

/-- everything the `StableGraph` round trip establishes, in one statement -/
theorem roundtrip_stable_exact (s : Stable) (hI : StableInv s) (order : List Field) (ho : FullOrder order)
    (hcN : s.nodeBound < s.g.END) (hcE : s.edgeBound < s.g.END) :
    ∃ w s', serStable s = some w ∧ deStable s.g.END s.g.directed order w = .ok s' ∧
      StableDe s.g.END s.g.directed s' ∧ SameObs s.g s'.g ∧
      s'.g.nodes.map (fun (n : NodeSlot) => n.w) = wsOfRaw s.g ∧ s'.g.edges.map liveSkel = esOfRaw s.g := by
  have hser := serStable_eq s hI.nodeCount
  obtain ⟨s', hde, hn, he⟩ := deStable_complete s.g.END s.g.directed order (wsOfRaw s.g) (esOfRaw s.g) ho
    (by rw [wsOfRaw_length]; exact hcN) (by rw [esOfRaw_length]; exact hcE)
    (fun a b x hx => endpoints_in_ws s.g hI.toRawInv _ a b x hx)
  exact ⟨_, s', hser, hde, deStable_de hde, sameObs_of_skel s.g s'.g hn he, hn, he⟩

theorem take_length_map {α β} (f : α → β) (l : List α) (k : Nat) (h : l.length ≤ k) : (l.take k).map f = l.map f := by
  rw [List.take_of_length_le h]

/-- **what the `StableGraph` round trip preserves, exactly**: the loaded graph has the same view, index type and
counts; it has no slot beyond the bounds; it serializes to the very same stream; and it is a fixed point: loading its
stream (in any field order) gives back the very same value, pointer for pointer. -/
theorem roundtrip_stable_preserved (s : Stable) (hI : StableInv s) (order : List Field) (ho : FullOrder order)
    (hcN : s.nodeBound < s.g.END) (hcE : s.edgeBound < s.g.END) :
    ∃ w s', serStable s = some w ∧ deStable s.g.END s.g.directed order w = .ok s' ∧
      StableInv s' ∧ viewRaw s'.g = viewRaw s.g ∧ s'.g.END = s.g.END ∧
      s'.nodeCount = s.nodeCount ∧ s'.edgeCount = s.edgeCount ∧
      s'.g.nodes.length = s.nodeBound ∧ s'.g.edges.length = s.edgeBound ∧
      serStable s' = some w ∧
      (∀ order', FullOrder order' → deStable s'.g.END s'.g.directed order' w = .ok s') := by
  obtain ⟨w, s', hser, hde, D, O, hn, he⟩ := roundtrip_stable_exact s hI order ho hcN hcE
  have hI' := D.inv
  have hlenN : s'.g.nodes.length = s.nodeBound := by
    have := congrArg List.length hn
    rw [wsOfRaw_length, List.length_map] at this
    exact this
  have hlenE : s'.g.edges.length = s.edgeBound := by
    have := congrArg List.length he
    rw [esOfRaw_length, List.length_map] at this
    exact this
  have hws : wsOfRaw s'.g = wsOfRaw s.g := by
    rw [← hn]
    exact take_length_map _ _ _ (by rw [O.nodeBound, hlenN]; exact Nat.le_refl _)
  have hes : esOfRaw s'.g = esOfRaw s.g := by
    rw [← he]
    exact take_length_map _ _ _ (by rw [O.edgeBound, hlenE]; exact Nat.le_refl _)
  have hser' : serStable s' = some w := by
    rw [serStable_view s' hI', ← hser, serStable_view s hI]
    simp only [streamOfView, viewRaw, D.hdir, hws, hes]
  refine ⟨w, s', hser, hde, hI', viewRaw_of_sameObs _ _ D.hdir O, D.hEND, ?_, ?_, hlenN, hlenE, hser', ?_⟩
  · rw [D.nodeCount, hI.nodeCount]; exact O.nodeCount
  · rw [D.edgeCount, hI.edgeCount]; exact O.edgeCount
  · intro order' ho'
    rw [D.hEND, D.hdir]
    exact deStable_order_irrelevant ho ho' hde

/-- **nothing but the view survives**: two consistent `StableGraph`s of the same index type with the same view have
identical round trips — the same stream and the same loaded value. -/
theorem roundtrip_stable_only_view (s1 s2 : Stable) (h1 : StableInv s1) (h2 : StableInv s2) (hE : s1.g.END = s2.g.END)
    (h : viewRaw s1.g = viewRaw s2.g) (order : List Field) :
    serStable s1 = serStable s2 ∧
    (serStable s1).map (deStable s1.g.END s1.g.directed order) = (serStable s2).map (deStable s2.g.END s2.g.directed order) := by
  have hs := serStable_of_view s1 s2 h1 h2 h
  have hd : s1.g.directed = s2.g.directed := congrArg IView.directed h
  exact ⟨hs, by rw [hs, hE, hd]⟩

/-! ### `Graph` -/

theorem wsOfRaw_graph (g : Raw) (hI : GraphInv g) :
    wsOfRaw g = g.nodes.map (fun (n : NodeSlot) => n.w) ∧ esOfRaw g = g.edges.map liveSkel := by
  have hnl : ∀ x, x ∈ g.nodes → nlive x = true := by
    intro n hn; obtain ⟨i, hi⟩ := List.getElem?_of_mem hn; exact hI.allNodes i n hi
  have hel : ∀ x, x ∈ g.edges → elive x = true := by
    intro e he; obtain ⟨i, hi⟩ := List.getElem?_of_mem he; exact hI.allEdges i e hi
  exact ⟨by rw [wsOfRaw, take_bound_all nlive g.nodes hnl], by rw [esOfRaw, take_bound_all elive g.edges hel]⟩

theorem serGraph_view (g : Raw) (hI : GraphInv g) :
    serGraph g = streamOfView (viewRaw g) (wsOfRaw g) (esOfRaw g) := by
  obtain ⟨h1, h2⟩ := wsOfRaw_graph g hI
  rw [serGraph_eq g hI, h1, h2]
  rfl

/-- the stream of a `Graph` is a function of its view -/
theorem serGraph_of_view (g1 g2 : Raw) (h1 : GraphInv g1) (h2 : GraphInv g2) (h : viewRaw g1 = viewRaw g2) :
    serGraph g1 = serGraph g2 := by
  obtain ⟨hw, he⟩ := slots_of_view g1 g2 h
  rw [serGraph_view g1 h1, serGraph_view g2 h2, h, hw, he]

theorem deGraph_order_irrelevant {END : Nat} {directed : Bool} {order order' : List Field} {w : Wire} {g : Raw}
    (hw : w.holes = [])
    (ho : Field.n ∈ order ∧ Field.p ∈ order ∧ Field.e ∈ order)
    (ho' : Field.n ∈ order' ∧ Field.p ∈ order' ∧ Field.e ∈ order') (h : deGraph END directed order w = .ok g) :
    deGraph END directed order' w = .ok g := by
  have hw' : ({ w with holes := [] } : Wire) = w := by cases w; simp_all
  unfold deGraph at h ⊢
  cases hp : parseStage false (END + 1) w order with
  | some e => simp [hp] at h
  | none =>
    obtain ⟨hf, _⟩ := parseStage_none_fields hp
    have hp' : parseStage false (END + 1) w order' = none := by
      unfold parseStage
      have : order'.findSome? (parseField false (END + 1) w) = none := by
        apply List.findSome?_eq_none_iff.2
        intro f _
        cases f
        · rfl
        · simp [parseField, hw, parseHoles]
        · exact hf _ ho.2.1
        · exact hf _ ho.2.2
      rw [this]
      obtain ⟨h1, h2, h3⟩ := ho'
      simp [h1, h2, h3]
    simp only [hp, hw', ite_self] at h
    simp only [hp', hw', ite_self]
    exact h

/-- **what the `Graph` round trip preserves, exactly** -/
theorem roundtrip_graph_preserved (g : Raw) (hI : GraphInv g) (order : List Field)
    (ho : Field.n ∈ order ∧ Field.p ∈ order ∧ Field.e ∈ order)
    (hcN : g.nodes.length < g.END) (hcE : g.edges.length < g.END) :
    ∃ g', deGraph g.END g.directed order (serGraph g) = .ok g' ∧
      GraphInv g' ∧ viewRaw g' = viewRaw g ∧ g'.END = g.END ∧
      serGraph g' = serGraph g ∧
      (∀ order', (Field.n ∈ order' ∧ Field.p ∈ order' ∧ Field.e ∈ order') →
        deGraph g'.END g'.directed order' (serGraph g') = .ok g') := by
  obtain ⟨g', hde, D, O⟩ := roundtrip_graph_graph g hI order ho hcN hcE
  have hv := viewRaw_of_sameObs _ _ D.hdir O
  have hs : serGraph g' = serGraph g := serGraph_of_view g' g D.inv hI hv
  refine ⟨g', hde, D.inv, hv, D.hEND, hs, ?_⟩
  intro order' ho'
  rw [hs, D.hEND, D.hdir]
  exact deGraph_order_irrelevant (by simp [serGraph]) ho ho' hde

theorem roundtrip_graph_only_view (g1 g2 : Raw) (h1 : GraphInv g1) (h2 : GraphInv g2) (hE : g1.END = g2.END)
    (h : viewRaw g1 = viewRaw g2) (order : List Field) :
    serGraph g1 = serGraph g2 ∧
    deGraph g1.END g1.directed order (serGraph g1) = deGraph g2.END g2.directed order (serGraph g2) := by
  have hs := serGraph_of_view g1 g2 h1 h2 h
  have hd : g1.directed = g2.directed := congrArg IView.directed h
  exact ⟨hs, by rw [hs, hE, hd]⟩

/-! ### `GraphMap` -/

/-- what a `GraphMap` round trip preserves: edge type, the node keys in order, the edge map in order -/
structure MView where
  directed : Bool
  keys : List Int
  edges : List ((Int × Int) × Int)
  deriving DecidableEq, Repr

def viewMap (m : GMap) : MView := { directed := m.directed, keys := m.nodes.map (·.1), edges := m.edges }

theorem rebuildMap_of_view (m1 m2 : GMap) (h : viewMap m1 = viewMap m2) : rebuildMap m1 = rebuildMap m2 := by
  have h1 : m1.directed = m2.directed := congrArg MView.directed h
  have h2 : m1.nodes.map (·.1) = m2.nodes.map (·.1) := congrArg MView.keys h
  have h3 : m1.edges = m2.edges := congrArg MView.edges h
  simp only [rebuildMap, h1, h2, h3]

theorem viewMap_rebuild (m : GMap) : viewMap (rebuildMap m) = viewMap m := by
  simp only [viewMap, rebuildMap_keys]
  rfl

theorem assocIdx_keys {ν ν'} (l : List (Int × ν)) (l' : List (Int × ν')) (h : l.map (·.1) = l'.map (·.1)) (a : Int) :
    assocIdx l a = assocIdx l' a := by
  have e1 : assocIdx l a = (l.map (·.1)).findIdx? (· == a) := by
    unfold assocIdx; rw [List.findIdx?_map]; rfl
  have e2 : assocIdx l' a = (l'.map (·.1)).findIdx? (· == a) := by
    unfold assocIdx; rw [List.findIdx?_map]; rfl
  rw [e1, e2, h]

/-- the stream of a `GraphMap` is a function of its view -/
theorem serMap_of_view (m1 m2 : GMap) (h : viewMap m1 = viewMap m2)
    (hends : ∀ a b w, ((a, b), w) ∈ m1.edges → a ∈ m1.nodes.map (·.1) ∧ b ∈ m1.nodes.map (·.1))
    (hcapN : m1.nodes.length ≤ 4294967295) (hcapE : m1.edges.length ≤ 4294967295) :
    serMap m1 = serMap m2 := by
  have h1 : m1.directed = m2.directed := congrArg MView.directed h
  have h2 : m1.nodes.map (·.1) = m2.nodes.map (·.1) := congrArg MView.keys h
  have h3 : m1.edges = m2.edges := congrArg MView.edges h
  have hl : m1.nodes.length = m2.nodes.length := by simpa using congrArg List.length h2
  obtain ⟨g1, hg1, hs1⟩ := intoGraph_wire m1 4294967295 (fun e he => hends e.1.1 e.1.2 e.2 he) hcapN hcapE
  obtain ⟨g2, hg2, hs2⟩ := intoGraph_wire m2 4294967295
    (fun e he => by rw [← h2]; exact hends e.1.1 e.1.2 e.2 (h3 ▸ he)) (by omega) (by rw [← h3]; exact hcapE)
  have hpos : ∀ a, posOf m1.nodes a = posOf m2.nodes a := by
    intro a; unfold posOf; rw [assocIdx_keys m1.nodes m2.nodes h2]
  simp only [serMap, hg1, hg2, Option.map_some, hs1, hs2, h1, h2, h3, hpos]

/-- **what the `GraphMap` round trip preserves, exactly**: the view (edge type, node order, edge order, weights);
the loaded map is the canonical form `rebuildMap` — a function of the view —, serializes to the same stream and is a
fixed point. -/
theorem roundtrip_map_preserved (m : GMap) (order : List Field)
    (ho : Field.n ∈ order ∧ Field.p ∈ order ∧ Field.e ∈ order)
    (hends : ∀ a b w, ((a, b), w) ∈ m.edges → a ∈ m.nodes.map (·.1) ∧ b ∈ m.nodes.map (·.1))
    (hn : (m.nodes.map (·.1)).Nodup) (he : (m.edges.map (·.1)).Nodup)
    (hcanon : ∀ a b w, ((a, b), w) ∈ m.edges → m.directed = true ∨ a ≤ b)
    (hcapN : m.nodes.length < 4294967295) (hcapE : m.edges.length < 4294967295) :
    ∃ w m', serMap m = some w ∧ deMap m.directed order w = .ok m' ∧
      viewMap m' = viewMap m ∧ m' = rebuildMap m ∧ serMap m' = some w ∧
      (∀ order', (Field.n ∈ order' ∧ Field.p ∈ order' ∧ Field.e ∈ order') → deMap m'.directed order' w = .ok m') := by
  obtain ⟨w, h1, h2⟩ := roundtrip_map m order ho hends hn he hcanon hcapN hcapE
  have hv := viewMap_rebuild m
  have hs : serMap (rebuildMap m) = serMap m :=
    serMap_of_view (rebuildMap m) m hv
      (by intro a b x hx; rw [rebuildMap_keys]; exact hends a b x hx)
      (by have := congrArg List.length (rebuildMap_keys m); simp only [List.length_map] at this; omega)
      (by show m.edges.length ≤ _; omega)
  refine ⟨w, rebuildMap m, h1, h2, hv, rfl, by rw [hs, h1], ?_⟩
  intro order' ho'
  obtain ⟨w', h1', h2'⟩ := roundtrip_map m order' ho' hends hn he hcanon hcapN hcapE
  rw [h1] at h1'
  cases h1'
  exact h2'

theorem roundtrip_map_only_view (m1 m2 : GMap) (h : viewMap m1 = viewMap m2)
    (hends : ∀ a b w, ((a, b), w) ∈ m1.edges → a ∈ m1.nodes.map (·.1) ∧ b ∈ m1.nodes.map (·.1))
    (hcapN : m1.nodes.length ≤ 4294967295) (hcapE : m1.edges.length ≤ 4294967295) (order : List Field) :
    serMap m1 = serMap m2 ∧
    (serMap m1).map (deMap m1.directed order) = (serMap m2).map (deMap m2.directed order) := by
  have hs := serMap_of_view m1 m2 h hends hcapN hcapE
  have hd : m1.directed = m2.directed := congrArg MView.directed h
  exact ⟨hs, by rw [hs, hd]⟩

end PetgraphModel.SerdeProofs
