import PetgraphModel.Proofs.C01W2Base
/-
C01, wave 2 — `filter_map` (and with it the conversion through `StableGraph`) refines the
specification's `CGS.filterMap`, from *any* abstraction `absG s st ck` of the source state: the result
is a fresh graph, so its stamps are its indices (`abs`).

Both loops of the model are first rewritten to an index-carrying `filterMap` over the source list
(`idxFM`), which `idxFM_eq` turns into the closed form `(List.range n).filterMap …` used by the
specification.
-/
namespace PetgraphModel.GProofs
open PetgraphModel PetgraphModel.G

/-! ### an index-carrying `filterMap` -/

/-- `filterMap` over a list whose elements know their index (starting at `i`) -/
def idxFM {α β : Type} (F : Nat → α → Option β) : List α → Nat → List β
  | [], _ => []
  | x :: xs, i =>
    match F i x with
    | some y => y :: idxFM F xs (i + 1)
    | none => idxFM F xs (i + 1)

theorem idxFM_eq {α β : Type} (F : Nat → α → Option β) (L : List α) (i : Nat) :
    idxFM F L i = (List.range L.length).filterMap (fun j => L[j]?.bind (F (i + j))) := by
  induction L generalizing i with
  | nil => simp [idxFM]
  | cons x xs ih =>
    have hfun : ((fun j => (x :: xs)[j]?.bind (F (i + j))) ∘ Nat.succ) = fun j => xs[j]?.bind (F (i + 1 + j)) := by
      funext j
      simp only [Function.comp, List.getElem?_cons_succ]
      have : i + j.succ = i + 1 + j := by omega
      rw [this]
    rw [idxFM, List.length_cons, List.range_succ_eq_map, List.filterMap_cons, List.filterMap_map, hfun, ← ih (i + 1)]
    simp only [List.getElem?_cons_zero, Option.bind_some, Nat.add_zero]
    cases F i x <;> rfl

/-! ### the number of kept nodes below an index -/

/-- number of kept node indices below `j` = the new index of node `j` -/
def cnt (nm : List Bool) (j : Nat) : Nat := ((List.range j).filter (maskAt nm)).length

theorem cnt_zero (nm : List Bool) : cnt nm 0 = 0 := by simp [cnt]

theorem cnt_succ (nm : List Bool) (j : Nat) : cnt nm (j + 1) = cnt nm j + (if maskAt nm j then 1 else 0) := by
  simp only [cnt, List.range_succ, List.filter_append, List.length_append]
  by_cases hm : maskAt nm j = true <;> simp [hm]

theorem cnt_le (nm : List Bool) (j : Nat) : cnt nm j ≤ j := by
  have := List.length_filter_le (maskAt nm) (List.range j)
  simpa [cnt] using this

theorem cnt_mono (nm : List Bool) {a b : Nat} (h : a ≤ b) : cnt nm a ≤ cnt nm b := by
  induction h with
  | refl => exact Nat.le_refl _
  | step _ ih => rw [cnt_succ]; omega

/-- the closed form used by the specification -/
theorem cnt_eq (nm : List Bool) {n x : Nat} (h : x ≤ n) :
    (((List.range n).filter (maskAt nm)).filter (· < x)).length = cnt nm x := by
  rw [cnt]
  congr 1
  rw [List.filter_filter]
  have hn : n = x + (n - x) := by omega
  rw [hn, List.range_add, List.filter_append]
  have h1 : (List.range x).filter (fun a => decide (a < x) && maskAt nm a) = (List.range x).filter (maskAt nm) := by
    apply List.filter_congr
    intro a ha
    have : a < x := List.mem_range.mp ha
    simp [this]
  have h2 : ((List.range (n - x)).map (x + ·)).filter (fun a => decide (a < x) && maskAt nm a) = [] := by
    apply List.filter_eq_nil_iff.mpr
    intro a ha
    obtain ⟨b, _, rfl⟩ := List.mem_map.mp ha
    have : ¬ (x + b < x) := by omega
    simp [this]
  rw [h1, h2, List.append_nil]

/-! ### the node loop -/

/-- the `node_index_map` entries written by the node loop from index `i` on, `c` nodes kept so far -/
def ixMap (nm : List Bool) (endv : Nat) : List Node → Nat → Nat → List Nat
  | [], _, _ => []
  | _ :: rest, i, c =>
    if maskAt nm i then c :: ixMap nm endv rest (i + 1) (c + 1) else endv :: ixMap nm endv rest (i + 1) c

theorem ixMap_length (nm : List Bool) (endv : Nat) (ns : List Node) (i c : Nat) :
    (ixMap nm endv ns i c).length = ns.length := by
  induction ns generalizing i c with
  | nil => rfl
  | cons nd rest ih => unfold ixMap; split <;> simp [ih]

theorem ixMap_get (nm : List Bool) (endv : Nat) (ns : List Node) (i k : Nat) (hk : k < ns.length) :
    (ixMap nm endv ns i (cnt nm i))[k]? = some (if maskAt nm (i + k) then cnt nm (i + k) else endv) := by
  induction ns generalizing i k with
  | nil => simp at hk
  | cons nd rest ih =>
    unfold ixMap
    by_cases hm : maskAt nm i = true
    · have hc : cnt nm i + 1 = cnt nm (i + 1) := by rw [cnt_succ]; simp [hm]
      simp only [hm, if_true]
      cases k with
      | zero => simp [hm]
      | succ k =>
        rw [List.getElem?_cons_succ, hc, ih (i + 1) k (by simpa using hk)]
        have : i + 1 + k = i + (k + 1) := by omega
        rw [this]
    · have hm' : maskAt nm i = false := by simpa using hm
      have hc : cnt nm i = cnt nm (i + 1) := by rw [cnt_succ]; simp [hm']
      simp only [hm', Bool.false_eq_true, if_false]
      cases k with
      | zero => simp [hm']
      | succ k =>
        rw [List.getElem?_cons_succ, hc, ih (i + 1) k (by simpa using hk)]
        have : i + 1 + k = i + (k + 1) := by omega
        rw [this]

/-- what the node closure of `filter_map` keeps -/
def keepN (nm : List Bool) (dn : Nat) (i : Nat) (nd : Node) : Option Nat :=
  if maskAt nm i then some (nd.weight + dn) else none

/-- the node loop never takes its capacity branch and adds exactly the kept nodes, in index order -/
theorem fmNodes_spec (nm : List Bool) (dn : Nat) :
    ∀ (ns : List Node) (i : Nat) (g : State) (m : List Nat),
      g.nodes.length = cnt nm i → i + ns.length ≤ g.endv →
      ∃ g', fmNodes nm dn ns i g m = (g', m ++ ixMap nm g.endv ns i (cnt nm i)) ∧
        g'.endv = g.endv ∧ g'.directed = g.directed ∧ g'.edges = g.edges ∧
        g'.nodes.length = cnt nm (i + ns.length) ∧
        g'.nodes.map (·.weight) = g.nodes.map (·.weight) ++ idxFM (keepN nm dn) ns i := by
  intro ns
  induction ns with
  | nil =>
    intro i g m hlen _
    exact ⟨g, by simp [fmNodes, ixMap], rfl, rfl, rfl, by simpa using hlen, by simp [idxFM]⟩
  | cons nd rest ih =>
    intro i g m hlen hcap
    simp only [List.length_cons] at hcap
    unfold fmNodes ixMap idxFM
    by_cases hm : maskAt nm i = true
    · have hroom : g.nodes.length ≠ g.endv := by have := cnt_le nm i; omega
      have hc : cnt nm i + 1 = cnt nm (i + 1) := by rw [cnt_succ]; simp [hm]
      simp only [keepN, hm, if_true, tryAddNode_room _ hroom]
      obtain ⟨g', hg', he, hd, hed, hl, hw⟩ :=
        ih (i + 1) { g with nodes := g.nodes ++ [⟨nd.weight + dn, g.endv, g.endv⟩] } (m ++ [g.nodes.length])
          (by simp [hlen, hc]) (by simp only; omega)
      refine ⟨g', ?_, he, hd, hed, ?_, ?_⟩
      · rw [hg', hlen, hc]; simp
      · rw [hl]; congr 1; simp only [List.length_cons]; omega
      · rw [hw]; simp
    · have hm' : maskAt nm i = false := by simpa using hm
      have hc : cnt nm i = cnt nm (i + 1) := by rw [cnt_succ]; simp [hm']
      simp only [keepN, hm', Bool.false_eq_true, if_false]
      obtain ⟨g', hg', he, hd, hed, hl, hw⟩ :=
        ih (i + 1) g (m ++ [g.endv]) (by rw [hlen, hc]) (by omega)
      refine ⟨g', ?_, he, hd, hed, ?_, hw⟩
      · rw [hg', ← hc]; simp
      · rw [hl]; congr 1; simp only [List.length_cons]; omega

/-! ### the edge loop -/

def triple (e : Edge) : Nat × Nat × Nat := (e.src, e.tgt, e.weight)

/-- what the edge loop of `filter_map` keeps -/
def keepE (em : List Bool) (de : Nat) (m : List Nat) (endv : Nat) (i : Nat) (ed : Edge) : Option (Nat × Nat × Nat) :=
  match m[ed.src]?, m[ed.tgt]? with
  | some a, some b =>
    if a != endv && b != endv then (if maskAt em i then some (a, b, ed.weight + de) else none) else none
  | _, _ => none

theorem tryAddEdge_weights {s s' : State} {a b w e : Nat} (h : tryAddEdge s a b w = (s', .ok e)) :
    s'.nodes.map (·.weight) = s.nodes.map (·.weight) := by
  obtain ⟨an, bn, _, _, _, _, _, _, _, hnl, hnodes⟩ := tryAddEdge_ok h
  apply List.ext_getElem?
  intro i
  simp only [List.getElem?_map]
  cases hi : s'.nodes[i]? with
  | none =>
    have : s.nodes[i]? = none := by
      apply List.getElem?_eq_none
      have := List.getElem?_eq_none_iff.mp hi
      omega
    simp [this]
  | some nd' =>
    obtain ⟨nd, hnd, hw, _⟩ := hnodes i nd' hi
    simp [hnd, hw]

/-- the edge loop never faults and adds exactly the kept edges, in index order -/
theorem fmEdges_spec (em : List Bool) (de : Nat) (m : List Nat) (endv N : Nat) :
    ∀ (es : List Edge) (i : Nat) (g : State),
      g.endv = endv → g.nodes.length = N → g.edges.length + es.length ≤ endv →
      (∀ ed ∈ es, ∃ a b, m[ed.src]? = some a ∧ m[ed.tgt]? = some b ∧ (a ≠ endv → a < N) ∧ (b ≠ endv → b < N)) →
      ∃ g', fmEdges em de m es i g = .ok g' ∧ g'.endv = endv ∧ g'.directed = g.directed ∧
        g'.nodes.map (·.weight) = g.nodes.map (·.weight) ∧
        g'.edges.map triple = g.edges.map triple ++ idxFM (keepE em de m endv) es i := by
  intro es
  induction es with
  | nil =>
    intro i g he _ _ _
    exact ⟨g, by simp [fmEdges], he, rfl, rfl, by simp [idxFM]⟩
  | cons ed rest ih =>
    intro i g he hN hcap hends
    simp only [List.length_cons] at hcap
    obtain ⟨a, b, ha, hb, haN, hbN⟩ := hends ed (List.mem_cons_self ..)
    have hrest : ∀ ed ∈ rest, ∃ a b, m[ed.src]? = some a ∧ m[ed.tgt]? = some b ∧ (a ≠ endv → a < N) ∧ (b ≠ endv → b < N) :=
      fun x hx => hends x (List.mem_cons_of_mem _ hx)
    unfold fmEdges idxFM
    simp only [keepE, ha, hb, he]
    by_cases hab : (a != endv && b != endv) = true
    · simp only [hab, if_true]
      by_cases hme : maskAt em i = true
      · simp only [hme, if_true]
        have ha' : a ≠ endv := by simp at hab; exact hab.1
        have hb' : b ≠ endv := by simp at hab; exact hab.2
        have hroom : g.edges.length ≠ g.endv := by omega
        obtain ⟨g1, hg1⟩ := tryAddEdge_room a b (ed.weight + de) hroom (by rw [hN]; exact haN ha') (by rw [hN]; exact hbN hb')
        have hwts := tryAddEdge_weights hg1
        obtain ⟨an, bn, _, _, _, _, hend1, hdir1, hedges1, hnl1, _⟩ := tryAddEdge_ok hg1
        simp only [hg1]
        obtain ⟨g', hg', he', hd', hw', hes'⟩ :=
          ih (i + 1) g1 (by rw [hend1, he]) (by rw [hnl1, hN]) (by rw [hedges1]; simp; omega) hrest
        refine ⟨g', hg', he', by rw [hd', hdir1], by rw [hw', hwts], ?_⟩
        rw [hes', hedges1]
        simp [triple]
      · simp only [hme, Bool.false_eq_true, if_false]
        exact ih (i + 1) g he hN (by omega) hrest
    · simp only [hab, Bool.false_eq_true, if_false]
      exact ih (i + 1) g he hN (by omega) hrest

/-! ### `filter_map` refines the specification -/

/-- the kept edges of the specification's `filterMap` (its local `es`) -/
def specEs (sp : CGS.Spec) (nmask emask : List Bool) (de : Nat) : List (Nat × Nat × Nat) :=
  let n := sp.nodes.length
  let kept := (List.range n).filter (CGS.maskAt nmask)
  let newIx (i : Nat) : Option Nat := if CGS.maskAt nmask i && i < n then some ((kept.filter (· < i)).length) else none
  (List.range sp.edges.length).filterMap fun i =>
    match sp.edges[i]? with
    | none => none
    | some ed =>
      match newIx ed.src, newIx ed.tgt with
      | some a, some b => if CGS.maskAt emask i then some (a, b, ed.weight + de) else none
      | _, _ => none

theorem filterMap_edges (sp : CGS.Spec) (nm em : List Bool) (dn de : Nat) :
    (CGS.filterMap sp nm em dn de).edges =
      (List.range (specEs sp nm em de).length).zipWith (fun i (x : Nat × Nat × Nat) => ⟨x.1, x.2.1, x.2.2, i⟩) (specEs sp nm em de) := rfl

theorem filterMap_clock (sp : CGS.Spec) (nm em : List Bool) (dn de : Nat) :
    (CGS.filterMap sp nm em dn de).clock = (specEs sp nm em de).length := rfl

/-- `filter_map` on the model never faults in a state satisfying the invariant, and its result abstracts
(stamp = index) to the specification's `filterMap` of ANY abstraction of the source state -/
theorem filterMap_refines {s : State} (h : Inv s) (st : Nat → Nat) (ck : Nat) (nm em : List Bool) (dn de : Nat) :
    ∃ s', filterMap s nm em dn de = .ok s' ∧ Inv1 s' ∧ abs s' = CGS.filterMap (absG s st ck) nm em dn de := by
  -- the node loop
  obtain ⟨g, hg, hgend, hgdir, hgedges, hglen, hgw⟩ :=
    fmNodes_spec nm dn s.nodes 0 (empty s.endv s.directed) [] (by simp [empty, cnt_zero])
      (by have := h.szN; simpa [empty] using this)
  simp only [empty, List.nil_append, List.map_nil, Nat.zero_add, cnt_zero] at hg hgend hgdir hgedges hglen hgw
  -- the index map
  have hmget : ∀ x, x < s.nodes.length →
      (ixMap nm s.endv s.nodes 0 0)[x]? = some (if maskAt nm x then cnt nm x else s.endv) := by
    intro x hx
    have := ixMap_get nm s.endv s.nodes 0 x hx
    simpa [cnt_zero] using this
  have hcntlt : ∀ x, x < s.nodes.length → cnt nm x < s.endv := by
    intro x hx
    have := cnt_le nm x; have := h.szN; omega
  have hcntN : ∀ x, x < s.nodes.length → maskAt nm x = true → cnt nm x < cnt nm s.nodes.length := by
    intro x hx hm
    have h1 : cnt nm (x + 1) = cnt nm x + 1 := by rw [cnt_succ]; simp [hm]
    have h2 := cnt_mono nm (show x + 1 ≤ s.nodes.length by omega)
    omega
  -- the edge loop
  obtain ⟨s', hs', hend', hdir', hw', hes'⟩ :=
    fmEdges_spec em de (ixMap nm s.endv s.nodes 0 0) s.endv (cnt nm s.nodes.length) s.edges 0 g hgend hglen
      (by rw [hgedges]; have := h.szE; simpa using this)
      (by
        intro ed hed
        obtain ⟨e, he⟩ := List.mem_iff_getElem?.mp hed
        obtain ⟨h1, h2⟩ := h.ends e ed he
        refine ⟨_, _, hmget _ h1, hmget _ h2, ?_, ?_⟩
        · intro hne
          by_cases hm : maskAt nm ed.src = true
          · simp only [hm, if_true]; exact hcntN _ h1 hm
          · simp [hm] at hne
        · intro hne
          by_cases hm : maskAt nm ed.tgt = true
          · simp only [hm, if_true]; exact hcntN _ h2 hm
          · simp [hm] at hne)
  rw [hgedges] at hes'
  simp only [List.map_nil, List.nil_append] at hes'
  have hfm : filterMap s nm em dn de = .ok s' := by
    unfold filterMap empty
    rw [hg]
    exact hs'
  refine ⟨s', hfm, inv1_filterMap nm em dn de hfm, ?_⟩
  -- the abstraction
  have hmask : CGS.maskAt = maskAt := rfl
  -- the kept edges, in the specification's closed form
  have hes : s'.edges.map triple = specEs (absG s st ck) nm em de := by
    unfold specEs
    dsimp only
    rw [hes', idxFM_eq, absG_edges_length, absG_nodes_length]
    apply List.filterMap_congr
    intro i hi
    have hi' : i < s.edges.length := List.mem_range.mp hi
    rw [absG_edges_get, List.getElem?_eq_getElem hi']
    obtain ⟨h1, h2⟩ := h.ends i _ (List.getElem?_eq_getElem hi')
    simp only [hmask]
    simp only [Option.bind_some, Option.map_some, Nat.zero_add, keepE, absEdgeG, hmget _ h1, hmget _ h2,
      cnt_eq nm (Nat.le_of_lt h1), cnt_eq nm (Nat.le_of_lt h2), h1, h2, decide_true, Bool.and_true]
    have c1 := hcntlt _ h1
    have c2 := hcntlt _ h2
    by_cases m1 : maskAt nm s.edges[i].src = true <;> by_cases m2 : maskAt nm s.edges[i].tgt = true <;>
      simp [m1, m2, Nat.ne_of_lt c1, Nat.ne_of_lt c2]
  symm
  apply eq_abs_of
  · simp only [CGS.filterMap]; rw [hend']; rfl
  · simp only [CGS.filterMap]; rw [hdir', hgdir]; rfl
  · simp only [CGS.filterMap]
    rw [hw', hgw, idxFM_eq, absG_nodes_length, List.filterMap_filter]
    apply List.filterMap_congr
    intro i _
    rw [absG_nodes_get, hmask]
    cases s.nodes[i]? <;> simp [keepN]
  · intro i
    rw [filterMap_edges, ← hes, zipWith_range_getElem?, List.getElem?_map]
    cases s'.edges[i]? <;> simp [triple, absEdge]
  · rw [filterMap_clock, ← hes]
    simp

end PetgraphModel.GProofs
