import PetgraphModel.Proofs.C15W5Barrier
/-
C15 wave 5 — the labelling `compLabels g A` always passes the closure check of `checkBarrierWith`
(when the edge endpoints are nodes): `checkBarrier` never rejects because of its own labelling.
Not needed for soundness.  (That the labels are exactly the components of `G − A` is not proved.)
-/
namespace PetgraphModel.C15W5
open PetgraphModel PetgraphModel.C15

/-- the listed nodes of a labelling -/
def keysOf (l : List (Nat × Nat)) : List Nat := l.map (·.1)

theorem labOf_cons (k v : Nat) (r : List (Nat × Nat)) (x : Nat) :
    labOf ((k, v) :: r) x = if x = k then v else labOf r x := by
  unfold labOf
  by_cases h : x = k
  · subst h; simp [List.lookup]
  · have : (x == k) = false := by simpa using h
    simp [List.lookup, this, h]

/-- relabelling through `φ` -/
theorem labOf_mapLabels (φ : Nat → Nat) : ∀ (l : List (Nat × Nat)) (x : Nat), x ∈ keysOf l →
    labOf (l.map fun p => (p.1, φ p.2)) x = φ (labOf l x)
  | [], x, h => by simp [keysOf] at h
  | (k, v) :: r, x, h => by
    simp only [List.map_cons, labOf_cons]
    by_cases hx : x = k
    · rw [if_pos hx, if_pos hx]
    · rw [if_neg hx, if_neg hx]
      have : x ∈ keysOf r := by
        simp only [keysOf, List.map_cons, List.mem_cons] at h
        rcases h with h | h
        · exact absurd h hx
        · exact h
      exact labOf_mapLabels φ r x this

/-- `mergeEdge` as a relabelling -/
def mergeFn (la lb : Nat) (x : Nat) : Nat := if x == la || x == lb then min la lb else x

theorem mergeEdge_eq (l : List (Nat × Nat)) (e : Edge) :
    mergeEdge l e = if labOf l e.src = labOf l e.tgt then l
      else l.map fun p => (p.1, mergeFn (labOf l e.src) (labOf l e.tgt) p.2) := by
  unfold mergeEdge
  simp only [beq_iff_eq]
  split
  · rfl
  · apply List.map_congr_left
    intro p _
    unfold mergeFn
    split <;> rfl

theorem keysOf_mergeEdge (l : List (Nat × Nat)) (e : Edge) : keysOf (mergeEdge l e) = keysOf l := by
  rw [mergeEdge_eq]
  split
  · rfl
  · simp [keysOf, List.map_map, Function.comp_def]

/-- merging never separates two listed nodes -/
theorem mergeEdge_keeps (l : List (Nat × Nat)) (e : Edge) (a b : Nat) (ha : a ∈ keysOf l)
    (hb : b ∈ keysOf l) (h : labOf l a = labOf l b) :
    labOf (mergeEdge l e) a = labOf (mergeEdge l e) b := by
  rw [mergeEdge_eq]
  split
  · exact h
  · rw [labOf_mapLabels _ l a ha, labOf_mapLabels _ l b hb, h]

/-- merging joins the two ends of the edge -/
theorem mergeEdge_joins (l : List (Nat × Nat)) (e : Edge) (ha : e.src ∈ keysOf l)
    (hb : e.tgt ∈ keysOf l) : labOf (mergeEdge l e) e.src = labOf (mergeEdge l e) e.tgt := by
  rw [mergeEdge_eq]
  split
  · assumption
  · rw [labOf_mapLabels _ l _ ha, labOf_mapLabels _ l _ hb]
    simp [mergeFn]

/-- the edges that `compLabels` merges along -/
def procB (A : List Nat) (e : Edge) : Bool := !(e.src == e.tgt || A.contains e.src || A.contains e.tgt)

def stepL (A : List Nat) (l : List (Nat × Nat)) (e : Edge) : List (Nat × Nat) :=
  if e.src == e.tgt || A.contains e.src || A.contains e.tgt then l else mergeEdge l e

theorem keysOf_stepL (A : List Nat) (l : List (Nat × Nat)) (e : Edge) : keysOf (stepL A l e) = keysOf l := by
  unfold stepL
  split
  · rfl
  · exact keysOf_mergeEdge l e

theorem foldl_stepL (A : List Nat) : ∀ (es : List Edge) (l : List (Nat × Nat)),
    (∀ e ∈ es, procB A e = true → e.src ∈ keysOf l ∧ e.tgt ∈ keysOf l) →
    keysOf (es.foldl (stepL A) l) = keysOf l ∧
    (∀ a b, a ∈ keysOf l → b ∈ keysOf l → labOf l a = labOf l b →
      labOf (es.foldl (stepL A) l) a = labOf (es.foldl (stepL A) l) b) ∧
    (∀ e ∈ es, procB A e = true →
      labOf (es.foldl (stepL A) l) e.src = labOf (es.foldl (stepL A) l) e.tgt)
  | [], l, _ => ⟨rfl, fun _ _ _ _ h => h, fun _ h => by cases h⟩
  | e :: es, l, hk => by
    have hkeys := keysOf_stepL A l e
    obtain ⟨ih1, ih2, ih3⟩ := foldl_stepL A es (stepL A l e) (by
      intro e' he' hp
      rw [hkeys]
      exact hk e' (List.mem_cons_of_mem _ he') hp)
    simp only [List.foldl_cons]
    have hkeep : ∀ a b, a ∈ keysOf l → b ∈ keysOf l → labOf l a = labOf l b →
        labOf (stepL A l e) a = labOf (stepL A l e) b := by
      intro a b ha hb h
      unfold stepL
      split
      · exact h
      · exact mergeEdge_keeps l e a b ha hb h
    refine ⟨ih1.trans hkeys, ?_, ?_⟩
    · intro a b ha hb h
      exact ih2 a b (hkeys ▸ ha) (hkeys ▸ hb) (hkeep a b ha hb h)
    · intro e' he' hp
      rcases List.mem_cons.mp he' with h | h
      · subst h
        obtain ⟨ha, hb⟩ := hk e' (List.mem_cons_self ..) hp
        apply ih2 _ _ (hkeys ▸ ha) (hkeys ▸ hb)
        unfold stepL
        have : (e'.src == e'.tgt || A.contains e'.src || A.contains e'.tgt) = false := by
          simpa [procB] using hp
        rw [this]
        exact mergeEdge_joins l e' ha hb
      · exact ih3 e' h hp

/-- **`compLabels` is constant along the edges of `G − A`**: the closure check of `checkBarrier` never
fails when the edge endpoints are nodes -/
theorem compLabels_closed (g : MGraph) (A : List Nat)
    (hE : ∀ e ∈ g.edges, e.src ∈ g.nodes ∧ e.tgt ∈ g.nodes) :
    labelsClosedB g A (labOf (compLabels g A)) = true := by
  have hkeys : keysOf ((outside g A).map fun x => (x, x)) = outside g A := by
    simp [keysOf, List.map_map, Function.comp_def]
  have hmain := foldl_stepL A g.edges ((outside g A).map fun x => (x, x)) (by
    intro e he hp
    rw [hkeys]
    have hp' : ¬ e.src = e.tgt ∧ e.src ∉ A ∧ e.tgt ∉ A := by
      simpa [procB, not_or, and_assoc] using hp
    have := hE e he
    simp only [outside, List.mem_filter, Bool.not_eq_true', List.contains_eq_mem, decide_eq_false_iff_not]
    exact ⟨⟨this.1, hp'.2.1⟩, ⟨this.2, hp'.2.2⟩⟩)
  have hfold : compLabels g A = g.edges.foldl (stepL A) ((outside g A).map fun x => (x, x)) := rfl
  unfold labelsClosedB
  rw [List.all_eq_true]
  intro e he
  by_cases hp : procB A e = true
  · have := hmain.2.2 e he hp
    rw [← hfold] at this
    simp [this]
  · have : (e.src == e.tgt || A.contains e.src || A.contains e.tgt) = true := by
      unfold procB at hp
      cases hx : (e.src == e.tgt || A.contains e.src || A.contains e.tgt)
      · rw [hx] at hp; exact absurd rfl hp
      · rfl
    rw [this]; rfl

/-- so `checkBarrier` is exactly: well formed, matching, `A` a duplicate-free node list, and the count -/
theorem checkBarrier_iff (g : MGraph) (M : List (Nat × Nat)) (A : List Nat) :
    checkBarrier g M A = true ↔
      wfGraphB g = true ∧ IsMatching g M ∧ nodupB A = true ∧ (∀ a ∈ A, a ∈ g.nodes) ∧
      g.nodes.length + A.length ≤ 2 * M.length + (oddLabels g A (labOf (compLabels g A))).length := by
  unfold checkBarrier checkBarrierWith
  simp only [Bool.and_eq_true, decide_eq_true_eq, isMatchingB_iff, List.all_eq_true,
    List.contains_eq_mem]
  constructor
  · rintro ⟨⟨⟨⟨⟨h1, h2⟩, h3⟩, h4⟩, _⟩, h6⟩
    exact ⟨h1, h2, h3, h4, h6⟩
  · rintro ⟨h1, h2, h3, h4, h6⟩
    exact ⟨⟨⟨⟨⟨h1, h2⟩, h3⟩, h4⟩, compLabels_closed g A (wfGraphB_sound g h1).2⟩, h6⟩

end PetgraphModel.C15W5

section Axioms
open PetgraphModel.C15W5
#print axioms compLabels_closed
#print axioms checkBarrier_iff
end Axioms
