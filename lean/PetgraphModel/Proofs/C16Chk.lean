import PetgraphModel.Model.C16Dom
import PetgraphModel.Proofs.C16Judge
import PetgraphModel.Proofs.C16Accessors
/-
C16 — the soundness half of the Cooper–Harvey–Kennedy fixed point (`Model/C16Dom.lean`):
whatever the model of `simple_fast` puts on the dominator chain of `b` lies on every walk from the
root to `b`, and exactly the nodes of the post-order get an entry.

Shape of the argument: at the fixed point every non-root index `i` satisfies
`doms[i] = intersect-fold of its predecessors`, and `intersect` returns a common ancestor of its
arguments in the `doms` forest (`Anc`).  By induction on a walk `root = w₀ → … → w_k = b` the
ancestor chain of `b` is contained in `{w₀,…,w_k}`.  (The completeness half — every true dominator is
on the chain — needs the monotonicity argument of the data-flow iteration and is not proved.)
-/
namespace PetgraphModel.C16P
open PetgraphModel MGraph C16S C16M PetgraphModel.Trav

/-- `x` is on the chain `i, doms[i], doms[doms[i]], …` -/
inductive Anc (doms : List (Option Nat)) : Nat → Nat → Prop
  | refl (i : Nat) : Anc doms i i
  | step {i d x : Nat} : doms.getD i none = some d → Anc doms d x → Anc doms i x

theorem anc_trans {doms : List (Option Nat)} {i j k : Nat} (h1 : Anc doms i j) (h2 : Anc doms j k) :
    Anc doms i k := by
  induction h1 with
  | refl => exact h2
  | step hd _ ih => exact Anc.step hd (ih h2)

theorem anc_fixed {doms : List (Option Nat)} {k x : Nat} (hk : doms.getD k none = some k)
    (h : Anc doms k x) : x = k := by
  have aux : ∀ i x, Anc doms i x → i = k → x = k := by
    intro i x h
    induction h with
    | refl => intro h; exact h
    | step hd _ ih =>
      intro hik
      subst hik
      rw [hk] at hd
      cases hd
      exact ih rfl
  exact aux k x h rfl

theorem intersect_anc (doms : List (Option Nat)) : ∀ (f a b x : Nat),
    intersect doms f a b = some x → Anc doms a x ∧ Anc doms b x := by
  intro f
  induction f with
  | zero => intro a b x h; simp [intersect] at h
  | succ f ih =>
    intro a b x h
    simp only [intersect] at h
    split at h
    · split at h
      · rename_i d hd
        obtain ⟨h1, h2⟩ := ih d b x h
        exact ⟨Anc.step hd h1, h2⟩
      · cases h
    · split at h
      · split at h
        · rename_i d hd
          obtain ⟨h1, h2⟩ := ih a d x h
          exact ⟨h1, Anc.step hd h2⟩
        · cases h
      · have hab : a = b := by omega
        simp only [Option.some.injEq] at h
        subst h; subst hab
        exact ⟨Anc.refl _, Anc.refl _⟩

theorem foldIntersect_anc (doms : List (Option Nat)) (fuel : Nat) : ∀ (qs : List Nat) (acc x : Nat),
    foldIntersect doms fuel acc qs = some x → Anc doms acc x ∧ ∀ q ∈ qs, Anc doms q x := by
  intro qs
  induction qs with
  | nil => intro acc x h; simp [foldIntersect] at h; subst h; exact ⟨Anc.refl _, by simp⟩
  | cons q qs ih =>
    intro acc x h
    simp only [foldIntersect] at h
    split at h
    · rename_i a ha
      obtain ⟨h1, h2⟩ := intersect_anc doms fuel acc q a ha
      obtain ⟨h3, h4⟩ := ih a x h
      refine ⟨anc_trans h1 h3, fun q' hq' => ?_⟩
      cases List.mem_cons.mp hq' with
      | inl h' => subst h'; exact anc_trans h2 h3
      | inr h' => exact h4 q' h'
    · cases h

/-- the new immediate dominator is a common ancestor of all predecessors that have one -/
theorem newIdom_anc (doms : List (Option Nat)) (fuel : Nat) (preds : List Nat) (i : Nat)
    (h : newIdom doms fuel preds = .val i) :
    ∀ p ∈ preds, (doms.getD p none).isSome → Anc doms p i := by
  intro p hp hdef
  unfold newIdom at h
  have hmem : p ∈ preds.filter fun p => (doms.getD p none).isSome := List.mem_filter.mpr ⟨hp, hdef⟩
  split at h
  · rename_i hnil; rw [hnil] at hmem; cases hmem
  · rename_i p0 rest hcons
    rw [hcons] at hmem
    split at h
    · rename_i j hj
      cases h
      obtain ⟨h1, h2⟩ := foldIntersect_anc doms fuel rest p0 i hj
      cases List.mem_cons.mp hmem with
      | inl h' => subst h'; exact h1
      | inr h' => exact h2 p h'
    · cases h

/-! ### the sweep and the `while changed` loop -/

theorem sweep_true (pv : List (List Nat)) (fuel len : Nat) : ∀ (idxs : List Nat) (doms doms' : List (Option Nat)) (ch : Bool),
    sweep pv fuel len idxs doms true = .ok (doms', ch) → ch = true := by
  intro idxs
  induction idxs with
  | nil => intro doms doms' ch h; simp [sweep] at h; exact h.2
  | cons idx rest ih =>
    intro doms doms' ch h
    simp only [sweep] at h
    split at h
    · cases h
    · cases h
    · split at h
      · cases h
      · split at h
        · exact ih _ _ _ h
        · exact ih _ _ _ h

/-- a sweep that reports "nothing changed" left the table as it was, and every index it visited
satisfies its equation -/
theorem sweep_stable (pv : List (List Nat)) (fuel len : Nat) : ∀ (idxs : List Nat) (doms doms' : List (Option Nat)),
    sweep pv fuel len idxs doms false = .ok (doms', false) →
    doms' = doms ∧ ∀ idx ∈ idxs, ∃ i, newIdom doms fuel (pv.getD idx []) = .val i ∧ i < len ∧
      doms.getD idx none = some i := by
  intro idxs
  induction idxs with
  | nil => intro doms doms' h; simp [sweep] at h; exact ⟨h.symm, by simp⟩
  | cons idx rest ih =>
    intro doms doms' h
    simp only [sweep] at h
    split at h
    · cases h
    · cases h
    · rename_i i hi
      split at h
      · cases h
      · rename_i hlt
        split at h
        · have := sweep_true pv fuel len rest _ _ _ h
          cases this
        · rename_i heq
          obtain ⟨h1, h2⟩ := ih doms doms' h
          refine ⟨h1, fun j hj => ?_⟩
          cases List.mem_cons.mp hj with
          | inl h' =>
            subst h'
            refine ⟨i, hi, by omega, ?_⟩
            simp only [bne_iff_ne, ne_eq, Decidable.not_not] at heq
            exact heq.symm
          | inr h' => exact h2 j h'

theorem sweep_preserve (pv : List (List Nat)) (fuel len : Nat) : ∀ (idxs : List Nat) (doms doms' : List (Option Nat)) (ch ch' : Bool),
    sweep pv fuel len idxs doms ch = .ok (doms', ch') →
    doms'.length = doms.length ∧ ∀ j, j ∉ idxs → doms'.getD j none = doms.getD j none := by
  intro idxs
  induction idxs with
  | nil => intro doms doms' ch ch' h; simp [sweep] at h; rw [h.1]; simp
  | cons idx rest ih =>
    intro doms doms' ch ch' h
    simp only [sweep] at h
    split at h
    · cases h
    · cases h
    · split at h
      · cases h
      · split at h
        · obtain ⟨h1, h2⟩ := ih _ _ _ _ h
          refine ⟨by rw [h1, List.length_set], fun j hj => ?_⟩
          simp only [List.mem_cons, not_or] at hj
          rw [h2 j hj.2, List.getD_eq_getElem?_getD, List.getD_eq_getElem?_getD, List.getElem?_set]
          have : ¬ idx = j := fun h => hj.1 h.symm
          simp [this]
        · obtain ⟨h1, h2⟩ := ih _ _ _ _ h
          exact ⟨h1, fun j hj => h2 j (fun hm => hj (List.mem_cons_of_mem _ hm))⟩

theorem fixLoop_spec (pv : List (List Nat)) (fuel len : Nat) (idxs : List Nat) : ∀ (k : Nat) (doms d : List (Option Nat)),
    fixLoop pv fuel len idxs k doms = .ok (some d) →
    sweep pv fuel len idxs d false = .ok (d, false) ∧ d.length = doms.length ∧
      ∀ j, j ∉ idxs → d.getD j none = doms.getD j none := by
  intro k
  induction k with
  | zero => intro doms d h; simp [fixLoop] at h
  | succ k ih =>
    intro doms d h
    simp only [fixLoop] at h
    split at h
    · cases h
    · rename_i doms' hs
      obtain ⟨h1, h2, h3⟩ := ih doms' d h
      obtain ⟨p1, p2⟩ := sweep_preserve pv fuel len idxs doms doms' false true hs
      exact ⟨h1, by rw [h2, p1], fun j hj => by rw [h3 j hj, p2 j hj]⟩
    · rename_i doms' hs
      simp only [Except.ok.injEq, Option.some.injEq] at h
      subst h
      obtain ⟨e, _⟩ := sweep_stable pv fuel len idxs doms doms' hs
      subst e
      exact ⟨hs, rfl, fun _ _ => rfl⟩

/-! ### the fixed point is sound (index level) -/

theorem fix_sound (g : MGraph) (root : Nat) (post : List Nat) (pv : List (List Nat))
    (doms : List (Option Nat)) (fuel len : Nat)
    (hlen : post.length = len) (hpos : 0 < len) (hnodup : post.Nodup)
    (hroot : post.getD (len - 1) 0 = root)
    (hclosed : ∀ x ∈ post, ∀ y, g.Adj x y → y ∈ post)
    (hpv : ∀ x ∈ post, ∀ y, g.Adj x y → post.idxOf x ∈ pv.getD (post.idxOf y) [])
    (hdef : ∀ i, i < len → (doms.getD i none).isSome)
    (hrootd : doms.getD (len - 1) none = some (len - 1))
    (hfix : ∀ idx, idx < len - 1 → ∃ i, newIdom doms fuel (pv.getD idx []) = .val i ∧ i < len ∧
      doms.getD idx none = some i) :
    ∀ b w, Walk g root b w →
      b ∈ post ∧ ∀ x, Anc doms (post.idxOf b) x → x < len ∧ post.getD x 0 ∈ w := by
  have hrootmem : root ∈ post := by
    rw [← hroot, List.getD_eq_getElem?_getD, List.getElem?_eq_getElem (by omega)]
    simp
  have hrootidx : post.idxOf root = len - 1 := by
    have h1 : len - 1 < post.length := by omega
    have := hnodup.idxOf_getElem (len - 1) h1
    rw [← hroot, List.getD_eq_getElem?_getD, List.getElem?_eq_getElem h1]
    simpa using this
  intro b w hw
  induction hw with
  | start =>
    refine ⟨hrootmem, fun x hx => ?_⟩
    rw [hrootidx] at hx
    have := anc_fixed hrootd hx
    subst this
    exact ⟨by omega, by rw [hroot]; simp⟩
  | @step b c p hwalk hadj ih =>
    obtain ⟨hb, ihb⟩ := ih
    have hc : c ∈ post := hclosed b hb c hadj
    have hci : post.idxOf c < len := hlen ▸ List.idxOf_lt_length_of_mem hc
    have hbi : post.idxOf b < len := hlen ▸ List.idxOf_lt_length_of_mem hb
    refine ⟨hc, fun x hx => ?_⟩
    cases hx with
    | refl =>
      refine ⟨hci, ?_⟩
      rw [List.getD_eq_getElem?_getD, List.getElem?_eq_getElem (hlen ▸ hci)]
      simp
    | @step _ d _ hd hrest =>
      by_cases hlast : post.idxOf c = len - 1
      · rw [hlast, hrootd] at hd
        cases hd
        have := anc_fixed hrootd hrest
        subst this
        exact ⟨by omega, by rw [hroot]; exact List.mem_cons_of_mem _ (walk_start_mem hwalk)⟩
      · obtain ⟨i, hi, _, hdi⟩ := hfix (post.idxOf c) (by omega)
        rw [hdi] at hd
        cases hd
        have hanc : Anc doms (post.idxOf b) d :=
          newIdom_anc doms fuel _ d hi (post.idxOf b) (hpv b hb c hadj) (hdef _ hbi)
        obtain ⟨h1, h2⟩ := ihb x (anc_trans hanc hrest)
        exact ⟨h1, List.mem_cons_of_mem _ h2⟩

/-- at the fixed point no node other than the root is its own immediate dominator -/
theorem fix_no_self (g : MGraph) (root : Nat) (post : List Nat) (pv : List (List Nat))
    (doms : List (Option Nat)) (fuel len : Nat)
    (hlen : post.length = len) (hpos : 0 < len) (hnodup : post.Nodup)
    (hroot : post.getD (len - 1) 0 = root)
    (hclosed : ∀ x ∈ post, ∀ y, g.Adj x y → y ∈ post)
    (hpv : ∀ x ∈ post, ∀ y, g.Adj x y → post.idxOf x ∈ pv.getD (post.idxOf y) [])
    (hdef : ∀ i, i < len → (doms.getD i none).isSome)
    (hrootd : doms.getD (len - 1) none = some (len - 1))
    (hfix : ∀ idx, idx < len - 1 → ∃ i, newIdom doms fuel (pv.getD idx []) = .val i ∧ i < len ∧
      doms.getD idx none = some i)
    (hreach : ∀ x ∈ post, Reach g root x) :
    ∀ i, i < len - 1 → doms.getD i none ≠ some i := by
  intro i hi hself
  have hsound := fix_sound g root post pv doms fuel len hlen hpos hnodup hroot hclosed hpv hdef hrootd hfix
  have hil : i < post.length := by omega
  have hbmem : post[i] ∈ post := List.getElem_mem hil
  have hidx : post.idxOf post[i] = i := hnodup.idxOf_getElem i hil
  have hbroot : post[i] ≠ root := by
    intro hb
    have h1 : len - 1 < post.length := by omega
    have h2 := hnodup.idxOf_getElem (len - 1) h1
    rw [← hroot, List.getD_eq_getElem?_getD, List.getElem?_eq_getElem h1] at hb
    simp only [Option.getD_some] at hb
    rw [← hb, hidx] at h2
    omega
  have hnone : ∀ n, ∀ w, w.length < n → ¬ Walk g root post[i] w := by
    intro n
    induction n with
    | zero => intro w h; cases h
    | succ n ih =>
      intro w hw hwalk
      generalize hb : post[i] = b at hwalk
      cases hwalk with
      | start => exact hbroot hb
      | @step p _ w' hw' hadj =>
        subst hb
        obtain ⟨hp, hanc⟩ := hsound p w' hw'
        have hpi : post.idxOf p < len := hlen ▸ List.idxOf_lt_length_of_mem hp
        obtain ⟨i', hi', _, hdi⟩ := hfix i hi
        rw [hself] at hdi
        cases hdi
        have hmem := hpv p hp post[i] hadj
        rw [hidx] at hmem
        have hA : Anc doms (post.idxOf p) i := newIdom_anc doms fuel _ i hi' _ hmem (hdef _ hpi)
        have hbw : post.getD i 0 ∈ w' := (hanc i hA).2
        rw [List.getD_eq_getElem?_getD, List.getElem?_eq_getElem hil] at hbw
        simp only [Option.getD_some] at hbw
        simp only [List.length_cons] at hw
        by_cases hbp : post[i] = p
        · exact ih w' (by omega) (hbp ▸ hw')
        · obtain ⟨q, hq, hql⟩ := walk_shorter hw' post[i] hbw hbp
          exact ih q (by omega) hq
  obtain ⟨w, hw⟩ := reach_walk (hreach _ hbmem)
  exact hnone (w.length + 1) w (by omega) hw

/-! ### predecessor sets -/

def HasPred (ps : List (Nat × List Nat)) (s p : Nat) : Prop := ∃ l, ps.lookup s = some l ∧ p ∈ l

theorem mem_insertSet (x n : Nat) (s : List Nat) : x ∈ insertSet n s ↔ x = n ∨ x ∈ s := by
  unfold insertSet
  split
  · rename_i h
    simp only [List.contains_iff_mem] at h
    constructor
    · exact Or.inr
    · rintro (h' | h')
      · subst h'; exact h
      · exact h'
  · simp [List.mem_append, or_comm]

theorem lookup_map_upd (succ node : Nat) : ∀ (ps : List (Nat × List Nat)) (y : Nat),
    (ps.map fun (k, s) => if k == succ then (k, insertSet node s) else (k, s)).lookup y =
      (ps.lookup y).map fun s => if y == succ then insertSet node s else s := by
  intro ps
  induction ps with
  | nil => intro y; simp
  | cons x xs ih =>
    intro y
    obtain ⟨k, s⟩ := x
    simp only [List.map_cons]
    by_cases hk : k = succ
    · subst hk
      simp only [beq_self_eq_true, if_true, List.lookup_cons]
      by_cases hy : y = k
      · subst hy; simp
      · have : (y == k) = false := by simpa using hy
        simp only [this, ih y]
    · have hk' : (k == succ) = false := by simpa using hk
      simp only [hk', Bool.false_eq_true, if_false, List.lookup_cons]
      by_cases hy : y = k
      · subst hy; simp [hk']
      · have : (y == k) = false := by simpa using hy
        simp only [this, ih y]

theorem addPred_mono (ps : List (Nat × List Nat)) (s' n s p : Nat) (h : HasPred ps s p) :
    HasPred (addPred ps s' n) s p := by
  obtain ⟨l, hl, hp⟩ := h
  unfold addPred
  split
  · refine ⟨if s == s' then insertSet n l else l, ?_, ?_⟩
    · exact (lookup_map_upd s' n ps s).trans (by rw [hl]; rfl)
    · split
      · exact (mem_insertSet p n l).mpr (Or.inr hp)
      · exact hp
  · exact ⟨l, by rw [List.lookup_append, hl]; rfl, hp⟩

theorem addPred_new (ps : List (Nat × List Nat)) (s n : Nat) : HasPred (addPred ps s n) s n := by
  unfold addPred
  split
  · rename_i l hl
    refine ⟨insertSet n l, ?_, (mem_insertSet n n l).mpr (Or.inl rfl)⟩
    exact (lookup_map_upd s n ps s).trans (by rw [hl]; simp)
  · rename_i hl
    exact ⟨[n], by rw [List.lookup_append, hl]; simp [List.lookup], by simp⟩

theorem inner_fold (node : Nat) : ∀ (succs : List Nat) (ps : List (Nat × List Nat)),
    (∀ s p, HasPred ps s p → HasPred (succs.foldl (fun ps s => addPred ps s node) ps) s p) ∧
    ∀ s ∈ succs, HasPred (succs.foldl (fun ps s => addPred ps s node) ps) s node := by
  intro succs
  induction succs with
  | nil => intro ps; exact ⟨fun _ _ h => h, by simp⟩
  | cons y ys ih =>
    intro ps
    obtain ⟨h1, h2⟩ := ih (addPred ps y node)
    simp only [List.foldl_cons]
    refine ⟨fun s p h => h1 s p (addPred_mono ps y node s p h), fun s hs => ?_⟩
    cases List.mem_cons.mp hs with
    | inl h => subst h; exact h1 _ _ (addPred_new ps s node)
    | inr h => exact h2 s h

theorem outer_fold (v : View) : ∀ (post : List Nat) (ps : List (Nat × List Nat)),
    (∀ s p, HasPred ps s p →
      HasPred (post.foldl (fun ps node => (v.succ node).foldl (fun ps s => addPred ps s node) ps) ps) s p) ∧
    ∀ x ∈ post, ∀ y ∈ v.succ x,
      HasPred (post.foldl (fun ps node => (v.succ node).foldl (fun ps s => addPred ps s node) ps) ps) y x := by
  intro post
  induction post with
  | nil => intro ps; exact ⟨fun _ _ h => h, by simp⟩
  | cons n ns ih =>
    intro ps
    obtain ⟨h1, h2⟩ := ih ((v.succ n).foldl (fun ps s => addPred ps s n) ps)
    obtain ⟨i1, i2⟩ := inner_fold n (v.succ n) ps
    simp only [List.foldl_cons]
    refine ⟨fun s p h => h1 s p (i1 s p h), fun x hx y hy => ?_⟩
    cases List.mem_cons.mp hx with
    | inl h => subst h; exact h1 _ _ (i2 y hy)
    | inr h => exact h2 x h y hy

/-- every edge out of a post-order node is recorded in the predecessor sets -/
theorem predSets_spec (v : View) (post : List Nat) :
    ∀ x ∈ post, ∀ y ∈ v.succ x, HasPred (predSets v post) y x :=
  (outer_fold v post []).2

theorem predVecs_spec (post : List Nat) (ps : List (Nat × List Nat)) (pv : List (List Nat))
    (h : predVecs post ps = some pv) :
    ∀ y ∈ post, pv.getD (post.idxOf y) [] = ((ps.lookup y).getD []).map fun p => post.idxOf p := by
  unfold predVecs at h
  simp only at h
  split at h
  · simp only [Option.some.injEq] at h
    subst h
    intro y hy
    have hi : post.idxOf y < post.length := List.idxOf_lt_length_of_mem hy
    rw [List.getD_eq_getElem?_getD, List.getElem?_map, List.getElem?_eq_getElem hi]
    simp [List.getElem_idxOf hi]
  · cases h

/-! ### from indices back to the `Dominators` value -/

theorem lookup_zip_map {β γ : Type} (f : β → γ) : ∀ (ks : List Nat) (vs : List β), ks.Nodup →
    ∀ i (h : i < ks.length) (h' : i < vs.length),
      ((ks.zip vs).map fun x => (x.1, f x.2)).lookup ks[i] = some (f vs[i]) := by
  intro ks
  induction ks with
  | nil => intro vs _ i h; cases h
  | cons k ks ih =>
    intro vs hn i h h'
    cases vs with
    | nil => cases h'
    | cons w ws =>
      simp only [List.nodup_cons] at hn
      cases i with
      | zero => simp
      | succ i =>
        have hi : i < ks.length := by simpa using h
        have hi' : i < ws.length := by simpa using h'
        simp only [List.zip_cons_cons, List.map_cons, List.getElem_cons_succ, List.lookup_cons]
        have hne : ¬ ks[i] = k := fun he => hn.1 (he ▸ List.getElem_mem hi)
        have : (ks[i] == k) = false := by simpa using hne
        simp only [this]
        exact ih ws hn.2 i hi hi'

theorem lookup_zip_map_mem {β γ : Type} (f : β → γ) (ks : List Nat) (vs : List β) (b : Nat) (c : γ)
    (h : ((ks.zip vs).map fun x => (x.1, f x.2)).lookup b = some c) : b ∈ ks := by
  induction ks generalizing vs with
  | nil => simp at h
  | cons k ks ih =>
    cases vs with
    | nil => simp at h
    | cons w ws =>
      simp only [List.zip_cons_cons, List.map_cons, List.lookup_cons] at h
      by_cases hb : b = k
      · subst hb; simp
      · have : (b == k) = false := by simpa using hb
        simp only [this] at h
        exact List.mem_cons_of_mem _ (ih ws h)

/-- the encoding's neighbour iteration describes the abstract graph -/
def ViewOk (v : View) : Prop := ∀ a b, b ∈ v.succ a ↔ v.g.Adj a b

/-- what `DfsPostOrder` delivers to `simple_fast` (the conclusions of `C08_postorder_set`, for the
collected run the model performs) -/
def PostOrderSpec (v : View) (root : Nat) : Prop :=
  ∀ post, postOrderFrom v (postFuel v) (postFuel v + 4) { stack := [root] } [] = some post →
    post.Nodup ∧ ∀ x, x ∈ post ↔ Reach v.g root x

theorem nodup_getElem_inj {l : List Nat} (h : l.Nodup) {i j : Nat} (hi : i < l.length)
    (hj : j < l.length) (he : l[i] = l[j]) : i = j := by
  have h1 := h.idxOf_getElem i hi
  have h2 := h.idxOf_getElem j hj
  rw [he] at h1
  omega

theorem getD_eq_getElem' {α : Type} (l : List α) (i : Nat) (a : α) (h : i < l.length) : l.getD i a = l[i] := by
  rw [List.getD_eq_getElem?_getD, List.getElem?_eq_getElem h]; rfl

theorem map_lookup_getD (post : List Nat) (doms : List (Option Nat)) (hnodup : post.Nodup)
    (hlen : doms.length = post.length) (i : Nat) (hi : i < post.length) :
    ((post.zip doms).map fun x => (x.1, post.getD (x.2.getD 0) 0)).lookup (post.getD i 0) =
      some (post.getD ((doms.getD i none).getD 0) 0) := by
  have hi' : i < doms.length := hlen ▸ hi
  rw [getD_eq_getElem' post i 0 hi, getD_eq_getElem' doms i none hi']
  exact lookup_zip_map (fun dd : Option Nat => post.getD (dd.getD 0) 0) post doms hnodup i hi hi'

theorem chain_none (d : Doms) (f : Nat) : d.chain f none = [] := by
  cases f <;> simp [Doms.chain]

/-- the accessor chain of the result stays on the ancestor chain of the index table -/
theorem chain_anc (post : List Nat) (doms : List (Option Nat)) (root : Nat) (hnodup : post.Nodup)
    (hlen : doms.length = post.length) (hroot : post.getD (post.length - 1) 0 = root)
    (hbound : ∀ i, i < post.length - 1 → ∃ j, doms.getD i none = some j ∧ j < post.length) :
    ∀ (F i : Nat), i < post.length →
      ∀ a ∈ Doms.chain { root := root, map := (post.zip doms).map fun x => (x.1, post.getD (x.2.getD 0) 0) } F
        (some (post.getD i 0)), ∃ x, Anc doms i x ∧ a = post.getD x 0 := by
  intro F
  induction F with
  | zero => intro i _ a ha; simp [Doms.chain] at ha
  | succ F ih =>
    intro i hi a ha
    simp only [Doms.chain, List.mem_cons] at ha
    rcases ha with ha | ha
    · exact ⟨i, Anc.refl _, ha⟩
    · unfold Doms.immediateDominator at ha
      simp only at ha
      split at ha
      · rw [chain_none] at ha; cases ha
      · rename_i hne
        have hi1 : i < post.length - 1 := by
          apply Classical.byContradiction
          intro hc
          have : i = post.length - 1 := by omega
          exact hne (this ▸ hroot)
        obtain ⟨j, hj, hjl⟩ := hbound i hi1
        rw [map_lookup_getD post doms hnodup hlen i hi, hj] at ha
        simp only [Option.getD_some] at ha
        obtain ⟨x, hx, hax⟩ := ih j hjl a ha
        exact ⟨x, Anc.step hj hx, hax⟩

theorem simpleFast_sound (v : View) (root : Nat) (d : Doms) (hv : ViewOk v)
    (hpost : PostOrderSpec v root) (h : simpleFast v root = .ok d) :
    d.root = root ∧
    (∀ b, d.dominators b = none ↔ ¬ Reach v.g root b) ∧
    (∀ b l, d.dominators b = some l → ∀ a ∈ l, Dominates v.g root a b) ∧
    DomsWF d := by
  unfold simpleFast at h
  simp only at h
  split at h
  · cases h
  · rename_i post hpo
    obtain ⟨hnodup, hreach⟩ := hpost post hpo
    split at h
    · cases h
    · rename_i hchk
      have hlen0 : post.length ≠ 0 := fun h0 => hchk (Or.inl h0)
      have hlast : post.getLast? = some root := Classical.byContradiction fun hl => hchk (Or.inr hl)
      split at h
      · cases h
      · rename_i pv hpv
        split at h
        · cases h
        · cases h
        · rename_i doms hfl
          split at h
          · cases h
          · rename_i hnone
            simp only [SF.ok.injEq] at h
            subst h
            obtain ⟨hsw, hdl, hkeep⟩ := fixLoop_spec pv _ _ _ _ _ doms hfl
            obtain ⟨_, hfixraw⟩ := sweep_stable pv _ _ _ doms doms hsw
            have hdlen : doms.length = post.length := by rw [hdl]; simp
            have hrootd : doms.getD (post.length - 1) none = some (post.length - 1) := by
              rw [hkeep (post.length - 1) (by simp)]
              rw [List.getD_eq_getElem?_getD, List.getElem?_set]
              have hlt : post.length - 1 < post.length := by omega
              simp [hlt]
            have hdef : ∀ i, i < post.length → (doms.getD i none).isSome := by
              intro i hi
              have hi' : i < doms.length := hdlen ▸ hi
              rw [getD_eq_getElem' doms i none hi']
              cases hx : doms[i] with
              | some _ => rfl
              | none =>
                exfalso
                apply hnone
                exact List.any_eq_true.mpr ⟨doms[i], List.getElem_mem hi', by simp [hx]⟩
            have hrootget : post.getD (post.length - 1) 0 = root := by
              rw [List.getLast?_eq_getElem?] at hlast
              rw [List.getD_eq_getElem?_getD, hlast]; rfl
            have hfix : ∀ idx, idx < post.length - 1 → ∃ i,
                newIdom doms (post.length + 2) (pv.getD idx []) = .val i ∧ i < post.length ∧
                doms.getD idx none = some i :=
              fun idx hidx => hfixraw idx (by simp; exact hidx)
            have hclosed : ∀ x ∈ post, ∀ y, v.g.Adj x y → y ∈ post := fun x hx y hadj =>
              (hreach y).mpr (Reach.step ((hreach x).mp hx) hadj)
            have hpvs := predVecs_spec post _ pv hpv
            have hpvedge : ∀ x ∈ post, ∀ y, v.g.Adj x y → post.idxOf x ∈ pv.getD (post.idxOf y) [] := by
              intro x hx y hadj
              rw [hpvs y (hclosed x hx y hadj)]
              obtain ⟨l, hl, hxl⟩ := predSets_spec v post x hx y ((hv x y).mpr hadj)
              rw [hl]
              exact List.mem_map.mpr ⟨x, hxl, rfl⟩
            have hsound := fix_sound v.g root post pv doms (post.length + 2) post.length rfl (by omega)
              hnodup hrootget hclosed hpvedge hdef hrootd hfix
            have hbound : ∀ i, i < post.length - 1 → ∃ j, doms.getD i none = some j ∧ j < post.length := by
              intro i hi
              obtain ⟨j, _, hj, hd⟩ := hfix i hi
              exact ⟨j, hd, hj⟩
            have hnoself := fix_no_self v.g root post pv doms (post.length + 2) post.length rfl (by omega)
              hnodup hrootget hclosed hpvedge hdef hrootd hfix (fun x hx => (hreach x).mp hx)
            refine ⟨rfl, fun b => ?_, fun b l hl a ha => ?_, ?_⟩
            · rw [dominators_none_iff, ← hreach b]
              constructor
              · intro hnone' hb
                have hi := List.idxOf_lt_length_of_mem hb
                have := map_lookup_getD post doms hnodup hdlen (post.idxOf b) hi
                rw [getD_eq_getElem' post _ 0 hi, List.getElem_idxOf hi] at this
                simp only at hnone'
                rw [hnone'] at this
                cases this
              · intro hb
                cases hlk : List.lookup b ((post.zip doms).map fun x => (x.1, post.getD (x.2.getD 0) 0)) with
                | none => rfl
                | some c => exact (hb (lookup_zip_map_mem (fun dd : Option Nat => post.getD (dd.getD 0) 0) post doms b c hlk)).elim
            · intro w hw
              obtain ⟨hb, hanc⟩ := hsound b w hw
              have hi := List.idxOf_lt_length_of_mem hb
              unfold Doms.dominators at hl
              split at hl
              · simp only [Option.some.injEq] at hl
                subst hl
                have hbi : post.getD (post.idxOf b) 0 = b := by
                  rw [getD_eq_getElem' post _ 0 hi, List.getElem_idxOf hi]
                rw [← hbi] at ha
                obtain ⟨x, hx, hax⟩ := chain_anc post doms root hnodup hdlen hrootget hbound _ _ hi a ha
                rw [hax]
                exact (hanc x hx).2
              · cases hl
            · constructor
              · simp only [List.map_map]
                have : (Prod.fst ∘ fun x : Nat × Option Nat => (x.1, post.getD (x.2.getD 0) 0)) = Prod.fst := rfl
                rw [this, List.map_fst_zip (by omega)]
                exact hnodup
              · intro k val hkv
                simp only [List.mem_map] at hkv
                obtain ⟨⟨k', dd⟩, hz, hf⟩ := hkv
                simp only [Prod.mk.injEq] at hf
                obtain ⟨rfl, rfl⟩ := hf
                obtain ⟨i, hiz, hzi⟩ := List.mem_iff_getElem.mp hz
                rw [List.getElem_zip] at hzi
                simp only [Prod.mk.injEq] at hzi
                obtain ⟨hk, hd⟩ := hzi
                have hil : i < post.length := by
                  rw [List.length_zip] at hiz; omega
                have hidl : i < doms.length := hdlen ▸ hil
                have hlast1 : post.length - 1 < post.length := by omega
                have hrootel : post[post.length - 1] = root := by
                  rw [← hrootget, getD_eq_getElem' post _ 0 hlast1]
                by_cases hi1 : i = post.length - 1
                · subst hi1
                  have : dd = some (post.length - 1) := by
                    rw [← hd, ← hrootd, getD_eq_getElem' doms _ none hidl]
                  subst this
                  simp only [Option.getD_some]
                  rw [hrootget, ← hk, hrootel]
                · have hi2 : i < post.length - 1 := by omega
                  obtain ⟨j, hj, hjl⟩ := hbound i hi2
                  rw [getD_eq_getElem' doms _ none hidl, hd] at hj
                  subst hj
                  simp only [Option.getD_some]
                  have hji : j ≠ i := by
                    intro hji
                    apply hnoself i hi2
                    rw [getD_eq_getElem' doms _ none hidl, hd, hji]
                  rw [getD_eq_getElem' post _ 0 hjl, ← hk]
                  constructor
                  · intro hpe
                    exact (hji (nodup_getElem_inj hnodup hjl hil hpe)).elim
                  · intro hkr
                    rw [← hrootel] at hkr
                    exact (hi1 (nodup_getElem_inj hnodup hil hlast1 hkr)).elim

end PetgraphModel.C16P
