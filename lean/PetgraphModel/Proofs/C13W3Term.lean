import PetgraphModel.Proofs.C13W3Fuel
/-
C13, wave 3 — TERMINATION of the frame-stack search, with an explicit bound.

`pot` is a potential of the frame stack that every loop iteration (`frameStep`) strictly decreases:

* an `Outer` frame with `k` pattern nodes still unmapped costs `outerCost k` iterations: itself, plus for
  each of the at most `n1 - (n0 - k)` unmapped target nodes one `Inner` iteration, one `Unwind` iteration and
  the `Outer` frame one level deeper;
* an `Inner n0 b` frame costs that per-candidate price for every target node `≥ b` that is not mapped below it
  (`freeFrom`); an `Unwind n0 b` frame one iteration plus the candidates `> b`.

The bound `explicitBound I = outerCost n0 n1 n0 + 1 = 1 + Σ_k (n1)(n1-1)…(n1-k+1)·(≤ 3)` is the number of
partial injective mappings (search-tree nodes) times a constant.
-/
namespace PetgraphModel.C13.Vf2
open PetgraphModel

/- `outerCost` (loop iterations needed to work off an `Outer` frame when `k` nodes of g0 are still unmapped:
`outerCost 0 = 1`, `outerCost (k+1) = 1 + (n1 - (n0 - (k+1))) * (2 + outerCost k)`) and
`explicitBound I = outerCost n0 n1 n0 + 1` (a fuel that suffices for every `next()` call on the instance) are
defined in `Model/C13Vf2Side.lean`. -/

/-- number of target nodes `x` with `b ≤ x < n1` that are not in `bs` -/
def freeFrom (n1 : Nat) (bs : List Nat) (b : Nat) : Nat :=
  (List.range n1).countP fun x => decide (b ≤ x) && !bs.contains x

theorem freeFrom_succ_n (n : Nat) (bs : List Nat) (b : Nat) :
    freeFrom (n + 1) bs b = freeFrom n bs b + (if b ≤ n ∧ n ∉ bs then 1 else 0) := by
  unfold freeFrom
  rw [List.range_succ, List.countP_append]
  congr 1
  by_cases h : b ≤ n ∧ n ∉ bs
  · simp [h.1, h.2]
  · rw [if_neg h]
    simp only [List.countP_cons, List.countP_nil, Nat.zero_add]
    rw [if_neg]
    simp only [Bool.and_eq_true, decide_eq_true_eq, Bool.not_eq_true', List.contains_eq_mem,
      decide_eq_false_iff_not]
    exact h

theorem freeFrom_mono (n1 : Nat) (bs : List Nat) {b b' : Nat} (h : b ≤ b') :
    freeFrom n1 bs b' ≤ freeFrom n1 bs b := by
  unfold freeFrom
  apply List.countP_mono_left
  intro x _ hx
  simp only [Bool.and_eq_true, decide_eq_true_eq] at hx ⊢
  exact ⟨by omega, hx.2⟩

theorem freeFrom_of_ge (n1 : Nat) (bs : List Nat) {b : Nat} (h : n1 ≤ b) : freeFrom n1 bs b = 0 := by
  unfold freeFrom
  rw [List.countP_eq_zero]
  intro x hx
  have := List.mem_range.mp hx
  simp only [Bool.and_eq_true, decide_eq_true_eq, not_and]
  intro h'
  omega

theorem freeFrom_succ (n1 : Nat) (bs : List Nat) {b : Nat} (hb : b < n1) (hbs : b ∉ bs) :
    freeFrom n1 bs b = freeFrom n1 bs (b + 1) + 1 := by
  induction n1 with
  | zero => omega
  | succ n ih =>
    rw [freeFrom_succ_n, freeFrom_succ_n]
    by_cases hbn : b < n
    · rw [ih hbn]
      have e1 : (b ≤ n ∧ n ∉ bs) ↔ (b + 1 ≤ n ∧ n ∉ bs) := by
        constructor
        · rintro ⟨_, h⟩; exact ⟨by omega, h⟩
        · rintro ⟨_, h⟩; exact ⟨by omega, h⟩
      simp only [e1]
      omega
    · have : b = n := by omega
      subst this
      rw [freeFrom_of_ge b bs (Nat.le_refl b), freeFrom_of_ge b bs (Nat.le_succ b)]
      simp [hbs]

theorem freeFrom_le (n1 : Nat) (bs : List Nat) (b : Nat) (nd : bs.Nodup) (hlt : ∀ x ∈ bs, x < n1) :
    freeFrom n1 bs b + bs.length ≤ n1 := by
  have h0 : freeFrom n1 bs b ≤ (List.range n1).countP fun x => !bs.contains x := by
    unfold freeFrom
    apply List.countP_mono_left
    intro x _ hx
    simp only [Bool.and_eq_true] at hx
    exact hx.2
  have h1 : bs.length ≤ (List.range n1).countP fun x => bs.contains x := by
    rw [List.countP_eq_length_filter]
    apply (List.subperm_of_subset nd _).length_le
    intro x hx
    exact List.mem_filter.mpr ⟨List.mem_range.mpr (hlt x hx), by simpa using hx⟩
  have h2 := List.length_eq_countP_add_countP (fun x => bs.contains x) (l := List.range n1)
  simp only [List.length_range] at h2
  have h3 : (List.range n1).countP (fun x => !bs.contains x) =
      (List.range n1).countP (fun a => ¬ (bs.contains a) = true) := by
    apply List.countP_congr
    intro x _
    simp
  omega

/-! ### the potential -/

/-- the target nodes mapped by the `Unwind` frames of a stack -/
def bsOf (st : List Frame) : List Nat := (trailOf st).map (·.2)

/-- price of one candidate at a level where `k` pattern nodes are unmapped -/
def candCost (n0 n1 k : Nat) : Nat := 2 + outerCost n0 n1 (k - 1)

def pot (n0 n1 : Nat) : List Frame → Nat
  | [] => 0
  | .outer :: rest => outerCost n0 n1 (n0 - (trailOf rest).length) + pot n0 n1 rest
  | .inner _ b _ :: rest =>
    freeFrom n1 (bsOf rest) b * candCost n0 n1 (n0 - (trailOf rest).length) + pot n0 n1 rest
  | .unwind _ b _ :: rest =>
    1 + freeFrom n1 (bsOf rest) (b + 1) * candCost n0 n1 (n0 - (trailOf rest).length) + pot n0 n1 rest

/-- the potential of the frame stack of a machine state -/
def Phi (I : Inst) (st : List Frame) : Nat := pot I.g0.n I.g1.n st

theorem outerCost_pos (n0 n1 k : Nat) : 0 < outerCost n0 n1 k := by
  cases k <;> simp only [outerCost] <;> omega

theorem candCost_pos (n0 n1 k : Nat) : 0 < candCost n0 n1 k := by
  unfold candCost; omega

theorem pot_le_cons (n0 n1 : Nat) (fr : Frame) (rest : List Frame) : pot n0 n1 rest ≤ pot n0 n1 (fr :: rest) := by
  cases fr <;> simp only [pot] <;> omega

theorem Phi_init (I : Inst) : Phi I (M.init I).stack + 1 = explicitBound I := by
  simp [Phi, M.init, pot, explicitBound]

/-! ### what the invariant says about the stack -/

theorem unwKeys_eq (st : List Frame) : unwKeys st = (trailOf st).map (·.1) := by
  induction st with
  | nil => rfl
  | cons fr st ih =>
    cases fr with
    | outer => exact ih
    | inner a b ol => exact ih
    | unwind a b ol =>
      have : unwKeys (Frame.unwind a b ol :: st) = a :: unwKeys st := by
        unfold unwKeys; rw [List.filterMap_cons]; rfl
      rw [this, ih, trailOf_unwind]; rfl

theorem Inv.trail_mapped {I : Inst} {m : M} (h : Inv I m) {p : Nat × Nat} (hp : p ∈ trailOf m.stack) :
    m.s0.map p.1 = some p.2 ∧ m.s1.map p.2 = some p.1 := by
  obtain ⟨ol, hm⟩ := mem_trailOf hp
  have := h.unw p.1 p.2 ol hm
  exact ⟨this, (h.core.inv _ _).mp this⟩

theorem Inv.bs_lt {I : Inst} {m : M} (h : Inv I m) : ∀ x ∈ bsOf m.stack, x < I.g1.n := by
  intro x hx
  obtain ⟨p, hp, rfl⟩ := List.mem_map.mp hx
  rw [← h.core.len1]
  exact map_some_lt (h.trail_mapped hp).2

theorem Inv.bs_nodup {I : Inst} {m : M} (h : Inv I m) : (bsOf m.stack).Nodup := by
  have hk : ((trailOf m.stack).map (·.1)).Nodup := by rw [← unwKeys_eq]; exact h.distinct
  refine List.Nodup.map_on ?_ (List.Nodup.of_map _ hk)
  intro p hp q hq hpq
  have a := (h.trail_mapped hp).2
  have b := (h.trail_mapped hq).2
  rw [hpq, b] at a
  exact Prod.ext (Option.some.inj a).symm hpq

theorem Inv.trail_length {I : Inst} {m : M} (_h : Inv I m) :
    (trailOf m.stack).length = (bsOf m.stack).length := by
  simp [bsOf]

/-- at an `Inner` frame the level below is not complete, and the candidate is a free target node -/
theorem Inv.inner_facts {I : Inst} {m : M} (h : Inv I m) {a b : Nat} {ol : OpenList} {rest : List Frame}
    (hs : m.stack = Frame.inner a b ol :: rest) :
    (trailOf rest).length < I.g0.n ∧ b ∉ bsOf rest ∧ b < I.g1.n := by
  obtain ⟨ha, hb, ha', hb'⟩ := h.innerHead a b ol rest hs
  have htr : trailOf m.stack = trailOf rest := by rw [hs]; rfl
  refine ⟨?_, ?_, hb'⟩
  · have hk : (a :: (trailOf rest).map (·.1)).Nodup := by
      refine List.nodup_cons.mpr ⟨?_, ?_⟩
      · intro hmem
        obtain ⟨p, hp, rfl⟩ := List.mem_map.mp hmem
        have := (h.trail_mapped (htr ▸ hp)).1
        rw [ha] at this; cases this
      · have := h.distinct
        rw [unwKeys_eq, htr] at this
        exact this
    have hsub : (a :: (trailOf rest).map (·.1)) ⊆ List.range I.g0.n := by
      intro x hx
      rcases List.mem_cons.mp hx with rfl | hx
      · exact List.mem_range.mpr ha'
      · obtain ⟨p, hp, rfl⟩ := List.mem_map.mp hx
        have := (h.trail_mapped (htr ▸ hp)).1
        rw [← h.core.len0]
        exact List.mem_range.mpr (map_some_lt this)
    have := (List.subperm_of_subset hk hsub).length_le
    simp only [List.length_cons, List.length_map, List.length_range] at this
    omega
  · intro hmem
    obtain ⟨p, hp, rfl⟩ := List.mem_map.mp hmem
    have := (h.trail_mapped (htr ▸ hp)).2
    rw [hb] at this; cases this

/-! ### every loop iteration decreases the potential -/

theorem advance_stack {I : Inst} {m : M} {a b : Nat} {ol : OpenList} {result : Result} {m2 : M} {r2 : Result}
    {chk : Bool} (h : advance I m a b ol result = (m2, r2, chk)) :
    m2.stack = m.stack ∨ ∃ nx, b + 1 ≤ nx ∧ m2.stack = Frame.inner a nx ol :: m.stack := by
  unfold advance at h
  rw [nextFromIx_eq] at h
  split at h
  · cases h; exact Or.inl rfl
  · rename_i nx hnx
    cases h
    exact Or.inr ⟨nx, (nextOf_some hnx).1, rfl⟩

theorem advance_pot {I : Inst} {m : M} {a b : Nat} {ol : OpenList} {result : Result} {m2 : M} {r2 : Result}
    {chk : Bool} (h : advance I m a b ol result = (m2, r2, chk)) :
    Phi I m2.stack ≤ freeFrom I.g1.n (bsOf m.stack) (b + 1) *
      candCost I.g0.n I.g1.n (I.g0.n - (trailOf m.stack).length) + Phi I m.stack := by
  rcases advance_stack h with hs | ⟨nx, hnx, hs⟩
  · rw [hs]; omega
  · rw [hs]
    show pot _ _ (Frame.inner a nx ol :: m.stack) ≤ _
    simp only [pot, Phi]
    exact Nat.add_le_add_right (Nat.mul_le_mul_right _ (freeFrom_mono _ _ hnx)) _

theorem frameStep_pot {I : Inst} (ok0 : CGOk I.g0) (ok1 : CGOk I.g1) (hd : I.g0.directed = I.g1.directed)
    {sub : Bool} {m : M} {fr : Frame} {rest : List Frame} {result : Result}
    (hinv : Inv I m) (hs : m.stack = fr :: rest) (hg : Good I result)
    {m2 : M} {r2 : Result} {chk : Bool}
    (h : frameStep I sub { m with stack := rest } fr result = (m2, r2, chk)) :
    Phi I m2.stack < Phi I m.stack := by
  have hinv2 := (frameStep_inv ok0 ok1 hd hinv hs hg h).1
  rw [hs]
  cases fr with
  | unwind a b ol =>
    simp only [frameStep] at h
    have := advance_pot h
    have e : (popState I { m with stack := rest } a b).stack = rest := rfl
    rw [e] at this
    show _ < pot _ _ (Frame.unwind a b ol :: rest)
    simp only [pot]
    simp only [Phi] at this ⊢
    omega
  | outer =>
    simp only [frameStep] at h
    split at h
    · cases h
      show pot _ _ rest < pot _ _ (Frame.outer :: rest)
      simp only [pot]
      have := outerCost_pos I.g0.n I.g1.n (I.g0.n - (trailOf rest).length)
      omega
    · rename_i a b ol hc
      cases h
      obtain ⟨hlt, _, _⟩ := hinv2.inner_facts (a := a) (b := b) (ol := ol) (rest := rest) rfl
      have hbs : bsOf ({ m with stack := Frame.inner a b ol :: rest } : M).stack = bsOf rest := rfl
      have hnd := hinv2.bs_nodup
      have hbl := hinv2.bs_lt
      rw [hbs] at hnd hbl
      have hfree := freeFrom_le I.g1.n (bsOf rest) b hnd hbl
      have hlen : (bsOf rest).length = (trailOf rest).length := by simp [bsOf]
      show pot _ _ (Frame.inner a b ol :: rest) < pot _ _ (Frame.outer :: rest)
      simp only [pot]
      obtain ⟨k, hk⟩ : ∃ k, I.g0.n - (trailOf rest).length = k + 1 :=
        ⟨I.g0.n - (trailOf rest).length - 1, by omega⟩
      rw [hk]
      simp only [outerCost, candCost, Nat.add_sub_cancel]
      have e : I.g0.n - (k + 1) = (trailOf rest).length := by omega
      rw [e]
      have : freeFrom I.g1.n (bsOf rest) b ≤ I.g1.n - (trailOf rest).length := by omega
      have := Nat.mul_le_mul_right (2 + outerCost I.g0.n I.g1.n k) this
      omega
  | inner a b ol =>
    obtain ⟨hlt, hbn, hb⟩ := hinv.inner_facts hs
    have hfs := freeFrom_succ I.g1.n (bsOf rest) hb hbn
    have hcp := candCost_pos I.g0.n I.g1.n (I.g0.n - (trailOf rest).length)
    have old : pot I.g0.n I.g1.n (Frame.inner a b ol :: rest) =
        freeFrom I.g1.n (bsOf rest) (b + 1) * candCost I.g0.n I.g1.n (I.g0.n - (trailOf rest).length)
          + candCost I.g0.n I.g1.n (I.g0.n - (trailOf rest).length) + pot I.g0.n I.g1.n rest := by
      simp only [pot]
      rw [hfs, Nat.succ_mul]
    have viaAdvance : ∀ (mm : M), mm.stack = rest →
        advance I mm a b ol
          (if (pushState I { m with stack := rest } a b).s0.isComplete = true then
            some (pushState I { m with stack := rest } a b).s0.mapping else result) = (m2, r2, chk) ∨
        advance I mm a b ol result = (m2, r2, chk) →
        Phi I m2.stack < Phi I (Frame.inner a b ol :: rest) := by
      intro mm hmm hadv
      have : Phi I m2.stack ≤ freeFrom I.g1.n (bsOf rest) (b + 1) *
          candCost I.g0.n I.g1.n (I.g0.n - (trailOf rest).length) + Phi I rest := by
        rcases hadv with hadv | hadv
        · have := advance_pot hadv; rw [hmm] at this; exact this
        · have := advance_pot hadv; rw [hmm] at this; exact this
      simp only [Phi] at this ⊢
      rw [old]
      omega
    simp only [frameStep] at h
    split at h
    · split at h
      · cases h
        show pot _ _ (Frame.outer :: Frame.unwind a b ol :: rest) < pot _ _ (Frame.inner a b ol :: rest)
        rw [old]
        simp only [pot, trailOf_unwind, List.length_cons]
        have e : I.g0.n - ((trailOf rest).length + 1) = I.g0.n - (trailOf rest).length - 1 := by omega
        rw [e]
        have hb2 : bsOf rest = (trailOf rest).map (·.2) := rfl
        simp only [candCost]
        omega
      · exact viaAdvance _ rfl (Or.inl h)
    · exact viaAdvance _ rfl (Or.inr h)

/-! ### the loop and `isomorphisms()` terminate -/

theorem isoLoop_terminates {I : Inst} (ok0 : CGOk I.g0) (ok1 : CGOk I.g1) (hd : I.g0.directed = I.g1.directed)
    (sub : Bool) : ∀ (fuel : Nat) (m : M) (result : Result),
      Inv I m → Good I result → Phi I m.stack < fuel →
      ∃ m' r, isoLoop I sub fuel m result = some (m', r) ∧ Phi I m'.stack ≤ Phi I m.stack := by
  intro fuel
  induction fuel with
  | zero => intro m result _ _ h; omega
  | succ fuel ih =>
    intro m result hinv hg hlt
    rw [isoLoop]
    split
    · exact ⟨m, result, rfl, Nat.le_refl _⟩
    · rename_i fr rest hs
      split
      rename_i m2 r2 chk hstep
      have hi2 := frameStep_inv ok0 ok1 hd hinv hs hg hstep
      have hdec := frameStep_pot ok0 ok1 hd hinv hs hg hstep
      split
      · exact ⟨m2, r2, rfl, Nat.le_of_lt hdec⟩
      · obtain ⟨m', r, he, hle⟩ := ih m2 r2 hi2.1 hi2.2 (by omega)
        exact ⟨m', r, he, by omega⟩

/-- one `next()` call from any reachable state ends within `Phi + 1` loop iterations, and leaves a state
whose potential is not larger -/
theorem isomorphisms_terminates {I : Inst} (ok0 : CGOk I.g0) (ok1 : CGOk I.g1)
    (hd : I.g0.directed = I.g1.directed) (sub : Bool) {fuel : Nat} {m : M}
    (hinv : Inv I m) (hlt : Phi I m.stack < fuel) :
    ∃ m' r, isomorphisms I sub fuel m = some (m', r) ∧ Phi I m'.stack ≤ Phi I m.stack := by
  unfold isomorphisms
  split
  · split
    · exact ⟨_, _, rfl, Nat.le_refl _⟩
    · rename_i fr rest hs
      refine ⟨_, _, rfl, ?_⟩
      rw [hs]
      exact pot_le_cons _ _ fr rest
  · exact isoLoop_terminates ok0 ok1 hd sub fuel m none hinv (fun mp hmp => by cases hmp) hlt

/-- the first call ends within `explicitBound I` iterations -/
theorem isomorphisms_init_terminates {I : Inst} (ok0 : CGOk I.g0) (ok1 : CGOk I.g1)
    (hd : I.g0.directed = I.g1.directed) (sub : Bool) {fuel : Nat} (hb : explicitBound I ≤ fuel) :
    (isomorphisms I sub fuel (M.init I)).isSome = true := by
  have := Phi_init I
  obtain ⟨m', r, h, _⟩ := isomorphisms_terminates ok0 ok1 hd sub (fuel := fuel) (init_inv I) (by omega)
  rw [h]; rfl

/-! ### the bound in closed form -/

/-- `outerCost n0 n1 k ≤ 3 (n1+1)^k` -/
theorem outerCost_le_pow (n0 n1 k : Nat) : outerCost n0 n1 k + 2 ≤ 3 * (n1 + 1) ^ k := by
  induction k with
  | zero => simp [outerCost]
  | succ k ih =>
    simp only [outerCost, Nat.pow_succ]
    have h1 : (n1 - (n0 - (k + 1))) * (2 + outerCost n0 n1 k) ≤ n1 * (3 * (n1 + 1) ^ k) :=
      Nat.mul_le_mul (Nat.sub_le _ _) (by omega)
    have h2 : 3 * ((n1 + 1) ^ k * (n1 + 1)) = n1 * (3 * (n1 + 1) ^ k) + 3 * (n1 + 1) ^ k := by
      rw [Nat.mul_add, Nat.mul_one, Nat.mul_add]
      congr 1
      ac_rfl
    have h3 : 0 < (n1 + 1) ^ k := Nat.pow_pos (by omega)
    omega

end PetgraphModel.C13.Vf2
