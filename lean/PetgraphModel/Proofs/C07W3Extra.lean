import PetgraphModel.Proofs.C07W2Base
import PetgraphModel.Proofs.C07W2Scc
import PetgraphModel.Theorems.C15
import PetgraphModel.Theorems.C20
import PetgraphModel.Theorems.C09
/-
C07 wave 3, item 4 — specification notions of the algorithms that had no C07 theorem yet, under a change of
presentation and under an injective relabeling: matchings (`Joined`, `IsMatching`, `maxMatchingSize`), simple paths
(`IsWalk`, `IsSimplePathIn`), the covering relation of a DAG (`Covers`), partitions into classes of mutual
reachability (`PartSpec`, and the number of classes).
-/
namespace PetgraphModel.C07W3
open PetgraphModel PetgraphModel.MGraph PetgraphModel.C07W2

/-! ### matchings -/
section Matching
open PetgraphModel.C15 PetgraphModel.C15P

/-- the same pairs of nodes are joined by a non-loop edge, direction ignored (edge ids, weights, multiplicities,
stored orientation and insertion order are free) -/
def SameJoined (g1 g2 : MGraph) : Prop := ∀ a b, Joined g1 a b ↔ Joined g2 a b

theorem SameJoined.refl (g : MGraph) : SameJoined g g := fun _ _ => Iff.rfl
theorem SameJoined.symm {g1 g2 : MGraph} (h : SameJoined g1 g2) : SameJoined g2 g1 := fun a b => (h a b).symm

theorem isMatching_congr {g1 g2 : MGraph} (h : SameJoined g1 g2) {M : List (Nat × Nat)} :
    IsMatching g1 M ↔ IsMatching g2 M := by
  unfold IsMatching
  constructor
  · rintro ⟨h1, h2⟩; exact ⟨fun p hp => (h _ _).mp (h1 p hp), h2⟩
  · rintro ⟨h1, h2⟩; exact ⟨fun p hp => (h _ _).mpr (h1 p hp), h2⟩

theorem joined_relabel {φ : Nat → Nat} (hφ : Inj φ) (g : MGraph) {a b : Nat} (h : Joined g a b) :
    Joined (relabel φ g) (φ a) (φ b) := by
  obtain ⟨hne, e, he, hor⟩ := h
  refine ⟨fun h => hne (hφ _ _ h), { e with src := φ e.src, tgt := φ e.tgt },
    (mem_relabel_edges φ g).mpr ⟨e, he, rfl⟩, ?_⟩
  rcases hor with ⟨h1, h2⟩ | ⟨h1, h2⟩
  · exact Or.inl ⟨by simp [h1], by simp [h2]⟩
  · exact Or.inr ⟨by simp [h1], by simp [h2]⟩

/-- whatever is joined in the relabeled graph is the image of a joined pair -/
theorem joined_relabel_inv (φ : Nat → Nat) (g : MGraph) {x y : Nat} (h : Joined (relabel φ g) x y) :
    ∃ a b, x = φ a ∧ y = φ b ∧ Joined g a b := by
  obtain ⟨hne, e', he', hor⟩ := h
  obtain ⟨e, he, rfl⟩ := (mem_relabel_edges φ g).mp he'
  rcases hor with ⟨h1, h2⟩ | ⟨h1, h2⟩
  · simp only at h1 h2
    exact ⟨e.src, e.tgt, h1.symm, h2.symm, fun h => hne (by rw [← h1, ← h2, h]), e, he, Or.inl ⟨rfl, rfl⟩⟩
  · simp only at h1 h2
    exact ⟨e.tgt, e.src, h2.symm, h1.symm, fun h => hne (by rw [← h1, ← h2, h]), e, he, Or.inr ⟨rfl, rfl⟩⟩

theorem joined_relabel_iff {φ : Nat → Nat} (hφ : Inj φ) (g : MGraph) {a b : Nat} :
    Joined (relabel φ g) (φ a) (φ b) ↔ Joined g a b := by
  constructor
  · intro h
    obtain ⟨a', b', h1, h2, hj⟩ := joined_relabel_inv φ g h
    rw [hφ _ _ h1, hφ _ _ h2]; exact hj
  · exact joined_relabel hφ g

/-- the renaming of a list of pairs -/
def mapPairs (φ : Nat → Nat) (M : List (Nat × Nat)) : List (Nat × Nat) := M.map fun p => (φ p.1, φ p.2)

theorem isMatching_relabel {φ : Nat → Nat} (hφ : Inj φ) (g : MGraph) {M : List (Nat × Nat)}
    (h : IsMatching g M) : IsMatching (relabel φ g) (mapPairs φ M) := by
  obtain ⟨h1, h2⟩ := h
  refine ⟨?_, ?_⟩
  · intro p' hp'
    obtain ⟨p, hp, rfl⟩ := List.mem_map.mp hp'
    exact joined_relabel hφ g (h1 p hp)
  · refine List.pairwise_map.mpr (h2.imp ?_)
    intro p q ⟨a, b, c, d⟩
    exact ⟨fun h => a (hφ _ _ h), fun h => b (hφ _ _ h), fun h => c (hφ _ _ h), fun h => d (hφ _ _ h)⟩

/-- every matching of the relabeled graph is the image of a matching of the graph -/
theorem isMatching_relabel_inv (φ : Nat → Nat) (g : MGraph) :
    ∀ M' : List (Nat × Nat), IsMatching (relabel φ g) M' → ∃ M, IsMatching g M ∧ mapPairs φ M = M' := by
  intro M'
  induction M' with
  | nil => intro _; exact ⟨[], ⟨fun _ h => (nomatch h), List.Pairwise.nil⟩, rfl⟩
  | cons p' t ih =>
    intro hM'
    obtain ⟨h1, h2⟩ := hM'
    obtain ⟨M, ⟨hM1, hM2⟩, hMt⟩ := ih ⟨fun q hq => h1 q (List.mem_cons_of_mem _ hq), (List.pairwise_cons.mp h2).2⟩
    obtain ⟨a, b, ha, hb, hj⟩ := joined_relabel_inv φ g (h1 p' (List.mem_cons_self ..))
    refine ⟨(a, b) :: M, ⟨?_, ?_⟩, ?_⟩
    · intro q hq
      rcases List.mem_cons.mp hq with rfl | hq
      · exact hj
      · exact hM1 q hq
    · refine List.pairwise_cons.mpr ⟨?_, hM2⟩
      intro q hq
      have hq' : (φ q.1, φ q.2) ∈ t := by rw [← hMt]; exact List.mem_map.mpr ⟨q, hq, rfl⟩
      obtain ⟨d1, d2, d3, d4⟩ := (List.pairwise_cons.mp h2).1 _ hq'
      simp only at d1 d2 d3 d4
      refine ⟨fun h => d1 ?_, fun h => d2 ?_, fun h => d3 ?_, fun h => d4 ?_⟩
      · show p'.1 = φ q.1; rw [ha]; exact congrArg φ h
      · show p'.1 = φ q.2; rw [ha]; exact congrArg φ h
      · show p'.2 = φ q.1; rw [hb]; exact congrArg φ h
      · show p'.2 = φ q.2; rw [hb]; exact congrArg φ h
    · show (φ a, φ b) :: mapPairs φ M = p' :: t
      rw [hMt, ← ha, ← hb]

theorem length_mapPairs (φ : Nat → Nat) (M : List (Nat × Nat)) : (mapPairs φ M).length = M.length := by
  simp [mapPairs]

/-- the size of a maximum matching is the same for the relabeled graph -/
theorem maxMatchingSize_relabel {φ : Nat → Nat} (hφ : Inj φ) (g : MGraph) :
    maxMatchingSize (relabel φ g) = maxMatchingSize g := by
  apply Nat.le_antisymm
  · obtain ⟨M', hM', hl⟩ := maxMatchingSize_attained (relabel φ g)
    obtain ⟨M, hM, rfl⟩ := isMatching_relabel_inv φ g M' hM'
    rw [← hl, length_mapPairs]
    exact maxMatchingSize_upper g M hM
  · obtain ⟨M, hM, hl⟩ := maxMatchingSize_attained g
    rw [← hl, ← length_mapPairs φ M]
    exact maxMatchingSize_upper _ _ (isMatching_relabel hφ g hM)

/-- … and depends only on which pairs are joined -/
theorem maxMatchingSize_congr {g1 g2 : MGraph} (h : SameJoined g1 g2) :
    maxMatchingSize g1 = maxMatchingSize g2 := by
  apply Nat.le_antisymm
  · obtain ⟨M, hM, hl⟩ := maxMatchingSize_attained g1
    rw [← hl]; exact maxMatchingSize_upper g2 M ((isMatching_congr h).mp hM)
  · obtain ⟨M, hM, hl⟩ := maxMatchingSize_attained g2
    rw [← hl]; exact maxMatchingSize_upper g1 M ((isMatching_congr h).mpr hM)

/-- a matching is maximum iff it has `maxMatchingSize` pairs -/
theorem isMaximum_iff_size {g : MGraph} {M : List (Nat × Nat)} (hM : IsMatching g M) :
    IsMaximumMatching g M ↔ M.length = maxMatchingSize g := by
  constructor
  · intro ⟨_, hmax⟩
    obtain ⟨M0, hM0, hl⟩ := maxMatchingSize_attained g
    have := hmax M0 hM0
    have := maxMatchingSize_upper g M hM
    omega
  · intro hl
    exact ⟨hM, fun M' hM' => hl ▸ maxMatchingSize_upper g M' hM'⟩

end Matching

/-! ### simple paths -/
section Paths
open PetgraphModel.C20

theorem isWalk_congr {g1 g2 : MGraph} (h : SameAdj g1 g2) : ∀ p : List Nat, IsWalk g1 p ↔ IsWalk g2 p
  | [] => Iff.rfl
  | [_] => Iff.rfl
  | a :: b :: t => by
    unfold IsWalk
    rw [h a b, isWalk_congr h (b :: t)]

theorem isWalk_relabel_iff {φ : Nat → Nat} (hφ : Inj φ) (g : MGraph) :
    ∀ p : List Nat, IsWalk (relabel φ g) (p.map φ) ↔ IsWalk g p
  | [] => Iff.rfl
  | [_] => Iff.rfl
  | a :: b :: t => by
    have ih := isWalk_relabel_iff hφ g (b :: t)
    simp only [List.map_cons] at ih ⊢
    unfold IsWalk
    rw [adj_relabel_inj g hφ, ih]

/-- a walk of the relabeled graph that starts at an image stays inside the image -/
theorem isWalk_relabel_image (φ : Nat → Nat) (g : MGraph) :
    ∀ (q : List Nat) (a : Nat), q.head? = some (φ a) → IsWalk (relabel φ g) q → ∃ p : List Nat, q = p.map φ
  | [], _, h, _ => by cases h
  | [x], a, h, _ => by
    simp only [List.head?_cons, Option.some.injEq] at h
    exact ⟨[a], by simp [h]⟩
  | x :: y :: t, a, h, hw => by
    simp only [List.head?_cons, Option.some.injEq] at h
    unfold IsWalk at hw
    obtain ⟨a', b', _, hy, _⟩ := (adj_relabel_iff φ g).mp hw.1
    obtain ⟨p, hp⟩ := isWalk_relabel_image φ g (y :: t) b' (by simp [hy]) hw.2
    exact ⟨a :: p, by simp [h, hp]⟩

theorem nodup_map_inj_iff {φ : Nat → Nat} (hφ : Inj φ) {l : List Nat} : (l.map φ).Nodup ↔ l.Nodup := by
  unfold List.Nodup
  rw [List.pairwise_map]
  exact ⟨fun h => h.imp fun hab e => hab (congrArg φ e), fun h => h.imp fun hab e => hab (hφ _ _ e)⟩

theorem isSimplePathIn_congr {g1 g2 : MGraph} (h : SameAdj g1 g2) {a b lo : Nat} {hi : Option Nat} {p : List Nat} :
    IsSimplePathIn g1 a b lo hi p ↔ IsSimplePathIn g2 a b lo hi p := by
  unfold IsSimplePathIn
  rw [isWalk_congr h p]

theorem isSimplePathIn_relabel_iff {φ : Nat → Nat} (hφ : Inj φ) (g : MGraph) {a b lo : Nat} {hi : Option Nat}
    {p : List Nat} :
    IsSimplePathIn (relabel φ g) (φ a) (φ b) lo hi (p.map φ) ↔ IsSimplePathIn g a b lo hi p := by
  unfold IsSimplePathIn
  rw [isWalk_relabel_iff hφ g p, List.length_map, nodup_map_inj_iff hφ]
  have e1 : (p.map φ).head? = some (φ a) ↔ p.head? = some a := by
    cases p with
    | nil => simp
    | cons x t => simp only [List.map_cons, List.head?_cons, Option.some.injEq]; exact ⟨fun h => hφ _ _ h, fun h => by rw [h]⟩
  have e2 : (p.map φ).getLast? = some (φ b) ↔ p.getLast? = some b := by
    rw [List.getLast?_map]
    cases p.getLast? with
    | none => simp
    | some x => simp only [Option.map_some, Option.some.injEq]; exact ⟨fun h => hφ _ _ h, fun h => by rw [h]⟩
  rw [e1, e2]

theorem isSimplePathIn_relabel_image (φ : Nat → Nat) (g : MGraph) {a b' lo : Nat} {hi : Option Nat} {q : List Nat}
    (h : IsSimplePathIn (relabel φ g) (φ a) b' lo hi q) : ∃ p : List Nat, q = p.map φ :=
  isWalk_relabel_image φ g q a h.2.1 h.2.2.2.1

end Paths

/-! ### the covering relation of the reachability order (transitive reduction) -/
section Covers
open PetgraphModel.C20

theorem covers_congr {g1 g2 : MGraph} (h : SameAdj g1 g2) {u v : Nat} : Covers g1 u v ↔ Covers g2 u v := by
  unfold Covers
  rw [reach1_congr h]
  refine and_congr Iff.rfl (not_congr ?_)
  exact ⟨fun ⟨w, h1, h2⟩ => ⟨w, (reach1_congr h).mp h1, (reach1_congr h).mp h2⟩,
    fun ⟨w, h1, h2⟩ => ⟨w, (reach1_congr h).mpr h1, (reach1_congr h).mpr h2⟩⟩

theorem covers_relabel_iff {φ : Nat → Nat} (hφ : Inj φ) (g : MGraph) {u v : Nat} :
    Covers (relabel φ g) (φ u) (φ v) ↔ Covers g u v := by
  unfold Covers
  rw [reach1_relabel_iff g hφ]
  refine and_congr Iff.rfl (not_congr ?_)
  constructor
  · rintro ⟨w', h1, h2⟩
    obtain ⟨w, rfl, _⟩ := reach1_relabel_inv g hφ h1
    exact ⟨w, (reach1_relabel_iff g hφ).mp h1, (reach1_relabel_iff g hφ).mp h2⟩
  · rintro ⟨w, h1, h2⟩
    exact ⟨φ w, (reach1_relabel_iff g hφ).mpr h1, (reach1_relabel_iff g hφ).mpr h2⟩

end Covers

/-! ### partitions into classes of mutual reachability (condensation) -/
section Part
open PetgraphModel.C09J

theorem partSpec_congr {g1 g2 : MGraph} (hn : SameNodes g1 g2) (h : SameAdj g1 g2) {comps : List (List Nat)}
    (hs : PartSpec g1 comps) : PartSpec g2 comps :=
  ⟨hs.nonempty, hs.nodup, fun x => (hs.cover x).trans (hn x),
    fun c hc x hx y => (hs.classes c hc x hx y).trans (sc_congr h)⟩

theorem flatten_map_map (φ : Nat → Nat) (comps : List (List Nat)) :
    (comps.map (List.map φ)).flatten = comps.flatten.map φ := by
  induction comps with
  | nil => rfl
  | cons c r ih => simp [List.flatten_cons]

theorem partSpec_relabel {φ : Nat → Nat} (hφ : Inj φ) {g : MGraph} {comps : List (List Nat)}
    (hs : PartSpec g comps) : PartSpec (relabel φ g) (comps.map (List.map φ)) := by
  refine ⟨?_, ?_, ?_, ?_⟩
  · intro c' hc'
    obtain ⟨c, hc, rfl⟩ := List.mem_map.mp hc'
    intro h
    exact hs.nonempty c hc (List.map_eq_nil_iff.mp h)
  · rw [flatten_map_map]; exact nodup_map_inj hφ hs.nodup
  · intro y
    rw [flatten_map_map, relabel_nodes, List.mem_map, List.mem_map]
    exact ⟨fun ⟨x, hx, e⟩ => ⟨x, (hs.cover x).mp hx, e⟩, fun ⟨x, hx, e⟩ => ⟨x, (hs.cover x).mpr hx, e⟩⟩
  · intro c' hc' x' hx' y'
    obtain ⟨c, hc, rfl⟩ := List.mem_map.mp hc'
    obtain ⟨x, hx, rfl⟩ := List.mem_map.mp hx'
    constructor
    · intro hy'
      obtain ⟨y, hy, rfl⟩ := List.mem_map.mp hy'
      exact (sc_relabel_iff hφ g).mpr ((hs.classes c hc x hx y).mp hy)
    · intro hsc
      obtain ⟨y, rfl, _⟩ := reach_relabel_inv g hφ hsc.1
      exact List.mem_map.mpr ⟨y, (hs.classes c hc x hx y).mpr ((sc_relabel_iff hφ g).mp hsc), rfl⟩

/-- a duplicate-free list of numbers below `n` has at most `n` entries -/
theorem nodup_lt_length_le : ∀ (n : Nat) (l : List Nat), l.Nodup → (∀ x ∈ l, x < n) → l.length ≤ n
  | 0, l, _, hlt => by
    cases l with
    | nil => simp
    | cons x t => exact absurd (hlt x (List.mem_cons_self ..)) (Nat.not_lt_zero _)
  | n + 1, l, hnd, hlt => by
    have h1 : ((l.erase n).length ≤ n) := by
      apply nodup_lt_length_le n _ (hnd.erase n)
      intro x hx
      have hx' := (List.Nodup.mem_erase_iff hnd).mp hx
      have := hlt x hx'.2
      omega
    by_cases hn : n ∈ l
    · rw [List.length_erase_of_mem hn] at h1; omega
    · rw [List.erase_of_not_mem hn] at h1; omega

theorem compIdx_spec {comps : List (List Nat)} {x : Nat} (hx : x ∈ comps.flatten) :
    ∃ c, comps[compIdx comps x]? = some c ∧ x ∈ c := by
  obtain ⟨c, hc, hxc⟩ := List.mem_flatten.mp hx
  have hlt : comps.findIdx (fun c => c.contains x) < comps.length :=
    List.findIdx_lt_length_of_exists ⟨c, hc, by simpa using hxc⟩
  refine ⟨comps[comps.findIdx (fun c => c.contains x)], by unfold compIdx; exact List.getElem?_eq_getElem hlt, ?_⟩
  have := List.findIdx_getElem (xs := comps) (p := fun c => c.contains x) (w := hlt)
  simpa using this

/-- two partitions of the nodes into the classes of mutual reachability have the same number of classes -/
theorem partSpec_length_le {g : MGraph} {c1 c2 : List (List Nat)} (h1 : PartSpec g c1) (h2 : PartSpec g c2) :
    c1.length ≤ c2.length := by
  -- one representative per class of `c1`, sent to the index of its class in `c2`
  let f : List Nat → Nat := fun c => compIdx c2 (c.headD 0)
  have hhead : ∀ c ∈ c1, c.headD 0 ∈ c := by
    intro c hc
    cases c with
    | nil => exact absurd rfl (h1.nonempty _ hc)
    | cons x t => simp
  have hnode : ∀ c ∈ c1, c.headD 0 ∈ c2.flatten := by
    intro c hc
    exact (h2.cover _).mpr ((h1.cover _).mp (List.mem_flatten.mpr ⟨c, hc, hhead c hc⟩))
  have hlt : ∀ i ∈ c1.map f, i < c2.length := by
    intro i hi
    obtain ⟨c, hc, rfl⟩ := List.mem_map.mp hi
    obtain ⟨d, hd, _⟩ := compIdx_spec (hnode c hc)
    exact (List.getElem?_eq_some_iff.mp hd).1
  have hnd : (c1.map f).Nodup := by
    have hdis := (List.pairwise_flatten.mp h1.nodup).2
    refine List.pairwise_map.mpr (List.Pairwise.imp_of_mem ?_ hdis)
    intro c c' hc hc' hdisj hff
    obtain ⟨d, hd, hxd⟩ := compIdx_spec (hnode c hc)
    obtain ⟨d', hd', hxd'⟩ := compIdx_spec (hnode c' hc')
    have hdd : d = d' := by
      have : c2[compIdx c2 (c.headD 0)]? = c2[compIdx c2 (c'.headD 0)]? := by
        show c2[f c]? = c2[f c']?; rw [hff]
      rw [hd, hd'] at this; exact Option.some.inj this
    subst hdd
    have hdmem : d ∈ c2 := List.mem_of_getElem? hd
    have hsc : SC g (c.headD 0) (c'.headD 0) := (h2.classes d hdmem _ hxd _).mp hxd'
    have : c'.headD 0 ∈ c := (h1.classes c hc _ (hhead c hc) _).mpr hsc
    exact hdisj _ this _ (hhead c' hc') rfl
  have := nodup_lt_length_le c2.length (c1.map f) hnd hlt
  simpa using this

theorem partSpec_length_unique {g : MGraph} {c1 c2 : List (List Nat)} (h1 : PartSpec g c1) (h2 : PartSpec g c2) :
    c1.length = c2.length :=
  Nat.le_antisymm (partSpec_length_le h1 h2) (partSpec_length_le h2 h1)

end Part

end PetgraphModel.C07W3
