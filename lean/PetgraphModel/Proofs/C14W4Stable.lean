import PetgraphModel.Model.AcyclicStable
import PetgraphModel.Proofs.StableGraph
import PetgraphModel.Proofs.StableGraphRefine
import PetgraphModel.Proofs.StableGraphQuery
import PetgraphModel.Proofs.StableGraphHistory
import PetgraphModel.Proofs.StableGraphExtend
import PetgraphModel.Proofs.StableGraphBulk
import PetgraphModel.Proofs.C14W4Graph
/-
C14 (wave 4, goal 1): the inner-graph contracts instantiated with the C02 storage model.

`Acyclic<StableDiGraph>` = the C02 mirror model `SG.State` (hand-written mirror of
`stable_graph/mod.rs`, `Model/StableGraph.lean`) + the C14 bookkeeping `Acy.AState`.  `sView s` is what
the generic code of `Acyclic<G>` sees of a `StableGraph`: `node_identifiers()` = the live indices in
ascending order, `node_bound()` = last live index + 1, `neighbors_directed(a, dir)` = the model's
`SG.neighborsDirected`.  Vacant slots, both free lists and index reuse are all behind the view.

* `sView_good`    under the C02 invariant (`SGProofs.Inv`, proved for every reachable state of the C02
                  model) a directed `StableGraph` presents a well-formed view;
* `scontract_*`   `add_node` (any fresh index — a reused vacancy or a new slot), `add_edge` /
                  `update_edge`, `remove_edge`, `remove_node` (the index just vanishes: first clause of
                  `RemoveContract`, `rho` is the identity) satisfy `Call.InnerOk` and `EdgesOk`.
-/
namespace PetgraphModel.AcyS
open PetgraphModel PetgraphModel.MGraph PetgraphModel.Dag PetgraphModel.Acy
open PetgraphModel.AcyProofs PetgraphModel.AcyPK PetgraphModel.AcyNP PetgraphModel.AcyTS PetgraphModel.AcyW2
open PetgraphModel.AcyW4 PetgraphModel.SGProofs PetgraphModel.SGSpec
open PetgraphModel.AcyG (ViewGood lookup_tab inv2_congr accepted_live isValid_inv2 removeNode_live_flag AOp)

/-! ### the view of a `StableGraph` -/

/-- node `i` is live -/
def Live (s : SG.State) (i : Nat) : Prop := (SG.nodeWeight s i).isSome = true

/-- the edge relation of a state: live edges only -/
def SE (s : SG.State) (x y : Nat) : Prop :=
  ∃ (e : Nat) (ed : SG.Edge), s.edges[e]? = some ed ∧ ed.w.isSome = true ∧ ed.a = x ∧ ed.b = y

theorem mem_liveIdx {α : Type} : ∀ (l : List (Option α)) (o i : Nat),
    i ∈ SG.liveIdx l o ↔ ∃ j, i = o + j ∧ ∃ x, l[j]? = some (some x) := by
  intro l
  induction l with
  | nil => intro o i; simp [SG.liveIdx]
  | cons x xs ih =>
    intro o i
    simp only [SG.liveIdx]
    have hrest : (∃ j, i = o + 1 + j ∧ ∃ y, xs[j]? = some (some y)) ↔
        (∃ j, i = o + j ∧ 0 < j ∧ ∃ y, (x :: xs)[j]? = some (some y)) := by
      constructor
      · rintro ⟨j, hj, y, hy⟩
        exact ⟨j + 1, by omega, by omega, y, by simpa using hy⟩
      · rintro ⟨j, hj, hpos, y, hy⟩
        cases j with
        | zero => omega
        | succ j => exact ⟨j, by omega, y, by simpa using hy⟩
    cases x with
    | none =>
      simp only [Option.isSome_none, Bool.false_eq_true, if_false]
      rw [ih, hrest]
      constructor
      · rintro ⟨j, hj, _, y, hy⟩; exact ⟨j, hj, y, hy⟩
      · rintro ⟨j, hj, y, hy⟩
        cases j with
        | zero => simp at hy
        | succ j => exact ⟨j + 1, hj, by omega, y, hy⟩
    | some a =>
      simp only [Option.isSome_some, if_true, List.mem_cons]
      rw [ih, hrest]
      constructor
      · rintro (h | ⟨j, hj, _, y, hy⟩)
        · exact ⟨0, by omega, a, by simp⟩
        · exact ⟨j, hj, y, hy⟩
      · rintro ⟨j, hj, y, hy⟩
        cases j with
        | zero => left; omega
        | succ j => right; exact ⟨j + 1, hj, by omega, y, hy⟩

theorem liveIdx_sorted {α : Type} : ∀ (l : List (Option α)) (o : Nat), (SG.liveIdx l o).Pairwise (· < ·) := by
  intro l
  induction l with
  | nil => intro o; simp [SG.liveIdx]
  | cons x xs ih =>
    intro o
    simp only [SG.liveIdx]
    split
    · rw [List.pairwise_cons]
      refine ⟨?_, ih (o + 1)⟩
      intro i hi
      obtain ⟨j, hj, _⟩ := (mem_liveIdx xs (o + 1) i).mp hi
      omega
    · exact ih (o + 1)

theorem nodeIndices_nodup (s : SG.State) : (SG.nodeIndices s).Nodup :=
  (liveIdx_sorted _ 0).imp (fun h => Nat.ne_of_lt h)

theorem mem_nodeIndices {s : SG.State} {i : Nat} : i ∈ SG.nodeIndices s ↔ Live s i := by
  unfold SG.nodeIndices Live SG.nodeWeight
  rw [mem_liveIdx]
  simp only [Nat.zero_add, List.getElem?_map]
  constructor
  · rintro ⟨j, rfl, x, hx⟩
    cases hn : s.nodes[i]? with
    | none => simp [hn] at hx
    | some n => simp [hn] at hx; simp [hx]
  · intro h
    cases hn : s.nodes[i]? with
    | none => simp [hn] at h
    | some n =>
      simp only [hn] at h
      cases hw : n.w with
      | none => simp [hw] at h
      | some w => exact ⟨i, rfl, w, by simp [hn, hw]⟩

theorem live_lt_bound {s : SG.State} {i : Nat} (h : Live s i) : i < SG.nodeBound s := by
  apply Classical.byContradiction
  intro hlt
  have hb : SG.nodeBound s = SG.boundOf (s.nodes.map (·.w)) := rfl
  have := boundOf_above (s.nodes.map (·.w)) i (by omega)
  unfold Live SG.nodeWeight at h
  rw [List.getElem?_map] at this
  cases hn : s.nodes[i]? with
  | none => simp [hn] at h
  | some n =>
    rw [hn] at this
    simp only [hn] at h
    simp only [Option.map_some, Option.join_some] at this
    rw [this] at h
    cases h

theorem sView_nodes (s : SG.State) : (sView s).g.nodes = SG.nodeIndices s := rfl

theorem sView_succ (s : SG.State) (a : Nat) :
    (sView s).succ a = if a ∈ SG.nodeIndices s then (sRow s 0 a).map (·.1) else [] := by
  simp only [View.succ, View.outOf, sView, lookup_tab]
  split <;> simp

theorem sView_pred (s : SG.State) (a : Nat) :
    (sView s).pred a = if a ∈ SG.nodeIndices s then (sRow s 1 a).map (·.1) else [] := by
  simp only [View.pred, View.innOf, sView, lookup_tab]
  split <;> simp

theorem se_live {s : SG.State} (h : Inv s) {x y : Nat} (hs : SE s x y) : Live s x ∧ Live s y := by
  obtain ⟨e, ed, hed, hw, rfl, rfl⟩ := hs
  have h0 := h.endp e ed hed hw 0 (by omega)
  have h1 := h.endp e ed hed hw 1 (by omega)
  obtain ⟨n0, hn0, ha0⟩ := h0
  obtain ⟨n1, hn1, ha1⟩ := h1
  simp only [SG.Edge.node] at hn0 hn1
  simp only [if_true, Nat.one_ne_zero, if_false] at hn0 hn1
  constructor
  · unfold Live SG.nodeWeight
    rcases ha0 with h' | h'
    · simp [hn0, h']
    · cases h'
  · unfold Live SG.nodeWeight
    rcases ha1 with h' | h'
    · simp [hn1, h']
    · cases h'

/-- the rows of a directed graph under the C02 invariant: the two adjacency lists of `C02` -/
theorem sRow_lists {s : SG.State} (h : Inv s) (hd : s.directed = true) (a : Nat) :
    ∃ l0 l1 : List Nat, AdjLists s a l0 l1 ∧ l0.Nodup ∧ l1.Nodup ∧
      (sRow s 0 a).map (·.1) = l0.filterMap (nbOut s.edges) ∧
      (sRow s 1 a).map (·.1) = l1.filterMap (nbIn s.edges s.fin) := by
  obtain ⟨l0, l1, hl⟩ := adjLists_exist h a
  have hsp := neighborsDirected_spec h hl
  refine ⟨l0, l1, hl, hl.c0.nodup, hl.c1.nodup, ?_, ?_⟩
  · unfold sRow
    rw [hsp.1]
    simp [hd, Function.comp_def]
  · unfold sRow
    rw [hsp.2]
    simp [hd, Function.comp_def]

theorem mem_succ_iff {s : SG.State} (h : Inv s) (hd : s.directed = true) (x y : Nat) :
    y ∈ (sView s).succ x ↔ SE s x y := by
  rw [sView_succ]
  obtain ⟨l0, l1, hl, _, _, h0, _⟩ := sRow_lists h hd x
  by_cases hx : x ∈ SG.nodeIndices s
  · simp only [hx, if_true, h0, List.mem_filterMap, nbOut]
    constructor
    · rintro ⟨e, he, hy⟩
      obtain ⟨_, ed, hed, hw, ha⟩ := (hl.m0 e).mp he
      rw [hed] at hy
      simp only [Option.map_some, Option.some.injEq] at hy
      exact ⟨e, ed, hed, hw, ha, hy⟩
    · rintro ⟨e, ed, hed, hw, ha, hb⟩
      refine ⟨e, (hl.m0 e).mpr ⟨mem_nodeIndices.mp hx, ed, hed, hw, ha⟩, ?_⟩
      rw [hed]; simp [hb]
  · simp only [hx, if_false]
    constructor
    · intro hm; cases hm
    · intro hs
      exact absurd (mem_nodeIndices.mpr (se_live h hs).1) hx

theorem mem_pred_iff {s : SG.State} (h : Inv s) (hd : s.directed = true) (x y : Nat) :
    y ∈ (sView s).pred x ↔ SE s y x := by
  rw [sView_pred]
  obtain ⟨l0, l1, hl, _, _, _, h1⟩ := sRow_lists h hd x
  by_cases hx : x ∈ SG.nodeIndices s
  · simp only [hx, if_true, h1, List.mem_filterMap, nbIn]
    constructor
    · rintro ⟨e, he, hy⟩
      obtain ⟨_, ed, hed, hw, hb⟩ := (hl.m1 e).mp he
      rw [hed] at hy
      simp only [Option.bind_some] at hy
      split at hy
      · simp only [Option.some.injEq] at hy
        exact ⟨e, ed, hed, hw, hy, hb⟩
      · cases hy
    · rintro ⟨e, ed, hed, hw, ha, hb⟩
      refine ⟨e, (hl.m1 e).mpr ⟨mem_nodeIndices.mp hx, ed, hed, hw, hb⟩, ?_⟩
      rw [hed]
      have hlt : ed.a < s.fin := by
        obtain ⟨n0, hn0, _⟩ := h.endp e ed hed hw 0 (by omega)
        have := (List.getElem?_eq_some_iff.mp hn0).1
        have := h.lenN
        simp only [SG.Edge.node, if_true] at *
        omega
      have hne : y ≠ s.fin := by omega
      simp [hne, ha]
  · simp only [hx, if_false]
    constructor
    · intro hm; cases hm
    · intro hs
      exact absurd (mem_nodeIndices.mpr (se_live h hs).2) hx

theorem mem_edgeRefsFrom : ∀ (es : List SG.Edge) (o : Nat) (r : SG.ERef),
    r ∈ SG.edgeRefsFrom es o ↔ ∃ j x w, es[j]? = some x ∧ x.w = some w ∧ r = ⟨o + j, x.a, x.b, w⟩ := by
  intro es
  induction es with
  | nil => intro o r; simp [SG.edgeRefsFrom]
  | cons e t ih =>
    intro o r
    simp only [SG.edgeRefsFrom]
    have hrest : (∃ j x w, t[j]? = some x ∧ x.w = some w ∧ r = ⟨o + 1 + j, x.a, x.b, w⟩) ↔
        (∃ j x w, 0 < j ∧ (e :: t)[j]? = some x ∧ x.w = some w ∧ r = ⟨o + j, x.a, x.b, w⟩) := by
      constructor
      · rintro ⟨j, x, w, hx, hw, hr⟩
        exact ⟨j + 1, x, w, by omega, by simpa using hx, hw, by rw [hr]; congr 1; omega⟩
      · rintro ⟨j, x, w, hpos, hx, hw, hr⟩
        cases j with
        | zero => omega
        | succ j => exact ⟨j, x, w, by simpa using hx, hw, by rw [hr]; congr 1; omega⟩
    cases hw : e.w with
    | none =>
      simp only
      rw [ih, hrest]
      constructor
      · rintro ⟨j, x, w, _, hx, hw', hr⟩; exact ⟨j, x, w, hx, hw', hr⟩
      · rintro ⟨j, x, w, hx, hw', hr⟩
        cases j with
        | zero => simp at hx; subst hx; rw [hw] at hw'; cases hw'
        | succ j => exact ⟨j + 1, x, w, by omega, hx, hw', hr⟩
    | some w0 =>
      simp only [List.mem_cons]
      rw [ih, hrest]
      constructor
      · rintro (hr | ⟨j, x, w, _, hx, hw', hr⟩)
        · exact ⟨0, e, w0, by simp, hw, by simpa using hr⟩
        · exact ⟨j, x, w, hx, hw', hr⟩
      · rintro ⟨j, x, w, hx, hw', hr⟩
        cases j with
        | zero =>
          left
          simp at hx; subst hx
          rw [hw] at hw'; cases hw'
          simpa using hr
        | succ j => right; exact ⟨j + 1, x, w, by omega, hx, hw', hr⟩

theorem adj_iff {s : SG.State} (x y : Nat) : (sView s).g.Adj x y ↔ SE s x y := by
  unfold MGraph.Adj SE
  simp only [sView, sEdges, List.mem_map, SG.edgeReferences]
  constructor
  · rintro ⟨e, ⟨r, hr, rfl⟩, h | h⟩
    · obtain ⟨j, ed, w, hed, hw, rfl⟩ := (mem_edgeRefsFrom _ _ _).mp hr
      exact ⟨j, ed, hed, by simp [hw], h.1, h.2⟩
    · cases h.1
  · rintro ⟨e, ed, hed, hw, h1, h2⟩
    cases hw' : ed.w with
    | none => simp [hw'] at hw
    | some w =>
      refine ⟨⟨e, ed.a, ed.b, w⟩, ⟨⟨e, ed.a, ed.b, w⟩, ?_, rfl⟩, Or.inl ⟨h1, h2⟩⟩
      exact (mem_edgeRefsFrom _ _ _).mpr ⟨e, ed, w, hed, hw', by simp⟩

/-! ### each live edge is listed once: the neighbour lists fit the fuel -/

theorem nodup_flatMap_of (f : Nat → List Nat) (hn : ∀ a, (f a).Nodup)
    (hdisj : ∀ a b e, e ∈ f a → e ∈ f b → a = b) : ∀ (L : List Nat), L.Nodup → (L.flatMap f).Nodup := by
  intro L
  induction L with
  | nil => intro _; simp
  | cons a t ih =>
    intro hL
    rw [List.nodup_cons] at hL
    rw [List.flatMap_cons, List.nodup_append]
    refine ⟨hn a, ih hL.2, ?_⟩
    intro x hx y hy hxy
    subst hxy
    obtain ⟨b, hb, hxb⟩ := List.mem_flatMap.mp hy
    have := hdisj a b x hx hxb
    subst this
    exact hL.1 hb

theorem sum_map_le {L : List Nat} {g h : Nat → Nat} (hgh : ∀ a ∈ L, g a ≤ h a) : (L.map g).sum ≤ (L.map h).sum := by
  induction L with
  | nil => simp
  | cons a t ih =>
    simp only [List.map_cons, List.sum_cons]
    have := hgh a (List.mem_cons_self ..)
    have := ih fun b hb => hgh b (List.mem_cons_of_mem _ hb)
    omega

theorem edgeRefsFrom_length : ∀ (es : List SG.Edge) (o : Nat),
    (SG.edgeRefsFrom es o).length = (SG.liveIdx (es.map (·.w)) o).length := by
  intro es
  induction es with
  | nil => intro o; rfl
  | cons e t ih =>
    intro o
    simp only [SG.edgeRefsFrom, List.map_cons, SG.liveIdx]
    cases hw : e.w with
    | none => simp [ih]
    | some w => simp [ih]

theorem mem_edgeIndices {s : SG.State} {e : Nat} :
    e ∈ SG.edgeIndices s ↔ ∃ x : SG.Edge, s.edges[e]? = some x ∧ x.w.isSome = true := by
  unfold SG.edgeIndices
  rw [mem_liveIdx]
  simp only [Nat.zero_add, List.getElem?_map]
  constructor
  · rintro ⟨j, rfl, w, hw⟩
    cases hx : s.edges[e]? with
    | none => simp [hx] at hw
    | some x => simp [hx] at hw; exact ⟨x, rfl, by simp [hw]⟩
  · rintro ⟨x, hx, hw⟩
    cases hw' : x.w with
    | none => simp [hw'] at hw
    | some w => exact ⟨e, rfl, w, by simp [hx, hw']⟩

/-- the adjacency list of `a` in direction `k` chosen by `C02` (`k = 0`: out, else: in) -/
noncomputable def adjOf (s : SG.State) (h : Inv s) (k a : Nat) : List Nat :=
  if k = 0 then Classical.choose (adjLists_exist h a)
  else Classical.choose (Classical.choose_spec (adjLists_exist h a))

theorem adjOf_spec {s : SG.State} (h : Inv s) (a : Nat) : AdjLists s a (adjOf s h 0 a) (adjOf s h 1 a) := by
  unfold adjOf
  simp only [if_true, Nat.one_ne_zero, if_false]
  exact Classical.choose_spec (Classical.choose_spec (adjLists_exist h a))

theorem sum_adj_le {s : SG.State} (h : Inv s) (k : Nat) (hk : k = 0 ∨ k = 1) :
    ((SG.nodeIndices s).map fun a => (adjOf s h k a).length).sum ≤ (SG.edgeReferences s).length := by
  rw [← List.length_flatMap]
  have hE : (SG.edgeReferences s).length = (SG.edgeIndices s).length := edgeRefsFrom_length _ _
  rw [hE]
  have hmem : ∀ a e, e ∈ adjOf s h k a → ∃ x : SG.Edge, s.edges[e]? = some x ∧ x.w.isSome = true ∧ x.node k = a := by
    intro a e he
    have hl := adjOf_spec h a
    rcases hk with rfl | rfl
    · obtain ⟨_, x, hx, hw, ha⟩ := (hl.m0 e).mp he
      exact ⟨x, hx, hw, by simpa [SG.Edge.node] using ha⟩
    · obtain ⟨_, x, hx, hw, ha⟩ := (hl.m1 e).mp he
      exact ⟨x, hx, hw, by simpa [SG.Edge.node] using ha⟩
  apply List.Subperm.length_le
  apply List.subperm_of_subset
  · apply nodup_flatMap_of _ _ _ _ (nodeIndices_nodup s)
    · intro a
      have hl := adjOf_spec h a
      rcases hk with rfl | rfl
      · exact hl.c0.nodup
      · exact hl.c1.nodup
    · intro a b e ha hb
      obtain ⟨x, hx, _, hxa⟩ := hmem a e ha
      obtain ⟨x', hx', _, hxb⟩ := hmem b e hb
      rw [hx] at hx'; cases hx'
      rw [← hxa, ← hxb]
  · intro e he
    obtain ⟨a, _, hea⟩ := List.mem_flatMap.mp he
    obtain ⟨x, hx, hw, _⟩ := hmem a e hea
    exact mem_edgeIndices.mpr ⟨x, hx, hw⟩

/-- `Direction::index()` -/
def dirK : Dir → Nat
  | .fut => 0
  | .past => 1

theorem nbrs_length_le {s : SG.State} (h : Inv s) (hd : s.directed = true) (dir : Dir) (a : Nat) :
    (nbrs dir (sView s) a).length ≤ (adjOf s h (dirK dir) a).length := by
  obtain ⟨l0, l1, hl, _, _, h0, h1⟩ := sRow_lists h hd a
  have hs := adjOf_spec h a
  -- the chosen lists are the lists of the rows (chains are functional), but lengths suffice:
  -- both are duplicate-free with the same members
  have hperm0 : l0.Perm (adjOf s h 0 a) :=
    (List.perm_ext_iff_of_nodup hl.c0.nodup hs.c0.nodup).mpr fun e => (hl.m0 e).trans (hs.m0 e).symm
  have hperm1 : l1.Perm (adjOf s h 1 a) :=
    (List.perm_ext_iff_of_nodup hl.c1.nodup hs.c1.nodup).mpr fun e => (hl.m1 e).trans (hs.m1 e).symm
  cases dir with
  | fut =>
    simp only [nbrs, sView_succ, dirK]
    split
    · have := congrArg List.length h0
      simp only [List.length_map] at this
      rw [List.length_map, this, ← hperm0.length_eq]
      exact List.length_filterMap_le _ _
    · simp
  | past =>
    simp only [nbrs, sView_pred, dirK]
    split
    · have := congrArg List.length h1
      simp only [List.length_map] at this
      rw [List.length_map, this, ← hperm1.length_eq]
      exact List.length_filterMap_le _ _
    · simp

/-- **a directed `StableGraph` satisfying the C02 invariant presents a well-formed view** -/
theorem sView_good {s : SG.State} (h : Inv s) (hd : s.directed = true) : ViewGood (sView s) := by
  have hvo : ViewOk (sView s) :=
    ⟨fun x y => (mem_succ_iff h hd x y).trans (adj_iff x y).symm,
     fun x y => (mem_pred_iff h hd x y).trans (adj_iff y x).symm⟩
  have hE : (sView s).g.edges.length = (SG.edgeReferences s).length := by simp [sView, sEdges]
  have hfuel : ∀ dir, needL (fun x => (nbrs dir (sView s) x).length) [] (sView s).g.nodes ≤
      (sView s).g.nodes.length + (sView s).g.edges.length := by
    intro dir
    rw [needL_nil_eq, hE]
    have h1 := sum_map_le (L := (sView s).g.nodes) (fun a _ => nbrs_length_le h hd dir a)
    have h2 : ((sView s).g.nodes.map fun a => (adjOf s h (dirK dir) a).length).sum ≤
        (SG.edgeReferences s).length := sum_adj_le h (dirK dir) (by cases dir <;> simp [dirK])
    omega
  refine ⟨rfl, ?_, hvo, ?_, ?_, ?_, ?_, ?_⟩
  · intro e he
    have hadj : (sView s).g.Adj e.src e.tgt := ⟨e, he, Or.inl ⟨rfl, rfl⟩⟩
    have := se_live h ((adj_iff _ _).mp hadj)
    exact ⟨mem_nodeIndices.mpr this.1, mem_nodeIndices.mpr this.2⟩
  · intro x _
    exact ⟨fun y hy => mem_nodeIndices.mpr (se_live h ((mem_succ_iff h hd x y).mp hy)).2,
      fun y hy => mem_nodeIndices.mpr (se_live h ((mem_pred_iff h hd x y).mp hy)).1⟩
  · intro x y hy
    exact mem_nodeIndices.mpr (se_live h ((mem_succ_iff h hd x y).mp hy)).1
  · intro x hx
    exact live_lt_bound (mem_nodeIndices.mp hx)
  · intro dir
    have := hfuel dir
    unfold dfsFuel
    omega
  · have := hfuel .fut
    simp only [nbrs] at this
    unfold tsFuel
    omega

/-! ### through the reference multigraph of `C02` -/

/-- the edge relation of a reference multigraph -/
def SpE (sp : Spec) (x y : Nat) : Prop := ∃ e ed, sp.edge e = some ed ∧ ed.a = x ∧ ed.b = y

theorem se_iff_abs {s : SG.State} {x y : Nat} : SE s x y ↔ SpE (abs s) x y := by
  constructor
  · rintro ⟨e, ed, hed, hw, h1, h2⟩
    cases hw' : ed.w with
    | none => simp [hw'] at hw
    | some w => exact ⟨e, ⟨ed.a, ed.b, w⟩, abs_edge_some hed hw', h1, h2⟩
  · rintro ⟨e, y', he, h1, h2⟩
    obtain ⟨x', hx', hw, ha, hb⟩ := abs_edge_rev he
    exact ⟨e, x', hx', by simp [hw], ha.trans h1, hb.trans h2⟩

theorem live_iff_abs {s : SG.State} {i : Nat} : Live s i ↔ (abs s).nodeLive i = true := by
  unfold Live Spec.nodeLive
  rw [abs_node]

theorem nodeIndices_congr {s s' : SG.State} (h : (abs s').nodes = (abs s).nodes) :
    SG.nodeIndices s' = SG.nodeIndices s := by
  rw [nodeIndices_abs, nodeIndices_abs]
  unfold Spec.nodeIds
  rw [h]

theorem directed_of_abs {s s' : SG.State} {sp : Spec} (h : abs s' = sp) (hsp : sp.directed = (abs s).directed) :
    s'.directed = s.directed := by
  have : (abs s').directed = (abs s).directed := by rw [h, hsp]
  exact this

theorem getElem?_setAt_eq {α : Type} (l : List (Option α)) (i : Nat) (v : Option α) :
    ((setAt l i v)[i]?).join = v := by
  unfold setAt
  split
  · rename_i hi
    simp [List.getElem?_set, hi]
  · rename_i hi
    have hlen : (l ++ List.replicate (i - l.length) none).length = i := by
      simp only [List.length_append, List.length_replicate]; omega
    rw [List.getElem?_append_right (by omega)]
    simp [hlen]

theorem node_addNodeAt (sp : Spec) (i j : Nat) (w : Int) :
    (sp.addNodeAt i w).node j = if j = i then some w else sp.node j := by
  unfold Spec.node Spec.addNodeAt
  simp only
  by_cases hji : j = i
  · subst hji; simp [getElem?_setAt_eq]
  · simp [hji, getElem?_setAt_ne _ _ hji]

theorem edge_addEdgeAt (sp : Spec) (e e' a b : Nat) (w : Int) :
    (sp.addEdgeAt e a b w).edge e' = if e' = e then some ⟨a, b, w⟩ else sp.edge e' := by
  unfold Spec.edge Spec.addEdgeAt
  simp only
  by_cases h : e' = e
  · subst h; simp [getElem?_setAt_eq]
  · simp [h, getElem?_setAt_ne _ _ h]

theorem spe_removeEdge {sp : Spec} {e x y : Nat} (h : SpE (sp.removeEdge e) x y) : SpE sp x y := by
  unfold Spec.removeEdge at h
  split at h
  · obtain ⟨e', ed, hed, h1, h2⟩ := h
    unfold Spec.edge at hed
    simp only [List.getElem?_set] at hed
    split at hed
    · split at hed <;> simp at hed
    · exact ⟨e', ed, hed, h1, h2⟩
  · exact h

theorem spe_removeNode {sp : Spec} {a x y : Nat} (h : SpE (sp.removeNode a) x y) : SpE sp x y := by
  unfold Spec.removeNode at h
  split at h
  · obtain ⟨e', ed, hed, h1, h2⟩ := h
    unfold Spec.edge at hed
    simp only [List.getElem?_map] at hed
    cases ho : sp.edges[e']? with
    | none => simp [ho] at hed
    | some oe =>
      cases oe with
      | none => simp [ho] at hed
      | some e0 =>
        simp only [ho, Option.map_some, Option.join_some] at hed
        split at hed
        · cases hed
        · cases hed
          exact ⟨e', _, by unfold Spec.edge; simp [ho], h1, h2⟩
  · exact h

theorem node_removeNode (sp : Spec) (a j : Nat) (hl : sp.nodeLive a = true) :
    (sp.removeNode a).node j = if j = a then none else sp.node j := by
  unfold Spec.removeNode
  simp only [hl, if_true]
  unfold Spec.node
  simp only [List.getElem?_set]
  by_cases h : a = j
  · subst h
    by_cases hlt : a < sp.nodes.length <;> simp [hlt]
  · have : ¬ j = a := fun hh => h hh.symm
    simp [h, this]

theorem spe_setEdgeWeight {sp : Spec} {e x y : Nat} {w : Int} (h : SpE (sp.setEdgeWeight e w) x y) : SpE sp x y := by
  unfold Spec.setEdgeWeight at h
  split at h
  · rename_i ed0 hed0
    obtain ⟨e', ed, hed, h1, h2⟩ := h
    unfold Spec.edge at hed
    simp only [List.getElem?_set] at hed
    split at hed
    · rename_i heq
      subst heq
      split at hed
      · simp only [Option.join_some, Option.some.injEq] at hed
        subst hed
        exact ⟨e, ed0, hed0, h1, h2⟩
      · simp at hed
    · exact ⟨e', ed, hed, h1, h2⟩
  · exact h

theorem nodes_removeEdge (sp : Spec) (e : Nat) : (sp.removeEdge e).nodes = sp.nodes := by
  unfold Spec.removeEdge; split <;> rfl

theorem nodes_setEdgeWeight (sp : Spec) (e : Nat) (w : Int) : (sp.setEdgeWeight e w).nodes = sp.nodes := by
  unfold Spec.setEdgeWeight; split <;> rfl

/-! ### the contracts of the inner graph, call by call -/

/-- `add_node`: any fresh index (a reused vacancy or a new slot), nothing else changes -/
theorem scontract_addNode {s s' : SG.State} {w : Int} {i : Nat} (h : Inv s) (hd : s.directed = true)
    (hs : SG.tryAddNode s w = .ok (s', .ok i)) :
    Inv s' ∧ s'.directed = true ∧
    (Call.addNode i (sView s')).InnerOk (sView s) ∧ EdgesOk (sView s) (.addNode i (sView s')) := by
  obtain ⟨hfresh, habs, hinv'⟩ := addNode_refines h hs
  have hd' : s'.directed = true := (directed_of_abs habs rfl).trans hd
  have g' := sView_good hinv' hd'
  unfold Spec.freshNode at hfresh
  simp only [Bool.and_eq_true, decide_eq_true_eq, Bool.not_eq_true'] at hfresh
  refine ⟨hinv', hd', ⟨?_, ?_, g'.closed⟩, ⟨?_, g'.viewOk, g'.srcLive⟩⟩
  · rw [sView_nodes, mem_nodeIndices, live_iff_abs]
    simp [hfresh.2]
  · intro x
    rw [sView_nodes, sView_nodes, mem_nodeIndices, mem_nodeIndices, live_iff_abs, live_iff_abs, habs]
    unfold Spec.nodeLive
    rw [node_addNodeAt]
    by_cases hx : x = i
    · simp [hx]
    · simp [hx]
  · intro x y hy
    rw [mem_succ_iff h hd, se_iff_abs]
    have := se_iff_abs.mp ((mem_succ_iff hinv' hd' x y).mp hy)
    rw [habs] at this
    exact this

/-- `add_edge(a, b, w)`: one new adjacency `a → b`, the node list is the same list -/
theorem scontract_addEdge {s s' : SG.State} {a b e : Nat} {w : Int} (h : Inv s) (hd : s.directed = true)
    (hs : SG.tryAddEdge s a b w = .ok (s', .ok e)) :
    Inv s' ∧ s'.directed = true ∧
    (Call.edge a b (sView s')).InnerOk (sView s) ∧ EdgesOk (sView s) (.edge a b (sView s')) := by
  obtain ⟨hinv', hok, _⟩ := addEdge_refines h hs
  obtain ⟨hla, hlb, _, habs⟩ := hok e rfl
  have hd' : s'.directed = true := (directed_of_abs habs rfl).trans hd
  have g' := sView_good hinv' hd'
  refine ⟨hinv', hd', ⟨mem_nodeIndices.mpr (live_iff_abs.mpr hla), mem_nodeIndices.mpr (live_iff_abs.mpr hlb), ?_, g'.closed⟩,
    ⟨?_, g'.viewOk, g'.srcLive⟩⟩
  · rw [sView_nodes, sView_nodes]
    exact nodeIndices_congr (by rw [habs]; rfl)
  · intro x y hy
    rw [mem_succ_iff h hd, se_iff_abs]
    obtain ⟨e', ed, hed, h1, h2⟩ := se_iff_abs.mp ((mem_succ_iff hinv' hd' x y).mp hy)
    rw [habs, edge_addEdgeAt] at hed
    split at hed
    · right
      simp only [Option.some.injEq] at hed
      subst hed
      exact ⟨h1.symm, h2.symm⟩
    · exact Or.inl ⟨e', ed, hed, h1, h2⟩

/-- `update_edge(a, b, w)`: a weight is overwritten or `a → b` is added -/
theorem scontract_updateEdge {s s' : SG.State} {a b e : Nat} {w : Int} (h : Inv s) (hd : s.directed = true)
    (ha : Live s a) (hb : Live s b) (hs : SG.tryUpdateEdge s a b w = .ok (s', .ok e)) :
    Inv s' ∧ s'.directed = true ∧
    (Call.edge a b (sView s')).InnerOk (sView s) ∧ EdgesOk (sView s) (.edge a b (sView s')) := by
  obtain ⟨hinv', hcase⟩ := updateEdge_refines h hs
  rcases hcase with ⟨e0, x0, _, _, _, _, habs⟩ | ⟨_, hadd⟩
  · have hd' : s'.directed = true := by
      refine (directed_of_abs habs ?_).trans hd
      unfold Spec.setEdgeWeight; split <;> rfl
    have g' := sView_good hinv' hd'
    refine ⟨hinv', hd', ⟨mem_nodeIndices.mpr ha, mem_nodeIndices.mpr hb, ?_, g'.closed⟩, ⟨?_, g'.viewOk, g'.srcLive⟩⟩
    · rw [sView_nodes, sView_nodes]
      exact nodeIndices_congr (by rw [habs, nodes_setEdgeWeight])
    · intro x y hy
      left
      rw [mem_succ_iff h hd, se_iff_abs]
      have := se_iff_abs.mp ((mem_succ_iff hinv' hd' x y).mp hy)
      rw [habs] at this
      exact spe_setEdgeWeight this
  · exact scontract_addEdge h hd hadd

/-- `remove_edge(e)`: no adjacency appears, the node list is the same list -/
theorem scontract_removeEdge {s s' : SG.State} {e : Nat} {r : Option Int} (h : Inv s) (hd : s.directed = true)
    (hs : SG.removeEdge s e = .ok (s', r)) :
    Inv s' ∧ s'.directed = true ∧
    (Call.removeEdge (sView s')).InnerOk (sView s) ∧ EdgesOk (sView s) (.removeEdge (sView s')) := by
  obtain ⟨hinv', _, habs⟩ := removeEdge_refines h hs
  have hd' : s'.directed = true := by
    refine (directed_of_abs habs ?_).trans hd
    unfold Spec.removeEdge; split <;> rfl
  have g' := sView_good hinv' hd'
  refine ⟨hinv', hd', ⟨?_, g'.closed⟩, ⟨?_, g'.viewOk, g'.srcLive⟩⟩
  · rw [sView_nodes, sView_nodes]
    exact nodeIndices_congr (by rw [habs, nodes_removeEdge])
  · intro x y hy
    rw [mem_succ_iff h hd, se_iff_abs]
    have := se_iff_abs.mp ((mem_succ_iff hinv' hd' x y).mp hy)
    rw [habs] at this
    exact spe_removeEdge this

/-- `remove_node(a)` of a live node: index `a` just vanishes (every other node keeps its index: the
first clause of `RemoveContract`; `rho` is the identity), its edges go with it -/
theorem scontract_removeNode {s s' : SG.State} {a : Nat} {r : Option Int} (h : Inv s) (hd : s.directed = true)
    (hs : SG.removeNode s a = .ok (s', r)) :
    Inv s' ∧ s'.directed = true ∧ (Live s a → ¬ Live s' a) ∧ (¬ Live s a → s' = s) ∧
    (Call.removeNode a (sView s')).InnerOk (sView s) ∧ EdgesOk (sView s) (.removeNode a (sView s')) := by
  obtain ⟨hinv', _, habs⟩ := removeNode_refines h hs
  have hd' : s'.directed = true := by
    refine (directed_of_abs habs ?_).trans hd
    unfold Spec.removeNode; split <;> rfl
  have g' := sView_good hinv' hd'
  have hgone : Live s a → ¬ Live s' a := by
    intro hl hl'
    rw [live_iff_abs] at hl hl'
    rw [habs] at hl'
    unfold Spec.nodeLive at hl'
    rw [node_removeNode _ _ _ hl] at hl'
    simp at hl'
  have hsame : ¬ Live s a → s' = s := by
    intro hl
    unfold Live SG.nodeWeight at hl
    unfold SG.removeNode at hs
    cases hn : s.nodes[a]? with
    | none => simp only [hn] at hs; cases hs; rfl
    | some n =>
      simp only [hn] at hs hl
      cases hw : n.w with
      | none => simp only [hw] at hs; cases hs; rfl
      | some w => simp [hw] at hl
  have hrho : ∀ z, Live s a → rho (sView s) (sView s') a z = z := by
    intro z hl
    unfold rho
    have : a ∉ (sView s').g.nodes := fun hm => hgone hl (mem_nodeIndices.mp hm)
    simp [this]
  refine ⟨hinv', hd', hgone, hsame, ⟨fun hn => ?_, g'.closed⟩, ⟨?_, g'.viewOk, g'.srcLive⟩⟩
  · have hl : Live s a := mem_nodeIndices.mp hn
    left
    refine ⟨fun hm => hgone hl (mem_nodeIndices.mp hm), fun x => ?_⟩
    rw [sView_nodes, sView_nodes, mem_nodeIndices, mem_nodeIndices, live_iff_abs, live_iff_abs, habs]
    unfold Spec.nodeLive
    rw [node_removeNode _ _ _ (live_iff_abs.mp hl)]
    by_cases hx : x = a
    · simp [hx]
    · simp [hx]
  · intro x y hy
    by_cases hl : Live s a
    · rw [hrho x hl, hrho y hl, mem_succ_iff h hd, se_iff_abs]
      have := se_iff_abs.mp ((mem_succ_iff hinv' hd' x y).mp hy)
      rw [habs] at this
      exact spe_removeNode this
    · have hss := hsame hl
      subst hss
      have hna : a ∉ (sView s').g.nodes := fun hm => hl (mem_nodeIndices.mp hm)
      unfold rho
      simp only [hna, and_false, if_false]
      exact hy

/-! ### `Acyclic<StableDiGraph>` as one machine: C02 storage model + C14 bookkeeping -/

/-- the invariant of the combined machine -/
def ASInv (x : AS) : Prop := SGProofs.Inv x.g ∧ x.g.directed = true ∧ Inv2 (sView x.g) x.a

theorem as_inv_new (fin : Nat) (noLimit debug : Bool) (cap : Nat) : ASInv (AS.new fin noLimit debug cap) := by
  have hi : SGProofs.Inv (SG.empty true fin noLimit debug) := inv_empty true fin noLimit debug
  have g := sView_good hi rfl
  refine ⟨hi, rfl, ⟨⟨AcyProofs.inv_empty, ⟨rfl, rfl⟩, g.closed⟩, ?_, g.viewOk, g.srcLive⟩⟩
  intro a b hb
  have := g.srcLive a b hb
  simp [sView, SG.empty, SG.nodeIndices, SG.liveIdx] at this

theorem as_edge_accepted {x : AS} {a b : Nat} {a' : AState} {g' : SG.State} (hx : ASInv x)
    (hacc : Acy.tryAddEdge (sView x.g) x.a a b = .ok (a', .accepted))
    (hc : SGProofs.Inv g' ∧ g'.directed = true ∧
      (Call.edge a b (sView g')).InnerOk (sView x.g) ∧ EdgesOk (sView x.g) (.edge a b (sView g'))) :
    ASInv ⟨g', a'⟩ := by
  obtain ⟨hi', hd', hin, hed⟩ := hc
  refine ⟨hi', hd', ?_⟩
  have hstep : stepCall (sView x.g) x.a (.edge a b (sView g')) = .ok (sView g', a') := by
    simp only [stepCall, hacc]
  exact inv2_step hx.2.2 hin hed hstep

/-- **every call preserves the invariant of `Acyclic<StableDiGraph>`** — with arbitrary (also absent)
arguments, whenever the call returns -/
theorem as_inv_step {x x' : AS} {op : AOp} (hx : ASInv x) (h : x.step op = .ok x') : ASInv x' := by
  obtain ⟨hi, hd, h2⟩ := hx
  cases op with
  | addNode w =>
    simp only [AS.step] at h
    split at h
    · rename_i g' i hg
      split at h
      · rename_i a' ha'
        cases h
        obtain ⟨hi', hd', hin, hed⟩ := scontract_addNode hi hd hg
        refine ⟨hi', hd', ?_⟩
        have hstep : stepCall (sView x.g) x.a (.addNode i (sView g')) = .ok (sView g', a') := by
          simp only [stepCall, ha']
        exact inv2_step h2 hin hed hstep
      · cases h
    · cases h
    · cases h
  | tryAddEdge a b w =>
    simp only [AS.step] at h
    split at h
    · cases h
    · rename_i a' hacc
      split at h
      · rename_i g' e hg
        cases h
        exact as_edge_accepted ⟨hi, hd, h2⟩ hacc (scontract_addEdge hi hd hg)
      · cases h
      · cases h
    · rename_i a' r hne hres
      cases h
      have hr : r ≠ .accepted := fun hr => hne (by subst hr; rfl)
      obtain ⟨h1, h3, h4, _⟩ := reject_unchanged_any hres hr
      exact ⟨hi, hd, inv2_congr h2 h1 h3 h4⟩
  | tryUpdateEdge a b w =>
    simp only [AS.step] at h
    split at h
    · cases h
    · rename_i a' hacc
      have hl := accepted_live hacc
      split at h
      · rename_i g' e hg
        cases h
        exact as_edge_accepted ⟨hi, hd, h2⟩ hacc
          (scontract_updateEdge hi hd (mem_nodeIndices.mp hl.1) (mem_nodeIndices.mp hl.2) hg)
      · cases h
      · cases h
    · rename_i a' r hne hres
      cases h
      have hr : r ≠ .accepted := fun hr => hne (by subst hr; rfl)
      obtain ⟨h1, h3, h4, _⟩ := reject_unchanged_any hres hr
      exact ⟨hi, hd, inv2_congr h2 h1 h3 h4⟩
  | removeEdge e =>
    simp only [AS.step] at h
    split at h
    · rename_i g' r hg
      cases h
      obtain ⟨hi', hd', hin, hedg⟩ := scontract_removeEdge hi hd hg
      refine ⟨hi', hd', ?_⟩
      have hstep : stepCall (sView x.g) x.a (.removeEdge (sView g')) = .ok (sView g', x.a) := rfl
      exact inv2_step h2 hin hedg hstep
    · cases h
  | removeNode n =>
    simp only [AS.step] at h
    split at h
    · rename_i g' r hg
      split at h
      · rename_i a' fl ha'
        cases h
        obtain ⟨hi', hd', _, hsame, hin, hedg⟩ := scontract_removeNode hi hd hg
        by_cases hl : Live x.g n
        · refine ⟨hi', hd', ?_⟩
          have hfl : fl = true := removeNode_live_flag (mem_nodeIndices.mpr hl) ha'
          subst hfl
          have hstep : stepCall (sView x.g) x.a (.removeNode n (sView g')) = .ok (sView g', a') := by
            simp only [stepCall, ha']
          exact inv2_step h2 hin hedg hstep
        · have hgg := hsame hl
          subst hgg
          have hn : n ∉ (sView x.g).g.nodes := fun hm => hl (mem_nodeIndices.mp hm)
          rw [removeNode_absent _ _ _ _ hn] at ha'
          cases ha'
          exact ⟨hi, hd, h2⟩
      · cases h
    · cases h
  | isValidEdge a b =>
    simp only [AS.step] at h
    split at h
    · rename_i a' r hv
      cases h
      exact ⟨hi, hd, isValid_inv2 h2 hv⟩
    · cases h

/-- **all histories** of `Acyclic<StableDiGraph>` -/
theorem as_inv_run : ∀ (ops : List AOp) (x x' : AS), ASInv x → AS.run x ops = .ok x' → ASInv x' := by
  intro ops
  induction ops with
  | nil => intro x x' hx h; simp only [AS.run] at h; cases h; exact hx
  | cons op ops ih =>
    intro x x' hx h
    simp only [AS.run] at h
    split at h
    · rename_i x1 hs
      exact ih x1 x' (as_inv_step hx hs) h
    · cases h

/-- what the invariant means: `Safe`, no directed cycle, and the order lists exactly the live node
indices, each once -/
theorem as_inv_meaning {x : AS} (hx : ASInv x) :
    Safe (sView x.g) x.a ∧ Dag.Acyclic (sView x.g).g ∧
    x.a.om.nodesIter.Nodup ∧ (∀ n, n ∈ x.a.om.nodesIter ↔ (SG.nodeWeight x.g n).isSome = true) := by
  have g := sView_good hx.1 hx.2.1
  refine ⟨g.safe hx.2.2, inv2_acyclic hx.2.2 g.directed g.edgesLive, hx.2.2.1.1.nodesIter.1, fun n => ?_⟩
  rw [hx.2.2.1.1.nodesIter.2 n, sView_nodes, mem_nodeIndices]
  rfl

/-- **a rejected insertion changes nothing**: the inner graph is the SAME storage state and the
order map and scratch sets are equal -/
theorem as_reject_unchanged {x x' : AS} {a b : Nat} {w : Nat} {a' : AState} {r : EdgeRes}
    (hres : Acy.tryAddEdge (sView x.g) x.a a b = .ok (a', r)) (hr : r ≠ .accepted) :
    (x.step (.tryAddEdge a b w) = .ok x' → x'.g = x.g ∧ x'.a.om = x.a.om ∧ x'.a.disc = x.a.disc ∧ x'.a.fin = x.a.fin) ∧
    (x.step (.tryUpdateEdge a b w) = .ok x' → x'.g = x.g ∧ x'.a.om = x.a.om ∧ x'.a.disc = x.a.disc ∧ x'.a.fin = x.a.fin) := by
  obtain ⟨h1, h2, h3, _⟩ := reject_unchanged_any hres hr
  constructor
  · intro h
    simp only [AS.step, hres] at h
    cases r with
    | accepted => exact absurd rfl hr
    | selfLoop => cases h; exact ⟨rfl, h1, h2, h3⟩
    | cycle n => cases h; exact ⟨rfl, h1, h2, h3⟩
  · intro h
    simp only [AS.step, hres] at h
    cases r with
    | accepted => exact absurd rfl hr
    | selfLoop => cases h; exact ⟨rfl, h1, h2, h3⟩
    | cycle n => cases h; exact ⟨rfl, h1, h2, h3⟩

/-- **no panic except the documented ones**: under the invariant, `add_node` returns unless every
valid index is live; `try_add_edge` / `try_update_edge` on live endpoints return unless every valid
edge index is live; `remove_edge`, `remove_node` (any argument) and `is_valid_edge` (live arguments)
always return — and the C02 model never faults. -/
theorem as_no_panic {x : AS} (hx : ASInv x) :
    (∀ w, x.g.nodeCount ≠ x.g.fin → ∃ x', x.step (.addNode w) = .ok x') ∧
    (∀ a b w, Live x.g a → Live x.g b → x.g.edgeCount ≠ x.g.fin →
      (∃ x', x.step (.tryAddEdge a b w) = .ok x') ∧ (∃ x', x.step (.tryUpdateEdge a b w) = .ok x')) ∧
    (∀ e, ∃ x', x.step (.removeEdge e) = .ok x') ∧
    (∀ n, ∃ x', x.step (.removeNode n) = .ok x') ∧
    (∀ a b, Live x.g a → Live x.g b → ∃ x', x.step (.isValidEdge a b) = .ok x') := by
  obtain ⟨hi, hd, h2⟩ := hx
  have g := sView_good hi hd
  have hsafe := g.safe h2
  have hcnt := counts_abs hi
  have haddEdge : ∀ a b (w : Int), Live x.g a → Live x.g b → x.g.edgeCount ≠ x.g.fin →
      ∃ g' e, SG.tryAddEdge x.g a b w = .ok (g', .ok e) := by
    intro a b w ha hb hroom
    obtain ⟨s', out, hst, _⟩ := step_inv_all hi (.addEdge a b w)
    simp only [SG.step] at hst
    cases hr : SG.tryAddEdge x.g a b w with
    | error f => rw [hr] at hst; cases hst
    | ok p =>
      obtain ⟨g', r⟩ := p
      cases r with
      | ok e => exact ⟨g', e, rfl⟩
      | error err =>
        exfalso
        obtain ⟨_, _, herr⟩ := addEdge_refines hi hr
        obtain ⟨_, h1, h2', h3⟩ := herr err rfl
        cases err with
        | nodeIxLimit => exact h3 rfl
        | edgeIxLimit => exact hroom (hcnt.2.trans (h1 rfl))
        | nodeMissed i =>
          obtain ⟨hi', hdead⟩ := h2' i rfl
          rcases hi' with rfl | rfl
          · rw [live_iff_abs.mp ha] at hdead; cases hdead
          · rw [live_iff_abs.mp hb] at hdead; cases hdead
  refine ⟨?_, ?_, ?_, ?_, ?_⟩
  · intro w hroom
    obtain ⟨s', out, hst, _⟩ := step_inv_all hi (.addNode (w : Int))
    simp only [SG.step] at hst
    cases hr : SG.tryAddNode x.g (w : Int) with
    | error f => rw [hr] at hst; cases hst
    | ok p =>
      obtain ⟨g', r⟩ := p
      cases r with
      | error err =>
        exfalso
        obtain ⟨_, _, hfull⟩ := addNode_error hi hr
        exact hroom (hcnt.1.trans hfull)
      | ok i =>
        obtain ⟨hi', hd', hin, _⟩ := scontract_addNode hi hd hr
        have hlive : i ∈ (sView g').g.nodes := (hin.2.1 i).mpr (Or.inl rfl)
        obtain ⟨a', ha'⟩ := addNode_total (v' := sView g') (s := x.a) (i := i)
          (live_lt_bound (mem_nodeIndices.mp hlive))
        exact ⟨⟨g', a'⟩, by simp only [AS.step, hr, ha']⟩
  · intro a b w ha hb hroom
    obtain ⟨⟨a', r⟩, hres⟩ := tryAddEdge_total hsafe (mem_nodeIndices.mpr ha) (mem_nodeIndices.mpr hb)
    constructor
    · cases r with
      | accepted =>
        obtain ⟨g', e, hg⟩ := haddEdge a b (w : Int) ha hb hroom
        exact ⟨⟨g', a'⟩, by simp only [AS.step, hres, hg]⟩
      | selfLoop => exact ⟨⟨x.g, a'⟩, by simp only [AS.step, hres]⟩
      | cycle n => exact ⟨⟨x.g, a'⟩, by simp only [AS.step, hres]⟩
    · cases r with
      | accepted =>
        obtain ⟨s', out, hst, _⟩ := step_inv_all hi (.updateEdge a b (w : Int))
        simp only [SG.step] at hst
        cases hr : SG.tryUpdateEdge x.g a b (w : Int) with
        | error f => rw [hr] at hst; cases hst
        | ok p =>
          obtain ⟨g', r'⟩ := p
          cases r' with
          | ok e => exact ⟨⟨g', a'⟩, by simp only [AS.step, hres, hr]⟩
          | error err =>
            exfalso
            obtain ⟨_, hcase⟩ := updateEdge_refines hi hr
            rcases hcase with ⟨e0, x0, h0, _⟩ | ⟨_, hadd⟩
            · cases h0
            · obtain ⟨g2, e2, hg2⟩ := haddEdge a b (w : Int) ha hb hroom
              rw [hg2] at hadd
              cases hadd
      | selfLoop => exact ⟨⟨x.g, a'⟩, by simp only [AS.step, hres]⟩
      | cycle n => exact ⟨⟨x.g, a'⟩, by simp only [AS.step, hres]⟩
  · intro e
    obtain ⟨s', out, hst, _⟩ := step_inv_all hi (.removeEdge e)
    simp only [SG.step] at hst
    cases hr : SG.removeEdge x.g e with
    | error f => rw [hr] at hst; cases hst
    | ok p => exact ⟨⟨p.1, x.a⟩, by simp only [AS.step, hr]⟩
  · intro n
    obtain ⟨s', out, hst, _⟩ := step_inv_all hi (.removeNode n)
    simp only [SG.step] at hst
    cases hr : SG.removeNode x.g n with
    | error f => rw [hr] at hst; cases hst
    | ok p =>
      obtain ⟨g', r⟩ := p
      obtain ⟨_, _, _, _, hin, _⟩ := scontract_removeNode hi hd hr
      obtain ⟨⟨a', fl⟩, ha'⟩ := removeNode_total (v := sView x.g) (v' := sView g') (s := x.a) (n := n) h2.1.1
        (by intro hn; exact hin.1 hn)
      exact ⟨⟨g', a'⟩, by simp only [AS.step, hr, ha']⟩
  · intro a b ha hb
    obtain ⟨⟨a', r⟩, hres⟩ := isValidEdge_total hsafe (mem_nodeIndices.mpr ha) (mem_nodeIndices.mpr hb)
    exact ⟨⟨x.g, a'⟩, by simp only [AS.step, hres]⟩

/-! ### `try_from_graph` / `TryFrom<StableDiGraph>` -/

/-- **`try_from_graph` accepts exactly the acyclic `StableDiGraph`s** (vacancies allowed), no fuel
hypothesis; an accepted graph is wrapped unchanged, the invariant holds, the call never panics. -/
theorem as_tryFromGraph {g : SG.State} (hi : SGProofs.Inv g) (hd : g.directed = true) :
    ((∃ x, AS.tryFromGraph g = .ok (.inr x)) ↔ Dag.Acyclic (sView g).g) ∧
    (∀ x, AS.tryFromGraph g = .ok (.inr x) → x.g = g ∧ ASInv x) ∧
    (∀ n, AS.tryFromGraph g = .ok (.inl n) → ¬ Dag.Acyclic (sView g).g) := by
  have vg := sView_good hi hd
  have hsound : ∀ a, Acy.tryFromGraph (sView g) = .ok (.inr a) → Inv2 (sView g) a :=
    fun a ha => tryFromGraph_sound vg.closed vg.viewOk vg.srcLive ha
  have hcomplete : Dag.Acyclic (sView g).g → ∃ a, Acy.tryFromGraph (sView g) = .ok (.inr a) :=
    fun hac => tryFromGraph_complete vg.closed vg.viewOk vg.srcLive vg.index hac vg.topoFuelOk
  have hacc : ∀ x, AS.tryFromGraph g = .ok (.inr x) → x.g = g ∧ Acy.tryFromGraph (sView g) = .ok (.inr x.a) := by
    intro x hx
    unfold AS.tryFromGraph at hx
    split at hx
    · cases hx
    · rename_i a ha; cases hx; exact ⟨rfl, ha⟩
    · cases hx
  refine ⟨⟨?_, ?_⟩, ?_, ?_⟩
  · rintro ⟨x, hx⟩
    obtain ⟨_, ha⟩ := hacc x hx
    exact inv2_acyclic (hsound _ ha) vg.directed vg.edgesLive
  · intro hac
    obtain ⟨a, ha⟩ := hcomplete hac
    exact ⟨⟨g, a⟩, by simp only [AS.tryFromGraph, ha]⟩
  · intro x hx
    obtain ⟨hg, ha⟩ := hacc x hx
    refine ⟨hg, ?_⟩
    unfold ASInv
    rw [hg]
    exact ⟨hi, hd, hsound _ ha⟩
  · intro n hn hac
    obtain ⟨a, ha⟩ := hcomplete hac
    simp only [AS.tryFromGraph, ha] at hn
    cases hn

end PetgraphModel.AcyS
