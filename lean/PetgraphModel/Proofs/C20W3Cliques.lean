import PetgraphModel.Proofs.C20Base
import PetgraphModel.Proofs.C20Tred
import PetgraphModel.Model.C20Cliques
/-
C20 (wave 3) — the mirrored `bron_kerbosch_pivot` (`Model/C20Cliques.lean`) returns EXACTLY the maximal
cliques, each once, for every pivot choice in `P ∪ X` and every exploration order.
-/
namespace PetgraphModel.C20.Cliques
open PetgraphModel PetgraphModel.MGraph

/-! ### set language over lists -/

/-- the two lists have the same members -/
def SameSet (c S : List Nat) : Prop := ∀ w, w ∈ c ↔ w ∈ S

theorem SameSet.symm {c S : List Nat} (h : SameSet c S) : SameSet S c := fun w => (h w).symm

theorem isMaxClique_congr {g : MGraph} {c S : List Nat} (h : SameSet c S) (hc : IsMaxClique g c) :
    IsMaxClique g S := by
  obtain ⟨h1, h2, h3⟩ := hc
  refine ⟨fun a ha => h1 a ((h a).mpr ha), fun a ha b hb hab => h2 a ((h a).mpr ha) b ((h b).mpr hb) hab, ?_⟩
  intro v hv hvS
  obtain ⟨a, ha, hna⟩ := h3 v hv (fun hvc => hvS ((h v).mp hvc))
  exact ⟨a, (h a).mp ha, hna⟩

theorem mem_inter {g : MGraph} {s : List Nat} {v w : Nat} :
    w ∈ inter s (g.succ v) ↔ w ∈ s ∧ g.Adj v w := by
  simp [inter, MGraph.mem_succ]

theorem nodup_filter {p : Nat → Bool} {l : List Nat} (h : l.Nodup) : (l.filter p).Nodup :=
  List.Nodup.sublist List.filter_sublist h

/-! ### the invariant of a call and what a call delivers -/

/-- the invariant of `bron_kerbosch_pivot(r, p, x)`: `r` is a clique of listed nodes and `p ⊎ x` is the
set of the common neighbours of `r` outside `r` -/
structure Inv (g : MGraph) (r p x : List Nat) : Prop where
  rnd : r.Nodup
  pnd : p.Nodup
  rsub : ∀ w ∈ r, w ∈ g.nodes
  clique : IsClique g r
  disj : ∀ w ∈ p, w ∉ x
  hpx : ∀ w, (w ∈ p ∨ w ∈ x) ↔ (w ∈ g.nodes ∧ w ∉ r ∧ ∀ a ∈ r, g.Adj w a)

/-- what the loop over `todo` delivers: the maximal cliques between `r` and `r ∪ p` that meet `todo`,
each once (`todo = none`: no restriction, the claim for a whole call) -/
structure LoopClaim (g : MGraph) (out : List (List Nat)) (r p : List Nat) (meets : List Nat → Prop) : Prop where
  sound : ∀ c ∈ out, c.Nodup ∧ (∀ w ∈ r, w ∈ c) ∧ (∀ w ∈ c, w ∈ r ∨ w ∈ p) ∧ IsMaxClique g c
  complete : ∀ S, IsMaxClique g S → (∀ w ∈ r, w ∈ S) → (∀ w ∈ S, w ∈ r ∨ w ∈ p) → meets S →
    ∃ c ∈ out, SameSet c S
  distinct : out.Pairwise fun c c' => ¬ SameSet c c'

/-- what a call delivers -/
abbrev Claim (g : MGraph) (out : List (List Nat)) (r p : List Nat) : Prop :=
  LoopClaim g out r p fun _ => True

/-! ### the invariant is kept -/

theorem Inv.pmem {g : MGraph} {r p x : List Nat} (h : Inv g r p x) {w : Nat} (hw : w ∈ p) :
    w ∈ g.nodes ∧ w ∉ r ∧ ∀ a ∈ r, g.Adj w a := (h.hpx w).mp (Or.inl hw)

/-- the recursive call for `v` -/
theorem Inv.step_rec {g : MGraph} (hsym : ∀ a b, g.Adj a b → g.Adj b a) {r p x : List Nat}
    (h : Inv g r p x) {v : Nat} (hv : v ∈ p) :
    Inv g (v :: r) (inter (p.erase v) (g.succ v)) (inter x (g.succ v)) := by
  obtain ⟨hvn, hvr, hvadj⟩ := h.pmem hv
  have hpe : (p.erase v).Nodup := h.pnd.erase v
  refine ⟨List.nodup_cons.mpr ⟨hvr, h.rnd⟩, nodup_filter hpe, ?_, ?_, ?_, ?_⟩
  · intro w hw
    rcases List.mem_cons.mp hw with rfl | hw
    · exact hvn
    · exact h.rsub w hw
  · intro a ha b hb hab
    rcases List.mem_cons.mp ha with ea | ha <;> rcases List.mem_cons.mp hb with eb | hb
    · exact absurd (ea.trans eb.symm) hab
    · exact ea ▸ hvadj b hb
    · exact eb ▸ hsym _ _ (hvadj a ha)
    · exact h.clique a ha b hb hab
  · intro w hw hwx
    rw [mem_inter] at hw hwx
    exact h.disj w ((h.pnd.mem_erase_iff.mp hw.1).2) hwx.1
  · intro w
    rw [mem_inter, mem_inter, h.pnd.mem_erase_iff]
    constructor
    · rintro (⟨⟨hwv, hwp⟩, hadj⟩ | ⟨hwx, hadj⟩)
      · obtain ⟨h1, h2, h3⟩ := h.pmem hwp
        refine ⟨h1, ?_, ?_⟩
        · simp only [List.mem_cons, not_or]; exact ⟨hwv, h2⟩
        · intro a ha
          rcases List.mem_cons.mp ha with rfl | ha
          · exact hsym _ _ hadj
          · exact h3 a ha
      · obtain ⟨h1, h2, h3⟩ := (h.hpx w).mp (Or.inr hwx)
        have hwv : w ≠ v := fun e => h.disj v hv (e ▸ hwx)
        refine ⟨h1, ?_, ?_⟩
        · simp only [List.mem_cons, not_or]; exact ⟨hwv, h2⟩
        · intro a ha
          rcases List.mem_cons.mp ha with rfl | ha
          · exact hsym _ _ hadj
          · exact h3 a ha
    · rintro ⟨h1, h2, h3⟩
      simp only [List.mem_cons, not_or] at h2
      have hvw : g.Adj v w := hsym _ _ (h3 v List.mem_cons_self)
      rcases (h.hpx w).mpr ⟨h1, h2.2, fun a ha => h3 a (List.mem_cons_of_mem _ ha)⟩ with hp | hx
      · exact Or.inl ⟨⟨h2.1, hp⟩, hvw⟩
      · exact Or.inr ⟨hx, hvw⟩

/-- the rest of the loop after `v` -/
theorem Inv.step_loop {g : MGraph} {r p x : List Nat} (h : Inv g r p x) {v : Nat} (hv : v ∈ p) :
    Inv g r (p.erase v) (v :: x) := by
  refine ⟨h.rnd, h.pnd.erase v, h.rsub, h.clique, ?_, ?_⟩
  · intro w hw hwx
    rw [h.pnd.mem_erase_iff] at hw
    rcases List.mem_cons.mp hwx with e | hwx
    · exact hw.1 e
    · exact h.disj w hw.2 hwx
  · intro w
    rw [← h.hpx w, h.pnd.mem_erase_iff, List.mem_cons]
    constructor
    · rintro (⟨_, hp⟩ | rfl | hx)
      · exact Or.inl hp
      · exact Or.inl hv
      · exact Or.inr hx
    · rintro (hp | hx)
      · by_cases e : w = v
        · exact Or.inr (Or.inl e)
        · exact Or.inl ⟨e, hp⟩
      · exact Or.inr (Or.inr hx)

/-! ### the loop -/

theorem loop_claim {g : MGraph} (hsym : ∀ a b, g.Adj a b → g.Adj b a)
    (rec : List Nat → List Nat → List Nat → List (List Nat)) (n : Nat)
    (hrec : ∀ r p x, Inv g r p x → p.length < n → Claim g (rec r p x) r p) (r : List Nat) :
    ∀ (todo p x : List Nat), Inv g r p x → p.length ≤ n → todo.Nodup → (∀ v ∈ todo, v ∈ p) →
      LoopClaim g (loop g.succ rec r todo p x) r p fun S => ∃ v ∈ todo, v ∈ S := by
  intro todo
  induction todo with
  | nil =>
    intro p x _ _ _ _
    refine ⟨?_, ?_, ?_⟩
    · intro c hc; simp [loop] at hc
    · rintro S _ _ _ ⟨v, hv, _⟩; simp at hv
    · simp [loop]
  | cons v todo ih =>
    intro p x hinv hlen hnd hsub
    have hv : v ∈ p := hsub v List.mem_cons_self
    obtain ⟨hvn, hvr, hvadj⟩ := hinv.pmem hv
    obtain ⟨hvt, htnd⟩ := List.nodup_cons.mp hnd
    have hlenE : (p.erase v).length + 1 = p.length := by
      rw [List.length_erase_of_mem hv]
      have : 0 < p.length := List.length_pos_of_mem hv
      omega
    have hinv1 := hinv.step_rec hsym hv
    have hinv2 := hinv.step_loop hv
    have hlen1 : (inter (p.erase v) (g.succ v)).length < n := by
      have := List.length_filter_le (fun w => (g.succ v).contains w) (p.erase v)
      unfold inter
      omega
    have c1 := hrec _ _ _ hinv1 hlen1
    have c2 := ih (p.erase v) (v :: x) hinv2 (by omega) htnd (by
      intro w hw
      rw [hinv.pnd.mem_erase_iff]
      exact ⟨fun e => hvt (e ▸ hw), hsub w (List.mem_cons_of_mem _ hw)⟩)
    show LoopClaim g (rec (v :: r) (inter (p.erase v) (g.succ v)) (inter x (g.succ v)) ++
      loop g.succ rec r todo (p.erase v) (v :: x)) r p _
    refine ⟨?_, ?_, ?_⟩
    · intro c hc
      rcases List.mem_append.mp hc with hc | hc
      · obtain ⟨h1, h2, h3, h4⟩ := c1.sound c hc
        refine ⟨h1, fun w hw => h2 w (List.mem_cons_of_mem _ hw), ?_, h4⟩
        intro w hw
        rcases h3 w hw with hw | hw
        · rcases List.mem_cons.mp hw with rfl | hw
          · exact Or.inr hv
          · exact Or.inl hw
        · exact Or.inr (hinv.pnd.mem_erase_iff.mp (mem_inter.mp hw).1).2
      · obtain ⟨h1, h2, h3, h4⟩ := c2.sound c hc
        refine ⟨h1, h2, ?_, h4⟩
        intro w hw
        rcases h3 w hw with hw | hw
        · exact Or.inl hw
        · exact Or.inr (hinv.pnd.mem_erase_iff.mp hw).2
    · intro S hS hrS hSp hmeet
      by_cases hvS : v ∈ S
      · obtain ⟨c, hc, hcS⟩ := c1.complete S hS
          (by
            intro w hw
            rcases List.mem_cons.mp hw with rfl | hw
            · exact hvS
            · exact hrS w hw)
          (by
            intro w hw
            by_cases e : w = v
            · exact Or.inl (e ▸ List.mem_cons_self)
            · rcases hSp w hw with hwr | hwp
              · exact Or.inl (List.mem_cons_of_mem _ hwr)
              · refine Or.inr (mem_inter.mpr ⟨hinv.pnd.mem_erase_iff.mpr ⟨e, hwp⟩, ?_⟩)
                exact hS.2.1 v hvS w hw (fun e' => e e'.symm))
          trivial
        exact ⟨c, List.mem_append_left _ hc, hcS⟩
      · obtain ⟨c, hc, hcS⟩ := c2.complete S hS hrS
          (by
            intro w hw
            rcases hSp w hw with hwr | hwp
            · exact Or.inl hwr
            · exact Or.inr (hinv.pnd.mem_erase_iff.mpr ⟨fun e => hvS (e ▸ hw), hwp⟩))
          (by
            obtain ⟨v', hv', hv'S⟩ := hmeet
            rcases List.mem_cons.mp hv' with rfl | hv'
            · exact absurd hv'S hvS
            · exact ⟨v', hv', hv'S⟩)
        exact ⟨c, List.mem_append_right _ hc, hcS⟩
    · rw [List.pairwise_append]
      refine ⟨c1.distinct, c2.distinct, ?_⟩
      intro a ha b hb hab
      have hva : v ∈ a := (c1.sound a ha).2.1 v List.mem_cons_self
      have hvb : v ∈ b := (hab v).mp hva
      rcases (c2.sound b hb).2.2.1 v hvb with h | h
      · exact hvr h
      · exact (hinv.pnd.mem_erase_iff.mp h).1 rfl

/-! ### a call -/

theorem bk_claim {g : MGraph} (hsym : ∀ a b, g.Adj a b → g.Adj b a) (o : Oracle) (ho : o.Valid) :
    ∀ (f : Nat) (r p x : List Nat), Inv g r p x → p.length < f →
      Claim g (bk g.succ (fun a b => decide (g.Adj a b)) o f r p x) r p := by
  intro f
  induction f with
  | zero => intro r p x _ h; omega
  | succ f ih =>
    intro r p x hinv hlen
    unfold bk
    split
    · -- `p` is empty
      rename_i hp
      have hp : p = [] := List.isEmpty_iff.mp hp
      subst hp
      split
      · rename_i hx
        have hx : x = [] := List.isEmpty_iff.mp hx
        subst hx
        have hmax : IsMaxClique g r := by
          refine ⟨hinv.rsub, hinv.clique, ?_⟩
          intro v hv hvr
          apply Classical.byContradiction
          intro hno
          have : ∀ a ∈ r, g.Adj v a := by
            intro a ha
            apply Classical.byContradiction
            intro hna
            exact hno ⟨a, ha, hna⟩
          have := (hinv.hpx v).mpr ⟨hv, hvr, this⟩
          simp at this
        refine ⟨?_, ?_, ?_⟩
        · intro c hc
          have : c = r := by simpa using hc
          subst this
          exact ⟨hinv.rnd, fun w hw => hw, fun w hw => Or.inl hw, hmax⟩
        · intro S _ hrS hSr _
          refine ⟨r, by simp, fun w => ⟨hrS w, fun hw => ?_⟩⟩
          rcases hSr w hw with h | h
          · exact h
          · simp at h
        · simp
      · rename_i hx
        refine ⟨?_, ?_, ?_⟩
        · intro c hc; simp at hc
        · intro S hS hrS hSr _
          exfalso
          cases x with
          | nil => simp at hx
          | cons w x =>
            obtain ⟨h1, h2, h3⟩ := (hinv.hpx w).mp (Or.inr List.mem_cons_self)
            have hwS : w ∉ S := by
              intro hw
              rcases hSr w hw with h | h
              · exact h2 h
              · simp at h
            obtain ⟨a, ha, hna⟩ := hS.2.2 w h1 hwS
            rcases hSr a ha with h | h
            · exact hna (h3 a h)
            · simp at h
        · simp
    · -- `p` is not empty
      rename_i hp
      have hp : p ≠ [] := fun e => hp (by simp [e])
      have hu := ho.pivot_mem r p x hp
      rw [List.mem_append] at hu
      obtain ⟨hun, hur, huadj⟩ := (hinv.hpx _).mp hu
      generalize o.pivot r p x = u at hu hun hur huadj
      have hperm : ∀ w, w ∈ (o.order r (p.filter fun v => u == v || !decide (g.Adj u v) || !decide (g.Adj v u))).reverse ↔
          w ∈ p.filter fun v => u == v || !decide (g.Adj u v) || !decide (g.Adj v u) := by
        intro w
        rw [List.mem_reverse]
        exact (ho.order_perm r _).mem_iff
      have hnd : (o.order r (p.filter fun v => u == v || !decide (g.Adj u v) || !decide (g.Adj v u))).reverse.Nodup := by
        rw [(List.reverse_perm _).nodup_iff, (ho.order_perm r _).nodup_iff]
        exact nodup_filter hinv.pnd
      have hl := loop_claim hsym (bk g.succ (fun a b => decide (g.Adj a b)) o f) f ih r _ p x hinv (by omega) hnd
        (fun v hv => (List.mem_filter.mp ((hperm v).mp hv)).1)
      refine ⟨hl.sound, ?_, hl.distinct⟩
      intro S hS hrS hSp _
      apply hl.complete S hS hrS hSp
      by_cases huS : u ∈ S
      · refine ⟨u, (hperm u).mpr (List.mem_filter.mpr ⟨?_, by simp⟩), huS⟩
        rcases hSp u huS with h | h
        · exact absurd h hur
        · exact h
      · obtain ⟨a, ha, hna⟩ := hS.2.2 u hun huS
        refine ⟨a, (hperm a).mpr (List.mem_filter.mpr ⟨?_, by simp [hna]⟩), ha⟩
        rcases hSp a ha with h | h
        · exact absurd (huadj a h) hna
        · exact h

/-! ### `canon` -/

theorem filter_contains_of_sublist {S l : List Nat} (h : S.Sublist l) (hnd : l.Nodup) :
    l.filter (fun x => S.contains x) = S := by
  induction h with
  | slnil => rfl
  | @cons S l a hs ih =>
    obtain ⟨hal, hnd'⟩ := List.nodup_cons.mp hnd
    have : a ∉ S := fun h => hal (hs.subset h)
    rw [List.filter_cons_of_neg (by simpa using this)]
    exact ih hnd'
  | @cons_cons S l a hs ih =>
    obtain ⟨hal, hnd'⟩ := List.nodup_cons.mp hnd
    have hc : l.filter (fun x => (a :: S).contains x) = l.filter (fun x => S.contains x) := by
      apply List.filter_congr
      intro x hx
      have : x ≠ a := fun e => hal (e ▸ hx)
      simp [this]
    rw [List.filter_cons_of_pos (by simp), hc, ih hnd']

theorem canon_congr {g : MGraph} {c S : List Nat} (h : SameSet c S) : canon g c = canon g S := by
  unfold canon
  apply List.filter_congr
  intro x _
  have := h x
  by_cases hx : x ∈ c
  · simp [hx, this.mp hx]
  · have hx' : x ∉ S := fun h' => hx (this.mpr h')
    simp [hx, hx']

theorem canon_sameSet {g : MGraph} {c : List Nat} (hc : ∀ x ∈ c, x ∈ g.nodes) : SameSet (canon g c) c := by
  intro w
  simp only [canon, List.mem_filter, List.contains_iff_mem]
  exact ⟨fun h => h.2, fun h => ⟨hc w h, h⟩⟩

theorem canon_of_sublist {g : MGraph} (hnd : g.nodes.Nodup) {S : List Nat} (h : S.Sublist g.nodes) :
    canon g S = S := filter_contains_of_sublist h hnd

/-! ### the result -/

theorem inv_init (g : MGraph) (hnd : g.nodes.Nodup) : Inv g [] g.nodes [] := by
  refine ⟨List.nodup_nil, hnd, ?_, ?_, ?_, ?_⟩
  · intro w hw; simp at hw
  · intro a ha; simp at ha
  · intro w _ hw; simp at hw
  · intro w; simp

/-- the set-language form of the result -/
theorem maximalCliques_claim (g : MGraph) (hsym : ∀ a b, g.Adj a b → g.Adj b a) (hnd : g.nodes.Nodup)
    (o : Oracle) (ho : o.Valid) (fuel : Nat) (hf : g.nodes.length < fuel) :
    Claim g (maximalCliques g o fuel) [] g.nodes :=
  bk_claim hsym o ho fuel [] g.nodes [] (inv_init g hnd) hf

theorem maximalCliques_exact (g : MGraph) (hsym : ∀ a b, g.Adj a b → g.Adj b a) (hnd : g.nodes.Nodup)
    (o : Oracle) (ho : o.Valid) (fuel : Nat) (hf : g.nodes.length < fuel) :
    (∀ c ∈ maximalCliques g o fuel, c.Nodup ∧ ∀ x ∈ c, x ∈ g.nodes) ∧
    ((maximalCliques g o fuel).map (canon g)).Nodup ∧
    ∀ S, S.Sublist g.nodes → (S ∈ (maximalCliques g o fuel).map (canon g) ↔ IsMaxClique g S) := by
  have hcl := maximalCliques_claim g hsym hnd o ho fuel hf
  have hsub : ∀ c ∈ maximalCliques g o fuel, ∀ x ∈ c, x ∈ g.nodes := by
    intro c hc x hx
    rcases (hcl.sound c hc).2.2.1 x hx with h | h
    · simp at h
    · exact h
  refine ⟨fun c hc => ⟨(hcl.sound c hc).1, hsub c hc⟩, ?_, ?_⟩
  · rw [List.nodup_iff_pairwise_ne, List.pairwise_map]
    refine List.Pairwise.imp_of_mem ?_ hcl.distinct
    intro a b ha hb hab heq
    apply hab
    intro w
    rw [← canon_sameSet (hsub a ha) w, ← canon_sameSet (hsub b hb) w, heq]
  · intro S hS
    rw [List.mem_map]
    constructor
    · rintro ⟨c, hc, rfl⟩
      exact isMaxClique_congr (canon_sameSet (hsub c hc)).symm (hcl.sound c hc).2.2.2
    · intro hmax
      obtain ⟨c, hc, hcS⟩ := hcl.complete S hmax (by intro w hw; simp at hw)
        (fun w hw => Or.inr (hmax.1 w hw)) trivial
      exact ⟨c, hc, by rw [canon_congr hcS, canon_of_sublist hnd hS]⟩

end PetgraphModel.C20.Cliques
