import PetgraphModel.Proofs.C13Vf2
/-
C13, wave 2 — the generation-stamped frontier vectors.

`markAll` / `unmarkAll` pointwise, the size counters are the number of stamped entries, and
`pop_mapping` after `push_mapping` restores the `Vf2State` EXACTLY (stamps, counters, generation).
Hence every state the machine is ever in is `SG g trail`: the pushes of the currently mapped pairs.
-/
namespace PetgraphModel.C13.Vf2
open PetgraphModel

/-- stamp of index `v` (`0` = not in the frontier set) -/
def stamp (vec : List Nat) (v : Nat) : Nat := (vec[v]?).getD 0

theorem stamp_set (vec : List Nat) (a x v : Nat) :
    stamp (vec.set a x) v = if a = v ∧ a < vec.length then x else stamp vec v := by
  unfold stamp
  rw [List.getElem?_set]
  by_cases h : a = v
  · subst h
    by_cases h2 : a < vec.length <;> simp [h2]
  · simp [h]

theorem stamp_of_ge {vec : List Nat} {v : Nat} (h : vec.length ≤ v) : stamp vec v = 0 := by
  unfold stamp; rw [List.getElem?_eq_none h]; rfl

theorem stamp_pos_lt {vec : List Nat} {v : Nat} (h : 0 < stamp vec v) : v < vec.length := by
  by_contra hn
  rw [stamp_of_ge (Nat.le_of_not_lt hn)] at h
  exact absurd h (Nat.lt_irrefl 0)

theorem ext_stamp {v w : List Nat} (hl : v.length = w.length) (h : ∀ i, stamp v i = stamp w i) : v = w := by
  apply List.ext_getElem hl
  intro i h1 h2
  have := h i
  unfold stamp at this
  rw [List.getElem?_eq_getElem h1, List.getElem?_eq_getElem h2] at this
  simpa using this

/-- number of stamped entries -/
def cnt (vec : List Nat) : Nat := vec.countP (fun x => decide (0 < x))

theorem cnt_set_pos {vec : List Nat} {a x : Nat} (ha : a < vec.length) (h0 : stamp vec a = 0) (hx : 0 < x) :
    cnt (vec.set a x) = cnt vec + 1 := by
  unfold cnt
  rw [List.countP_set ha]
  have : vec[a] = 0 := by
    unfold stamp at h0
    rw [List.getElem?_eq_getElem ha] at h0
    simpa using h0
  simp [this, hx]

theorem cnt_set_zero {vec : List Nat} {a : Nat} (ha : a < vec.length) (h0 : 0 < stamp vec a) :
    cnt (vec.set a 0) + 1 = cnt vec := by
  unfold cnt
  rw [List.countP_set ha]
  have hpos : 0 < vec[a] := by
    unfold stamp at h0
    rw [List.getElem?_eq_getElem ha] at h0
    simpa using h0
  have : 0 < List.countP (fun x => decide (0 < x)) vec :=
    List.countP_pos_iff.mpr ⟨vec[a], List.getElem_mem ha, by simpa using hpos⟩
  simp [hpos]
  omega

/-! ### markAll -/

theorem markAll_cons (gen x : Nat) (xs vec : List Nat) (sz : Nat) :
    markAll gen (x :: xs) vec sz =
      if stamp vec x = 0 then markAll gen xs (vec.set x gen) (sz + 1) else markAll gen xs vec sz := by
  unfold markAll stamp
  simp only [List.foldl_cons, beq_iff_eq]
  split <;> rfl

theorem markAll_nil (gen : Nat) (vec : List Nat) (sz : Nat) : markAll gen [] vec sz = (vec, sz) := rfl

theorem markAll_stamp {gen : Nat} (hg : 0 < gen) (nb vec : List Nat) (sz v : Nat) :
    stamp (markAll gen nb vec sz).1 v =
      if stamp vec v = 0 ∧ v ∈ nb ∧ v < vec.length then gen else stamp vec v := by
  induction nb generalizing vec sz with
  | nil => simp [markAll_nil]
  | cons x xs ih =>
    rw [markAll_cons]
    split
    · rename_i hx
      rw [ih, stamp_set, List.length_set]
      by_cases hxv : x = v
      · subst hxv
        by_cases hl : x < vec.length
        · simp [hl, hx, Nat.ne_of_gt hg]
        · have : ¬ (x < vec.length) := hl
          simp [hl, hx]
      · have : (v = x) = False := by simp; exact fun h => hxv h.symm
        simp [hxv, this]
    · rename_i hx
      rw [ih]
      by_cases hxv : x = v
      · subst hxv
        simp [hx]
      · have : (v = x) = False := by simp; exact fun h => hxv h.symm
        simp [this]

theorem markAll_cnt {gen : Nat} (hg : 0 < gen) (nb vec : List Nat) (sz : Nat)
    (hnb : ∀ x ∈ nb, x < vec.length) (hsz : sz = cnt vec) :
    (markAll gen nb vec sz).2 = cnt (markAll gen nb vec sz).1 := by
  induction nb generalizing vec sz with
  | nil => simpa [markAll_nil] using hsz
  | cons x xs ih =>
    rw [markAll_cons]
    have hx' := hnb x (by simp)
    split
    · rename_i hx
      apply ih
      · intro y hy; rw [List.length_set]; exact hnb y (by simp [hy])
      · rw [cnt_set_pos hx' hx hg, hsz]
    · exact ih _ _ (fun y hy => hnb y (by simp [hy])) hsz

theorem markAll_le {gen : Nat} (nb vec : List Nat) (sz : Nat) (hb : ∀ v, stamp vec v ≤ gen) (v : Nat) :
    stamp (markAll gen nb vec sz).1 v ≤ gen := by
  induction nb generalizing vec sz with
  | nil => simpa [markAll_nil] using hb v
  | cons x xs ih =>
    rw [markAll_cons]
    split
    · apply ih
      intro w; rw [stamp_set]; split
      · exact Nat.le_refl _
      · exact hb w
    · exact ih _ _ hb

/-! ### unmarkAll -/

theorem unmarkAll_cons (gen x : Nat) (xs vec : List Nat) (sz : Nat) :
    unmarkAll gen (x :: xs) vec sz =
      if stamp vec x = gen then unmarkAll gen xs (vec.set x 0) (sz - 1) else unmarkAll gen xs vec sz := by
  unfold unmarkAll stamp
  simp only [List.foldl_cons, beq_iff_eq]
  split <;> rfl

theorem unmarkAll_nil (gen : Nat) (vec : List Nat) (sz : Nat) : unmarkAll gen [] vec sz = (vec, sz) := rfl

theorem unmarkAll_stamp {gen : Nat} (hg : 0 < gen) (nb vec : List Nat) (sz v : Nat) :
    stamp (unmarkAll gen nb vec sz).1 v = if stamp vec v = gen ∧ v ∈ nb then 0 else stamp vec v := by
  induction nb generalizing vec sz with
  | nil => simp [unmarkAll_nil]
  | cons x xs ih =>
    rw [unmarkAll_cons]
    split
    · rename_i hx
      have hxl : x < vec.length := stamp_pos_lt (by rw [hx]; exact hg)
      rw [ih, stamp_set]
      by_cases hxv : x = v
      · subst hxv
        simp [hxl, hx, Nat.ne_of_lt hg]
      · have : (v = x) = False := by simp; exact fun h => hxv h.symm
        simp [hxv, this]
    · rename_i hx
      rw [ih]
      by_cases hxv : x = v
      · subst hxv
        simp [hx]
      · have : (v = x) = False := by simp; exact fun h => hxv h.symm
        simp [this]

theorem unmarkAll_cnt {gen : Nat} (hg : 0 < gen) (nb vec : List Nat) (sz : Nat) (hsz : sz = cnt vec) :
    (unmarkAll gen nb vec sz).2 = cnt (unmarkAll gen nb vec sz).1 := by
  induction nb generalizing vec sz with
  | nil => simpa [unmarkAll_nil] using hsz
  | cons x xs ih =>
    rw [unmarkAll_cons]
    split
    · rename_i hx
      have hxl : x < vec.length := stamp_pos_lt (by rw [hx]; exact hg)
      apply ih
      have := cnt_set_zero hxl (by rw [hx]; exact hg)
      omega
    · exact ih _ _ hsz

/-- un-marking generation `gen` right after marking it, on a vector whose stamps are all older -/
theorem unmark_mark {gen : Nat} (hg : 0 < gen) (nb vec : List Nat) (sz : Nat)
    (hnb : ∀ x ∈ nb, x < vec.length) (hsz : sz = cnt vec) (hb : ∀ v, stamp vec v < gen) :
    unmarkAll gen nb (markAll gen nb vec sz).1 (markAll gen nb vec sz).2 = (vec, sz) := by
  have hv : (unmarkAll gen nb (markAll gen nb vec sz).1 (markAll gen nb vec sz).2).1 = vec := by
    apply ext_stamp
    · rw [unmarkAll_length, markAll_length]
    · intro v
      rw [unmarkAll_stamp hg, markAll_stamp hg]
      have := hb v
      by_cases h : stamp vec v = 0 ∧ v ∈ nb ∧ v < vec.length
      · simp [h]
      · simp only [h, if_false]
        have : stamp vec v ≠ gen := Nat.ne_of_lt this
        simp [this]
  have hc := unmarkAll_cnt hg nb (markAll gen nb vec sz).1 (markAll gen nb vec sz).2
    (markAll_cnt hg nb vec sz hnb hsz)
  rw [hv] at hc
  exact Prod.ext hv (by rw [hc, hsz])

end PetgraphModel.C13.Vf2
