import PetgraphModel.Proofs.CsrSearch
import Mathlib.Tactic.Tauto
import Mathlib.Tactic.ByContra
namespace PetgraphModel.CsrProofs
open PetgraphModel.CsrM

abbrev Row := List (Nat × Int)

def keys (r : Row) : List Nat := r.map (·.1)

@[simp] theorem keys_nil : keys [] = [] := rfl
@[simp] theorem keys_cons (x : Nat × Int) (r : Row) : keys (x :: r) = x.1 :: keys r := rfl
@[simp] theorem keys_length (r : Row) : (keys r).length = r.length := by simp [keys]

/-- sorted insertion of a new successor -/
def insRow (b : Nat) (w : Int) : Row → Row
  | [] => [(b, w)]
  | x :: xs => if x.1 < b then x :: insRow b w xs else (b, w) :: x :: xs

theorem insertIdx_lb (b : Nat) (w : Int) (r : Row) :
    r.insertIdx (lb b (keys r)) (b, w) = insRow b w r := by
  induction r with
  | nil => simp [lb, insRow]
  | cons x xs ih =>
    simp only [keys_cons, lb, insRow]
    split
    · simp [ih]
    · simp

theorem length_insRow (b : Nat) (w : Int) (r : Row) : (insRow b w r).length = r.length + 1 := by
  induction r with
  | nil => simp [insRow]
  | cons x xs ih => simp only [insRow]; split <;> simp [ih]

theorem mem_insRow (b : Nat) (w : Int) (r : Row) (x : Nat × Int) :
    x ∈ insRow b w r ↔ x = (b, w) ∨ x ∈ r := by
  induction r with
  | nil => simp [insRow]
  | cons y ys ih =>
    simp only [insRow]; split
    · simp [ih]; tauto
    · simp

theorem mem_keys_insRow (b : Nat) (w : Int) (r : Row) (y : Nat) :
    y ∈ keys (insRow b w r) ↔ y = b ∨ y ∈ keys r := by
  simp only [keys, List.mem_map, mem_insRow]
  constructor
  · rintro ⟨x, (h | h), rfl⟩
    · left; simp [h]
    · right; exact ⟨x, h, rfl⟩
  · rintro (h | ⟨x, h, rfl⟩)
    · exact ⟨(b, w), Or.inl rfl, h.symm⟩
    · exact ⟨x, Or.inr h, rfl⟩

theorem asc_insRow (b : Nat) (w : Int) (r : Row) (h : Asc (keys r)) (hb : b ∉ keys r) :
    Asc (keys (insRow b w r)) := by
  induction r with
  | nil => simp [insRow, Asc]
  | cons x xs ih =>
    simp only [keys_cons, List.mem_cons, not_or] at hb
    simp only [Asc, keys_cons, List.pairwise_cons] at h
    simp only [insRow]; split
    · rename_i hx
      simp only [Asc, keys_cons, List.pairwise_cons]
      refine ⟨?_, ih h.2 hb.2⟩
      intro y hy
      rcases (mem_keys_insRow b w xs y).mp hy with rfl | hy
      · exact hx
      · exact h.1 y hy
    · rename_i hx
      have hxb : b < x.1 := by omega
      simp only [Asc, keys_cons, List.pairwise_cons, List.mem_cons]
      refine ⟨?_, h⟩
      rintro y (rfl | hy)
      · exact hxb
      · have := h.1 y hy; omega

def lookupRow (b : Nat) : Row → Option Int
  | [] => none
  | x :: xs => if x.1 = b then some x.2 else lookupRow b xs

theorem lookupRow_none_iff (b : Nat) (r : Row) : lookupRow b r = none ↔ b ∉ keys r := by
  induction r with
  | nil => simp [lookupRow]
  | cons x xs ih =>
    simp only [lookupRow, keys_cons, List.mem_cons, not_or]
    split
    · rename_i h; simp [h]
    · rename_i h; rw [ih]; constructor
      · intro h2; exact ⟨fun e => h e.symm, h2⟩
      · intro h2; exact h2.2

theorem lookupRow_insRow (b : Nat) (w : Int) (r : Row) (b' : Nat) :
    lookupRow b' (insRow b w r) = if b' = b then some w else lookupRow b' r := by
  induction r with
  | nil =>
    by_cases h : b' = b
    · subst h; simp [insRow, lookupRow]
    · have h' : ¬ b = b' := fun e => h e.symm
      simp [insRow, lookupRow, h, h']
  | cons x xs ih =>
    simp only [insRow]; split
    · rename_i hx
      simp only [lookupRow, ih]
      by_cases h : b' = b
      · subst h
        have : ¬ x.1 = b' := by omega
        simp [this]
      · simp [h]
    · by_cases h : b' = b
      · subst h; simp [lookupRow]
      · have h' : ¬ b = b' := fun e => h e.symm
        simp [lookupRow, h, h']

theorem mem_iff_lb (xs : List Nat) (b : Nat) (h : Asc xs) : xs[lb b xs]? = some b ↔ b ∈ xs := by
  constructor
  · intro h1; exact List.mem_of_getElem? h1
  · intro h1
    obtain ⟨m, hm, rfl⟩ := List.getElem_of_mem h1
    have : lb xs[m] xs = m := by
      apply lb_unique _ _ _ (by omega)
      · intro j hj hjm; exact h.get_lt hj hm hjm
      · intro _; omega
    rw [this, List.getElem?_eq_getElem hm]

/-- two rows that are strictly ascending by key and answer every lookup alike are equal -/
theorem row_ext (r1 r2 : Row) (h1 : Asc (keys r1)) (h2 : Asc (keys r2))
    (h : ∀ b, lookupRow b r1 = lookupRow b r2) : r1 = r2 := by
  induction r1 generalizing r2 with
  | nil =>
    cases r2 with
    | nil => rfl
    | cons y ys => have := h y.1; simp [lookupRow] at this
  | cons x xs ih =>
    cases r2 with
    | nil => have := h x.1; simp [lookupRow] at this
    | cons y ys =>
      simp only [Asc, keys_cons, List.pairwise_cons] at h1 h2
      have hxy : x.1 = y.1 := by
        rcases Nat.lt_trichotomy x.1 y.1 with hlt | heq | hgt
        · exfalso
          have := h x.1
          simp only [lookupRow, if_true] at this
          have hne : ¬ y.1 = x.1 := by omega
          simp only [hne, if_false] at this
          have hmem : x.1 ∈ keys ys := by
            by_contra hc
            rw [(lookupRow_none_iff x.1 ys).mpr hc] at this; simp at this
          have := h2.1 _ hmem; omega
        · exact heq
        · exfalso
          have := h y.1
          simp only [lookupRow, if_true] at this
          have hne : ¬ x.1 = y.1 := by omega
          simp only [hne, if_false] at this
          have hmem : y.1 ∈ keys xs := by
            by_contra hc
            rw [(lookupRow_none_iff y.1 xs).mpr hc] at this; simp at this
          have := h1.1 _ hmem; omega
      have hw : x.2 = y.2 := by
        have := h x.1
        simp only [lookupRow, if_true, hxy] at this
        simpa using this
      have hxy' : x = y := Prod.ext hxy hw
      subst hxy'
      congr 1
      apply ih ys h1.2 h2.2
      intro b
      have := h b
      simp only [lookupRow] at this
      by_cases hb : x.1 = b
      · subst hb
        have e1 : lookupRow x.1 xs = none := (lookupRow_none_iff _ _).mpr (fun hm => by have := h1.1 _ hm; omega)
        have e2 : lookupRow x.1 ys = none := (lookupRow_none_iff _ _).mpr (fun hm => by have := h2.1 _ hm; omega)
        rw [e1, e2]
      · simpa [hb] using this

end PetgraphModel.CsrProofs
