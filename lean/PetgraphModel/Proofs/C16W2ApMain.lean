import PetgraphModel.Proofs.C16W2ApGraph
import PetgraphModel.Proofs.C16W2ApOuter
import PetgraphModel.Proofs.C16Chk
/-
C16, second wave — articulation points: **full correctness of the mirrored `articulation_points`**.

The final state of the outer loop satisfies the machine invariant with an empty gray path and all
nodes visited (`C16W2ApOuter`); this yields a DFS certificate over the abstract graph
(`C16W2ApGraph.DfsCert`), which characterises the cut vertices.
-/
namespace PetgraphModel.C16P.W2Ap
open PetgraphModel MGraph C16S C16M

theorem mapFromIndex_spec (v : View) (hwf : v.g.WellFormed) (hi : IndexOk v) :
    ∀ (l : List Nat), (∀ i, i ∈ l → Valid v i) →
      ∃ r, mapFromIndex v l = .ok r ∧ (∀ x, x ∈ r ↔ x ∈ v.g.nodes ∧ v.toIndex x ∈ l) ∧
        (l.Nodup → r.Nodup) := by
  intro l
  induction l with
  | nil => intro _; exact ⟨[], rfl, by simp, fun _ => List.nodup_nil⟩
  | cons i is ih =>
    intro h
    obtain ⟨a, ha, hai, hfa⟩ := valid_fromIndex v hwf hi i (h i (List.mem_cons_self ..))
    obtain ⟨r, hr, hmem, hnd⟩ := ih (fun j hj => h j (List.mem_cons_of_mem _ hj))
    refine ⟨a :: r, by simp [mapFromIndex, hfa, hr], ?_, ?_⟩
    · intro x
      simp only [List.mem_cons, hmem x]
      constructor
      · rintro (h' | ⟨h1, h2⟩)
        · subst h'; exact ⟨ha, Or.inl hai⟩
        · exact ⟨h1, Or.inr h2⟩
      · rintro ⟨h1, h2 | h2⟩
        · exact Or.inl (hi.inj x a h1 ha (h2.trans hai.symm))
        · exact Or.inr ⟨h1, h2⟩
    · intro hn
      simp only [List.nodup_cons] at hn ⊢
      refine ⟨?_, hnd hn.2⟩
      intro har
      have := ((hmem a).mp har).2
      rw [hai] at this
      exact hn.1 this

section
variable {v : View} {st : AP}

/-- neighbour indices are exactly the indices of the adjacent nodes -/
theorem nbr_adj (hv : ViewOk v) (hwf : v.g.WellFormed) (hi : IndexOk v) {a b : Nat}
    (ha : a ∈ v.g.nodes) (hb : b ∈ v.g.nodes) : v.toIndex b ∈ nbr v (v.toIndex a) ↔ v.g.Adj a b := by
  rw [nbr_toIndex v hwf hi a ha, ← hv a b]
  constructor
  · intro h
    obtain ⟨t, ht, hte⟩ := List.mem_map.mp h
    have : t = b := hi.inj t b (hi.succNodes a ha t ht) hb hte
    exact this ▸ ht
  · intro h; exact List.mem_map.mpr ⟨b, h, rfl⟩

/-- the parent relation on abstract nodes -/
def TA (v : View) (st : AP) (p c : Nat) : Prop :=
  p ∈ v.g.nodes ∧ c ∈ v.g.nodes ∧ pO st (v.toIndex c) = some (v.toIndex p)

theorem anc_to_T (C : Core v [] st) {u x : Nat} (h : Anc st u x) :
    ∀ b, b ∈ v.g.nodes → x = v.toIndex b → ∃ a, a ∈ v.g.nodes ∧ v.toIndex a = u ∧ AncT (TA v st) a b := by
  induction h with
  | refl => intro b hb hx; exact ⟨b, hb, hx.symm, AncT.refl _⟩
  | @step p x' _ hp ih =>
    intro b hb hx
    subst hx
    obtain ⟨p', hp', hpe⟩ := C.tab.visited p (C.par_vis _ p hp).1
    obtain ⟨a, ha, hau, hanc⟩ := ih p' hp' hpe.symm
    exact ⟨a, ha, hau, AncT.step hanc ⟨hp', hb, by rw [hpe]; exact hp⟩⟩

/-- **the final state yields a DFS certificate** -/
theorem cert_of_inv (hv : ViewOk v) (hwf : v.g.WellFormed) (hi : IndexOk v) (I : Inv v [] st)
    (hall : ∀ a, a ∈ v.g.nodes → v.toIndex a ∈ st.visited) :
    DfsCert v.g st.time (fun a => dN st (v.toIndex a)) (fun a => lN st (v.toIndex a)) (TA v st)
      (fun x => x ∈ v.g.nodes ∧ v.toIndex x ∈ st.aps) := by
  have C := I.core
  have L := I.low
  have A := I.aps
  have hfin : ∀ a, a ∈ v.g.nodes → Finished [] st (v.toIndex a) := fun a ha => ⟨hall a ha, by simp⟩
  have hfold : ∀ a, a ∈ v.g.nodes → Folded [] st (v.toIndex a) := fun a ha => ⟨hall a ha, by simp⟩
  have hnode : ∀ i, i ∈ st.visited → ∃ a, a ∈ v.g.nodes ∧ v.toIndex a = i := C.tab.visited
  have hchildvis : ∀ c p, pO st c = some p → c ∈ st.visited := by
    intro c p hp
    apply Classical.byContradiction
    intro hc
    obtain ⟨r', hr'⟩ := C.par_unvis c p hp hc
    cases hr'
  refine
    { disc_lt := fun a ha => C.dN_lt (hall a ha)
      disc_inj := fun a b ha hb h => hi.inj a b ha hb (C.dN_inj (hall a ha) (hall b hb) h)
      T_nodes := fun p c h => ⟨h.1, h.2.1⟩
      T_fun := ?_, T_adj := ?_, T_lt := ?_, nocross := ?_, low_le := ?_, low_nbr := ?_, low_child := ?_,
      low_att := ?_, res_iff := ?_ }
  · intro p p' c h h'
    have := h.2.2.symm.trans h'.2.2
    exact hi.inj p p' h.1 h'.1 (Option.some.inj this)
  · intro p c h
    exact (nbr_adj hv hwf hi h.1 h.2.1).mp (C.par_vis _ _ h.2.2).2
  · intro p c h
    exact C.par_lt _ _ h.2.2 (hall c h.2.1)
  · intro a b ha hb hadj hlt
    have hanc := C.done_desc _ _ (hfin a ha) ((nbr_adj hv hwf hi ha hb).mpr hadj) hlt
    obtain ⟨a', ha', hae, h⟩ := anc_to_T C hanc b hb rfl
    have : a' = a := hi.inj a' a ha' ha hae
    exact this ▸ h
  · intro x hx
    exact (L.lO_some (hall x hx)).2
  · intro x w hx hadj hnT
    obtain ⟨_, hw⟩ := adj_nodes hwf hadj
    apply L.done_low _ _ (hfin x hx) ((nbr_adj hv hwf hi hx hw).mpr hadj)
    intro h
    exact hnT ⟨hw, hx, h.symm⟩
  · intro p c h
    exact L.low_fold _ _ h.2.2 (hfold c h.2.1)
  · intro x hx
    rcases L.low_att _ (hall x hx) with h1 | ⟨w, hw, hwv, h1⟩ | ⟨c, hc, hf, h1⟩
    · exact Or.inl h1
    · obtain ⟨w', hw', rfl⟩ := hnode w hwv
      exact Or.inr (Or.inl ⟨w', (nbr_adj hv hwf hi hx hw').mp hw, h1⟩)
    · obtain ⟨c', hc', rfl⟩ := hnode c hf.1
      exact Or.inr (Or.inr ⟨c', ⟨hx, hc', hc⟩, h1⟩)
  · intro x
    constructor
    · rintro ⟨hx, hxa⟩
      refine ⟨hx, ?_⟩
      rcases A.aps_sound _ hxa with ⟨q, c, h1, h2, h3, h4⟩ | ⟨h0, c1, c2, hne, h1, h2⟩
      · obtain ⟨q', hq', rfl⟩ := hnode q (C.par_vis _ _ h1).1
        obtain ⟨c', hc', rfl⟩ := hnode c h3.1
        exact Or.inl ⟨q', c', ⟨hq', hx, h1⟩, ⟨hx, hc', h2⟩, h4⟩
      · obtain ⟨c1', hc1', rfl⟩ := hnode c1 (hchildvis _ _ h1)
        obtain ⟨c2', hc2', rfl⟩ := hnode c2 (hchildvis _ _ h2)
        refine Or.inr ⟨?_, c1', c2', fun h => hne (h ▸ rfl), ⟨hx, hc1', h1⟩, ⟨hx, hc2', h2⟩⟩
        rintro ⟨q, hq⟩
        have := hq.2.2
        rw [h0] at this; cases this
    · rintro ⟨hx, hcase⟩
      refine ⟨hx, ?_⟩
      rcases hcase with ⟨q, c, hq, hc, hle⟩ | ⟨hroot, c1, c2, hne, h1, h2⟩
      · exact A.aps_nonroot _ _ _ hq.2.2 hc.2.2 (hfold c hc.2.1) hle
      · apply A.aps_root _ (v.toIndex c1) (v.toIndex c2) ?_ (hfin x hx) ?_ h1.2.2 h2.2.2
        · cases hp : pO st (v.toIndex x) with
          | none => rfl
          | some p =>
            obtain ⟨p', hp', rfl⟩ := hnode p (C.par_vis _ _ hp).1
            exact (hroot ⟨p', hp', hx, hp⟩).elim
        · intro h
          exact hne (hi.inj c1 c2 h1.2.1 h2.2.1 h)

end
end PetgraphModel.C16P.W2Ap

namespace PetgraphModel.C16P
open PetgraphModel MGraph C16S C16M W2Ap

/-- full correctness of the mirrored `articulation_points` -/
theorem articulationPoints_correct (v : View) (hv : ViewOk v) (hb : SuccBounded v)
    (hu : v.g.directed = false) (hwf : v.g.WellFormed) (hi : IndexOk v) :
    ∃ l, articulationPoints v = .ok l ∧ l.Nodup ∧ ∀ x, x ∈ l ↔ CutVertex v.g x := by
  obtain ⟨st, ho, I, _, hall⟩ := outer_run hwf hi hb v.g.nodes (AP.new v.nb) (fun _ h => h) (inv_init v)
  have haps := outer_aps v st ho
  obtain ⟨l, hl, hmem, hnd⟩ := mapFromIndex_spec v hwf hi st.aps
    (fun i h => I.core.tab.visited i (I.aps.aps_vis i h))
  refine ⟨l, ?_, hnd haps.1, ?_⟩
  · unfold articulationPoints
    simp only [ho]
    exact hl
  · intro x
    rw [hmem x]
    exact cert_cut hu hwf (cert_of_inv hv hwf hi I hall) x

end PetgraphModel.C16P
