import PetgraphModel.Spec.Partition
/-
Lemmas about the quick-find specification `QF` and the equivalence closure `Connected`.
-/
namespace PetgraphModel.UFSpec
open PetgraphModel PetgraphModel.PartitionSpec

/-- class label as a total function -/
def cl (q : QF) (x : Nat) : Nat := q.cls[x]?.getD 0

/-- all labels are element indices -/
def Ok (q : QF) : Prop := ∀ (x c : Nat), q.cls[x]? = some c → c < q.cls.length

theorem getElem?_cls {q : QF} {x : Nat} (hx : x < q.len) : q.cls[x]? = some (cl q x) := by
  unfold QF.len at hx
  simp [cl, List.getElem?_eq_getElem hx]

theorem same_iff {q : QF} {x y : Nat} (hx : x < q.len) (hy : y < q.len) :
    q.same x y = true ↔ cl q x = cl q y := by
  unfold QF.same
  rw [getElem?_cls hx, getElem?_cls hy]
  simp

theorem cl_lt {q : QF} (ok : Ok q) {x : Nat} (hx : x < q.len) : cl q x < q.len :=
  ok _ _ (getElem?_cls hx)

theorem len_new (n : Nat) : (QF.new n).len = n := by simp [QF.new, QF.len]

theorem cl_new {n x : Nat} (hx : x < n) : cl (QF.new n) x = x := by
  simp [cl, QF.new, List.getElem?_range hx]

theorem ok_new (n : Nat) : Ok (QF.new n) := by
  intro x c h
  simp only [QF.new] at h ⊢
  rw [List.getElem?_eq_some_iff] at h
  obtain ⟨hx, h⟩ := h
  simp at h hx ⊢; omega

theorem len_newSet (q : QF) : q.newSet.len = q.len + 1 := by simp [QF.newSet, QF.len]

theorem cl_newSet_lt {q : QF} {x : Nat} (hx : x < q.len) : cl q.newSet x = cl q x := by
  unfold QF.len at hx
  simp [cl, QF.newSet, List.getElem?_append, hx]

theorem cl_newSet_len (q : QF) : cl q.newSet q.len = q.len := by
  simp [cl, QF.newSet, QF.len]

theorem ok_newSet {q : QF} (ok : Ok q) : Ok q.newSet := by
  intro x c h
  simp only [QF.newSet, List.getElem?_append, List.length_append, List.length_singleton] at h ⊢
  split at h
  · have := ok _ _ h; omega
  · have : x - q.cls.length = 0 := by
      by_cases h0 : x - q.cls.length = 0
      · exact h0
      · rw [List.getElem?_eq_none (by simp; omega)] at h; cases h
    rw [this] at h; simp at h; omega

theorem union_eq {q : QF} {a b : Nat} (ha : a < q.len) (hb : b < q.len) :
    q.union a b = ⟨q.cls.map (fun c => if c = cl q b then cl q a else c)⟩ := by
  unfold QF.union
  rw [getElem?_cls ha, getElem?_cls hb]

theorem len_union {q : QF} {a b : Nat} (ha : a < q.len) (hb : b < q.len) :
    (q.union a b).len = q.len := by
  rw [union_eq ha hb]; simp [QF.len]

theorem cl_union {q : QF} {a b z : Nat} (ha : a < q.len) (hb : b < q.len) (hz : z < q.len) :
    cl (q.union a b) z = if cl q z = cl q b then cl q a else cl q z := by
  rw [union_eq ha hb]
  show ((q.cls.map _)[z]?).getD 0 = _
  rw [List.getElem?_map, getElem?_cls hz]
  rfl

theorem ok_union {q : QF} (ok : Ok q) {a b : Nat} (ha : a < q.len) (hb : b < q.len) :
    Ok (q.union a b) := by
  intro x c h
  rw [union_eq ha hb] at h ⊢
  simp only [List.getElem?_map, List.length_map] at h ⊢
  cases hx : q.cls[x]? with
  | none => simp [hx] at h
  | some c0 =>
    simp [hx] at h
    have h0 := ok _ _ hx
    have h1 := cl_lt ok ha
    unfold QF.len at h1
    split at h <;> omega

/-! ### `Connected` -/

theorem connected_mono {us us' : List (Nat × Nat)} (h : ∀ p, p ∈ us → p ∈ us') {x y : Nat}
    (c : Connected us x y) : Connected us' x y := by
  induction c with
  | refl x => exact .refl x
  | edge h1 => exact .edge (h _ h1)
  | symm _ ih => exact .symm ih
  | trans _ _ ih1 ih2 => exact .trans ih1 ih2

theorem connected_range {us : List (Nat × Nat)} {n : Nat} (hus : ∀ p, p ∈ us → p.1 < n ∧ p.2 < n)
    {x y : Nat} (c : Connected us x y) : x = y ∨ (x < n ∧ y < n) := by
  induction c with
  | refl x => exact .inl rfl
  | edge h1 => exact .inr (hus _ h1)
  | symm _ ih => omega
  | trans _ _ ih1 ih2 => omega

/-- merging the class of `b` into the class of `a` realises the closure with the extra pair -/
theorem connected_union {n a b : Nat} {us : List (Nat × Nat)} {c : Nat → Nat}
    (ha : a < n) (hb : b < n) (hus : ∀ p, p ∈ us → p.1 < n ∧ p.2 < n)
    (hrel : ∀ x y, x < n → y < n → (c x = c y ↔ Connected us x y)) :
    ∀ x y, x < n → y < n →
      ((if c x = c b then c a else c x) = (if c y = c b then c a else c y) ↔
        Connected (us ++ [(a, b)]) x y) := by
  intro x y hx hy
  have up : ∀ {u v}, u < n → v < n → c u = c v → Connected (us ++ [(a, b)]) u v :=
    fun hu hv h => connected_mono (fun p hp => List.mem_append_left _ hp) ((hrel _ _ hu hv).mp h)
  have eab : Connected (us ++ [(a, b)]) a b := .edge (by simp)
  constructor
  · intro h
    by_cases h1 : c x = c b <;> by_cases h2 : c y = c b <;> simp only [h1, h2, if_true, if_false] at h
    · exact .trans (up hx hb h1) (.symm (up hy hb h2))
    · exact .trans (up hx hb h1) (.trans (.symm eab) (up ha hy h))
    · exact .trans (up hx ha h) (.trans eab (.symm (up hy hb h2)))
    · exact up hx hy h
  · intro h
    have key : ∀ {u v}, Connected (us ++ [(a, b)]) u v → u = v ∨ (u < n ∧ v < n ∧
        (if c u = c b then c a else c u) = (if c v = c b then c a else c v)) := by
      intro u v h
      induction h with
      | refl x => exact .inl rfl
      | @edge u v h1 =>
        right
        rcases List.mem_append.mp h1 with h2 | h2
        · have hr := hus _ h2
          have e := (hrel u v hr.1 hr.2).mpr (.edge h2)
          refine ⟨hr.1, hr.2, ?_⟩
          rw [e]
        · simp at h2
          obtain ⟨rfl, rfl⟩ := h2
          refine ⟨ha, hb, ?_⟩
          by_cases h3 : c u = c v <;> simp [h3]
      | symm _ ih => rcases ih with ih | ih; exact .inl ih.symm; exact .inr ⟨ih.2.1, ih.1, ih.2.2.symm⟩
      | trans _ _ ih1 ih2 =>
        rcases ih1 with rfl | ih1
        · exact ih2
        · rcases ih2 with rfl | ih2
          · exact .inr ih1
          · exact .inr ⟨ih1.1, ih2.2.1, ih1.2.2.trans ih2.2.2⟩
    rcases key h with rfl | h
    · rfl
    · exact h.2.2

/-- a fresh singleton class -/
theorem connected_newSet {n : Nat} {us : List (Nat × Nat)} {c c' : Nat → Nat}
    (hus : ∀ p, p ∈ us → p.1 < n ∧ p.2 < n)
    (hrel : ∀ x y, x < n → y < n → (c x = c y ↔ Connected us x y))
    (hc : ∀ x, x < n → c x < n) (hc' : ∀ x, x < n → c' x = c x) (hn : c' n = n) :
    ∀ x y, x < n + 1 → y < n + 1 → (c' x = c' y ↔ Connected us x y) := by
  intro x y hx hy
  by_cases hxn : x = n <;> by_cases hyn : y = n
  · subst hxn hyn; exact ⟨fun _ => .refl _, fun _ => rfl⟩
  · subst hxn
    have hy' : y < x := by omega
    rw [hn, hc' y hy']
    have := hc y hy'
    constructor
    · intro h; omega
    · intro h; have := connected_range hus h; omega
  · subst hyn
    have hx' : x < y := by omega
    rw [hn, hc' x hx']
    have := hc x hx'
    constructor
    · intro h; omega
    · intro h; have := connected_range hus h; omega
  · rw [hc' x (by omega), hc' y (by omega)]
    exact hrel x y (by omega) (by omega)

end PetgraphModel.UFSpec
