import PetgraphModel.Model.C10Bounded
import PetgraphModel.Proofs.C10Dijkstra
/-
Bounded cost types (wave 4).

* `…G addInt = some (…)`: over the mathematical integers the generic models ARE the models of
  `Model/C10ShortestPaths.lean`;
* `AddLe add1 add2` (whenever `add1` is defined, `add2` is defined with the same value) lifts to the
  runs: a run that does not abort under `add1` returns the same result under `add2`;
* `addB M ≤ addInt` and `addB M ≤ addW M`: a run of the overflow-checked model that does not abort
  equals the `Int` run and the wrapping (release-mode) run;
* a static sufficient condition (`…_fits`): non-negative weights bounded by `W` (and heuristic values
  in `0..H`) with `fuel · W (+ H) ≤ M` never abort.
-/
namespace PetgraphModel.C10P
open PetgraphModel PetgraphModel.MGraph PetgraphModel.SP

/-- `add2` extends `add1` -/
def AddLe (add1 add2 : Add) : Prop := ∀ a b c, add1 a b = some c → add2 a b = some c

theorem addB_le_addInt (M : Int) : AddLe (addB M) addInt := by
  intro a b c h
  unfold addB at h
  split at h
  · cases h; rfl
  · cases h

theorem addB_le_addW (M : Int) : AddLe (addB M) (addW M) := by
  intro a b c h
  unfold addB at h
  split at h
  · rename_i hc
    cases h
    unfold addW
    rw [Int.emod_eq_of_lt hc.1 (by omega)]
  · cases h

theorem addB_mono {M M' : Int} (h : M ≤ M') : AddLe (addB M) (addB M') := by
  intro a b c hc
  unfold addB at hc ⊢
  split at hc
  · rename_i hb
    cases hc
    rw [if_pos ⟨hb.1, by omega⟩]
  · cases hc

/-! ### dijkstra -/

theorem dijRelaxG_int (v : View) (c : Int) (rows : List (Nat × Nat)) (st : DState) :
    dijRelaxG addInt v c rows st = some (dijRelax v c rows st) := by
  fun_induction dijRelax v c rows st <;> simp_all +zetaDelta [dijRelaxG, addInt] <;> (intro hh; omega)

theorem dijLoopG_int (pop : Pop) (v : View) (goal : Option Nat) (fuel : Nat) (st : DState) :
    dijLoopG addInt pop v goal fuel st = some (dijLoop pop v goal fuel st) := by
  fun_induction dijLoop pop v goal fuel st <;> simp_all +zetaDelta [dijLoopG, dijRelaxG_int]

/-- over the integers the generic model is `SP.dijkstra` -/
theorem dijkstraG_int (pop : Pop) (v : View) (s : Nat) (goal : Option Nat) :
    dijkstraG addInt pop v s goal = some (dijkstra pop v s goal) := by
  unfold dijkstraG dijkstra
  rw [dijLoopG_int]
  rfl

theorem dijRelaxG_mono {add1 add2 : Add} (hle : AddLe add1 add2) (v : View) (c : Int) :
    ∀ (rows : List (Nat × Nat)) (st r : DState), dijRelaxG add1 v c rows st = some r →
      dijRelaxG add2 v c rows st = some r := by
  intro rows
  induction rows with
  | nil => intro st r h; exact h
  | cons hd rest ih =>
    intro st r h
    obtain ⟨next, eid⟩ := hd
    simp only [dijRelaxG] at h ⊢
    split
    · rename_i hvis
      rw [if_pos hvis] at h
      exact ih _ _ h
    · rename_i hvis
      rw [if_neg hvis] at h
      cases ha : add1 c (v.weight eid) with
      | none => rw [ha] at h; cases h
      | some ns =>
        rw [ha] at h
        rw [hle _ _ _ ha]
        simp only at h ⊢
        split
        · rename_i old hold
          rw [hold] at h
          simp only at h
          split
          · rename_i hlt
            rw [if_pos hlt] at h
            exact ih _ _ h
          · rename_i hlt
            rw [if_neg hlt] at h
            exact ih _ _ h
        · rename_i hold
          rw [hold] at h
          exact ih _ _ h

theorem dijLoopG_mono {add1 add2 : Add} (hle : AddLe add1 add2) (pop : Pop) (v : View) (goal : Option Nat) :
    ∀ (fuel : Nat) (st : DState) (r : Option DState), dijLoopG add1 pop v goal fuel st = some r →
      dijLoopG add2 pop v goal fuel st = some r := by
  intro fuel
  induction fuel with
  | zero => intro st r h; exact h
  | succ f ih =>
    intro st r h
    simp only [dijLoopG] at h ⊢
    split
    · rename_i hpop
      rw [hpop] at h
      exact h
    · rename_i c node h' hpop
      rw [hpop] at h
      simp only at h ⊢
      split
      · rename_i hvis
        rw [if_pos hvis] at h
        exact ih _ _ h
      · rename_i hvis
        rw [if_neg hvis] at h
        split
        · rename_i hg
          rw [if_pos hg] at h
          exact h
        · rename_i hg
          rw [if_neg hg] at h
          cases hr : dijRelaxG add1 v c (v.outOf node) { st with heap := h' } with
          | none => rw [hr] at h; cases h
          | some st2 =>
            rw [hr] at h
            rw [dijRelaxG_mono hle v c _ _ _ hr]
            exact ih _ _ h

theorem dijkstraG_mono {add1 add2 : Add} (hle : AddLe add1 add2) (pop : Pop) (v : View) (s : Nat) (goal : Option Nat)
    (r : Option (List (Nat × Int))) (h : dijkstraG add1 pop v s goal = some r) :
    dijkstraG add2 pop v s goal = some r := by
  unfold dijkstraG at h ⊢
  cases hl : dijLoopG add1 pop v goal (dijFuel v) (dijInit s) with
  | none => rw [hl] at h; cases h
  | some r' =>
    rw [hl] at h
    rw [dijLoopG_mono hle pop v goal _ _ _ hl]
    exact h

/-! ### astar -/

theorem astarRelaxG_int (v : View) (h : Nat → Int) (node : Nat) (c : Int) : ∀ (rows : List (Nat × Nat)) (st : AState),
    astarRelaxG addInt v h node c rows st = some (astarRelax v h node c rows st) := by
  intro rows
  induction rows with
  | nil => intro st; rfl
  | cons hd rest ih =>
    intro st
    obtain ⟨next, eid⟩ := hd
    simp only [astarRelaxG, astarRelax, addInt]
    cases hsk : amGet st.scores next with
    | none =>
      simp only [Bool.false_eq_true, if_false]
      exact ih _
    | some old =>
      simp only
      by_cases hle : old ≤ c + v.weight eid
      · simp only [hle, decide_true, if_true]
        exact ih _
      · simp only [hle, decide_false, Bool.false_eq_true, if_false]
        exact ih _

theorem astarLoopG_int (pop : Pop) (v : View) (isGoal : Nat → Bool) (h : Nat → Int) (fuel : Nat) (st : AState) :
    astarLoopG addInt pop v isGoal h fuel st = some (astarLoop pop v isGoal h fuel st) := by
  fun_induction astarLoop pop v isGoal h fuel st <;> simp_all +zetaDelta [astarLoopG, astarRelaxG_int] <;>
    (intro hh; omega)

theorem astarG_int (pop : Pop) (v : View) (s : Nat) (isGoal : Nat → Bool) (h : Nat → Int) (fuel : Nat) :
    astarG addInt pop v s isGoal h fuel = some (astar pop v s isGoal h fuel) := by
  unfold astarG astar
  exact astarLoopG_int pop v isGoal h fuel _

theorem astarRelaxG_mono {add1 add2 : Add} (hle : AddLe add1 add2) (v : View) (h : Nat → Int) (node : Nat) (c : Int) :
    ∀ (rows : List (Nat × Nat)) (st r : AState), astarRelaxG add1 v h node c rows st = some r →
      astarRelaxG add2 v h node c rows st = some r := by
  intro rows
  induction rows with
  | nil => intro st r hh; exact hh
  | cons hd rest ih =>
    intro st r hh
    obtain ⟨next, eid⟩ := hd
    simp only [astarRelaxG] at hh ⊢
    cases ha : add1 c (v.weight eid) with
    | none => rw [ha] at hh; cases hh
    | some ns =>
      rw [ha] at hh
      rw [hle _ _ _ ha]
      simp only at hh ⊢
      have key : (match add1 ns (h next) with
            | none => none
            | some est => astarRelaxG add1 v h node c rest
                { st with scores := amSet st.scores next ns, came := amSet st.came next node,
                          heap := st.heap ++ [(est, next)] }) = some r →
          (match add2 ns (h next) with
            | none => none
            | some est => astarRelaxG add2 v h node c rest
                { st with scores := amSet st.scores next ns, came := amSet st.came next node,
                          heap := st.heap ++ [(est, next)] }) = some r := by
        intro h0
        cases hb : add1 ns (h next) with
        | none => rw [hb] at h0; cases h0
        | some est =>
          rw [hb] at h0
          rw [hle _ _ _ hb]
          exact ih _ _ h0
      revert hh
      cases hsk : amGet st.scores next with
      | none =>
        simp only [Bool.false_eq_true, if_false]
        exact key
      | some old =>
        simp only
        by_cases hle' : old ≤ ns
        · simp only [hle', decide_true, if_true]
          exact ih _ _
        · simp only [hle', decide_false, Bool.false_eq_true, if_false]
          exact key

theorem astarLoopG_mono {add1 add2 : Add} (hle : AddLe add1 add2) (pop : Pop) (v : View) (isGoal : Nat → Bool)
    (h : Nat → Int) : ∀ (fuel : Nat) (st : AState) (r : AResult), astarLoopG add1 pop v isGoal h fuel st = some r →
      astarLoopG add2 pop v isGoal h fuel st = some r := by
  intro fuel
  induction fuel with
  | zero => intro st r hh; exact hh
  | succ f ih =>
    intro st r hh
    simp only [astarLoopG] at hh ⊢
    split
    · rename_i hpop
      rw [hpop] at hh
      exact hh
    · rename_i est node h' hpop
      rw [hpop] at hh
      simp only at hh ⊢
      split
      · rename_i hg
        rw [if_pos hg] at hh
        exact hh
      · rename_i hg
        rw [if_neg hg] at hh
        split
        · rename_i hsc
          rw [hsc] at hh
          exact hh
        · rename_i nodeScore hsc
          rw [hsc] at hh
          simp only at hh ⊢
          have go : ∀ st0 : AState,
              (match astarRelaxG add1 v h node nodeScore (v.outOf node) st0 with
                | none => none
                | some st => astarLoopG add1 pop v isGoal h f st) = some r →
              (match astarRelaxG add2 v h node nodeScore (v.outOf node) st0 with
                | none => none
                | some st => astarLoopG add2 pop v isGoal h f st) = some r := by
            intro st0 h0
            cases hr : astarRelaxG add1 v h node nodeScore (v.outOf node) st0 with
            | none => rw [hr] at h0; cases h0
            | some st2 =>
              rw [hr] at h0
              rw [astarRelaxG_mono hle v h node nodeScore _ _ _ hr]
              exact ih _ _ h0
          split
          · rename_i e he
            rw [he] at hh
            simp only at hh
            split
            · rename_i hle'
              rw [if_pos hle'] at hh
              exact ih _ _ hh
            · rename_i hle'
              rw [if_neg hle'] at hh
              exact go _ hh
          · rename_i he
            rw [he] at hh
            exact go _ hh

theorem astarG_mono {add1 add2 : Add} (hle : AddLe add1 add2) (pop : Pop) (v : View) (s : Nat) (isGoal : Nat → Bool)
    (h : Nat → Int) (fuel : Nat) (r : AResult) (hh : astarG add1 pop v s isGoal h fuel = some r) :
    astarG add2 pop v s isGoal h fuel = some r :=
  astarLoopG_mono hle pop v isGoal h fuel _ r hh

/-! ### k_shortest_path -/

theorem kspPushG_int (v : View) (c : Int) : ∀ (rows : List (Nat × Nat)),
    kspPushG addInt v c rows = some (rows.map fun (next, eid) => (c + v.weight eid, next)) := by
  intro rows
  induction rows with
  | nil => rfl
  | cons hd rest ih =>
    obtain ⟨next, eid⟩ := hd
    simp only [kspPushG, addInt, ih, Option.map_some, List.map_cons]

theorem kspLoopG_int (pop : Pop) (v : View) (goal : Option Nat) (k : Nat) : ∀ (fuel : Nat) (st : KState),
    kspLoopG addInt pop v goal k fuel st = some (kspLoop pop v goal k fuel st) := by
  intro fuel
  induction fuel with
  | zero => intro st; rfl
  | succ f ih =>
    intro st
    simp only [kspLoopG, kspLoop]
    cases hpop : pop st.heap with
    | none => rfl
    | some eh =>
      obtain ⟨⟨c, u⟩, h'⟩ := eh
      simp only
      cases hc : st.counter[v.toIndex u]? with
      | none => rfl
      | some n =>
        simp only
        by_cases hgt : n + 1 > k
        · simp only [hgt, if_true]
          exact ih _
        · simp only [hgt, if_false]
          by_cases hg : (goal == some u && n + 1 == k) = true
          · simp only [hg, if_true]
          · simp only [hg, Bool.false_eq_true, if_false, kspPushG_int]
            exact ih _

theorem kShortestPathG_int (pop : Pop) (v : View) (s : Nat) (goal : Option Nat) (k : Nat) :
    kShortestPathG addInt pop v s goal k = some (kShortestPath pop v s goal k) := by
  unfold kShortestPathG kShortestPath
  exact kspLoopG_int pop v goal k _ _

theorem kspPushG_mono {add1 add2 : Add} (hle : AddLe add1 add2) (v : View) (c : Int) :
    ∀ (rows : List (Nat × Nat)) (r : Heap), kspPushG add1 v c rows = some r → kspPushG add2 v c rows = some r := by
  intro rows
  induction rows with
  | nil => intro r h; exact h
  | cons hd rest ih =>
    intro r h
    obtain ⟨next, eid⟩ := hd
    simp only [kspPushG] at h ⊢
    cases ha : add1 c (v.weight eid) with
    | none => rw [ha] at h; cases h
    | some ns =>
      rw [ha] at h
      rw [hle _ _ _ ha]
      simp only at h ⊢
      cases hr : kspPushG add1 v c rest with
      | none => rw [hr] at h; cases h
      | some r' =>
        rw [hr] at h
        rw [ih r' hr]
        exact h

theorem kspLoopG_mono {add1 add2 : Add} (hle : AddLe add1 add2) (pop : Pop) (v : View) (goal : Option Nat) (k : Nat) :
    ∀ (fuel : Nat) (st : KState) (r : KResult), kspLoopG add1 pop v goal k fuel st = some r →
      kspLoopG add2 pop v goal k fuel st = some r := by
  intro fuel
  induction fuel with
  | zero => intro st r h; exact h
  | succ f ih =>
    intro st r h
    simp only [kspLoopG] at h ⊢
    split
    · rename_i hpop
      rw [hpop] at h
      exact h
    · rename_i c node h' hpop
      rw [hpop] at h
      simp only at h ⊢
      split
      · rename_i hc
        rw [hc] at h
        exact h
      · rename_i n hc
        rw [hc] at h
        simp only at h ⊢
        split
        · rename_i hgt
          rw [if_pos hgt] at h
          exact ih _ _ h
        · rename_i hgt
          rw [if_neg hgt] at h
          split
          · rename_i hg
            rw [if_pos hg] at h
            exact h
          · rename_i hg
            rw [if_neg hg] at h
            cases hr : kspPushG add1 v c (v.outOf node) with
            | none => rw [hr] at h; cases h
            | some pushes =>
              rw [hr] at h
              rw [kspPushG_mono hle v c _ _ hr]
              exact ih _ _ h

theorem kShortestPathG_mono {add1 add2 : Add} (hle : AddLe add1 add2) (pop : Pop) (v : View) (s : Nat)
    (goal : Option Nat) (k : Nat) (r : KResult) (h : kShortestPathG add1 pop v s goal k = some r) :
    kShortestPathG add2 pop v s goal k = some r :=
  kspLoopG_mono hle pop v goal k _ _ r h

/-! ### a semantic sufficient condition for dijkstra: no shortest-walk cost plus one arc exceeds `M` -/

/-- no shortest-walk cost from `s`, extended by one more arc, exceeds `M` -/
def DijFits (g : MGraph) (s : Nat) (M : Int) : Prop :=
  ∀ u d b w, IsShortest g s u d → (u, b, w) ∈ g.arcs → d + w ≤ M

/-- a node popped while unvisited carries its true distance -/
theorem popped_shortest {pop : Pop} (hp : IsMinPop pop) {g : MGraph} (hw : NonNeg g) {s : Nat} {st : DState}
    (I : Inv g s st) {c : Int} {node : Nat} {h' : Heap} (hpop : pop st.heap = some ((c, node), h'))
    (hnv : node ∉ st.visited) : IsShortest g s node c := by
  have hct := popped_score hp I hpop hnv
  have lb := lower_bound hw I c (fun e he => hp.min _ _ _ hpop e he)
  refine ⟨I.core.real node c hct, ?_⟩
  intro c' hwk
  rcases lb node c' hwk with ⟨y, hy, hle⟩ | h
  · rw [hct] at hy; cases hy; exact hle
  · exact h

/-- the invariant survives a stale pop -/
theorem inv_stale {pop : Pop} (hp : IsMinPop pop) {g : MGraph} {s : Nat} {st : DState} (I : Inv g s st)
    {c : Int} {node : Nat} {h' : Heap} (hpop : pop st.heap = some ((c, node), h')) (hvis : node ∈ st.visited) :
    Inv g s { st with heap := h' } := by
  have hmem := hp.mem _ _ _ hpop
  have hsub : ∀ x, x ∈ h' → x ∈ st.heap := fun x hx => (hmem x).mpr (Or.inr hx)
  refine ⟨core_pop I.core hsub, ?_⟩
  intro b hb y hy
  rcases (hmem _).mp (I.pending b hb y hy) with e | e
  · cases e; exact absurd hvis hb
  · exact e

/-- the invariant survives the expansion of a freshly popped node (the step inside `loop_spec`) -/
theorem inv_expand {pop : Pop} (hp : IsMinPop pop) {v : View} (hv : ViewArcs v) (hw : NonNeg v.g) {s : Nat}
    {st : DState} (I : Inv v.g s st) {c : Int} {node : Nat} {h' : Heap}
    (hpop : pop st.heap = some ((c, node), h')) (hvis : node ∉ st.visited) :
    Inv v.g s { (dijRelax v c (v.outOf node) { st with heap := h' }) with
      visited := node :: (dijRelax v c (v.outOf node) { st with heap := h' }).visited } := by
  have hmem := hp.mem _ _ _ hpop
  have hsub : ∀ x, x ∈ h' → x ∈ st.heap := fun x hx => (hmem x).mpr (Or.inr hx)
  have hsc := popped_score hp I hpop hvis
  have M : Mid v.g s node c { st with heap := h' } := by
    refine ⟨core_pop I.core hsub, ?_, hsc, hvis, ?_, ?_⟩
    · intro b hb hbn y hy
      rcases (hmem _).mp (I.pending b hb y hy) with e | e
      · cases e; exact absurd rfl hbn
      · exact e
    · intro e he
      exact hp.min _ _ _ hpop e (hsub e he)
    · intro u' hu' x hx
      exact I.core.visLe u' hu' x hx (c, node) ((hmem _).mpr (Or.inl rfl))
  have harcs : ∀ be, be ∈ v.outOf node → (node, be.1, v.weight be.2) ∈ v.g.arcs :=
    fun be hbe => (hv node be.1 (v.weight be.2)).mp ⟨be.2, hbe, rfl⟩
  have R := relax_spec hw v (v.outOf node) _ M harcs
  generalize dijRelax v c (v.outOf node) { st with heap := h' } = st2 at R
  obtain ⟨M2, hv2, _, hrows⟩ := R
  refine ⟨⟨M2.core.src, M2.core.real, ?_, ?_, ?_, M2.core.heapScored⟩, ?_⟩
  · intro u' hu' x hx b w harc
    rcases List.mem_cons.mp hu' with e | e
    · subst e
      have hx' : x = c := by
        have := M2.uScore; simp only at hx; rw [hx] at this; cases this; rfl
      subst hx'
      obtain ⟨eid, hmemrow, hwe⟩ := (hv u' b w).mpr harc
      obtain ⟨y, hy, hle⟩ := hrows (b, eid) hmemrow
      exact ⟨y, hy, by simp only at hle; rw [hwe] at hle; exact hle⟩
    · exact M2.core.closed u' e x hx b w harc
  · intro u' hu'
    rcases List.mem_cons.mp hu' with e | e
    · subst e; exact ⟨c, M2.uScore⟩
    · exact M2.core.visScored u' e
  · intro u' hu' x hx e he
    rcases List.mem_cons.mp hu' with e' | e'
    · subst e'
      have hx' : x = c := by
        have := M2.uScore; simp only at hx; rw [hx] at this; cases this; rfl
      subst hx'
      exact M2.uMin e he
    · exact M2.core.visLe u' e' x hx e he
  · intro b hb y hy
    have hb' : b ≠ node ∧ b ∉ st2.visited := by
      simp at hb; exact hb
    exact M2.pending b hb'.2 hb'.1 y hy

/-- when every sum of the edge loop stays inside `0..M` the checked loop is the `Int` loop -/
theorem dijRelaxG_fits (M : Int) (v : View) (c : Int) : ∀ (rows : List (Nat × Nat)) (st : DState),
    (∀ be, be ∈ rows → 0 ≤ c + v.weight be.2 ∧ c + v.weight be.2 ≤ M) →
    dijRelaxG (addB M) v c rows st = some (dijRelax v c rows st) := by
  intro rows
  induction rows with
  | nil => intro st _; rfl
  | cons hd rest ih =>
    intro st hfit
    obtain ⟨next, eid⟩ := hd
    have h1 := hfit (next, eid) (List.mem_cons_self ..)
    have hrest : ∀ be, be ∈ rest → 0 ≤ c + v.weight be.2 ∧ c + v.weight be.2 ≤ M :=
      fun be hbe => hfit be (List.mem_cons_of_mem _ hbe)
    have hadd : addB M c (v.weight eid) = some (c + v.weight eid) := by
      unfold addB; rw [if_pos h1]
    simp only [dijRelaxG, dijRelax, hadd]
    by_cases hvis : st.visited.contains next = true
    · simp only [hvis, if_true]
      exact ih st hrest
    · simp only [hvis, Bool.false_eq_true, if_false]
      cases hold : amGet st.scores next with
      | none => exact ih _ hrest
      | some old =>
        simp only
        by_cases hlt : c + v.weight eid < old
        · simp only [hlt, if_true]
          exact ih _ hrest
        · simp only [hlt, if_false]
          exact ih st hrest

theorem dijLoopG_fits {pop : Pop} (hp : IsMinPop pop) {v : View} (hv : ViewArcs v) (hw : NonNeg v.g) (s : Nat)
    (M : Int) (hfit : DijFits v.g s M) (goal : Option Nat) : ∀ (fuel : Nat) (st : DState), Inv v.g s st →
    dijLoopG (addB M) pop v goal fuel st = some (dijLoop pop v goal fuel st) := by
  intro fuel
  induction fuel with
  | zero => intro st _; rfl
  | succ f ih =>
    intro st I
    simp only [dijLoopG, dijLoop]
    cases hpop : pop st.heap with
    | none => rfl
    | some eh =>
      obtain ⟨⟨c, node⟩, h'⟩ := eh
      simp only
      by_cases hvis : node ∈ st.visited
      · have hc : st.visited.contains node = true := by simpa using hvis
        simp only [hc, if_true]
        exact ih _ (inv_stale hp I hpop hvis)
      · have hc : st.visited.contains node = false := by simpa using hvis
        simp only [hc, Bool.false_eq_true, if_false]
        by_cases hg : (goal == some node) = true
        · simp only [hg, if_true]
        · simp only [hg]
          have hshort := popped_shortest hp hw I hpop hvis
          have hc0 : 0 ≤ c := walk_nonneg hw hshort.1
          have hrows : ∀ be, be ∈ v.outOf node → 0 ≤ c + v.weight be.2 ∧ c + v.weight be.2 ≤ M := by
            intro be hbe
            have harc : (node, be.1, v.weight be.2) ∈ v.g.arcs := (hv node be.1 (v.weight be.2)).mp ⟨be.2, hbe, rfl⟩
            have := hw _ _ _ harc
            exact ⟨by omega, hfit node c be.1 _ hshort harc⟩
          rw [dijRelaxG_fits M v c _ _ hrows]
          exact ih _ (inv_expand hp hv hw I hpop hvis)

/-- **no abort under the semantic bound**: if no shortest-walk cost from `s` extended by one arc exceeds
`M`, the overflow-checked dijkstra model never aborts and is the `Int` model. -/
theorem dijkstraG_fits {pop : Pop} (hp : IsMinPop pop) {v : View} (hv : ViewArcs v) (hw : NonNeg v.g) (s : Nat)
    (M : Int) (hfit : DijFits v.g s M) (goal : Option Nat) :
    dijkstraG (addB M) pop v s goal = some (dijkstra pop v s goal) := by
  unfold dijkstraG dijkstra
  rw [dijLoopG_fits hp hv hw s M hfit goal _ _ (inv_init _ _)]
  rfl

/-- an executable sufficient test for `DijFits`, from the certified distances of the judges -/
def dijFitsB (g : MGraph) (s : Nat) (M : Int) : Bool :=
  match C10.certDist g s with
  | none => false
  | some d => d.all fun ux => g.arcs.all fun a => a.1 != ux.1 || decide (ux.2 + a.2.2 ≤ M)

theorem dijFitsB_sound (g : MGraph) (s : Nat) (M : Int) (h : dijFitsB g s M = true) : DijFits g s M := by
  unfold dijFitsB at h
  cases hd : C10.certDist g s with
  | none => rw [hd] at h; cases h
  | some d =>
    rw [hd] at h
    simp only [List.all_eq_true, Bool.or_eq_true, bne_iff_ne, ne_eq, decide_eq_true_eq] at h
    have e := exact_of_check (certDist_ok hd)
    intro u x b w hs harc
    have := h (u, x) ((e.mem_iff u x).mpr hs) (u, b, w) harc
    simp only [not_true_eq_false, false_or] at this
    exact this

end PetgraphModel.C10P
