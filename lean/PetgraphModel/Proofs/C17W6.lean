import PetgraphModel.Model.SerdeW6
import PetgraphModel.Spec.SerdeW6
import PetgraphModel.Proofs.SerdeDe
import PetgraphModel.Proofs.SerdeTrip
import PetgraphModel.Proofs.C17W4Preserved
/-
C17, wave 6: the rarely used whole-graph operations (`reverse`, `clear`, `clear_edges`) on a graph that satisfies the
structural invariant — in particular on everything a deserializer hands back (`C17_de_inv_*`) — keep the invariant,
and change the abstract indexed graph (`viewRaw`) exactly as documented: `reverse` exchanges the endpoints of every
live edge, `clear_edges` drops the edges and keeps every node index and vacancy, `clear` leaves the empty graph.
So the round-trip theorems apply unchanged after any of them ("clear then reuse", "reverse then remove").
-/
namespace PetgraphModel.SerdeProofs
open PetgraphModel PetgraphModel.Serde

/-! ### slots -/

@[simp] theorem NodeSlot.rev_w (n : NodeSlot) : n.rev.w = n.w := rfl
@[simp] theorem EdgeSlot.rev_w (e : EdgeSlot) : e.rev.w = e.w := rfl
@[simp] theorem NodeSlot.rev_rev (n : NodeSlot) : n.rev.rev = n := rfl
@[simp] theorem EdgeSlot.rev_rev (e : EdgeSlot) : e.rev.rev = e := rfl

/-- the node map of `StableGraph::reverse` -/
def revN (n : NodeSlot) : NodeSlot := if n.w.isSome then n.rev else n
/-- the edge map of `StableGraph::reverse` -/
def revE (e : EdgeSlot) : EdgeSlot := if e.w.isSome then e.rev else e

@[simp] theorem revN_w (n : NodeSlot) : (revN n).w = n.w := by unfold revN; split <;> rfl
@[simp] theorem revE_w (e : EdgeSlot) : (revE e).w = e.w := by unfold revE; split <;> rfl
@[simp] theorem revN_revN (n : NodeSlot) : revN (revN n) = n := by
  unfold revN; by_cases h : n.w.isSome <;> simp [h]
@[simp] theorem revE_revE (e : EdgeSlot) : revE (revE e) = e := by
  unfold revE; by_cases h : e.w.isSome <;> simp [h]

theorem revE_live (e : EdgeSlot) (h : e.w.isSome = true) : revE e = e.rev := by simp [revE, h]
theorem revE_vacant (e : EdgeSlot) (h : e.w = none) : revE e = e := by simp [revE, h]
theorem revN_live (n : NodeSlot) (h : n.w.isSome = true) : revN n = n.rev := by simp [revN, h]
theorem revN_vacant (n : NodeSlot) (h : n.w = none) : revN n = n := by simp [revN, h]

theorem Stable.reverse_g (s : Stable) :
    s.reverse.g = { s.g with nodes := s.g.nodes.map revN, edges := s.g.edges.map revE } := rfl

/-! ### `reverse` is an involution -/

theorem stable_reverse_reverse (s : Stable) : s.reverse.reverse = s := by
  cases s with
  | mk g nc ec fn fe =>
    cases g with
    | mk END d ns es =>
      show Stable.mk (Raw.mk END d ((ns.map revN).map revN) ((es.map revE).map revE)) nc ec fn fe = _
      simp [List.map_map, Function.comp_def]

theorem raw_reverse_reverse (g : Raw) : g.reverse.reverse = g := by
  cases g with
  | mk END d ns es =>
    show Raw.mk END d ((ns.map NodeSlot.rev).map NodeSlot.rev) ((es.map EdgeSlot.rev).map EdgeSlot.rev) = _
    simp [List.map_map, Function.comp_def]

/-! ### the abstract indexed graph after the operations -/

/-- every edge with its endpoints exchanged -/
def IView.rev (v : IView) : IView := { v with edges := v.edges.map fun (i, s, t, w) => (i, t, s, w) }

theorem enumFrom_map {α β} (f : α → β) : ∀ (k : Nat) (l : List α), enumFrom k (l.map f) = (enumFrom k l).map fun (i, x) => (i, f x)
  | _, [] => rfl
  | k, x :: xs => by simp [enumFrom, enumFrom_map f (k + 1) xs]

theorem liveNodes_map (g : Raw) (f : NodeSlot → NodeSlot) (es : List EdgeSlot) (hf : ∀ n, (f n).w = n.w) :
    liveNodes { g with nodes := g.nodes.map f, edges := es } = liveNodes g := by
  simp only [liveNodes, enumFrom_map, List.filterMap_map]
  congr 1
  funext ⟨i, n⟩
  simp [hf]

theorem liveEdges_revE (g : Raw) (ns : List NodeSlot) :
    liveEdges { g with nodes := ns, edges := g.edges.map revE } = (liveEdges g).map fun (i, s, t, w) => (i, t, s, w) := by
  simp only [liveEdges, enumFrom_map, List.filterMap_map, List.map_filterMap]
  congr 1
  funext ⟨i, e⟩
  cases hw : e.w with
  | none => simp [revE, hw]
  | some w => simp [revE, hw, EdgeSlot.rev]

theorem liveEdges_rev (g : Raw) (ns : List NodeSlot) :
    liveEdges { g with nodes := ns, edges := g.edges.map EdgeSlot.rev } = (liveEdges g).map fun (i, s, t, w) => (i, t, s, w) := by
  simp only [liveEdges, enumFrom_map, List.filterMap_map, List.map_filterMap]
  congr 1
  funext ⟨i, e⟩
  cases hw : e.w with
  | none => simp [EdgeSlot.rev, hw]
  | some w => simp [hw, EdgeSlot.rev]

/-- `StableGraph::reverse`: same nodes, same bounds, every live edge with its endpoints exchanged -/
theorem viewRaw_stable_reverse (s : Stable) : viewRaw s.reverse.g = (viewRaw s.g).rev := by
  rw [Stable.reverse_g]
  simp only [viewRaw, IView.rev]
  rw [liveNodes_map s.g revN _ revN_w, liveEdges_revE]
  congr 1
  · exact boundOf_map revN nlive nlive (fun x => by simp [nlive]) _
  · exact boundOf_map revE elive elive (fun x => by simp [elive]) _

/-- `Graph::reverse` likewise -/
theorem viewRaw_raw_reverse (g : Raw) : viewRaw g.reverse = (viewRaw g).rev := by
  show viewRaw { g with nodes := g.nodes.map NodeSlot.rev, edges := g.edges.map EdgeSlot.rev } = _
  simp only [viewRaw, IView.rev]
  rw [liveNodes_map g NodeSlot.rev _ NodeSlot.rev_w, liveEdges_rev]
  congr 1
  · exact boundOf_map NodeSlot.rev nlive nlive (fun x => by simp [nlive]) _
  · exact boundOf_map EdgeSlot.rev elive elive (fun x => by simp [elive]) _

/-- the node map of `StableGraph::clear_edges` -/
def resetN (END : Nat) (n : NodeSlot) : NodeSlot := if n.w.isSome then { n with n0 := END, n1 := END } else n

@[simp] theorem resetN_w (END : Nat) (n : NodeSlot) : (resetN END n).w = n.w := by unfold resetN; split <;> rfl

theorem Stable.clearEdges_g (s : Stable) :
    s.clearEdges.g = { s.g with edges := [], nodes := s.g.nodes.map (resetN s.g.END) } := rfl

/-- `StableGraph::clear_edges`: every node index, weight and vacancy stays; no edge is left -/
theorem viewRaw_stable_clearEdges (s : Stable) :
    viewRaw s.clearEdges.g = { viewRaw s.g with edges := [], edgeBound := 0 } := by
  rw [Stable.clearEdges_g]
  simp only [viewRaw]
  rw [liveNodes_map s.g (resetN s.g.END) [] (resetN_w _)]
  congr 1
  exact boundOf_map (resetN s.g.END) nlive nlive (fun x => by simp [nlive]) _

theorem viewRaw_raw_clearEdges (g : Raw) : viewRaw g.clearEdges = { viewRaw g with edges := [], edgeBound := 0 } := by
  show viewRaw { g with edges := [], nodes := g.nodes.map fun n => { n with n0 := g.END, n1 := g.END } } = _
  simp only [viewRaw]
  rw [liveNodes_map g (fun n => { n with n0 := g.END, n1 := g.END }) [] (fun _ => rfl)]
  congr 1
  exact boundOf_map _ nlive nlive (fun x => by simp [nlive]) _

/-! ### the invariant is kept -/

theorem getElem?_map_w6 {α β} (f : α → β) (l : List α) (i : Nat) (y : β) (h : (l.map f)[i]? = some y) :
    ∃ x, l[i]? = some x ∧ f x = y := by
  rw [List.getElem?_map] at h
  cases hx : l[i]? with
  | none => simp [hx] at h
  | some x => exact ⟨x, rfl, by simpa [hx] using h⟩

/-- a `next[k]` chain of live edges is, after `reverse`, the `next[1-k]` chain of the same indices -/
theorem Chain.reversed {edges : List EdgeSlot} {END k h : Nat} {l : List Nat} (c : Chain edges END k h l)
    (hl : ∀ e s, e ∈ l → edges[e]? = some s → s.w.isSome = true) (hk : k = 0 ∨ k = 1) :
    Chain (edges.map revE) END (1 - k) h l := by
  induction c with
  | nil => exact .nil
  | cons e s l hs _ ih =>
    have hw := hl e s (List.mem_cons_self ..) hs
    refine .cons e (revE s) l (by rw [List.getElem?_map, hs]; rfl) ?_
    have : (revE s).next (1 - k) = s.next k := by
      rw [revE_live s hw]
      rcases hk with rfl | rfl <;> simp [EdgeSlot.rev, EdgeSlot.next]
    rw [this]
    exact ih (fun e' s' he' => hl e' s' (List.mem_cons_of_mem _ he'))

theorem exactList_map {α} (f : α → α) (slots : List α) (P Q : α → Prop) (l : List Nat)
    (hPQ : ∀ x, Q (f x) ↔ P x) (h : ExactList slots P l) : ExactList (slots.map f) Q l := by
  refine ⟨h.1, fun e => ?_⟩
  rw [h.2 e]
  constructor
  · rintro ⟨s, hs, hp⟩
    exact ⟨f s, by rw [List.getElem?_map, hs]; rfl, (hPQ s).2 hp⟩
  · rintro ⟨y, hy, hq⟩
    obtain ⟨x, hx, rfl⟩ := getElem?_map_w6 f slots e y hy
    exact ⟨x, hx, (hPQ x).1 hq⟩

theorem filter_length_w6 {α} (f : α → α) (p : α → Bool) (hp : ∀ x, p (f x) = p x) (l : List α) :
    ((l.map f).filter p).length = (l.filter p).length := by
  induction l with
  | nil => rfl
  | cons x xs ih => simp only [List.map_cons, List.filter_cons, hp]; split <;> simp [ih]

/-- the arrays after `StableGraph::reverse` / `Graph::reverse` satisfy the shared invariant -/
theorem rawInv_reverse (g : Raw) (h : RawInv g) :
    RawInv { g with nodes := g.nodes.map revN, edges := g.edges.map revE } := by
  refine ⟨by simpa using h.lenN, by simpa using h.lenE, ?_, ?_, ?_⟩
  · intro e s' hs' hw'
    obtain ⟨s, hs, rfl⟩ := getElem?_map_w6 revE g.edges e s' hs'
    have hw : s.w.isSome = true := by simpa using hw'
    obtain ⟨⟨a, ha, hwa⟩, ⟨b, hb, hwb⟩⟩ := h.endpoints e s hs hw
    rw [revE_live s hw]
    exact ⟨⟨revN b, by show (g.nodes.map revN)[s.tgt]? = _; rw [List.getElem?_map, hb]; rfl, by simpa using hwb⟩,
           ⟨revN a, by show (g.nodes.map revN)[s.src]? = _; rw [List.getElem?_map, ha]; rfl, by simpa using hwa⟩⟩
  · intro i nd' hnd' hw'
    obtain ⟨nd, hnd, rfl⟩ := getElem?_map_w6 revN g.nodes i nd' hnd'
    have hw : nd.w.isSome = true := by simpa using hw'
    obtain ⟨l, hc, hx⟩ := h.inn i nd hnd hw
    refine ⟨l, ?_, ?_⟩
    · have := hc.reversed (fun e s he hs => ((hx.2 e).1 he).elim fun s' hs' => by
        have : s' = s := by rw [hs'.1] at hs; exact Option.some.inj hs
        exact this ▸ hs'.2.1) (Or.inr rfl)
      rw [revN_live nd hw]
      simpa [NodeSlot.rev] using this
    · refine exactList_map revE g.edges _ _ l (fun x => ?_) hx
      by_cases hxw : x.w.isSome = true
      · rw [revE_live x hxw]; simp [EdgeSlot.rev, hxw]
      · have : x.w = none := by simpa using hxw
        simp [revE_vacant x this, this]
  · intro i nd' hnd' hw'
    obtain ⟨nd, hnd, rfl⟩ := getElem?_map_w6 revN g.nodes i nd' hnd'
    have hw : nd.w.isSome = true := by simpa using hw'
    obtain ⟨l, hc, hx⟩ := h.out i nd hnd hw
    refine ⟨l, ?_, ?_⟩
    · have := hc.reversed (fun e s he hs => ((hx.2 e).1 he).elim fun s' hs' => by
        have : s' = s := by rw [hs'.1] at hs; exact Option.some.inj hs
        exact this ▸ hs'.2.1) (Or.inl rfl)
      rw [revN_live nd hw]
      simpa [NodeSlot.rev] using this
    · refine exactList_map revE g.edges _ _ l (fun x => ?_) hx
      by_cases hxw : x.w.isSome = true
      · rw [revE_live x hxw]; simp [EdgeSlot.rev, hxw]
      · have : x.w = none := by simpa using hxw
        simp [revE_vacant x this, this]

/-- **`StableGraph::reverse` keeps the structural invariant** (the free lists are untouched: vacant slots are skipped) -/
theorem stableInv_reverse (s : Stable) (h : StableInv s) : StableInv s.reverse := by
  obtain ⟨le, hce, hxe⟩ := h.freeEdges
  obtain ⟨ln, hcn, hxn⟩ := h.freeNodes
  refine { toRawInv := rawInv_reverse s.g h.toRawInv, freeEdges := ⟨le, ?_, ?_⟩, freeNodes := ⟨ln, ?_, ?_⟩,
           nodeCount := ?_, edgeCount := ?_ }
  · refine hce.congr (fun e he => ?_)
    obtain ⟨x, hx, hw⟩ := (hxe.2 e).1 he
    show (s.g.edges.map revE)[e]? = _
    rw [List.getElem?_map, hx]; simp [revE_vacant x hw]
  · exact exactList_map revE s.g.edges _ _ le (fun x => by simp) hxe
  · refine hcn.congr (fun i hi => ?_)
    obtain ⟨x, hx, hw⟩ := (hxn.2 i).1 hi
    show (s.g.nodes.map revN)[i]? = _
    rw [List.getElem?_map, hx]; simp [revN_vacant x hw]
  · exact exactList_map revN s.g.nodes _ _ ln (fun x => by simp) hxn
  · show s.nodeCount = ((s.g.nodes.map revN).filter _).length
    rw [filter_length_w6 revN _ (fun x => by simp)]; exact h.nodeCount
  · show s.edgeCount = ((s.g.edges.map revE).filter _).length
    rw [filter_length_w6 revE _ (fun x => by simp)]; exact h.edgeCount

theorem map_congr_all {α} (f g : α → α) (l : List α) (h : ∀ x ∈ l, f x = g x) : l.map f = l.map g :=
  List.map_congr_left h

/-- **`Graph::reverse` keeps the structural invariant** -/
theorem graphInv_reverse (g : Raw) (h : GraphInv g) : GraphInv g.reverse := by
  have hn : g.nodes.map NodeSlot.rev = g.nodes.map revN :=
    map_congr_all _ _ _ (fun x hx => by
      obtain ⟨i, hi, rfl⟩ := List.getElem_of_mem hx
      exact (revN_live _ (h.allNodes i _ (List.getElem?_eq_getElem hi))).symm)
  have he : g.edges.map EdgeSlot.rev = g.edges.map revE :=
    map_congr_all _ _ _ (fun x hx => by
      obtain ⟨i, hi, rfl⟩ := List.getElem_of_mem hx
      exact (revE_live _ (h.allEdges i _ (List.getElem?_eq_getElem hi))).symm)
  have hg : g.reverse = { g with nodes := g.nodes.map revN, edges := g.edges.map revE } := by
    show Raw.mk _ _ _ _ = _; rw [hn, he]
  rw [hg]
  refine { toRawInv := rawInv_reverse g h.toRawInv, allNodes := ?_, allEdges := ?_ }
  · intro i nd' hnd'
    obtain ⟨nd, hnd, rfl⟩ := getElem?_map_w6 revN g.nodes i nd' hnd'
    simpa using h.allNodes i nd hnd
  · intro e s' hs'
    obtain ⟨s, hs, rfl⟩ := getElem?_map_w6 revE g.edges e s' hs'
    simpa using h.allEdges e s hs

/-- the arrays after `clear_edges` satisfy the shared invariant -/
theorem rawInv_clearEdges (g : Raw) (h : RawInv g) :
    RawInv { g with edges := [], nodes := g.nodes.map (resetN g.END) } := by
  refine ⟨by simpa using h.lenN, by simp, ?_, ?_, ?_⟩
  · intro e s hs; simp at hs
  · intro i nd' hnd' hw'
    obtain ⟨nd, hnd, rfl⟩ := getElem?_map_w6 (resetN g.END) g.nodes i nd' hnd'
    have hw : nd.w.isSome = true := by simpa using hw'
    refine ⟨[], ?_, List.nodup_nil, fun e => by simp⟩
    simp only [resetN, hw, if_true]
    exact .nil
  · intro i nd' hnd' hw'
    obtain ⟨nd, hnd, rfl⟩ := getElem?_map_w6 (resetN g.END) g.nodes i nd' hnd'
    have hw : nd.w.isSome = true := by simpa using hw'
    refine ⟨[], ?_, List.nodup_nil, fun e => by simp⟩
    simp only [resetN, hw, if_true]
    exact .nil

/-- **`StableGraph::clear_edges` keeps the structural invariant** (the free node list is untouched) -/
theorem stableInv_clearEdges (s : Stable) (h : StableInv s) : StableInv s.clearEdges := by
  obtain ⟨ln, hcn, hxn⟩ := h.freeNodes
  refine { toRawInv := rawInv_clearEdges s.g h.toRawInv, freeEdges := ⟨[], .nil, List.nodup_nil, fun e => by simp [Stable.clearEdges]⟩,
           freeNodes := ⟨ln, ?_, ?_⟩, nodeCount := ?_, edgeCount := by simp [Stable.clearEdges] }
  · refine hcn.congr (fun i hi => ?_)
    obtain ⟨x, hx, hw⟩ := (hxn.2 i).1 hi
    show (s.g.nodes.map (resetN s.g.END))[i]? = _
    rw [List.getElem?_map, hx]; simp [resetN, hw]
  · exact exactList_map (resetN s.g.END) s.g.nodes _ _ ln (fun x => by simp) hxn
  · show s.nodeCount = ((s.g.nodes.map (resetN s.g.END)).filter _).length
    rw [filter_length_w6 (resetN s.g.END) _ (fun x => by simp)]; exact h.nodeCount

/-- **`Graph::clear_edges` keeps the structural invariant** -/
theorem graphInv_clearEdges (g : Raw) (h : GraphInv g) : GraphInv g.clearEdges := by
  have hn : (g.nodes.map fun n => { n with n0 := g.END, n1 := g.END }) = g.nodes.map (resetN g.END) :=
    map_congr_all _ _ _ (fun x hx => by
      obtain ⟨i, hi, rfl⟩ := List.getElem_of_mem hx
      simp [resetN, h.allNodes i _ (List.getElem?_eq_getElem hi)])
  have hg : g.clearEdges = { g with edges := [], nodes := g.nodes.map (resetN g.END) } := by
    show Raw.mk _ _ _ _ = _; rw [hn]
  rw [hg]
  refine { toRawInv := rawInv_clearEdges g h.toRawInv, allNodes := ?_, allEdges := fun e s hs => by simp at hs }
  intro i nd' hnd'
  obtain ⟨nd, hnd, rfl⟩ := getElem?_map_w6 (resetN g.END) g.nodes i nd' hnd'
  simpa using h.allNodes i nd hnd

/-- **`clear` leaves the empty graph**, which satisfies the invariant -/
theorem stable_clear_eq (s : Stable) : s.clear = Stable.empty s.g.END s.g.directed := rfl
theorem raw_clear_eq (g : Raw) : g.clear = Raw.empty g.END g.directed := rfl

theorem rawInv_empty (END : Nat) (d : Bool) : RawInv (Raw.empty END d) := by
  refine ⟨by simp [Raw.empty], by simp [Raw.empty], ?_, ?_, ?_⟩ <;> intro i x hx <;> simp [Raw.empty] at hx

theorem stableInv_empty (END : Nat) (d : Bool) : StableInv (Stable.empty END d) :=
  { toRawInv := rawInv_empty END d,
    freeEdges := ⟨[], .nil, List.nodup_nil, fun e => by simp [Stable.empty, Raw.empty]⟩,
    freeNodes := ⟨[], .nil _, List.nodup_nil, fun e => by simp [Stable.empty, Raw.empty]⟩,
    nodeCount := by simp [Stable.empty, Raw.empty], edgeCount := by simp [Stable.empty, Raw.empty] }

theorem graphInv_empty (END : Nat) (d : Bool) : GraphInv (Raw.empty END d) :=
  { toRawInv := rawInv_empty END d, allNodes := fun i x hx => by simp [Raw.empty] at hx,
    allEdges := fun i x hx => by simp [Raw.empty] at hx }

end PetgraphModel.SerdeProofs
