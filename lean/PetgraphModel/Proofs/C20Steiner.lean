import PetgraphModel.Proofs.C20Base
/-
C20 — soundness of the Steiner-tree judge.
-/
namespace PetgraphModel.C20
open PetgraphModel PetgraphModel.MGraph PetgraphModel.Oracle

/-- the specification of `steiner_tree`'s result `(N, E)` (node ids, edge ids) for terminals `terms`:
a subgraph of `g` containing every terminal, connected with exactly `|N| - 1` edges (a tree), whose
leaves are terminals, and at most twice as heavy as ANY set of edges of `g` that connects the terminals -/
structure SteinerOk (g : MGraph) (terms N E : List Nat) : Prop where
  nodesOk : N.Nodup ∧ ∀ x ∈ N, x ∈ g.nodes
  edgesOk : E.Nodup ∧ ∀ i ∈ E, ∃ e ∈ g.edges, e.id = i
  inside : ∀ e ∈ g.edges, e.id ∈ E → e.src ∈ N ∧ e.tgt ∈ N
  terminals : ∀ t ∈ terms, t ∈ N
  leaves : ∀ x ∈ N, degreeIn (resultEdges g E) x ≤ 1 → x ∈ terms
  connected : ∀ x ∈ N, ∀ y ∈ N, Reach (withEdges N (resultEdges g E)) x y
  treeCount : (resultEdges g E).length + 1 = N.length
  weight : ∀ S, S.Sublist g.edges → (∀ t ∈ terms, ∀ t' ∈ terms, Reach (withEdges g.nodes S) t t') →
    weightOf (resultEdges g E) ≤ 2 * weightOf S

theorem connectedB_sound {h : MGraph} (hd : h.directed = false) (hc : connectedB h = true) :
    ∀ x ∈ h.nodes, ∀ y ∈ h.nodes, Reach h x y := by
  unfold connectedB at hc
  split at hc
  · rename_i hnil; intro x hx; rw [hnil] at hx; cases hx
  · rename_i x0 rest hn
    split at hc
    · simp at hc
    · rename_i r hr
      have hall : ∀ y ∈ h.nodes, Reach h x0 y := by
        intro y hy
        have := List.all_eq_true.mp hc y hy
        exact ((reachFrom_spec h x0 r hr).2 y).mp (by simpa using this)
      intro x hx y hy
      exact reach_trans (reach_symm_undirected hd (hall x hx)) (hall y hy)

theorem connectsB_complete {h : MGraph} {ts : List Nat} (hr : ∀ t ∈ ts, ∀ t' ∈ ts, Reach h t t') :
    connectsB h ts = true := by
  unfold connectsB
  split
  · rfl
  · rename_i t0 rest
    split
    · rfl
    · rename_i r hrf
      rw [List.all_eq_true]
      intro t ht
      have := hr t0 (by simp) t (by simp [ht])
      simpa using ((reachFrom_spec h t0 r hrf).2 t).mpr this

theorem judgeSteiner_sound (g : MGraph) (terms N E : List Nat)
    (h : judgeSteiner g terms N E = SteinerVerdict.ok) : SteinerOk g terms N E := by
  unfold judgeSteiner at h
  split at h
  · cases h
  · rename_i hnone
    dsimp only at h
    split at h
    · rename_i htree
      unfold steinerClauses at hnone
      have c1 : N.Nodup ∧ ∀ x ∈ N, x ∈ g.nodes := clause_holds hnone (by mem_lit)
      have c2 : E.Nodup ∧ ∀ i ∈ E, ∃ e ∈ g.edges, e.id = i := clause_holds hnone (by mem_lit)
      have c3 : ∀ e ∈ g.edges, e.id ∈ E → e.src ∈ N ∧ e.tgt ∈ N := clause_holds hnone (by mem_lit)
      have c4 : ∀ t ∈ terms, t ∈ N := clause_holds hnone (by mem_lit)
      have c5 : ∀ x ∈ N, degreeIn (resultEdges g E) x ≤ 1 → x ∈ terms := clause_holds hnone (by mem_lit)
      have c6 : ∀ S ∈ subsets g.edges, connectsB (withEdges g.nodes S) terms = true →
          weightOf (resultEdges g E) ≤ 2 * weightOf S := clause_holds hnone (by mem_lit)
      have c7 : connectedB (withEdges N (resultEdges g E)) = true := clause_holds hnone (by mem_lit)
      exact ⟨c1, c2, c3, c4, c5, connectedB_sound rfl c7, htree,
        fun S hS hconn => c6 S (mem_subsets.mpr hS) (connectsB_complete hconn)⟩
    · split at h <;> cases h

/-- the classifier of the open finding D21 fires only when every clause except the edge count holds -/
theorem judgeSteiner_cycleOnly (g : MGraph) (terms N E : List Nat) (why : String)
    (h : judgeSteiner g terms N E = SteinerVerdict.cycleOnly why) :
    firstFail (steinerClauses g terms N E) = none ∧ N ≠ [] ∧ N.length ≤ (resultEdges g E).length := by
  unfold judgeSteiner at h
  split at h
  · cases h
  · rename_i hnone
    dsimp only at h
    split at h
    · cases h
    · split at h
      · rename_i hc; exact ⟨hnone, hc.1, hc.2⟩
      · cases h

end PetgraphModel.C20
