import PetgraphModel.Oracle.C11Judge
import PetgraphModel.Proofs.Dist
/-
Soundness of the C11 judges (`Oracle/C11Judge.lean`): whatever the untrusted reference search does,
an accepted answer satisfies the clause of the property it was judged against.  Everything reduces
to the proved certificate checkers (`DistProofs`) and the proved reachability oracle.
-/
namespace PetgraphModel.C11P
open PetgraphModel PetgraphModel.MGraph PetgraphModel.Oracle PetgraphModel.C11J PetgraphModel.DistProofs

/-- a closed walk of negative cost through a node that some walk from `s` reaches -/
def NegCycleReachable (g : MGraph) (s : Nat) : Prop :=
  ∃ u c0 c, WalkCost g s u c0 ∧ WalkCost g u u c ∧ c < 0

/-- a closed walk of negative cost anywhere -/
def NegCycle (g : MGraph) : Prop := ∃ u c, WalkCost g u u c ∧ c < 0

/-- `TreeWalk g pred s v c`: the predecessor entries lead from `s` to `v` along arcs of the graph,
total cost `c` -/
inductive TreeWalk (g : MGraph) (pred : Nat → Option Nat) (s : Nat) : Nat → Int → Prop
  | root : TreeWalk g pred s s 0
  | step {u v : Nat} {c w : Int} : TreeWalk g pred s u c → pred v = some u → (u, v, w) ∈ g.arcs →
      TreeWalk g pred s v (c + w)

theorem TreeWalk.walk {g : MGraph} {pred : Nat → Option Nat} {s v : Nat} {c : Int}
    (h : TreeWalk g pred s v c) : WalkCost g s v c := by
  induction h with
  | root => exact WalkCost.nil _
  | step _ _ harc ih => exact WalkCost.snoc ih harc

/-! ### the checked answers to "is there a negative cycle?" -/

theorem negReachable_true {g : MGraph} {s : Nat} (h : negReachable g s = some true) :
    NegCycleReachable g s := by
  unfold negReachable at h
  split at h
  · split at h <;> simp at h
  · rename_i seq _
    split at h
    · simp at h
    · rename_i r hr
      split at h
      · rename_i hc
        simp only [Bool.and_eq_true, List.all_eq_true] at hc
        obtain ⟨v, c, hv, hw, hneg⟩ := checkNegClosedWalk_sound g seq hc.1
        have hmem := hc.2 v hv
        have hvr : v ∈ r := by simpa using hmem
        have hreach := ((reachFrom_spec g s r hr).2 v).1 hvr
        obtain ⟨c0, hc0⟩ := (walk_iff_reach g s v).2 hreach
        exact ⟨v, c0, c, hc0, hw, hneg⟩
      · simp at h
  · simp at h

theorem negReachable_false {g : MGraph} {s : Nat} (h : negReachable g s = some false) :
    ¬ NegCycleReachable g s := by
  unfold negReachable at h
  split at h
  · rename_i d _
    split at h
    · rename_i hc
      rintro ⟨u, c0, c, h0, hcyc, hneg⟩
      have := checkDist_no_neg_cycle g s d hc u c0 c h0 hcyc
      omega
    · simp at h
  · split at h
    · simp at h
    · split at h <;> simp at h
  · simp at h

theorem negAnywhere_fold_true (g : MGraph) (l : List Nat) (acc : Option Bool)
    (hacc : acc = some true → NegCycle g)
    (h : l.foldl (fun acc u => match acc with
      | some false => negReachable g u
      | other => other) acc = some true) : NegCycle g := by
  induction l generalizing acc with
  | nil => exact hacc h
  | cons u l ih =>
    simp only [List.foldl_cons] at h
    apply ih _ _ h
    intro h'
    split at h'
    · obtain ⟨x, _, c, _, hc, hneg⟩ := negReachable_true h'
      exact ⟨x, c, hc, hneg⟩
    · exact hacc h'

theorem negAnywhere_true {g : MGraph} (h : negAnywhere g = some true) : NegCycle g :=
  negAnywhere_fold_true g g.nodes (some false) (by simp) h

theorem negAnywhere_fold_false (g : MGraph) (l : List Nat) (acc : Option Bool)
    (h : l.foldl (fun acc u => match acc with
      | some false => negReachable g u
      | other => other) acc = some false) :
    acc = some false ∧ ∀ u ∈ l, ¬ NegCycleReachable g u := by
  induction l generalizing acc with
  | nil => exact ⟨h, by simp⟩
  | cons u l ih =>
    simp only [List.foldl_cons] at h
    obtain ⟨h1, h2⟩ := ih _ h
    split at h1
    · refine ⟨rfl, ?_⟩
      intro x hx
      rcases List.mem_cons.mp hx with rfl | hx
      · exact negReachable_false h1
      · exact h2 x hx
    · rename_i hne
      exact absurd h1 (by intro h; exact hne h)

theorem negAnywhere_false {g : MGraph} (h : negAnywhere g = some false) :
    ∀ u ∈ g.nodes, ¬ NegCycleReachable g u :=
  (negAnywhere_fold_false g g.nodes (some false) h).2

/-! ### predecessor trees -/

theorem tightArcB_spec {g : MGraph} {d : List (Nat × Int)} {p v : Nat} (h : tightArcB g d p v = true) :
    ∃ x y w, labelOf d p = some x ∧ labelOf d v = some y ∧ (p, v, w) ∈ g.arcs ∧ y = x + w := by
  unfold tightArcB at h
  split at h
  · rename_i x y hx hy
    simp only [List.any_eq_true, Bool.and_eq_true, beq_iff_eq] at h
    obtain ⟨⟨a, b, w⟩, hmem, ⟨h1, h2⟩, h3⟩ := h
    simp only at h1 h2 h3
    subst h1; subst h2
    exact ⟨x, y, w, hx, hy, hmem, h3⟩
  · simp at h

theorem chainB_sound {g : MGraph} {d : List (Nat × Int)} {pred : Nat → Option Nat} {s : Nat}
    (hs : labelOf d s = some 0) :
    ∀ (f v : Nat), chainB g d pred s f v = true → ∀ y, labelOf d v = some y → TreeWalk g pred s v y := by
  intro f
  induction f with
  | zero =>
    intro v h y hy
    simp only [chainB, beq_iff_eq] at h
    subst h
    rw [hs] at hy; cases hy
    exact TreeWalk.root
  | succ f ih =>
    intro v h y hy
    simp only [chainB] at h
    split at h
    · rename_i hv
      have hv : v = s := by simpa using hv
      subst hv
      rw [hs] at hy; cases hy
      exact TreeWalk.root
    · split at h
      · simp at h
      · rename_i p hp
        simp only [Bool.and_eq_true] at h
        obtain ⟨x, y', w, hx, hy', harc, hyx⟩ := tightArcB_spec h.1
        rw [hy] at hy'; cases hy'
        rw [hyx]
        exact TreeWalk.step (ih p h.2 x hx) hp harc

/-- what `predTreeB` establishes for a node of the graph -/
theorem predTreeB_sound {g : MGraph} {s : Nat} {d : List (Nat × Int)} {pred : Nat → Option Nat}
    (hs : labelOf d s = some 0) (h : predTreeB g s d pred = true) (v : Nat) (hv : v ∈ g.nodes) :
    (pred v = none ↔ (v = s ∨ labelOf d v = none)) ∧
    (∀ y, labelOf d v = some y → TreeWalk g pred s v y) := by
  unfold predTreeB at h
  simp only [List.all_eq_true] at h
  have := h v hv
  split at this
  · rename_i hc
    simp only [Bool.or_eq_true, beq_iff_eq, Option.isNone_iff_eq_none] at hc
    simp only [Option.isNone_iff_eq_none] at this
    refine ⟨⟨fun _ => hc, fun _ => this⟩, ?_⟩
    intro y hy
    rcases hc with rfl | hn
    · rw [hs] at hy; cases hy; exact TreeWalk.root
    · rw [hn] at hy; cases hy
  · rename_i hc
    simp only [Bool.or_eq_true, beq_iff_eq, Option.isNone_iff_eq_none, not_or] at hc
    simp only [Bool.and_eq_true] at this
    refine ⟨⟨fun hn => ?_, fun hor => ?_⟩, ?_⟩
    · rw [hn] at this; simp at this
    · rcases hor with h1 | h1
      · exact absurd h1 hc.1
      · exact absurd h1 hc.2
    · exact chainB_sound hs _ v this.2

/-! ### single-source judges -/

/-- the clauses an accepted `Ok(paths)` satisfies -/
structure OkSpec (g : MGraph) (s : Nat) (d : List (Nat × Int)) (pred : Nat → Option Nat) : Prop where
  exact : ∀ v y, labelOf d v = some y → IsShortest g s v y
  infinite : ∀ v, labelOf d v = none ↔ ¬ ∃ c, WalkCost g s v c
  noNegCycle : ¬ NegCycleReachable g s
  predNone : ∀ v ∈ g.nodes, (pred v = none ↔ (v = s ∨ labelOf d v = none))
  predTree : ∀ v ∈ g.nodes, ∀ y, labelOf d v = some y → TreeWalk g pred s v y

theorem judgeOk_sound (g : MGraph) (s : Nat) (d : List (Nat × Int)) (pred : Nat → Option Nat)
    (h : judgeOk g s d pred = none) : OkSpec g s d pred := by
  unfold judgeOk at h
  split at h
  · simp at h
  · rename_i hc
    have hc : checkDist g s d = true := by simpa using hc
    split at h
    · simp at h
    · rename_i hp
      have hp : predTreeB g s d pred = true := by simpa using hp
      have hs : labelOf d s = some 0 := (cert_of_check hc).src
      refine ⟨checkDist_exact g s d hc, checkDist_unreachable g s d hc, ?_, ?_, ?_⟩
      · rintro ⟨u, c0, c, h0, hcyc, hneg⟩
        have := checkDist_no_neg_cycle g s d hc u c0 c h0 hcyc
        omega
      · intro v hv; exact (predTreeB_sound hs hp v hv).1
      · intro v hv; exact (predTreeB_sound hs hp v hv).2

theorem judgeErr_sound (g : MGraph) (s : Nat) (h : judgeErr g s = none) : NegCycleReachable g s := by
  unfold judgeErr at h
  split at h
  · rename_i hn; exact negReachable_true hn
  · simp at h
  · simp at h

/-! ### find_negative_cycle -/

theorem judgeFnc_some (g : MGraph) (s : Nat) (seq : List Nat) (bfErr : Bool)
    (h : judgeFnc g s (some seq) bfErr = .ok) :
    bfErr = true ∧ NegCycleReachable g s ∧ ∃ v c, v ∈ seq ∧ WalkCost g v v c ∧ c < 0 := by
  unfold judgeFnc at h
  split at h
  · simp at h
  · rename_i neg hneg
    simp only at h
    split at h
    · simp at h
    · rename_i hn
      have hn : neg = true := by simpa using hn
      subst hn
      split at h
      · simp at h
      · rename_i hb
        have hb : bfErr = true := by simpa using hb
        split at h
        · rename_i hc
          exact ⟨hb, negReachable_true hneg, checkNegClosedWalk_sound g seq hc⟩
        · simp at h

theorem judgeFnc_none (g : MGraph) (s : Nat) (bfErr : Bool)
    (h : judgeFnc g s none bfErr = .ok) : bfErr = false ∧ ¬ NegCycleReachable g s := by
  unfold judgeFnc at h
  split at h
  · simp at h
  · rename_i neg hneg
    simp only at h
    split at h
    · simp at h
    · rename_i hb
      have hb : bfErr = false := by simpa using hb
      split at h
      · simp at h
      · rename_i hn
        have hn : neg = false := by simpa using hn
        subst hn
        exact ⟨hb, negReachable_false hneg⟩

/-- a returned sequence is always judged by `checkNegClosedWalk`: nothing that fails it is accepted
(there is no `KNOWN` classification any more; D15 is repaired) -/
theorem judgeFnc_rejects (g : MGraph) (s : Nat) (seq : List Nat) (bfErr : Bool)
    (hc : checkNegClosedWalk g seq = false) : judgeFnc g s (some seq) bfErr ≠ .ok := by
  intro h
  unfold judgeFnc at h
  split at h
  · simp at h
  · simp only at h
    split at h
    · simp at h
    · split at h
      · simp at h
      · split at h
        · rename_i hc'; rw [hc] at hc'; cases hc'
        · simp at h

/-! ### all-pairs judges -/

theorem labelOf_rowOf (g : MGraph) (entry : Nat → Nat → Option Int) (u v : Nat) :
    labelOf (rowOf g entry u) v = if v ∈ g.nodes then entry u v else none := by
  unfold rowOf labelOf
  induction g.nodes with
  | nil => simp
  | cons a l ih =>
    simp only [List.filterMap_cons]
    cases he : entry u a with
    | none =>
      simp only [Option.map_none]
      rw [ih]
      by_cases hva : v = a
      · subst hva; simp [he]
      · simp [hva]
    | some y =>
      simp only [Option.map_some, List.lookup_cons]
      by_cases hva : v = a
      · subst hva; simp [he]
      · have : (v == a) = false := by simpa using hva
        rw [this, ih]; simp [hva]

/-- the clauses an accepted `Ok(matrix)` satisfies -/
structure FwSpec (g : MGraph) (entry : Nat → Nat → Option Int) : Prop where
  exact : ∀ u ∈ g.nodes, ∀ v ∈ g.nodes, ∀ y, entry u v = some y → IsShortest g u v y
  infinite : ∀ u ∈ g.nodes, ∀ v ∈ g.nodes, (entry u v = none ↔ ¬ ∃ c, WalkCost g u v c)
  noNegCycle : ∀ u ∈ g.nodes, ∀ c, WalkCost g u u c → 0 ≤ c

theorem judgeFwOk_rows (g : MGraph) (entry : Nat → Nat → Option Int) (h : judgeFwOk g entry = none) :
    ∀ u ∈ g.nodes, checkDist g u (rowOf g entry u) = true := by
  unfold judgeFwOk at h
  split at h
  · simp at h
  · rename_i hf
    intro u hu
    have := List.find?_eq_none.mp hf u hu
    simpa using this

theorem judgeFwOk_sound (g : MGraph) (entry : Nat → Nat → Option Int) (h : judgeFwOk g entry = none) :
    FwSpec g entry := by
  have hrows := judgeFwOk_rows g entry h
  refine ⟨?_, ?_, ?_⟩
  · intro u hu v hv y hy
    apply checkDist_exact g u _ (hrows u hu) v y
    rw [labelOf_rowOf]; simp [hv, hy]
  · intro u hu v hv
    have := checkDist_unreachable g u _ (hrows u hu) v
    rw [labelOf_rowOf] at this
    simpa [hv] using this
  · intro u hu c hc
    exact checkDist_no_neg_cycle g u _ (hrows u hu) u 0 c (WalkCost.nil _) hc

theorem judgeFwPrev_sound (g : MGraph) (entry : Nat → Nat → Option Int) (prev : Nat → Nat → Option Nat)
    (h1 : judgeFwOk g entry = none) (h2 : judgeFwPrev g entry prev = none) :
    ∀ u ∈ g.nodes, ∀ v ∈ g.nodes, v ≠ u →
      (prev u v = none ↔ entry u v = none) ∧
      (∀ y, entry u v = some y → TreeWalk g (fun x => if x == u then none else prev u x) u v y) := by
  intro u hu v hv hne
  have hrow := judgeFwOk_rows g entry h1 u hu
  have hs := (cert_of_check hrow).src
  unfold judgeFwPrev at h2
  split at h2
  · simp at h2
  · rename_i hf
    have hp := List.find?_eq_none.mp hf u hu
    have hp : predTreeB g u (rowOf g entry u) (fun x => if x == u then none else prev u x) = true := by
      simpa using hp
    obtain ⟨ha, hb⟩ := predTreeB_sound hs hp v hv
    have hl : labelOf (rowOf g entry u) v = entry u v := by rw [labelOf_rowOf]; simp [hv]
    rw [hl] at ha hb
    have hvu : (v == u) = false := by simpa using hne
    simp only [hvu] at ha
    refine ⟨?_, hb⟩
    constructor
    · intro hn
      rcases ha.1 (by simpa using hn) with h | h
      · exact absurd h hne
      · exact h
    · intro hn
      simpa using ha.2 (Or.inr hn)

theorem judgeFwErr_sound (g : MGraph) (h : judgeFwErr g = none) : NegCycle g := by
  unfold judgeFwErr at h
  split at h
  · rename_i hn; exact negAnywhere_true hn
  · simp at h
  · simp at h

end PetgraphModel.C11P
