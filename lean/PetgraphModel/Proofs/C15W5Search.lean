import PetgraphModel.Proofs.C15W5Scan
/-
C15 wave 5 — the completeness invariant through the whole search loop of `gabowSearch`: when the loop
ends without an augmentation the queue is empty (the fuel `node_bound + 2` suffices), every outer
vertex has been scanned completely and the closure facts hold for all of them; when it ends with an
augmentation no `mate` entry has been cleared and the start vertex is matched.
-/
namespace PetgraphModel.C15W5
open PetgraphModel PetgraphModel.C15 PetgraphModel.C15M PetgraphModel.C15P PetgraphModel.C15W2

/-- the neighbour rows are complete (and hence symmetric): every pair of joined nodes appears in the
row of either node -/
structure VComp (v : View) : Prop where
  comp : ∀ a b, Joined v.g a b → ∃ e, (b, e) ∈ v.outOf a

/-- the search has augmented the matching: `ScanDone`, no entry cleared, the start vertex matched -/
def ScanDone' (c : Ctx) (n0 : Nat) (st : SSt) : Prop :=
  ScanDone c n0 st ∧ MLe c.m0 st.1.mate ∧
  (c.sv ∈ c.v.g.nodes → (getM st.1.mate (c.v.toIndex c.sv)).isSome = true)

theorem stepPost_and3 {β : Type} {A1 B1 A2 B2 A3 B3 : β → Prop} {r : ForInStep β}
    (h1 : stepPost A1 B1 r) (h2 : stepPost A2 B2 r) (h3 : stepPost A3 B3 r) :
    stepPost (fun b => A1 b ∧ A2 b) (fun b => B1 b ∧ B3 b) r := by
  cases r with
  | yield b => exact ⟨h1, h2⟩
  | done b => exact ⟨h1, h3⟩

section
variable {c : Ctx}

/-- the augmenting branch of `scanStep` -/
theorem scanStep_done (hv : VHyp c.v c.mode) (n0 : Nat) (hm : MateInv c.v c.m0 n0)
    (x : Nat) (e : Nat × Nat) (he : e ∈ c.v.outOf x) (st : SSt) (hI : ScanOpen c n0 x st) :
    stepPost (fun _ => True) (fun st' : SSt => MLe c.m0 st'.1.mate ∧
      (c.sv ∈ c.v.g.nodes → (getM st'.1.mate (c.v.toIndex c.sv)).isSome = true))
      (scanStep c.v c.mode c.sv x e st) := by
  obtain ⟨hdone, hn, ⟨P, ord, I⟩, hqueue, hxo⟩ := hI
  obtain ⟨other, eid⟩ := e
  obtain ⟨hxn, hon, hJ⟩ := hv.out x other eid he
  have hxo' := hxo hxn
  have hoi := hv.ix.lt other hon
  unfold scanStep
  rw [if_neg (by rw [I.fault]; simp)]
  by_cases hxe : (x == other) = true
  · rw [if_pos hxe]; trivial
  rw [if_neg hxe]
  simp only [getMate_eq st.1 (c.v.toIndex other) (by rw [I.mate, hm.len]; omega),
    getLabel_eq st.1 (c.v.toIndex other) (by rw [I.labLen]; omega), Bool.or_self, flt_false]
  have hmo : getM st.1.mate (c.v.toIndex other) = c.μ other := by rw [I.mate]; rfl
  rw [hmo]
  by_cases haug : ((c.μ other).isNone && other != c.sv) = true
  · rw [if_pos haug]
    simp only [Bool.and_eq_true, Option.isNone_iff_eq_none, bne_iff_ne, ne_eq] at haug
    refine ⟨?_, fun _ => ?_⟩
    · show MLe c.m0 (augmentPath _ _ _ _ _).mate
      rw [← I.mate]
      exact (mle_setMate st.1 _ _).trans (augmentPath_mle _ _ _ _ _)
    · exact augment_sv c hv (absOf c st.1.label st.1.fi P ord) I.abs n0 hm st.1.label
        (fun _ _ _ => rfl) x other hxn hxo' hon haug.1 haug.2
        (st.1.setMate (c.v.toIndex other) (some x))
        (by rw [setMate_eq _ _ _ (by rw [I.mate, hm.len]; omega)]; show st.1.mate.set _ _ = _; rw [I.mate])
        (by rw [setMate_eq _ _ _ (by rw [I.mate, hm.len]; omega)])
        (by rw [setMate_eq _ _ _ (by rw [I.mate, hm.len]; omega)]; exact I.fault)
  rw [if_neg haug]
  by_cases hlo : (labI st.1.label (c.v.toIndex other)).isOuter = true
  · rw [if_pos hlo]
    generalize findJoin c.v (edgeKey c.mode eid x other) x other st.1 = r
    obtain ⟨s', calls⟩ := r
    trivial
  rw [if_neg hlo]
  unfold scanElse
  split
  split
  · split
    · split <;> trivial
    · trivial
  · split
    · split <;> trivial
    · trivial

/-- the search is running and `i` vertices have been scanned completely -/
def Running (c : Ctx) (n0 i : Nat) (st : SSt) : Prop :=
  st.2.2.2.2 = false ∧ st.2.1 = n0 ∧ (∃ P ord, SInv c st.1 P ord) ∧
  (∀ q ∈ st.2.2.1, q ∈ c.v.g.nodes → outerAt c st.1 q = true) ∧
  (c.sv ∈ c.v.g.nodes → ∃ Sc, Sc.length = i ∧ CInv c st.1 Sc ∧ QB c Sc st.2.2.1 st.2.2.2.1 [] ∧
    ∀ a ∈ c.v.g.nodes, outerAt c st.1 a = true → a ∈ st.2.2.2.1)

/-- the search has ended without an augmentation -/
def Failed (c : Ctx) (n0 : Nat) (st : SSt) : Prop :=
  st.2.2.2.2 = false ∧ st.2.1 = n0 ∧ (∃ P ord, SInv c st.1 P ord) ∧
  (c.sv ∈ c.v.g.nodes → ∃ Sc, CInv c st.1 Sc ∧ ∀ a ∈ c.v.g.nodes, outerAt c st.1 a = true → a ∈ Sc)

theorem nodup_rot {x : Nat} {Sc q : List Nat} (h : ([] ++ Sc ++ (x :: q)).Nodup) : ([x] ++ Sc ++ q).Nodup := by
  have h0 : (Sc ++ (x :: q)).Nodup := by simpa using h
  have h' := List.nodup_append.mp h0
  have hq := List.nodup_cons.mp h'.2.1
  have h1 : (x :: (Sc ++ q)).Nodup := by
    refine List.nodup_cons.mpr ⟨?_, ?_⟩
    · intro hx
      rcases List.mem_append.mp hx with hx | hx
      · exact h'.2.2 x hx x (List.mem_cons_self ..) rfl
      · exact hq.1 hx
    · exact List.nodup_append.mpr ⟨h'.1, hq.2, fun a ha b hb => h'.2.2 a ha b (List.mem_cons_of_mem _ hb)⟩
  simpa using h1

theorem outerStep_complete (hv : VHyp c.v c.mode) (hcomp : VComp c.v) (n0 : Nat) (hm : MateInv c.v c.m0 n0)
    (i : Nat) (st : SSt) (hI : Running c n0 i st ∨ ScanDone' c n0 st) :
    stepPost (fun st' => Running c n0 (i + 1) st' ∨ ScanDone' c n0 st')
      (fun st' => Failed c n0 st' ∨ ScanDone' c n0 st') (outerStep c.v c.mode c.sv st) := by
  unfold outerStep
  rcases hI with ⟨hdone, hn, hS, hq, hX⟩ | hD
  · obtain ⟨P, ord, I⟩ := hS
    rw [if_neg (by rw [hdone, I.fault]; simp)]
    obtain ⟨s, n, queue, visited, done⟩ := st
    simp only [] at hdone hn hq hX I ⊢
    cases queue with
    | nil =>
      refine Or.inl ⟨hdone, hn, ⟨P, ord, I⟩, fun hsv => ?_⟩
      obtain ⟨Sc, _, hC, hQ, hov⟩ := hX hsv
      refine ⟨Sc, hC, fun a ha hoa => ?_⟩
      rcases (hQ.vis a).mp (hov a ha hoa) with h | h | h
      · exact h
      · cases h
      · cases h
    | cons x q =>
      simp only [stepPost_yield]
      -- the scan of the row of `x`
      have hloop := forIn_list_pure_pos
        (fun pre (st' : SSt) => ScanOpen c n0 x st' ∧
          (c.sv ∈ c.v.g.nodes → ∃ Sc, Sc.length = i ∧ Extra c st'.1 Sc x pre st'.2.2.1 st'.2.2.2.1))
        (ScanDone' c n0)
        (fun e st => scanStep c.v c.mode c.sv x e st) (c.v.outOf x) ((s, n, q, visited, done) : SSt)
        ⟨⟨hdone, hn, ⟨P, ord, I⟩, fun q' hq' => hq q' (List.mem_cons_of_mem _ hq'),
          fun hxn => hq x (List.mem_cons_self ..) hxn⟩, fun hsv => by
            obtain ⟨Sc, hlen, hC, hQ, hov⟩ := hX hsv
            refine ⟨Sc, hlen, hC, PInv.mk (fun _ _ h => nomatch h) (fun _ _ h => nomatch h), ?_, hov,
              (fun _ h => nomatch h)⟩
            refine ⟨?_, nodup_rot hQ.nodup, fun q' hq' => hQ.queueNodes q' (List.mem_cons_of_mem _ hq')⟩
            intro a
            rw [hQ.vis a]
            simp only [List.mem_cons, List.not_mem_nil, or_false]
            constructor
            · rintro (h | h | h)
              · exact Or.inl h
              · exact Or.inr (Or.inr h)
              · exact Or.inr (Or.inl h)
            · rintro (h | h | h)
              · exact Or.inl h
              · exact Or.inr (Or.inr h)
              · exact Or.inr (Or.inl h)⟩
        (by
          intro pre' e post b hsplit ⟨hO, hEx⟩
          have he : e ∈ c.v.outOf x := by rw [hsplit]; simp
          have h1 := scanStep_spec hv n0 hm x e he b hO
          have h3 := scanStep_done hv n0 hm x e he b hO
          by_cases hsv : c.sv ∈ c.v.g.nodes
          · obtain ⟨Sc, hlen, hE⟩ := hEx hsv
            have h2 := scanStep_extra hv n0 hm x e he b hO Sc pre' hE
            generalize scanStep c.v c.mode c.sv x e b = r at h1 h2 h3 ⊢
            cases r with
            | yield b' => exact ⟨h1, fun _ => ⟨Sc, hlen, h2⟩⟩
            | done b' => exact ⟨h1, h3⟩
          · generalize scanStep c.v c.mode c.sv x e b = r at h1 h3 ⊢
            cases r with
            | yield b' => exact ⟨h1, fun h => absurd h hsv⟩
            | done b' => exact ⟨h1, h3⟩)
      generalize (forIn (m := Id) (c.v.outOf x) ((s, n, q, visited, done) : SSt)
        (fun e st => pure (scanStep c.v c.mode c.sv x e st))).run = r at hloop ⊢
      rcases hloop with h | ⟨hO, hEx⟩
      · exact Or.inr h
      · left
        obtain ⟨hdone', hn', hS', hq', hxo'⟩ := hO
        refine ⟨hdone', hn', hS', hq', fun hsv => ?_⟩
        obtain ⟨Sc, hlen, hE⟩ := hEx hsv
        obtain ⟨Sc0, _, _, hQ0, _⟩ := hX hsv
        have hxn : x ∈ c.v.g.nodes := hQ0.queueNodes x (List.mem_cons_self ..)
        refine ⟨x :: Sc, by simp [hlen], ?_, ?_, hE.ov⟩
        · -- closure for `x :: Sc`
          refine ⟨?_, ?_, ?_⟩
          · intro y hy
            rcases List.mem_cons.mp hy with e | hy
            · subst e; exact ⟨hxn, hxo' hxn⟩
            · exact hE.cinv.outer y hy
          · intro y hy z e hz hne hoz
            rcases List.mem_cons.mp hy with e' | hy
            · subst e'; exact hE.pinv.inner z e hz hne hoz
            · exact hE.cinv.inner y hy z e hz hne hoz
          · intro y hy z hz e hze hne
            rcases List.mem_cons.mp hy with e1 | hy'
            · rcases List.mem_cons.mp hz with e2 | hz'
              · exact absurd (e2.trans e1.symm) hne
              · rw [e1]; exact hE.pinv.eq z e (e1 ▸ hze) (e1 ▸ hne) hz'
            · rcases List.mem_cons.mp hz with e2 | hz'
              · -- the row of `z = x` contains `y`
                obtain ⟨_, _, hJ⟩ := hv.out y z e hze
                obtain ⟨e', he'⟩ := hcomp.comp z y (joined_symm (hJ (Ne.symm hne)))
                rw [e2] at he' hne ⊢
                exact (hE.pinv.eq y e' he' (Ne.symm hne) hy').symm
              · exact hE.cinv.eq y hy' z hz' e hze hne
        · refine ⟨?_, ?_, hE.qb.queueNodes⟩
          · intro a
            rw [hE.qb.vis a]
            simp only [List.mem_cons, List.not_mem_nil, or_false]
            constructor
            · rintro (h | h | h)
              · exact Or.inl (Or.inr h)
              · exact Or.inr h
              · exact Or.inl (Or.inl h)
            · rintro ((h | h) | h)
              · exact Or.inr (Or.inr h)
              · exact Or.inl h
              · exact Or.inr (Or.inl h)
          · have := hE.qb.nodup
            simpa using this
  · rw [if_pos (by rw [hD.1.1]; simp)]
    exact Or.inr hD

end

end PetgraphModel.C15W5

namespace PetgraphModel.C15W5
open PetgraphModel PetgraphModel.C15 PetgraphModel.C15M PetgraphModel.C15P PetgraphModel.C15W2

/-- the state of the search loop of `gabowSearch` before the labels are reset -/
def searchLoop (v : View) (mode : Nat) (startIdx : Nat) (s0 : GS) (nEdges0 : Nat) : SSt :=
  (forIn (m := Id) [:v.nb + 2]
    ((((s0.setLabel startIdx .start).setFi startIdx v.nb), nEdges0, [fromIndex v startIdx], [fromIndex v startIdx], false) : SSt)
    (fun _ st => pure (outerStep v mode (fromIndex v startIdx) st))).run

theorem gabowSearch_eq_loop (v : View) (mode : Nat) (startIdx : Nat) (s0 : GS) (nEdges0 : Nat) :
    gabowSearch v mode startIdx s0 nEdges0 =
      ({ (searchLoop v mode startIdx s0 nEdges0).1 with
          label := (searchLoop v mode startIdx s0 nEdges0).1.label.map fun _ => Label.none },
        (searchLoop v mode startIdx s0 nEdges0).2.1) := by
  rw [gabowSearch_eq]; rfl

/-- **the search loop ends with an augmentation or with every outer vertex scanned** -/
theorem searchLoop_complete (v : View) (mode : Nat) (hv : VHyp v mode) (hcomp : VComp v) (s : GS) (n : Nat)
    (hB : BInv v s n) (startIdx : Nat) (hst : startIdx < v.nb) (hfree : getM s.mate startIdx = none) :
    Failed (searchCtx v mode s startIdx) n (searchLoop v mode startIdx s n) ∨
    ScanDone' (searchCtx v mode s startIdx) n (searchLoop v mode startIdx s n) := by
  unfold searchLoop
  obtain ⟨P, ord, I, hsvo⟩ := search_init v mode hv s n hB startIdx hst hfree
  have hv' : VHyp (searchCtx v mode s startIdx).v (searchCtx v mode s startIdx).mode := hv
  have hcomp' : VComp (searchCtx v mode s startIdx).v := hcomp
  have hm : MateInv (searchCtx v mode s startIdx).v (searchCtx v mode s startIdx).m0 n := hB.mate
  -- initially only the start vertex is outer
  have hinit_outer : ∀ a ∈ v.g.nodes,
      outerAt (searchCtx v mode s startIdx) ((s.setLabel startIdx Label.start).setFi startIdx v.nb) a = true →
      a = fromIndex v startIdx := by
    intro a ha hoa
    have hlabLen : s.label.length = v.nb + 1 := by rw [hB.label]; simp
    rw [setLabel_eq _ _ _ (by rw [hlabLen]; omega), setFi_eq _ _ _ (by simp [hB.fiLen]; omega)] at hoa
    have h1 : (labI (s.label.set startIdx Label.start) (v.toIndex a)).isOuter = true := hoa
    rw [labI_set _ _ _ _ (by rw [hlabLen]; omega), hB.label, labI_replicate] at h1
    by_cases e : startIdx = v.toIndex a
    · rw [e]; exact (hv.ix.from_to a ha).symm
    · rw [if_neg e] at h1; cases h1
  have hloop := forIn_range_pure
    (fun i st => Running (searchCtx v mode s startIdx) n i st ∨ ScanDone' (searchCtx v mode s startIdx) n st)
    (fun st => Failed (searchCtx v mode s startIdx) n st ∨ ScanDone' (searchCtx v mode s startIdx) n st)
    (v.nb + 2)
    (fun _ st => outerStep v mode (fromIndex v startIdx) st)
    ((((s.setLabel startIdx Label.start).setFi startIdx v.nb), n, [fromIndex v startIdx], [fromIndex v startIdx], false) : SSt)
    (Or.inl ⟨rfl, rfl, ⟨P, ord, I⟩, by
      intro q hq hqn
      simp only [List.mem_singleton] at hq
      subst hq
      exact hsvo hqn, fun hsv => ⟨[], rfl, CInv.mk (fun _ h => nomatch h) (fun _ h => nomatch h) (fun _ h => nomatch h), ⟨by
        intro a; simp, by simp, by
        intro q hq
        simp only [List.mem_singleton] at hq
        subst hq; exact hsv⟩, by
        intro a ha hoa
        simp only [List.mem_singleton]
        exact hinit_outer a ha hoa⟩⟩)
    (fun i b _ hb => outerStep_complete hv' hcomp' n hm i b hb)
  rcases hloop with h | h | h
  · exact h
  · -- the fuel is not exhausted
    left
    obtain ⟨hdone, hn, hS, _, hX⟩ := h
    refine ⟨hdone, hn, hS, fun hsv => ?_⟩
    exfalso
    obtain ⟨Sc, hlen, hC, hQ, _⟩ := hX hsv
    have hnd : Sc.Nodup := by
      have := hQ.nodup
      simp only [List.nil_append] at this
      exact (List.nodup_append.mp this).1
    have hsub : Sc ⊆ v.g.nodes := fun a ha => (hC.outer a ha).1
    have h1 := List.Nodup.length_le_of_subset hnd hsub
    have h2 := hv.nodes_le
    omega
  · exact Or.inr h

end PetgraphModel.C15W5
