import PetgraphModel.Proofs.C02W4Query
/-
C02 wave 4, part 3: the panicking call variants (exact panic conditions), and histories that mix mutating calls, panicking
variants and queries (`Call`): every such history is fault-free and a run of the reference machine.
-/
namespace PetgraphModel.SGProofs
open PetgraphModel PetgraphModel.SG PetgraphModel.SGSpec

/-! ### counting: a valid index that is not live leaves room -/

theorem countP_lt_of_none {α : Type} {l : List (Option α)} {i : Nat} (h : l[i]? = some none) :
    l.countP Option.isSome < l.length := by
  have hle := List.countP_le_length (p := Option.isSome) (l := l)
  rcases Nat.lt_or_ge (l.countP Option.isSome) l.length with h' | h'
  · exact h'
  · have heq : l.countP Option.isSome = l.length := Nat.le_antisymm hle h'
    have := List.countP_eq_length.1 heq none (List.mem_of_getElem? h)
    simp at this

theorem count_lt_of_fresh {α : Type} {l : List (Option α)} {fin i : Nat} (hlen : l.length ≤ fin) (hi : i < fin)
    (hfree : (l[i]?).join = none) : l.countP Option.isSome < fin := by
  have hle := List.countP_le_length (p := Option.isSome) (l := l)
  by_cases hil : i < l.length
  · have : l[i]? = some none := by
      rw [List.getElem?_eq_getElem hil] at hfree ⊢
      cases h : l[i] with
      | none => rfl
      | some x => rw [h] at hfree; simp at hfree
    have := countP_lt_of_none this
    omega
  · omega

theorem nodeCount_lt_of_fresh {sp : Spec} {fin i : Nat} (hlen : sp.nodes.length ≤ fin) (h : sp.freshNode fin i = true) :
    sp.nodeCount < fin := by
  unfold Spec.freshNode Spec.nodeLive Spec.node at h
  simp only [Bool.and_eq_true, decide_eq_true_eq, Bool.not_eq_true', Option.isSome_eq_false_iff, Option.isNone_iff_eq_none] at h
  unfold Spec.nodeCount Spec.nodeIds
  rw [liveIds_length]
  exact count_lt_of_fresh hlen h.1 h.2

theorem edgeCount_lt_of_fresh {sp : Spec} {fin e : Nat} (hlen : sp.edges.length ≤ fin) (h : sp.freshEdge fin e = true) :
    sp.edgeCount < fin := by
  unfold Spec.freshEdge Spec.edgeLive Spec.edge at h
  simp only [Bool.and_eq_true, decide_eq_true_eq, Bool.not_eq_true', Option.isSome_eq_false_iff, Option.isNone_iff_eq_none] at h
  unfold Spec.edgeCount Spec.edgeIds
  rw [liveIds_length]
  exact count_lt_of_fresh hlen h.1 h.2

theorem abs_nodes_len {s : State} (hinv : Inv s) : (abs s).nodes.length ≤ s.fin := by
  rw [abs_nodes, List.length_map]; exact hinv.lenN

theorem abs_edges_len {s : State} (hinv : Inv s) : (abs s).edges.length ≤ s.fin := by
  rw [abs_edges, List.length_map]; exact hinv.lenE

/-! ### `hasConn` -/

theorem hasConn_false_of {s : State} {a b : Nat}
    (h : ∀ (e : Nat) (x : Edge), s.edges[e]? = some x → x.w.isSome → ¬ Connects s x a b) :
    (abs s).hasConn a b = false := by
  unfold Spec.hasConn
  rw [List.any_eq_false]
  intro p hp
  have hx := (mem_edgeRefs _ _ _).1 hp
  obtain ⟨xe, hxe, hw, hxa, hxb⟩ := abs_edge_rev hx
  have := h p.1 xe hxe (by rw [hw]; rfl)
  intro hc
  apply this
  have hy' : p.2 = ⟨xe.a, xe.b, p.2.w⟩ := by cases h : p.2; simp_all
  rw [hy'] at hc
  exact (connects_abs s xe p.2.w a b).1 hc

theorem hasConn_true_of {s : State} {a b e : Nat} {x : Edge} (hx : s.edges[e]? = some x) (hl : x.w.isSome)
    (hc : Connects s x a b) : (abs s).hasConn a b = true := by
  obtain ⟨w, hw⟩ := Option.isSome_iff_exists.1 hl
  unfold Spec.hasConn
  rw [List.any_eq_true]
  exact ⟨(e, _), (mem_edgeRefs _ _ _).2 (abs_edge_some hx hw), (connects_abs s x w a b).2 hc⟩

/-! ### the reference semantics of the panicking variants -/

/-- **the panicking call variants in the reference**: the call panics EXACTLY under its documented condition
(`Spec.panics`) and then changes nothing; otherwise it does what its `try_`/`Option` twin does -/
def SpecPStep (fin : Nat) (sp : Spec) (c : PCall) (out : POut) (sp' : Spec) : Prop :=
  if sp.panics fin c = true then out = .panic ∧ sp' = sp
  else match c, out with
    | .addNode w, .idx i => sp.freshNode fin i = true ∧ sp' = sp.addNodeAt i w
    | .addEdge a b w, .idx e => sp.freshEdge fin e = true ∧ sp' = sp.addEdgeAt e a b w
    | .updateEdge a b w, .idx e =>
      (∃ x, sp.edge e = some x ∧ sp.connects x a b = true ∧ sp' = sp.setEdgeWeight e w) ∨
      (sp.hasConn a b = false ∧ sp.freshEdge fin e = true ∧ sp' = sp.addEdgeAt e a b w)
    | .indexNode a, .weight w => sp.node a = some w ∧ sp' = sp
    | .indexEdge e, .weight w => (sp.edge e).map (·.w) = some w ∧ sp' = sp
    | .indexMutNode a w, .unit => sp' = sp.setNodeWeight a w
    | .indexMutEdge e w, .unit => sp' = sp.setEdgeWeight e w
    | .indexTwice n1 n2 i j w1 w2, .unit => sp' = (sp.setWeight n1 i w1).setWeight n2 j w2
    | _, _ => False

theorem addEdgeP_refines {s s' : State} {a b : Nat} {w : Int} {r : Except GErr Nat} (hinv : Inv s)
    (h : tryAddEdge s a b w = .ok (s', r)) :
    (∀ e, r = .ok e → ((abs s).nodeLive a = true ∧ (abs s).nodeLive b = true ∧ ((abs s).edgeCount == s.fin) = false) ∧
        (abs s).freshEdge s.fin e = true ∧ abs s' = (abs s).addEdgeAt e a b w) ∧
    (∀ err, r = .error err → s' = s ∧
      (!(abs s).nodeLive a || !(abs s).nodeLive b || (abs s).edgeCount == s.fin) = true) := by
  obtain ⟨_, hok, herr⟩ := addEdge_refines hinv h
  refine ⟨fun e he => ?_, fun err he => ?_⟩
  · obtain ⟨g1, g2, g3, g4⟩ := hok e he
    have := edgeCount_lt_of_fresh (abs_edges_len hinv) g3
    exact ⟨⟨g1, g2, by simp; omega⟩, g3, g4⟩
  · obtain ⟨g1, g2, g3, g4⟩ := herr err he
    refine ⟨g1, ?_⟩
    cases err with
    | nodeIxLimit => exact absurd rfl g4
    | edgeIxLimit => simp [g2 rfl]
    | nodeMissed i =>
      obtain ⟨hi, hl⟩ := g3 i rfl
      rcases hi with rfl | rfl <;> simp [hl]

theorem hasElem_abs (s : State) (n : Bool) (i : Nat) : hasElem s n i = (abs s).has n i := by
  unfold hasElem Spec.has
  cases n
  · simp only [Bool.false_eq_true, if_false]; exact edgeLive_abs s i
  · simp only [if_true]; unfold Spec.nodeLive; rw [abs_node]

theorem setElem_abs (s : State) (n : Bool) (i : Nat) (w : Int) : abs (setElem s n i w) = (abs s).setWeight n i w := by
  unfold setElem Spec.setWeight
  cases n
  · simp only [Bool.false_eq_true, if_false]; exact (setEdgeWeight_refines s i w).1
  · simp only [if_true]; exact (setNodeWeight_refines s i w).1

theorem setElem_inv {s : State} (hinv : Inv s) (n : Bool) (i : Nat) (w : Int) :
    Inv (setElem s n i w) ∧ (setElem s n i w).fin = s.fin := by
  unfold setElem
  cases n
  · simp only [Bool.false_eq_true, if_false]
    exact ⟨Inv.of_reweight (setEdgeWeight_inv hinv i w) (setEdgeWeight_free s i w).1 (setEdgeWeight_free s i w).2,
      setEdgeWeight_fin s i w⟩
  · simp only [if_true]
    exact ⟨Inv.of_reweight (setNodeWeight_inv hinv i w) (setNodeWeight_free s i w).1 (setNodeWeight_free s i w).2,
      setNodeWeight_fin s i w⟩

theorem tryAddNode_fin {s s' : State} {w : Int} {r : Except GErr Nat} (hinv : Inv s) (h : tryAddNode s w = .ok (s', r)) :
    s'.fin = s.fin :=
  step_fin (op := .addNode w) (out := .idx r) hinv (by simp [step, h])

theorem tryAddEdge_fin {s s' : State} {a b : Nat} {w : Int} {r : Except GErr Nat} (hinv : Inv s)
    (h : tryAddEdge s a b w = .ok (s', r)) : s'.fin = s.fin :=
  step_fin (op := .addEdge a b w) (out := .idx r) hinv (by simp [step, h])

theorem tryUpdateEdge_fin {s s' : State} {a b : Nat} {w : Int} {r : Except GErr Nat} (hinv : Inv s)
    (h : tryUpdateEdge s a b w = .ok (s', r)) : s'.fin = s.fin :=
  step_fin (op := .updateEdge a b w) (out := .idx r) hinv (by simp [step, h])

/-- **the panicking variants**: never a fault; the invariant is kept; the call is a transition of the reference (`SpecPStep`:
it panics exactly under the documented condition); and a panic leaves the CONCRETE state equal -/
theorem pstep_refines {s : State} (hinv : Inv s) (c : PCall) :
    ∃ s' out, pstep s c = .ok (s', out) ∧ Inv s' ∧ s'.fin = s.fin ∧ SpecPStep s.fin (abs s) c out (abs s') ∧
      (out = .panic → s' = s) := by
  cases c with
  | addNode w =>
    obtain ⟨s', o, hstep, hinv'⟩ := step_inv_all hinv (.addNode w)
    simp only [step] at hstep
    cases h1 : tryAddNode s w with
    | error x => rw [h1] at hstep; cases hstep
    | ok p =>
      obtain ⟨s1, r⟩ := p
      rw [h1] at hstep; simp only [Except.ok.injEq, Prod.mk.injEq] at hstep
      obtain ⟨rfl, _⟩ := hstep
      have hfin := tryAddNode_fin hinv h1
      cases r with
      | ok i =>
        obtain ⟨g1, g2, _⟩ := addNode_refines hinv h1
        have := nodeCount_lt_of_fresh (abs_nodes_len hinv) g1
        refine ⟨s1, .idx i, by simp [pstep, h1, mapOk, unwrapIdx], hinv', hfin, ?_, by simp⟩
        have hp : (abs s).panics s.fin (.addNode w) = false := by simp [Spec.panics]; omega
        simp only [SpecPStep, hp, Bool.false_eq_true, if_false]
        exact ⟨g1, g2⟩
      | error e =>
        obtain ⟨g1, g2, g3⟩ := addNode_error hinv h1
        refine ⟨s1, .panic, by simp [pstep, h1, mapOk, unwrapIdx], hinv', hfin, ?_, fun _ => g1⟩
        have hp : (abs s).panics s.fin (.addNode w) = true := by simp [Spec.panics, g3]
        simp only [SpecPStep, hp, if_true]
        exact ⟨trivial, by rw [g1]⟩
  | addEdge a b w =>
    obtain ⟨s1, r, h1, hinv', _, _⟩ := tryAddEdge_inv hinv a b w
    have hfin := tryAddEdge_fin hinv h1
    obtain ⟨hok, herr⟩ := addEdgeP_refines hinv h1
    cases r with
    | ok e =>
      obtain ⟨⟨g1, g2, g3⟩, g4, g5⟩ := hok e rfl
      refine ⟨s1, .idx e, by simp [pstep, h1, mapOk, unwrapIdx], hinv', hfin, ?_, by simp⟩
      have hp : (abs s).panics s.fin (.addEdge a b w) = false := by simp [Spec.panics, g1, g2, g3]
      simp only [SpecPStep, hp, Bool.false_eq_true, if_false]
      exact ⟨g4, g5⟩
    | error err =>
      obtain ⟨g1, g2⟩ := herr err rfl
      refine ⟨s1, .panic, by simp [pstep, h1, mapOk, unwrapIdx], hinv', hfin, ?_, fun _ => g1⟩
      have hp : (abs s).panics s.fin (.addEdge a b w) = true := by simpa [Spec.panics] using g2
      simp only [SpecPStep, hp, if_true]
      exact ⟨trivial, by rw [g1]⟩
  | updateEdge a b w =>
    obtain ⟨s1, r, h1, hinv', _⟩ := tryUpdateEdge_inv hinv a b w
    have hfin := tryUpdateEdge_fin hinv h1
    obtain ⟨_, hcase⟩ := updateEdge_refines hinv h1
    rcases hcase with ⟨e, x, rfl, hx, hxl, hconn, habs⟩ | ⟨hno, hadd⟩
    · have hc := hasConn_true_of hx hxl hconn
      obtain ⟨w0, hw0⟩ := Option.isSome_iff_exists.1 hxl
      refine ⟨s1, .idx e, by simp [pstep, h1, mapOk, unwrapIdx], hinv', hfin, ?_, by simp⟩
      have hp : (abs s).panics s.fin (.updateEdge a b w) = false := by simp [Spec.panics, hc]
      simp only [SpecPStep, hp, Bool.false_eq_true, if_false]
      exact .inl ⟨_, abs_edge_some hx hw0, (connects_abs s x w0 a b).2 hconn, habs⟩
    · have hc := hasConn_false_of hno
      obtain ⟨hok, herr⟩ := addEdgeP_refines hinv hadd
      cases r with
      | ok e =>
        obtain ⟨⟨g1, g2, g3⟩, g4, g5⟩ := hok e rfl
        refine ⟨s1, .idx e, by simp [pstep, h1, mapOk, unwrapIdx], hinv', hfin, ?_, by simp⟩
        have hp : (abs s).panics s.fin (.updateEdge a b w) = false := by simp [Spec.panics, g1, g2, g3]
        simp only [SpecPStep, hp, Bool.false_eq_true, if_false]
        exact .inr ⟨hc, g4, g5⟩
      | error err =>
        obtain ⟨g1, g2⟩ := herr err rfl
        refine ⟨s1, .panic, by simp [pstep, h1, mapOk, unwrapIdx], hinv', hfin, ?_, fun _ => g1⟩
        have hp : (abs s).panics s.fin (.updateEdge a b w) = true := by
          simp only [Spec.panics, hc, Bool.not_false, Bool.true_and]; exact g2
        simp only [SpecPStep, hp, if_true]
        exact ⟨trivial, by rw [g1]⟩
  | indexNode a =>
    cases hw : nodeWeight s a with
    | none =>
      refine ⟨s, .panic, by simp [pstep, hw], hinv, rfl, ?_, fun _ => rfl⟩
      have hp : (abs s).panics s.fin (.indexNode a) = true := by simp [Spec.panics, Spec.nodeLive, abs_node, hw]
      simp only [SpecPStep, hp, if_true]; exact ⟨trivial, trivial⟩
    | some w =>
      refine ⟨s, .weight w, by simp [pstep, hw], hinv, rfl, ?_, by simp⟩
      have hp : (abs s).panics s.fin (.indexNode a) = false := by simp [Spec.panics, Spec.nodeLive, abs_node, hw]
      simp only [SpecPStep, hp, Bool.false_eq_true, if_false]
      exact ⟨by rw [abs_node, hw], trivial⟩
  | indexEdge e =>
    cases hw : edgeWeight s e with
    | none =>
      refine ⟨s, .panic, by simp [pstep, hw], hinv, rfl, ?_, fun _ => rfl⟩
      have hp : (abs s).panics s.fin (.indexEdge e) = true := by simp [Spec.panics, ← edgeLive_abs, hw]
      simp only [SpecPStep, hp, if_true]; exact ⟨trivial, trivial⟩
    | some w =>
      refine ⟨s, .weight w, by simp [pstep, hw], hinv, rfl, ?_, by simp⟩
      have hp : (abs s).panics s.fin (.indexEdge e) = false := by simp [Spec.panics, ← edgeLive_abs, hw]
      simp only [SpecPStep, hp, Bool.false_eq_true, if_false]
      exact ⟨by rw [abs_edge_w, hw], trivial⟩
  | indexMutNode a w =>
    obtain ⟨g1, g2⟩ := setNodeWeight_refines s a w
    have hinv' : Inv (setNodeWeight s a w).1 :=
      Inv.of_reweight (setNodeWeight_inv hinv a w) (setNodeWeight_free s a w).1 (setNodeWeight_free s a w).2
    cases hl : (abs s).nodeLive a with
    | false =>
      have hs : (setNodeWeight s a w).1 = s := by
        have : (setNodeWeight s a w).2 = false := by rw [g2, hl]
        unfold setNodeWeight at this ⊢
        split
        · split
          · rename_i h1 h2; simp [h1, h2] at this
          · rfl
        · rfl
      refine ⟨(setNodeWeight s a w).1, .panic, by simp [pstep, g2, hl], hinv', setNodeWeight_fin s a w, ?_, fun _ => hs⟩
      have hp : (abs s).panics s.fin (.indexMutNode a w) = true := by simp [Spec.panics, hl]
      simp only [SpecPStep, hp, if_true]; exact ⟨trivial, by rw [hs]⟩
    | true =>
      refine ⟨(setNodeWeight s a w).1, .unit, by simp [pstep, g2, hl], hinv', setNodeWeight_fin s a w, ?_, by simp⟩
      have hp : (abs s).panics s.fin (.indexMutNode a w) = false := by simp [Spec.panics, hl]
      simp only [SpecPStep, hp, Bool.false_eq_true, if_false]; exact g1
  | indexMutEdge e w =>
    obtain ⟨g1, g2⟩ := setEdgeWeight_refines s e w
    have hinv' : Inv (setEdgeWeight s e w).1 :=
      Inv.of_reweight (setEdgeWeight_inv hinv e w) (setEdgeWeight_free s e w).1 (setEdgeWeight_free s e w).2
    cases hl : (abs s).edgeLive e with
    | false =>
      have hs : (setEdgeWeight s e w).1 = s := by
        have : (setEdgeWeight s e w).2 = false := by rw [g2, hl]
        unfold setEdgeWeight at this ⊢
        split
        · split
          · rename_i h1 h2; simp [h1, h2] at this
          · rfl
        · rfl
      refine ⟨(setEdgeWeight s e w).1, .panic, by simp [pstep, g2, hl], hinv', setEdgeWeight_fin s e w, ?_, fun _ => hs⟩
      have hp : (abs s).panics s.fin (.indexMutEdge e w) = true := by simp [Spec.panics, hl]
      simp only [SpecPStep, hp, if_true]; exact ⟨trivial, by rw [hs]⟩
    | true =>
      refine ⟨(setEdgeWeight s e w).1, .unit, by simp [pstep, g2, hl], hinv', setEdgeWeight_fin s e w, ?_, by simp⟩
      have hp : (abs s).panics s.fin (.indexMutEdge e w) = false := by simp [Spec.panics, hl]
      simp only [SpecPStep, hp, Bool.false_eq_true, if_false]; exact g1
  | indexTwice n1 n2 i j w1 w2 =>
    have hpeq : (abs s).panics s.fin (.indexTwice n1 n2 i j w1 w2) =
        ((n1 == n2 && i == j) || !hasElem s n1 i || !hasElem s n2 j) := by
      simp [Spec.panics, hasElem_abs]
    cases hp : ((n1 == n2 && i == j) || !hasElem s n1 i || !hasElem s n2 j) with
    | true =>
      refine ⟨s, .panic, by simp only [pstep, hp, if_true], hinv, rfl, ?_, fun _ => rfl⟩
      rw [← hpeq] at hp
      simp only [SpecPStep, hp, if_true]; exact ⟨trivial, trivial⟩
    | false =>
      obtain ⟨i1, f1⟩ := setElem_inv hinv n1 i w1
      obtain ⟨i2, f2⟩ := setElem_inv i1 n2 j w2
      refine ⟨_, .unit, by simp only [pstep, hp, Bool.false_eq_true, if_false], i2, by rw [f2, f1], ?_, by simp⟩
      rw [← hpeq] at hp
      simp only [SpecPStep, hp, Bool.false_eq_true, if_false]
      rw [setElem_abs, setElem_abs]

end PetgraphModel.SGProofs
