import PetgraphModel.Proofs.C10W4Complete
import PetgraphModel.Proofs.C10AstarTerm
import PetgraphModel.Proofs.C11Models
/-
The reference labelling of the C10 judges is always certified (wave 4): for non-negative weights and
arc targets inside `g.nodes`, the plain Bellman–Ford `refDist` computes exactly the shortest-walk
costs of exactly the reachable nodes, so `checkDist` accepts it (`checkDist_complete`) and
`certDist g s` is never `none`.  With this the goal-directed judges `okDijGoal` / `okAstar` decide
their clause sets outright.

Method: labels are costs of real walks and only decrease; one pass over all arcs relaxes every arc;
after `i` passes every walk with at most `i` arcs is matched; a walk can be made simple at no extra
cost (`C11MP.shorten`, the cycle-removal lemma of the C11 vertical), and a simple walk has at most
`|nodes|` arcs.
-/
namespace PetgraphModel.C10P
open PetgraphModel PetgraphModel.MGraph PetgraphModel.Oracle PetgraphModel.C10 PetgraphModel.SP
open PetgraphModel.C11MP (WalkN WalkL)

/-- arc targets are nodes (part of `viewOkB`) -/
def ArcsIn (g : MGraph) : Prop := ∀ a b w, (a, b, w) ∈ g.arcs → b ∈ g.nodes

theorem setLabel_eq (d : List (Nat × Int)) (v : Nat) (x : Int) : setLabel d v x = amSet d v x := by
  induction d with
  | nil => rfl
  | cons p r ih =>
    obtain ⟨u, y⟩ := p
    simp only [setLabel, amSet, ih]

theorem labelOf_setLabel (d : List (Nat × Int)) (v u : Nat) (x : Int) :
    labelOf (setLabel d v x) u = if u = v then some x else labelOf d u := by
  rw [setLabel_eq]
  exact amGet_amSet d v u x

/-- labels never disappear and never increase -/
def LBelow (d d' : List (Nat × Int)) : Prop := ∀ v x, labelOf d v = some x → ∃ y, labelOf d' v = some y ∧ y ≤ x

theorem LBelow.refl (d : List (Nat × Int)) : LBelow d d := fun _ x h => ⟨x, h, Int.le_refl _⟩

theorem LBelow.trans {d1 d2 d3 : List (Nat × Int)} (h1 : LBelow d1 d2) (h2 : LBelow d2 d3) : LBelow d1 d3 := by
  intro v x hx
  obtain ⟨y, hy, hle⟩ := h1 v x hx
  obtain ⟨z, hz, hle'⟩ := h2 v y hy
  exact ⟨z, hz, by omega⟩

/-- what one relaxation does -/
theorem relaxArc_char (d : List (Nat × Int)) (a : Nat × Nat × Int) :
    (relaxArc d a = d ∧ (∀ x, labelOf d a.1 = some x → ∃ y, labelOf d a.2.1 = some y ∧ y ≤ x + a.2.2)) ∨
    (∃ x, labelOf d a.1 = some x ∧ relaxArc d a = setLabel d a.2.1 (x + a.2.2) ∧
      ∀ y, labelOf d a.2.1 = some y → x + a.2.2 < y) := by
  cases h1 : labelOf d a.1 with
  | none => exact Or.inl ⟨by simp [relaxArc, h1], fun x hx => by cases hx⟩
  | some x =>
    cases h2 : labelOf d a.2.1 with
    | none => exact Or.inr ⟨x, rfl, by simp [relaxArc, h1, h2], fun y hy => by cases hy⟩
    | some y =>
      by_cases hlt : x + a.2.2 < y
      · exact Or.inr ⟨x, rfl, by simp [relaxArc, h1, h2, hlt], fun y' hy' => by cases hy'; exact hlt⟩
      · exact Or.inl ⟨by simp [relaxArc, h1, h2, hlt], fun x' hx' => by cases hx'; exact ⟨y, rfl, by omega⟩⟩

theorem relaxArc_below (d : List (Nat × Int)) (a : Nat × Nat × Int) : LBelow d (relaxArc d a) := by
  rcases relaxArc_char d a with ⟨h, _⟩ | ⟨x, hx, h, hlt⟩
  · rw [h]; exact LBelow.refl d
  · rw [h]
    intro v y hv
    rw [labelOf_setLabel]
    by_cases hva : v = a.2.1
    · subst hva
      simp only [if_true]
      exact ⟨_, rfl, Int.le_of_lt (hlt y hv)⟩
    · simp only [hva, if_false]
      exact ⟨y, hv, Int.le_refl _⟩

theorem relaxArc_relaxes (d : List (Nat × Int)) (a : Nat × Nat × Int) (x : Int) (hx : labelOf d a.1 = some x) :
    ∃ y, labelOf (relaxArc d a) a.2.1 = some y ∧ y ≤ x + a.2.2 := by
  rcases relaxArc_char d a with ⟨h, hr⟩ | ⟨x', hx', h, _⟩
  · rw [h]; exact hr x hx
  · rw [hx] at hx'; cases hx'
    rw [h, labelOf_setLabel]
    simp

/-- labels are costs of real walks, with distinct keys -/
structure BFI (g : MGraph) (s : Nat) (d : List (Nat × Int)) : Prop where
  real : ∀ v x, labelOf d v = some x → WalkCost g s v x
  nodup : (keys d).Nodup

theorem relaxArc_bfi {g : MGraph} {s : Nat} {d : List (Nat × Int)} (I : BFI g s d) (a : Nat × Nat × Int)
    (ha : a ∈ g.arcs) : BFI g s (relaxArc d a) := by
  rcases relaxArc_char d a with ⟨h, _⟩ | ⟨x, hx, h, _⟩
  · rw [h]; exact I
  · rw [h]
    refine ⟨?_, ?_⟩
    · intro v y hv
      rw [labelOf_setLabel] at hv
      by_cases hva : v = a.2.1
      · subst hva
        simp only [if_true] at hv
        cases hv
        exact WalkCost.snoc (I.real _ _ hx) ha
      · simp only [hva, if_false] at hv
        exact I.real v y hv
    · rw [setLabel_eq]
      exact keys_amSet_nodup d _ _ I.nodup

/-- a pass over a list of arcs: invariant kept, labels only improve, every arc of the list relaxed -/
theorem pass_spec {g : MGraph} {s : Nat} : ∀ (l : List (Nat × Nat × Int)) (d : List (Nat × Int)),
    (∀ a, a ∈ l → a ∈ g.arcs) → BFI g s d →
    BFI g s (l.foldl relaxArc d) ∧ LBelow d (l.foldl relaxArc d) ∧
    ∀ a, a ∈ l → ∀ x, labelOf d a.1 = some x → ∃ y, labelOf (l.foldl relaxArc d) a.2.1 = some y ∧ y ≤ x + a.2.2 := by
  intro l
  induction l with
  | nil => intro d _ I; exact ⟨I, LBelow.refl d, fun a h => by cases h⟩
  | cons b r ih =>
    intro d hl I
    simp only [List.foldl_cons]
    have I1 := relaxArc_bfi I b (hl b (List.mem_cons_self ..))
    have B1 := relaxArc_below d b
    obtain ⟨I2, B2, R2⟩ := ih (relaxArc d b) (fun a ha => hl a (List.mem_cons_of_mem _ ha)) I1
    refine ⟨I2, B1.trans B2, ?_⟩
    intro a ha x hx
    cases List.mem_cons.mp ha with
    | inl h =>
      subst h
      obtain ⟨y, hy, hle⟩ := relaxArc_relaxes d a x hx
      obtain ⟨z, hz, hle'⟩ := B2 _ _ hy
      exact ⟨z, hz, by omega⟩
    | inr h =>
      obtain ⟨x', hx', hle⟩ := B1 _ _ hx
      obtain ⟨y, hy, hle'⟩ := R2 a h x' hx'
      exact ⟨y, hy, by omega⟩

/-- every walk from `s` with at most `i` arcs is matched by a label -/
def LB (g : MGraph) (s : Nat) (i : Nat) (d : List (Nat × Int)) : Prop :=
  ∀ v c j, WalkN g s v c j → j ≤ i → ∃ y, labelOf d v = some y ∧ y ≤ c

theorem passes_spec {g : MGraph} {s : Nat} {α : Type} : ∀ (l : List α) (d : List (Nat × Int)) (i : Nat),
    BFI g s d → LB g s i d →
    BFI g s (l.foldl (fun d _ => g.arcs.foldl relaxArc d) d) ∧
    LB g s (i + l.length) (l.foldl (fun d _ => g.arcs.foldl relaxArc d) d) := by
  intro l
  induction l with
  | nil => intro d i I L; exact ⟨I, by simpa using L⟩
  | cons _ r ih =>
    intro d i I L
    simp only [List.foldl_cons, List.length_cons]
    obtain ⟨I1, B1, R1⟩ := pass_spec g.arcs d (fun a ha => ha) I
    have L1 : LB g s (i + 1) (g.arcs.foldl relaxArc d) := by
      intro v c j hwalk hj
      cases hwalk with
      | nil =>
        obtain ⟨y, hy, hle⟩ := L s 0 0 (WalkN.nil s) (Nat.zero_le _)
        exact B1 _ _ hy |>.elim fun z hz => ⟨z, hz.1, by omega⟩
      | snoc hw' harc =>
        rename_i b c' w j'
        obtain ⟨yb, hyb, hle⟩ := L b c' j' hw' (by omega)
        obtain ⟨y, hy, hle'⟩ := R1 (b, v, w) harc yb hyb
        exact ⟨y, hy, by simp only at hle'; omega⟩
    have := ih (g.arcs.foldl relaxArc d) (i + 1) I1 L1
    rw [show i + 1 + r.length = i + (r.length + 1) by omega] at this
    exact this

theorem walkL_targets {g : MGraph} {a b : Nat} {vs : List Nat} {c : Int} (h : WalkL g a vs b c) :
    ∀ u ∈ vs, ∃ a' w, (a', u, w) ∈ g.arcs := by
  induction h with
  | nil => simp
  | cons harc _ ih =>
    intro u hu
    rcases List.mem_cons.mp hu with rfl | hu
    · exact ⟨_, _, harc⟩
    · exact ih u hu

/-- **`refDist` is exact**: its labels are the shortest-walk costs of exactly the reachable nodes -/
theorem refDist_exact {g : MGraph} (hw : NonNeg g) (hin : ArcsIn g) (s : Nat) :
    (keys (refDist g s)).Nodup ∧
    (∀ v y, labelOf (refDist g s) v = some y ↔ IsShortest g s v y) ∧
    (∀ v, Reach g s v → ∃ y, labelOf (refDist g s) v = some y) := by
  have hno : ¬ C11P.NegCycleReachable g s := by
    rintro ⟨u, c0, c, _, hc, hneg⟩
    have := walk_nonneg hw hc
    omega
  have I0 : BFI g s [(s, 0)] := by
    refine ⟨?_, by simp [keys]⟩
    intro v x h
    simp only [labelOf, List.lookup] at h
    split at h
    · rename_i heq
      cases h
      have : v = s := by simpa using heq
      subst this
      exact WalkCost.nil _
    · cases h
  have L0 : LB g s 0 [(s, 0)] := by
    intro v c j hwalk hj
    cases hwalk with
    | nil => exact ⟨0, by simp [labelOf, List.lookup], Int.le_refl _⟩
    | snoc _ _ => omega
  obtain ⟨I, L⟩ := passes_spec (g := g) (s := s) (List.range (g.nodes.length + 1)) [(s, 0)] 0 I0 L0
  have hfold : (List.range (g.nodes.length + 1)).foldl (fun d _ => g.arcs.foldl relaxArc d) [(s, 0)] = refDist g s := rfl
  rw [hfold] at I L
  simp only [List.length_range, Nat.zero_add] at L
  -- every walk is matched
  have hall : ∀ v c, WalkCost g s v c → ∃ y, labelOf (refDist g s) v = some y ∧ y ≤ c := by
    intro v c hc
    obtain ⟨vs, hvs⟩ := C11MP.walkL_of_walk hc
    obtain ⟨vs', c', hwl, hle, hnd⟩ := C11MP.shorten hno vs.length vs v c (Nat.le_refl _) hvs
    have hsub : vs' ⊆ g.nodes := by
      intro u hu
      obtain ⟨a', w, harc⟩ := walkL_targets hwl u hu
      exact hin _ _ _ harc
    have hlen : vs'.length ≤ g.nodes.length :=
      List.Nodup.length_le_of_subset (List.nodup_cons.mp hnd).2 hsub
    obtain ⟨y, hy, hyle⟩ := L v c' vs'.length (C11MP.walkN_of_walkL hwl) (by omega)
    exact ⟨y, hy, by omega⟩
  refine ⟨I.nodup, ?_, ?_⟩
  · intro v y
    constructor
    · intro h
      refine ⟨I.real v y h, ?_⟩
      intro c hc
      obtain ⟨y', hy', hle⟩ := hall v c hc
      rw [h] at hy'; cases hy'; exact hle
    · intro hs
      obtain ⟨y', hy', hle⟩ := hall v y hs.1
      have := hs.2 y' (I.real v y' hy')
      have : y' = y := by omega
      rw [hy', this]
  · intro v hv
    obtain ⟨c, hc⟩ := (DistProofs.walk_iff_reach g s v).mpr hv
    obtain ⟨y, hy, _⟩ := hall v c hc
    exact ⟨y, hy⟩

/-- **the reference labelling is always certified** (non-negative weights, arc targets in `nodes`) -/
theorem certDist_total {g : MGraph} (hw : NonNeg g) (hin : ArcsIn g) (s : Nat) : ∃ d, certDist g s = some d := by
  obtain ⟨hnd, hex, hreach⟩ := refDist_exact hw hin s
  have hnd' : ((refDist g s).map (·.1)).Nodup := hnd
  have hc : checkDist g s (refDist g s) = true := by
    apply checkDist_complete g s _ hnd'
    · intro v y
      rw [← hex]
      exact ⟨lookup_of_mem_nodup _ v y hnd', mem_of_lookup _ v y⟩
    · intro v hv
      obtain ⟨y, hy⟩ := hreach v hv
      exact ⟨y, mem_of_lookup _ v y hy⟩
  exact ⟨refDist g s, by unfold certDist; simp [hc]⟩

end PetgraphModel.C10P
