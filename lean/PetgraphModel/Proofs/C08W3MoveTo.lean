import PetgraphModel.Proofs.Traversal
/-
C08 (wave 3): `DfsPostOrder::move_to` on a used walker.

`move_to(s)` clears the stack and pushes `s`; the `discovered` / `finished` maps keep whatever earlier
use left in them (`D`, `F`, with `F ⊆ D`: only discovered nodes are ever finished).  Run to
exhaustion from there, the walker emits — each once —
  * the nodes reachable from `s` through nodes outside `D` (`ReachAvoid v.g D s`), and
  * `s` itself when it was discovered but not finished (`s ∈ D`, `s ∉ F`; possible when the earlier run
    was abandoned before exhaustion): it is popped as "discovered, not yet finished" and emitted,
and nothing else; the maps grow by exactly these nodes.
-/
namespace PetgraphModel.TravProofs
open PetgraphModel PetgraphModel.Trav PetgraphModel.MGraph

structure PMInv (g : MGraph) (D F : List Nat) (s : Nat) (stack disc fin acc : List Nat) : Prop where
  nodup : acc.Nodup
  finEq : ∀ x, x ∈ fin ↔ x ∈ F ∨ x ∈ acc
  accNotF : ∀ x, x ∈ acc → x ∉ F
  accOld : ∀ x, x ∈ acc → x ∈ D → x = s
  finDisc : ∀ x, x ∈ fin → x ∈ disc
  discSub : ∀ x, x ∈ disc → x ∈ D ∨ ReachAvoid g D s x
  dSub : ∀ x, x ∈ D → x ∈ disc
  stk : ∀ x, x ∈ stack → x = s ∨ ReachAvoid g D s x
  gray : ∀ x, x ∈ disc → x ∉ D → x ∉ fin → x ∈ stack
  closed : ∀ x, x ∈ fin → x ∉ D → ∀ y, g.Adj x y → y ∈ disc
  grayAdj : ∀ z, z ∈ disc → z ∉ D → z ∉ fin → ∀ y, g.Adj z y → y ∈ disc ∨ y ∈ above z stack
  start : s ∈ stack ∨ s ∈ fin

theorem pm_push (v : View) (hv : ViewOk v) (D F : List Nat) (s x : Nat) (st disc fin acc : List Nat)
    (inv : PMInv v.g D F s (x :: st) disc fin acc) (hx : x ∉ disc) :
    PMInv v.g D F s (((v.succ x).filter (fun y => !(x :: disc).contains y)).reverse ++ (x :: st))
      (x :: disc) fin acc := by
  have hxD : x ∉ D := fun h => hx (inv.dSub x h)
  have hxr : ReachAvoid v.g D s x := by
    rcases inv.stk x (List.mem_cons_self ..) with h | h
    · rw [h] at hxD ⊢; exact ReachAvoid.refl hxD
    · exact h
  have hxfin : x ∉ fin := fun h => hx (inv.finDisc x h)
  have hP : ∀ w, w ∈ ((v.succ x).filter (fun y => !(x :: disc).contains y)).reverse ↔
      v.g.Adj x w ∧ w ∉ x :: disc := by
    intro w
    rw [List.mem_reverse, List.mem_filter, not_contains, hv x w]
  have habove : ∀ z, z ∈ x :: disc →
      above z (((v.succ x).filter (fun y => !(x :: disc).contains y)).reverse ++ (x :: st)) =
        ((v.succ x).filter (fun y => !(x :: disc).contains y)).reverse ++ above z (x :: st) := by
    intro z hz
    apply above_append
    intro h
    exact ((hP z).mp h).2 hz
  generalize ((v.succ x).filter (fun y => !(x :: disc).contains y)).reverse = P at hP habove ⊢
  refine ⟨inv.nodup, inv.finEq, inv.accNotF, inv.accOld, ?_, ?_, ?_, ?_, ?_, ?_, ?_, ?_⟩
  · intro a ha; exact List.mem_cons_of_mem _ (inv.finDisc a ha)
  · intro a ha
    rcases List.mem_cons.mp ha with h | h
    · exact Or.inr (h ▸ hxr)
    · exact inv.discSub a h
  · intro a ha; exact List.mem_cons_of_mem _ (inv.dSub a ha)
  · intro a ha
    rcases List.mem_append.mp ha with h | h
    · have hw := (hP a).mp h
      have haD : a ∉ D := fun hd => hw.2 (List.mem_cons_of_mem _ (inv.dSub a hd))
      exact Or.inr (ReachAvoid.step hxr hw.1 haD)
    · exact inv.stk a h
  · intro a ha haD hafin
    rcases List.mem_cons.mp ha with h | h
    · subst h; simp
    · exact List.mem_append_right _ (inv.gray a h haD hafin)
  · intro a ha haD y hy; exact List.mem_cons_of_mem _ (inv.closed a ha haD y hy)
  · intro z hz hzD hzfin y hy
    rw [habove z hz]
    rcases List.mem_cons.mp hz with h | h
    · subst h
      by_cases hyd : y ∈ z :: disc
      · exact Or.inl hyd
      · exact Or.inr (List.mem_append_left _ ((hP y).mpr ⟨hy, hyd⟩))
    · rcases inv.grayAdj z h hzD hzfin y hy with h' | h'
      · exact Or.inl (List.mem_cons_of_mem _ h')
      · exact Or.inr (List.mem_append_right _ h')
  · rcases inv.start with h | h
    · exact Or.inl (List.mem_append_right _ h)
    · exact Or.inr h

/-- popping a discovered top `x`: either it is emitted now (`fin' = x :: fin`, `acc' = acc ++ [x]`) or it was
finished before (`fin' = fin`, `acc' = acc`) -/
theorem pm_pop (g : MGraph) (D F : List Nat) (s x : Nat) (st disc fin acc fin' acc' : List Nat)
    (inv : PMInv g D F s (x :: st) disc fin acc) (hx : x ∈ disc)
    (hcase : (x ∉ fin ∧ fin' = x :: fin ∧ acc' = acc ++ [x]) ∨ (x ∈ fin ∧ fin' = fin ∧ acc' = acc)) :
    PMInv g D F s st disc fin' acc' := by
  have hfin' : ∀ a, a ∈ fin' ↔ a = x ∨ a ∈ fin := by
    intro a
    rcases hcase with ⟨_, h, _⟩ | ⟨h0, h, _⟩
    · rw [h]; exact List.mem_cons
    · rw [h]; exact ⟨Or.inr, fun h' => h'.elim (fun e => e ▸ h0) id⟩
  have hmono : ∀ z, z ∉ fin' → z ∉ fin ∧ x ≠ z := fun z hz =>
    ⟨fun h => hz ((hfin' z).mpr (Or.inr h)), fun h => hz ((hfin' z).mpr (Or.inl h.symm))⟩
  have hFfin : ∀ a, a ∈ F → a ∈ fin := fun a ha => (inv.finEq a).mpr (Or.inl ha)
  have hxD : x ∈ D → x = s := by
    intro hd
    rcases inv.stk x (List.mem_cons_self ..) with h | h
    · exact h
    · exact absurd hd h.not_mem
  have hacc' : ∀ a, a ∈ acc' ↔ a ∈ acc ∨ (a = x ∧ x ∉ fin) := by
    intro a
    rcases hcase with ⟨h0, _, h⟩ | ⟨h0, _, h⟩
    · rw [h]; simp only [List.mem_append, List.mem_singleton]
      exact ⟨fun h' => h'.elim Or.inl (fun e => Or.inr ⟨e, h0⟩), fun h' => h'.elim Or.inl (fun e => Or.inr e.1)⟩
    · rw [h]; exact ⟨Or.inl, fun h' => h'.elim id (fun e => absurd h0 e.2)⟩
  refine ⟨?_, ?_, ?_, ?_, ?_, inv.discSub, inv.dSub, fun a ha => inv.stk a (List.mem_cons_of_mem _ ha),
    ?_, ?_, ?_, ?_⟩
  · rcases hcase with ⟨h0, _, h⟩ | ⟨_, _, h⟩
    · rw [h]
      exact nodup_snoc inv.nodup (fun hxa => h0 ((inv.finEq x).mpr (Or.inr hxa)))
    · rw [h]; exact inv.nodup
  · intro a
    rw [hfin' a, hacc' a, inv.finEq a]
    constructor
    · rintro (h | h | h)
      · by_cases hxf : x ∈ fin
        · rcases (inv.finEq x).mp hxf with h' | h'
          · exact Or.inl (h ▸ h')
          · exact Or.inr (Or.inl (h ▸ h'))
        · exact Or.inr (Or.inr ⟨h, hxf⟩)
      · exact Or.inl h
      · exact Or.inr (Or.inl h)
    · rintro (h | h | h)
      · exact Or.inr (Or.inl h)
      · exact Or.inr (Or.inr h)
      · exact Or.inl h.1
  · intro a ha
    rcases (hacc' a).mp ha with h | h
    · exact inv.accNotF a h
    · intro haF; exact h.2 (hFfin x (h.1 ▸ haF))
  · intro a ha haD
    rcases (hacc' a).mp ha with h | h
    · exact inv.accOld a h haD
    · rw [h.1] at haD ⊢; exact hxD haD
  · intro a ha
    rcases (hfin' a).mp ha with h | h
    · exact h ▸ hx
    · exact inv.finDisc a h
  · intro a ha haD hafin
    obtain ⟨h1, h2⟩ := hmono a hafin
    rcases List.mem_cons.mp (inv.gray a ha haD h1) with h | h
    · exact absurd h.symm h2
    · exact h
  · intro a ha haD y hy
    rcases (hfin' a).mp ha with h | h
    · subst h
      by_cases hafin : a ∈ fin
      · exact inv.closed a hafin haD y hy
      · rcases inv.grayAdj a hx haD hafin y hy with h' | h'
        · exact h'
        · rw [above_cons_self] at h'; cases h'
    · exact inv.closed a h haD y hy
  · intro z hz hzD hzfin y hy
    obtain ⟨h1, h2⟩ := hmono z hzfin
    rcases inv.grayAdj z hz hzD h1 y hy with h' | h'
    · exact Or.inl h'
    · rw [above_cons_ne _ h2] at h'
      rcases List.mem_cons.mp h' with h'' | h''
      · exact Or.inl (h'' ▸ hx)
      · exact Or.inr h''
  · rcases inv.start with h | h
    · rcases List.mem_cons.mp h with h | h
      · exact Or.inr ((hfin' s).mpr (Or.inl h))
      · exact Or.inl h
    · exact Or.inr ((hfin' s).mpr (Or.inr h))

theorem postNext_pm (v : View) (hv : ViewOk v) (D F : List Nat) (s : Nat) :
    ∀ (f : Nat) (d : Trav.Post) (acc : List Nat) (r : Option Nat) (d' : Trav.Post),
      PMInv v.g D F s d.stack d.disc d.fin acc → postNext v f d = some (r, d') →
      (r = none → d'.stack = [] ∧ PMInv v.g D F s d'.stack d'.disc d'.fin acc) ∧
      (∀ x, r = some x → PMInv v.g D F s d'.stack d'.disc d'.fin (acc ++ [x])) := by
  intro f
  induction f with
  | zero => intro d acc r d' _ h; simp [postNext] at h
  | succ f ih =>
    intro d acc r d' inv h
    rw [postNext] at h
    split at h
    · rename_i hst
      simp only [Option.some.injEq, Prod.mk.injEq] at h
      obtain ⟨rfl, rfl⟩ := h
      exact ⟨fun _ => ⟨hst, inv⟩, fun x hx => by cases hx⟩
    · rename_i x st hst
      rw [hst] at inv
      split at h
      · rename_i hx
        have hx' : x ∉ d.disc := not_contains.mp hx
        refine ih ⟨((v.succ x).filter (fun y => !(x :: d.disc).contains y)).reverse ++ (x :: st),
          x :: d.disc, d.fin⟩ acc r d' ?_ h
        exact pm_push v hv D F s x st d.disc d.fin acc inv hx'
      · rename_i hx
        have hx' : x ∈ d.disc := by simpa using hx
        split at h
        · rename_i hxf
          have hxf' : x ∉ d.fin := not_contains.mp hxf
          simp only [Option.some.injEq, Prod.mk.injEq] at h
          obtain ⟨rfl, rfl⟩ := h
          refine ⟨fun h => (by cases h), ?_⟩
          intro x' hx''
          simp only [Option.some.injEq] at hx''
          subst hx''
          exact pm_pop v.g D F s x st d.disc d.fin acc _ _ inv hx' (Or.inl ⟨hxf', rfl, rfl⟩)
        · rename_i hxf
          have hxf' : x ∈ d.fin := by simpa using hxf
          refine ih ⟨st, d.disc, d.fin⟩ acc r d' ?_ h
          exact pm_pop v.g D F s x st d.disc d.fin acc _ _ inv hx' (Or.inr ⟨hxf', rfl, rfl⟩)

theorem postAll_pm (v : View) (hv : ViewOk v) (D F : List Nat) (s : Nat) (inner : Nat) :
    ∀ (k : Nat) (d : Trav.Post) (acc out : List Nat) (d' : Trav.Post),
      PMInv v.g D F s d.stack d.disc d.fin acc → postAll v inner k d acc = some (out, d') →
      PMInv v.g D F s [] d'.disc d'.fin out := by
  intro k
  induction k with
  | zero => intro d acc out d' _ h; simp [postAll] at h
  | succ k ih =>
    intro d acc out d' inv h
    rw [postAll] at h
    split at h
    · cases h
    · rename_i d1 hn
      simp only [Option.some.injEq, Prod.mk.injEq] at h
      obtain ⟨rfl, rfl⟩ := h
      obtain ⟨h1, h2⟩ := (postNext_pm v hv D F s inner d acc none _ inv hn).1 rfl
      rw [h1] at h2
      exact h2
    · rename_i x d1 hn
      exact ih d1 _ out d' ((postNext_pm v hv D F s inner d acc (some x) _ inv hn).2 x rfl) h

/-- **`DfsPostOrder::move_to` on a used walker** -/
theorem post_moveTo (v : View) (hv : ViewOk v) (s : Nat) (D F : List Nat) (hFD : ∀ x, x ∈ F → x ∈ D)
    (inner outer : Nat) (out : List Nat) (d' : Trav.Post)
    (h : postAll v inner outer { stack := [s], disc := D, fin := F } [] = some (out, d')) :
    out.Nodup ∧
    (∀ x, x ∈ out ↔ ReachAvoid v.g D s x ∨ (x = s ∧ s ∈ D ∧ s ∉ F)) ∧
    (∀ x, x ∈ d'.disc ↔ x ∈ D ∨ ReachAvoid v.g D s x) ∧
    (∀ x, x ∈ d'.fin ↔ x ∈ F ∨ x ∈ out) := by
  have inv0 : PMInv v.g D F s [s] D F [] := by
    refine ⟨List.nodup_nil, by simp, by simp, by simp, hFD, fun x hx => Or.inl hx, fun x hx => hx, ?_,
      fun x hx hxD => absurd hx hxD, fun x hx hxD => absurd (hFD x hx) hxD,
      fun z hz hzD => absurd hz hzD, Or.inl (by simp)⟩
    intro x hx
    simp at hx
    exact Or.inl hx
  have inv := postAll_pm v hv D F s inner outer _ [] out d' inv0 h
  have hsfin : s ∈ d'.fin := by
    rcases inv.start with h | h
    · cases h
    · exact h
  have hnew : ∀ x, ReachAvoid v.g D s x → x ∈ d'.fin := by
    intro x hx
    induction hx with
    | refl _ => exact hsfin
    | step hab hadj hcD ih =>
      rename_i b c
      have hbD : b ∉ D := hab.not_mem
      have hc : c ∈ d'.disc := inv.closed b ih hbD c hadj
      apply Classical.byContradiction
      intro hcf
      have := inv.gray c hc hcD hcf
      cases this
  refine ⟨inv.nodup, ?_, ?_, inv.finEq⟩
  · intro x
    constructor
    · intro hx
      by_cases hxD : x ∈ D
      · have hxs := inv.accOld x hx hxD
        refine Or.inr ⟨hxs, hxs ▸ hxD, ?_⟩
        rw [← hxs]; exact inv.accNotF x hx
      · have hxf : x ∈ d'.fin := (inv.finEq x).mpr (Or.inr hx)
        rcases inv.discSub x (inv.finDisc x hxf) with h | h
        · exact absurd h hxD
        · exact Or.inl h
    · rintro (hx | ⟨rfl, _, hsF⟩)
      · rcases (inv.finEq x).mp (hnew x hx) with h | h
        · exact absurd (hFD x h) hx.not_mem
        · exact h
      · rcases (inv.finEq x).mp hsfin with h | h
        · exact absurd h hsF
        · exact h
  · intro x
    constructor
    · exact inv.discSub x
    · rintro (h | h)
      · exact inv.dSub x h
      · exact inv.finDisc x (hnew x h)

end PetgraphModel.TravProofs
