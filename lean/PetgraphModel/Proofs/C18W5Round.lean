import PetgraphModel.Proofs.C18W5Views
import PetgraphModel.Proofs.C18W5Decode
import PetgraphModel.Proofs.C18W5FromGraph
import PetgraphModel.Proofs.C18W5FromStable
import PetgraphModel.Proofs.C18W5FromGraphMap
import PetgraphModel.Proofs.C18W5FromMatrix
import PetgraphModel.Proofs.C18W5FromCsr
/-
C18 (wave 5) — `from_graph6_string` then `graph6_string()` per storage type: what was built (`Built`, from the per-type
files `C18W5From*.lean`) re-encodes to the format's string of the decoded graph; for a valid graph6 string that is the
string itself.  Also the exact panic condition of every `from_graph6_string`.
-/
namespace PetgraphModel.G6V
open PetgraphModel PetgraphModel.Visit PetgraphModel.G6P

/-- the format's string of the decoded graph `(n, es)` -/
def canonical (n : Nat) (es : List (Nat × Nat)) : List Char :=
  (Spec.Graph6.graph6 n (joined es)).map Char.ofNat

/-- a valid graph6 string: the format's encoding of some graph of supported order -/
def validString (n : Nat) (adj : Nat → Nat → Bool) : List Char :=
  (Spec.Graph6.graph6 n adj).map Char.ofNat

theorem decode_valid (n : Nat) (hn : n ≤ 258047) (adj : Nat → Nat → Bool) :
    G6.decode (validString n adj) = some (n, Spec.Graph6.edges n adj) := by
  have h := decode_encode n hn adj
  rw [encode_spec, if_pos (show n ≤ G6.maxOrder from hn)] at h
  exact h

theorem canonical_valid (n : Nat) (adj : Nat → Nat → Bool) :
    canonical n (Spec.Graph6.edges n adj) = validString n adj := by
  unfold canonical validString
  rw [graph6_joined_edges]

/-- `Built` + the `is_adjacent` clause for the table's own identifiers ⇒ the re-encoding is canonical -/
theorem reencode {mult : Nat} (t : Table) (n : Nat) (es : List (Nat × Nat)) (ids : List Nat) (r : Rows Nat)
    (h : Built mult t n es) (hm : 0 < mult) (hes : ∀ e ∈ es, e.1 < e.2 ∧ e.2 < n)
    (hids : t.ids = some ids) (hr : t.adj = some r) (hadj : adjOk ids t) (hn : n ≤ 258047) :
    graph6OfTable t = some (canonical n es) := by
  have e : ids = List.range n := by
    have := h.ids; rw [hids] at this; exact Option.some.inj this
  subst e
  exact graph6OfTable_built t n es r h hm (fun e he => (hes e he).1) hr hadj hn

/-! ### per storage type -/

theorem graph_from_to (endv : Nat) (str : List Char) (n : Nat) (es : List (Nat × Nat))
    (hd : G6.decode str = some (n, es)) (hfit : n ≤ endv ∧ es.length ≤ endv) :
    ∃ s, fromGraph6Graph endv str = some s ∧ GProofs.Inv s ∧ Built 1 (graphTable s) n es ∧
      (n ≤ 258047 → graph6Graph s = some (canonical n es)) := by
  obtain ⟨hes, hnd, _, _⟩ := decode_wf str n es hd
  obtain ⟨s, h1, h2, _, _, h5⟩ := fromGraph6Graph_built endv str n es hd hes hnd hfit
  exact ⟨s, h1, h2, h5, fun hn => reencode _ n es _ _ h5 (by decide) hes rfl rfl (g_adj s h2) hn⟩

theorem stable_from_to (fin : Nat) (noLimit debug : Bool) (str : List Char) (n : Nat) (es : List (Nat × Nat))
    (hd : G6.decode str = some (n, es)) (hfit : n ≤ fin ∧ es.length ≤ fin) :
    ∃ s, fromGraph6Stable fin noLimit debug str = some s ∧ SGProofs.Inv s ∧ Built 1 (stableTable s) n es ∧
      (n ≤ 258047 → graph6Stable s = some (canonical n es)) := by
  obtain ⟨hes, hnd, _, _⟩ := decode_wf str n es hd
  obtain ⟨s, h1, h2, _, h5⟩ := fromGraph6Stable_built fin noLimit debug str n es hd hes hnd hfit
  exact ⟨s, h1, h2, h5, fun hn => reencode _ n es _ _ h5 (by decide) hes rfl rfl (SGW3.st_adj s h2) hn⟩

theorem graphMap_from_to (str : List Char) (n : Nat) (es : List (Nat × Nat))
    (hd : G6.decode str = some (n, es)) :
    ∃ s, fromGraph6GraphMap str = some s ∧ GMProofs.Inv s ∧ Built 1 (graphMapTable s) n es ∧
      (n ≤ 258047 → graph6GraphMap s = some (canonical n es)) := by
  obtain ⟨hes, hnd, _, _⟩ := decode_wf str n es hd
  obtain ⟨s, h1, h2, _, h5⟩ := fromGraph6GraphMap_built str n es hd hes hnd
  exact ⟨s, h1, h2, h5, fun hn => reencode _ n es _ _ h5 (by decide) hes rfl rfl (gm_adj s h2) hn⟩

theorem matrix_from_to (ixMax : Nat) (str : List Char) (n : Nat) (es : List (Nat × Nat))
    (hd : G6.decode str = some (n, es)) (hfit : n ≤ ixMax) :
    ∃ s g, fromGraph6Matrix ixMax str = some s ∧ MatrixProofs.Inv s ∧ MatrixProofs.R s g ∧
      Built 1 (matrixTable s) n es ∧ (n ≤ 258047 → graph6Matrix s = some (canonical n es)) := by
  obtain ⟨hes, hnd, _, _⟩ := decode_wf str n es hd
  obtain ⟨s, g, h1, h2, h3, _, _, h5⟩ := fromGraph6Matrix_built ixMax str n es hd hes hnd hfit
  exact ⟨s, g, h1, h2, h3, h5, fun hn => reencode _ n es _ _ h5 (by decide) hes rfl rfl MXProofs.adj_ok hn⟩

theorem csr_from_to (modulus cutoff : Nat) (debug : Bool) (str : List Char) (n : Nat) (es : List (Nat × Nat))
    (hd : G6.decode str = some (n, es)) (hfit : modulus = 0 ∨ n ≤ modulus) :
    ∃ s, fromGraph6Csr modulus cutoff debug str = some s ∧ (∃ R, CsrProofs.Good s R) ∧ CsrW2.IxFits s ∧
      Built 2 (csrTable s) n es ∧ (n ≤ 258047 → graph6Csr s = some (canonical n es)) := by
  obtain ⟨hes, hnd, _, _⟩ := decode_wf str n es hd
  obtain ⟨s, h1, h2, h3, _, _, h5⟩ := fromGraph6Csr_built modulus cutoff debug str n es hd hes hnd hfit
  refine ⟨s, h1, h2, h3, h5, fun hn => ?_⟩
  obtain ⟨R, good⟩ := h2
  unfold graph6Csr
  rw [if_pos (CsrW2.csr_callsOk good h3).2.1]
  exact reencode _ n es _ _ h5 (by decide) hes rfl rfl (CsrW2.csr_adjOk good h3) hn

/-! ### when `from_graph6_string` panics -/

theorem option_none_iff {β : Type} (d : Option (Nat × List (Nat × Nat))) (r : Option β) (fit : Nat → Nat → Prop)
    (h0 : d = none → r = none)
    (h1 : ∀ n es, d = some (n, es) → fit n es.length → r ≠ none)
    (h2 : ∀ n es, d = some (n, es) → ¬ fit n es.length → r = none) :
    r = none ↔ d = none ∨ ∃ n es, d = some (n, es) ∧ ¬ fit n es.length := by
  constructor
  · intro hr
    cases hd : d with
    | none => exact Or.inl rfl
    | some p =>
      obtain ⟨n, es⟩ := p
      refine Or.inr ⟨n, es, rfl, fun hf => h1 n es hd hf hr⟩
  · rintro (hd | ⟨n, es, hd, hf⟩)
    · exact h0 hd
    · exact h2 n es hd hf

theorem graph_panics_iff (endv : Nat) (str : List Char) :
    fromGraph6Graph endv str = none ↔
      G6.decode str = none ∨ ∃ n es, G6.decode str = some (n, es) ∧ ¬ (n ≤ endv ∧ es.length ≤ endv) := by
  refine option_none_iff (G6.decode str) _ (fun n m => n ≤ endv ∧ m ≤ endv)
    (fromGraph6Graph_decode_none endv str) ?_ ?_
  · intro n es hd hf hr
    obtain ⟨s, h1, _⟩ := graph_from_to endv str n es hd hf
    rw [h1] at hr; cases hr
  · intro n es hd hf
    exact fromGraph6Graph_panics endv str n es hd (decode_wf str n es hd).1 hf

theorem stable_panics_iff (fin : Nat) (noLimit debug : Bool) (str : List Char) :
    fromGraph6Stable fin noLimit debug str = none ↔
      G6.decode str = none ∨ ∃ n es, G6.decode str = some (n, es) ∧ ¬ (n ≤ fin ∧ es.length ≤ fin) := by
  refine option_none_iff (G6.decode str) _ (fun n m => n ≤ fin ∧ m ≤ fin)
    (fromGraph6Stable_decode_none fin noLimit debug str) ?_ ?_
  · intro n es hd hf hr
    obtain ⟨s, h1, _⟩ := stable_from_to fin noLimit debug str n es hd hf
    rw [h1] at hr; cases hr
  · intro n es hd hf
    exact fromGraph6Stable_panics fin noLimit debug str n es hd (decode_wf str n es hd).1 hf

theorem graphMap_panics_iff (str : List Char) : fromGraph6GraphMap str = none ↔ G6.decode str = none := by
  constructor
  · intro hr
    cases hd : G6.decode str with
    | none => rfl
    | some p =>
      obtain ⟨n, es⟩ := p
      obtain ⟨s, h1, _⟩ := graphMap_from_to str n es hd
      rw [h1] at hr; cases hr
  · exact fromGraph6GraphMap_decode_none str

theorem matrix_panics_iff (ixMax : Nat) (str : List Char) :
    fromGraph6Matrix ixMax str = none ↔
      G6.decode str = none ∨ ∃ n es, G6.decode str = some (n, es) ∧ ¬ n ≤ ixMax := by
  refine option_none_iff (G6.decode str) _ (fun n _ => n ≤ ixMax)
    (fromGraph6Matrix_decode_none ixMax str) ?_ ?_
  · intro n es hd hf hr
    obtain ⟨s, g, h1, _⟩ := matrix_from_to ixMax str n es hd hf
    rw [h1] at hr; cases hr
  · intro n es hd hf
    exact fromGraph6Matrix_panics ixMax str n es hd hf

theorem csr_panics_iff (modulus cutoff : Nat) (debug : Bool) (str : List Char) :
    fromGraph6Csr modulus cutoff debug str = none ↔
      G6.decode str = none ∨ ∃ n es, G6.decode str = some (n, es) ∧ ¬ (modulus = 0 ∨ n ≤ modulus) := by
  refine option_none_iff (G6.decode str) _ (fun n _ => modulus = 0 ∨ n ≤ modulus)
    (fromGraph6Csr_decode_none modulus cutoff debug str) ?_ ?_
  · intro n es hd hf hr
    obtain ⟨s, h1, _⟩ := csr_from_to modulus cutoff debug str n es hd hf
    rw [h1] at hr; cases hr
  · intro n es hd hf
    exact fromGraph6Csr_panics modulus cutoff debug str n es hd hf

end PetgraphModel.G6V
