import PetgraphModel.Proofs.C10KspOne
import PetgraphModel.Proofs.C10KWalks
/-
`k_shortest_path` mirror model, every `k ≥ 1`, no goal: the returned map is exactly
`{v ↦ cost of the k-th cheapest walk from s}` — for every min-`pop`, non-negative weights, a view whose
`edges(a)` rows are the arcs out of `a` AS MULTISETS (`ViewArcsM`: parallel arcs are different walks),
and an injective `to_index`.

The proof carries a ghost log of the popped entries and argues purely with threshold counts
(`cnt c`): pops come out in non-decreasing cost order; pushed = initial entry + extensions of the
first `k` pops of every node (`acct`); the number of pops of `x` of cost `≤ c` never exceeds the number
of walks with at most `|log|` arcs (`upper`); and when the heap has drained the truncated pop counts
satisfy the same recurrence as the truncated walk counts, which bounds them from below.
-/
namespace PetgraphModel.C10P
open PetgraphModel PetgraphModel.MGraph PetgraphModel.SP PetgraphModel.C10

/-- costs of the entries of node `x`, in list order -/
def popsOf (l : List (Int × Nat)) (x : Nat) : List Int := (l.filter fun e => e.2 == x).map (·.1)

theorem popsOf_append (a b : List (Int × Nat)) (x : Nat) : popsOf (a ++ b) x = popsOf a x ++ popsOf b x := by
  simp [popsOf]

theorem popsOf_cons (c : Int) (u : Nat) (l : List (Int × Nat)) (x : Nat) :
    popsOf ((c, u) :: l) x = if u = x then c :: popsOf l x else popsOf l x := by
  by_cases h : u = x
  · simp [popsOf, h]
  · have : (u == x) = false := by simpa using h
    simp [popsOf, h, List.filter_cons, this]

theorem popsOf_nil (x : Nat) : popsOf [] x = [] := rfl

theorem popsOf_perm {l1 l2 : List (Int × Nat)} (h : l1.Perm l2) (x : Nat) (c : Int) :
    cnt c (popsOf l1 x) = cnt c (popsOf l2 x) := by
  unfold cnt popsOf
  exact ((h.filter _).map _).countP_eq _

theorem mem_popsOf {l : List (Int × Nat)} {x : Nat} {c : Int} : c ∈ popsOf l x ↔ (c, x) ∈ l := by
  simp only [popsOf, List.mem_map, List.mem_filter]
  constructor
  · rintro ⟨e, ⟨he, hx⟩, rfl⟩
    have : e.2 = x := by simpa using hx
    rw [← this]; exact he
  · intro h; exact ⟨(c, x), ⟨h, by simp⟩, rfl⟩

/-- the view's rows are the arcs out of each node, with multiplicities -/
def ViewArcsM (v : View) : Prop :=
  ∀ a, ((v.outOf a).map fun te => (te.1, v.weight te.2)).Perm
    ((v.g.arcs.filter fun x => x.1 == a).map fun x => (x.2.1, x.2.2))

theorem ViewArcsM.viewArcs {v : View} (h : ViewArcsM v) : ViewArcs v := by
  intro a b w
  have hp := (h a).mem_iff (a := (b, w))
  simp only [List.mem_map, List.mem_filter] at hp
  constructor
  · rintro ⟨e, he, hwe⟩
    obtain ⟨x, ⟨hx, hxa⟩, hxe⟩ := hp.mp ⟨(b, e), he, by simp [hwe]⟩
    obtain ⟨x1, x2, x3⟩ := x
    simp at hxa hxe
    obtain ⟨h1, h2⟩ := hxe
    subst hxa; subst h1; subst h2
    exact hx
  · intro harc
    obtain ⟨te, hte, hte'⟩ := hp.mpr ⟨(a, b, w), ⟨harc, by simp⟩, rfl⟩
    simp at hte'
    exact ⟨te.2, by rw [← hte'.1]; exact hte, hte'.2⟩

/-! ### sums -/

theorem sum_map_le {α : Type} (l : List α) (f g : α → Nat) (h : ∀ a, a ∈ l → f a ≤ g a) :
    (l.map f).sum ≤ (l.map g).sum := by
  induction l with
  | nil => simp
  | cons a r ih =>
    simp only [List.map_cons, List.sum_cons]
    have := h a (List.mem_cons_self ..)
    have := ih (fun b hb => h b (List.mem_cons_of_mem _ hb))
    omega

theorem sum_map_add' {α : Type} (l : List α) (f g h : α → Nat) (hfg : ∀ a, a ∈ l → f a = g a + h a) :
    (l.map f).sum = (l.map g).sum + (l.map h).sum := by
  induction l with
  | nil => simp
  | cons a r ih =>
    simp only [List.map_cons, List.sum_cons]
    have := hfg a (List.mem_cons_self ..)
    have := ih (fun b hb => hfg b (List.mem_cons_of_mem _ hb))
    omega

theorem countP_eq_sum {α : Type} (l : List α) (p : α → Bool) :
    l.countP p = (l.map fun a => if p a then 1 else 0).sum := by
  induction l with
  | nil => simp
  | cons a r ih =>
    simp only [List.countP_cons, List.map_cons, List.sum_cons, ih]
    omega

/-- the right-hand side of the accounting identity: extensions of the first `k` pops of every node -/
def extCount (g : MGraph) (k : Nat) (log : List (Int × Nat)) (x : Nat) (c0 : Int) : Nat :=
  (g.arcs.map fun a => if a.2.1 = x then min k (cnt (c0 - a.2.2) (popsOf log a.1)) else 0).sum

/-- popping `(c, u)` as one of the first `k` pops of `u` adds exactly its extensions -/
theorem extCount_expand (g : MGraph) (k : Nat) (log : List (Int × Nat)) (c : Int) (u x : Nat) (c0 : Int)
    (hlt : (popsOf log u).length < k) :
    extCount g k (log ++ [(c, u)]) x c0 = extCount g k log x c0 +
      g.arcs.countP (fun a => a.1 == u && (a.2.1 == x && decide (c + a.2.2 ≤ c0))) := by
  unfold extCount
  rw [countP_eq_sum]
  apply sum_map_add'
  intro a _
  by_cases hx : a.2.1 = x
  · simp only [hx, if_true, popsOf_append, popsOf_cons, popsOf_nil]
    by_cases hu : u = a.1
    · subst hu
      simp only [if_true, cnt_append, cnt_cons, cnt_nil]
      have hle := cnt_le_length (c0 - a.2.2) (popsOf log a.1)
      by_cases hc : c ≤ c0 - a.2.2
      · have hc' : c + a.2.2 ≤ c0 := by omega
        simp [hc, hc']
        omega
      · have hc' : ¬ c + a.2.2 ≤ c0 := by omega
        simp [hc, hc']
    · have : (a.1 == u) = false := by simpa using (Ne.symm hu)
      simp [hu, this]
  · have : (a.2.1 == x) = false := by simpa using hx
    simp [hx, this]

/-- a later pop of `u` (all `k` earlier ones are at most as expensive) changes nothing -/
theorem extCount_skip (g : MGraph) (k : Nat) (log : List (Int × Nat)) (c : Int) (u x : Nat) (c0 : Int)
    (hge : k ≤ (popsOf log u).length) (hall : ∀ y, y ∈ popsOf log u → y ≤ c) :
    extCount g k (log ++ [(c, u)]) x c0 = extCount g k log x c0 := by
  unfold extCount
  congr 1
  apply List.map_congr_left
  intro a _
  by_cases hx : a.2.1 = x
  · simp only [hx, if_true, popsOf_append, popsOf_cons, popsOf_nil]
    by_cases hu : u = a.1
    · subst hu
      simp only [if_true, cnt_append, cnt_cons, cnt_nil]
      by_cases hc : c ≤ c0 - a.2.2
      · -- every earlier pop counts
        have : cnt (c0 - a.2.2) (popsOf log a.1) = (popsOf log a.1).length := by
          unfold cnt
          apply List.countP_eq_length.mpr
          intro y hy
          have := hall y hy
          simp; omega
        simp [hc, this]
        omega
      · simp [hc]
    · simp [hu]
  · simp [hx]


/-! ### the invariant (with the ghost log of popped entries) -/

structure KF (v : View) (s k : Nat) (log : List (Int × Nat)) (st : KState) : Prop where
  len : st.counter.length = v.nb
  heapRel : ∀ e, e ∈ st.heap → RelN v s e.2
  counts : ∀ x, RelN v s x → (st.counter[v.toIndex x]?).getD 0 = (popsOf log x).length
  sorted : log.Pairwise (fun a b => a.1 ≤ b.1)
  logLe : ∀ a, a ∈ log → ∀ e, e ∈ st.heap → a.1 ≤ e.1
  acct : ∀ x c0, cnt c0 (popsOf st.heap x) + cnt c0 (popsOf log x) =
    (if x = s then (if 0 ≤ c0 then 1 else 0) else 0) + extCount v.g k log x c0
  scores : ∀ x c, amGet st.scores x = some c ↔ (popsOf log x)[k - 1]? = some c
  upper : ∀ x c0, cnt c0 (popsOf log x) ≤ cnt c0 (wcosts v.g s log.length x)

theorem pushes_count (v : View) (hv : ViewArcsM v) (c : Int) (u x : Nat) (c0 : Int) :
    cnt c0 (popsOf ((v.outOf u).map fun te => (c + v.weight te.2, te.1)) x) =
      v.g.arcs.countP (fun a => a.1 == u && (a.2.1 == x && decide (c + a.2.2 ≤ c0))) := by
  have h1 : cnt c0 (popsOf ((v.outOf u).map fun te => (c + v.weight te.2, te.1)) x) =
      ((v.outOf u).map fun te => (te.1, v.weight te.2)).countP (fun yw => yw.1 == x && decide (c + yw.2 ≤ c0)) := by
    unfold cnt popsOf
    rw [List.countP_map, List.filter_map, List.countP_map, List.countP_map, List.countP_filter]
    apply List.countP_congr
    intro te _
    simp [Bool.and_comm]
  rw [h1, (hv u).countP_eq, List.countP_map, List.countP_filter]
  apply List.countP_congr
  intro a _
  simp [Bool.and_comm, Bool.and_assoc]

theorem asc_popsOf {log : List (Int × Nat)} (h : log.Pairwise (fun a b => a.1 ≤ b.1)) (x : Nat) :
    Asc (popsOf log x) := by
  unfold Asc popsOf
  rw [List.pairwise_map]
  exact List.Pairwise.sublist List.filter_sublist h

theorem kf_loop {pop : Pop} (hp : IsMinPop pop) {v : View} (hvm : ViewArcsM v) (hw : NonNeg v.g) (s k : Nat)
    (hk : 1 ≤ k) (hix : IxOk v s) (hinj : IxInj v s) :
    ∀ (fuel : Nat) (log : List (Int × Nat)) (st : KState) (m : List (Nat × Int)), KF v s k log st →
      kspLoop pop v none k fuel st = .done m →
      ∃ log' st', KF v s k log' st' ∧ st'.heap = [] ∧ st'.scores = m := by
  have hv : ViewArcs v := hvm.viewArcs
  intro fuel
  induction fuel with
  | zero => intro log st m _ h; simp [kspLoop] at h
  | succ f ih =>
    intro log st m K h
    simp only [kspLoop] at h
    cases hpop : pop st.heap with
    | none =>
      rw [hpop] at h
      simp at h
      exact ⟨log, st, K, (hp.none_iff _).mp hpop, h⟩
    | some eh =>
      obtain ⟨⟨c, u⟩, h'⟩ := eh
      rw [hpop] at h
      simp only at h
      have hperm := hp.perm _ _ _ hpop
      have hmem := hp.mem _ _ _ hpop
      have hin : (c, u) ∈ st.heap := (hmem _).mpr (Or.inl rfl)
      have hsub : ∀ e, e ∈ h' → e ∈ st.heap := fun e he => (hmem e).mpr (Or.inr he)
      have hminc : ∀ e, e ∈ st.heap → c ≤ e.1 := fun e he => hp.min _ _ _ hpop e he
      have hrel : RelN v s u := K.heapRel _ hin
      have hlt : v.toIndex u < st.counter.length := by
        rw [K.len]
        rcases hrel with e | ⟨a, w, ha⟩
        · rw [e]; exact hix.1
        · exact hix.2 _ _ _ ha
      have hsome : st.counter[v.toIndex u]? = some (st.counter[v.toIndex u]'hlt) := List.getElem?_eq_getElem _
      generalize hn : st.counter[v.toIndex u]'hlt = n at hsome
      simp only [hsome] at h
      have hnlen : n = (popsOf log u).length := by
        have := K.counts u hrel
        rw [hsome] at this
        simpa using this
      -- the new log
      have hlogc : ∀ a, a ∈ log → a.1 ≤ c := fun a ha => K.logLe a ha _ hin
      have hsorted' : (log ++ [(c, u)]).Pairwise (fun a b => a.1 ≤ b.1) := by
        rw [List.pairwise_append]
        refine ⟨K.sorted, by simp, ?_⟩
        intro a ha b hb
        simp at hb; subst hb
        exact hlogc a ha
      have hpops' : ∀ x, popsOf (log ++ [(c, u)]) x = popsOf log x ++ (if u = x then [c] else []) := by
        intro x
        rw [popsOf_append, popsOf_cons, popsOf_nil]
      have hcounts' : ∀ x, RelN v s x →
          ((st.counter.set (v.toIndex u) (n + 1))[v.toIndex x]?).getD 0 = (popsOf (log ++ [(c, u)]) x).length := by
        intro x hx
        rw [getD_set _ _ _ _ hlt, hpops']
        by_cases hxi : v.toIndex x = v.toIndex u
        · have : x = u := hinj x u hx hrel hxi
          subst this
          simp [hnlen]
        · have : u ≠ x := fun e => hxi (by rw [e])
          simp [hxi, this, K.counts x hx]
      -- heap counts before/after removing the popped entry
      have hheapcnt : ∀ x c0, cnt c0 (popsOf st.heap x) =
          cnt c0 (popsOf h' x) + (if u = x then (if c ≤ c0 then 1 else 0) else 0) := by
        intro x c0
        rw [popsOf_perm hperm, popsOf_cons]
        by_cases hux : u = x
        · simp [hux, cnt_cons]
        · simp [hux]
      have hlogcnt : ∀ x c0, cnt c0 (popsOf (log ++ [(c, u)]) x) =
          cnt c0 (popsOf log x) + (if u = x then (if c ≤ c0 then 1 else 0) else 0) := by
        intro x c0
        rw [hpops', cnt_append]
        by_cases hux : u = x
        · simp [hux, cnt_cons, cnt_nil]
        · simp [hux, cnt_nil]
      have hupper' : ∀ x c0, cnt c0 (popsOf (log ++ [(c, u)]) x) ≤
          cnt c0 (wcosts v.g s (log ++ [(c, u)]).length x) := by
        intro x c0
        rw [show (log ++ [(c, u)]).length = log.length + 1 by simp]
        by_cases hux : u = x
        · subst hux
          have h1 := hlogcnt u c0
          have h2 := hheapcnt u c0
          have h3 := K.acct u c0
          simp only [if_true] at h1 h2
          rw [cnt_wcosts_succ]
          have h4 : extCount v.g k log u c0 ≤
              (v.g.arcs.map fun a => if a.2.1 = u then cnt (c0 - a.2.2) (wcosts v.g s log.length a.1) else 0).sum := by
            unfold extCount
            apply sum_map_le
            intro a _
            split
            · have := K.upper a.1 (c0 - a.2.2)
              omega
            · exact Nat.le_refl _
          omega
        · rw [hlogcnt]
          simp only [hux, if_false, Nat.add_zero]
          exact Nat.le_trans (K.upper x c0) (cnt_wcosts_mono v.g s x c0 (Nat.le_succ _))
      by_cases hgt : n + 1 > k
      · -- a pop beyond the k-th: nothing is pushed, nothing recorded
        simp only [hgt, if_true] at h
        have hge : k ≤ (popsOf log u).length := by omega
        have hall : ∀ y, y ∈ popsOf log u → y ≤ c := fun y hy => hlogc (y, u) (mem_popsOf.mp hy)
        refine ih (log ++ [(c, u)]) { counter := st.counter.set (v.toIndex u) (n + 1), scores := st.scores, heap := h' } m
          ⟨by simp [K.len], fun e he => K.heapRel e (hsub e he), hcounts', hsorted', ?_, ?_, ?_, hupper'⟩ h
        · intro a ha e he
          simp only [List.mem_append, List.mem_singleton] at ha
          rcases ha with ha | ha
          · exact K.logLe a ha e (hsub e he)
          · subst ha; exact hminc e (hsub e he)
        · intro x c0
          show cnt c0 (popsOf h' x) + _ = _
          rw [extCount_skip v.g k log c u x c0 hge hall, hlogcnt, ← K.acct x c0, hheapcnt]
          omega
        · intro x c'
          rw [K.scores x c', hpops']
          by_cases hux : u = x
          · subst hux
            simp only [if_true]
            rw [List.getElem?_append_left (by omega)]
          · simp [hux]
      · -- one of the first k pops: record at the k-th, push the extensions
        simp only [hgt, if_false] at h
        have hlen : (popsOf log u).length < k := by omega
        have hgoal : ∀ b : Bool, ((none : Option Nat) == some u && b) = false := by intro b; simp
        simp only [hgoal] at h
        have hext : ∀ e, e ∈ (v.outOf u).map (fun x => (c + v.weight x.2, x.1)) →
            ∃ y w, (u, y, w) ∈ v.g.arcs ∧ e = (c + w, y) := by
          intro e he
          obtain ⟨te, hte, rfl⟩ := List.mem_map.mp he
          exact ⟨te.1, v.weight te.2, (hv u te.1 (v.weight te.2)).mp ⟨te.2, hte, rfl⟩, rfl⟩
        have mk : ∀ (sc : List (Nat × Int)),
            (∀ x c', amGet sc x = some c' ↔ (popsOf (log ++ [(c, u)]) x)[k - 1]? = some c') →
            KF v s k (log ++ [(c, u)])
              ⟨st.counter.set (v.toIndex u) (n + 1), sc, h' ++ (v.outOf u).map (fun x => (c + v.weight x.2, x.1))⟩ := by
          intro sc hsc
          refine ⟨by simp [K.len], ?_, hcounts', hsorted', ?_, ?_, hsc, hupper'⟩
          · intro e he
            rcases List.mem_append.mp he with he | he
            · exact K.heapRel e (hsub e he)
            · obtain ⟨y, w, harc, rfl⟩ := hext e he
              exact Or.inr ⟨u, w, harc⟩
          · intro a ha e he
            have hce : c ≤ e.1 := by
              rcases List.mem_append.mp he with he | he
              · exact hminc e (hsub e he)
              · obtain ⟨y, w, harc, rfl⟩ := hext e he
                have := hw _ _ _ harc
                simp only; omega
            simp only [List.mem_append, List.mem_singleton] at ha
            rcases ha with ha | ha
            · have := hlogc a ha; omega
            · subst ha; exact hce
          · intro x c0
            show cnt c0 (popsOf (h' ++ (v.outOf u).map (fun x => (c + v.weight x.2, x.1))) x) + _ = _
            rw [popsOf_append, cnt_append, pushes_count v hvm, extCount_expand v.g k log c u x c0 hlen, hlogcnt]
            have hacc := K.acct x c0
            rw [hheapcnt] at hacc
            omega
        by_cases hnk : n + 1 = k
        · have hcond : (n + 1 = k) = True := eq_true hnk
          simp only [hcond, if_true, Bool.false_eq_true, if_false] at h
          refine ih (log ++ [(c, u)]) _ m (mk (amSet st.scores u c) ?_) h
          intro x c'
          rw [hpops', amGet_amSet]
          by_cases hux : u = x
          · subst hux
            have : (popsOf log u ++ [c])[k - 1]? = some c := by
              rw [List.getElem?_append_right (by omega)]
              have : k - 1 - (popsOf log u).length = 0 := by omega
              simp [this]
            simp only [if_true, this]
          · have : x ≠ u := fun e => hux e.symm
            simp only [this, hux, if_false, List.append_nil]
            exact K.scores x c'
        · simp only [hnk, if_false, Bool.false_eq_true] at h
          refine ih (log ++ [(c, u)]) _ m (mk st.scores ?_) h
          intro x c'
          rw [hpops', K.scores x c']
          by_cases hux : u = x
          · subst hux
            have h1 : (popsOf log u)[k - 1]? = none := by
              apply List.getElem?_eq_none; omega
            have h2 : (popsOf log u ++ [c])[k - 1]? = none := by
              apply List.getElem?_eq_none; simp; omega
            simp only [if_true, h1, h2]
          · simp [hux]

/-! ### when the heap has drained -/

theorem kf_lower {v : View} {s k : Nat} {log : List (Int × Nat)} {st : KState} (K : KF v s k log st)
    (hh : st.heap = []) :
    ∀ i x c0, min k (cnt c0 (wcosts v.g s i x)) ≤ min k (cnt c0 (popsOf log x)) := by
  have hacct : ∀ x c0, cnt c0 (popsOf log x) =
      (if x = s then (if 0 ≤ c0 then 1 else 0) else 0) + extCount v.g k log x c0 := by
    intro x c0
    have := K.acct x c0
    rw [hh, popsOf_nil, cnt_nil] at this
    omega
  intro i
  induction i with
  | zero =>
    intro x c0
    rw [cnt_wcosts_zero, hacct]
    omega
  | succ i ih =>
    intro x c0
    rw [cnt_wcosts_succ, hacct, ← min_sum_min]
    have : (v.g.arcs.map fun a => min k (if a.2.1 = x then cnt (c0 - a.2.2) (wcosts v.g s i a.1) else 0)).sum ≤
        extCount v.g k log x c0 := by
      unfold extCount
      apply sum_map_le
      intro a _
      split
      · exact ih a.1 (c0 - a.2.2)
      · simp
    omega

/-- **k_shortest_path mirror model, any `k ≥ 1`, no goal**: exactly the k-th cheapest walk costs -/
theorem ksp_full {pop : Pop} (hp : IsMinPop pop) {v : View} (hvm : ViewArcsM v) (hw : NonNeg v.g) (s k : Nat)
    (hk : 1 ≤ k) (hix : IxOk v s) (hinj : IxInj v s) (m : List (Nat × Int))
    (h : kShortestPath pop v s none k = .done m) :
    ∀ x c, amGet m x = some c ↔ KthCost v.g s x k c := by
  have K0 : KF v s k [] { counter := List.replicate v.nb 0, heap := [(0, s)] } := by
    refine ⟨by simp, ?_, ?_, List.Pairwise.nil, ?_, ?_, ?_, ?_⟩
    · intro e he; simp at he; subst he; exact Or.inl rfl
    · intro x _
      simp only [popsOf_nil, List.length_nil, List.getElem?_replicate]
      split <;> rfl
    · intro a ha; cases ha
    · intro x c0
      have hz : extCount v.g k [] x c0 = 0 := by
        have := sum_map_le v.g.arcs
          (fun a => if a.2.1 = x then min k (cnt (c0 - a.2.2) (popsOf [] a.1)) else 0) (fun _ => 0)
          (by intro a _; split <;> simp [popsOf_nil, cnt_nil])
        have h0 : (v.g.arcs.map fun _ => 0).sum = 0 := by
          induction v.g.arcs with
          | nil => rfl
          | cons a r ih => simp [List.sum_cons, ih]
        unfold extCount
        omega
      rw [hz, popsOf_cons, popsOf_nil, cnt_nil]
      by_cases hx : x = s
      · subst hx; simp [cnt_cons, cnt_nil]
      · have : ¬ s = x := fun e => hx e.symm
        simp [hx, this, cnt_nil]
    · intro x c
      simp [amGet, popsOf_nil]
    · intro x c0; simp [popsOf_nil, cnt_nil]
  obtain ⟨log, st', K, hh, hm⟩ := kf_loop hp hvm hw s k hk hix hinj _ _ _ m K0 h
  subst hm
  intro x c
  rw [K.scores x c]
  apply kth_of_counts hk (asc_popsOf K.sorted x)
  intro c'
  rw [atLeast_iff_cnt]
  constructor
  · rintro ⟨i, hi⟩
    have := kf_lower K hh i x c'
    omega
  · intro hle
    exact ⟨log.length, Nat.le_trans hle (K.upper x c')⟩

/-- the driver's per-case checks establish the multiset view hypothesis -/
theorem viewOkMB_sound (v : View) (h1 : viewOkB v = true) (h2 : viewOkMB v = true) : ViewArcsM v := by
  unfold viewOkB at h1
  simp only [Bool.and_eq_true, List.all_eq_true] at h1
  obtain ⟨⟨_, hends⟩, hkeys⟩ := h1
  unfold viewOkMB at h2
  simp only [List.all_eq_true, Bool.and_eq_true] at h2
  intro a
  by_cases ha : a ∈ v.g.nodes
  · obtain ⟨hl1, hl2⟩ := h2 a ha
    rw [List.perm_iff_count]
    intro x
    by_cases hx1 : x ∈ (v.outOf a).map fun te => (te.1, v.weight te.2)
    · simpa using hl1 x hx1
    · by_cases hx2 : x ∈ (v.g.arcs.filter fun x => x.1 == a).map fun x => (x.2.1, x.2.2)
      · simpa using hl2 x hx2
      · rw [List.count_eq_zero.mpr hx1, List.count_eq_zero.mpr hx2]
  · have e1 : v.outOf a = [] := by
      unfold View.outOf
      cases hl : v.out.lookup a with
      | none => rfl
      | some row =>
        have := hkeys (a, row) (mem_of_lookup _ _ _ hl)
        simp at this
        exact absurd this ha
    have e2 : (v.g.arcs.filter fun x => x.1 == a) = [] := by
      apply List.filter_eq_nil_iff.mpr
      intro x hx hxa
      have := hends x hx
      simp at this hxa
      rw [hxa] at this
      exact ha this.1
    rw [e1, e2]
    exact List.Perm.refl _

end PetgraphModel.C10P
